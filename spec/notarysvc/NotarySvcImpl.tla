--------------------------- MODULE NotarySvcImpl ---------------------------
(***************************************************************************)
(* Code-shaped model of pkg/services/notary (notary.go, node.go) between   *)
(* the node's request pool and its memory pool: one action per critical    *)
(* section of the real code.                                               *)
(*                                                                         *)
(*   driver side (what the harness does to the real node)                  *)
(*     Submit(r)      Server.RelayP2PNotaryRequest: pool admission         *)
(*                    (capacity, eviction of the cheapest), pool events    *)
(*     Block(k, D)    a block (empty / with the memory pool's content /    *)
(*                    with a designation of the notary keys D): chain,     *)
(*                    memory pool and request pool refresh, removal events,*)
(*                    UpdateNotaryNodes (synchronous, native Designate's   *)
(*                    PostPersist), block notification                     *)
(*     Restart        a new service instance on the same pool              *)
(*     Relay(b)       the node's relay of completed transactions works/not *)
(*   service side                                                          *)
(*     MainLoop       mainLoop takes the next notification (FIFO: the pool *)
(*                    dispatcher and the chain dispatcher hand over in the *)
(*                    driver's order): OnNewRequest / OnRequestRemoval /   *)
(*                    PostPersist - each one critical section (r.lock,     *)
(*                    reqMtx)                                              *)
(*     TxTake         newTxCallbackLoop: next item of newTxs, the checks   *)
(*                    under r.lock (isSent, minNotValidBefore, pending     *)
(*                    fallback) and the onTransaction call (the node's     *)
(*                    memory pool decides)                                 *)
(*     TxDone         ... its bookkeeping under r.lock afterwards (isSent, *)
(*                    fallback dropped) - PostPersist may run in between   *)
(*                                                                         *)
(* Named deviations (CONSTANT switches; the faithful model has all FALSE): *)
(*   KeepFirstCopy    r.main stays the FIRST request's copy even if that   *)
(*                    copy was refused (the tree before a3f9e35)           *)
(*   BugDoubleCount   a multisignature slot counts the same key twice      *)
(*   BugOneWitness    isMainCompleted looks at the first slot only         *)
(*   BugEarlyFallback PostPersist sends fallbacks one block early          *)
(*   BugNoVerify      signatures are taken without verification            *)
(*   BugStaleKey      UpdateNotaryNodes keeps an account that is no longer *)
(*                    designated                                           *)
(*   BugMainTwice     newTxCallbackLoop ignores isSent                     *)
(*   BugNoNKeys       the NotaryAssisted.NKeys check is skipped            *)
(*   DesigRace        (real, benign, outside the driver's schedules) the   *)
(*                    designation changes between finalize and the relay:  *)
(*                    the transaction carries the previous key's witness,  *)
(*                    the ledger refuses it, PostPersist finalises again   *)
(*   WithdrawOnRemoval (TRUE is NOT the real code) OnRequestRemoval also   *)
(*                    withdraws what the request contributed               *)
(***************************************************************************)
EXTENDS Integers, Sequences, FiniteSets, SequencesExt, TLC

CONSTANTS Mains,        \* Seq([wits : Seq([t, m, keys]), vub, nk])
          Reqs,         \* Seq([main, dep, nvb, fee, w, key, sig, form])
          Cap, MaxH,
          Desig0,       \* designated at the start
          DesigChoices, \* sets of keys a designation block may name
          Wallet,       \* keys of the service's wallet, in the order UpdateNotaryNodes meets them
          AllowRestart, AllowRelayOff,
          RemovalRace,  \* TRUE: the block notification may overtake the LAST removal notification of that block (mainLoop's select)
          DesigRace,    \* TRUE: a designation block may come while a finalised transaction waits in newTxs / is being relayed
          KeepFirstCopy, WithdrawOnRemoval, BugDoubleCount, BugOneWitness, BugEarlyFallback, BugNoVerify,
          BugStaleKey, BugMainTwice, BugNoNKeys

VARIABLES h, desig, onM, onF, mpM, mpF, pool, arrived, heard, relay, ripe,   \* the node (ripe: pooled when the last block came)
          inq, acc, ent, q, fly,                                \* the service
          log                                                   \* every send (record of the abstract level)
nodeVars == <<h, desig, onM, onF, mpM, mpF, pool, arrived, heard, relay, ripe>>
svcVars == <<inq, acc, ent, q, fly>>
vars == <<nodeVars, svcVars, log>>

A == INSTANCE NotarySvc

MIds == DOMAIN Mains
RIds == DOMAIN Reqs
Wits(m) == Mains[m].wits
Slots(m) == DOMAIN Wits(m)
Null == [k |-> "null"]

(* ---- the tables of the abstract level ---- *)
TM == [m \in MIds |-> [wits |-> Wits(m), vub |-> Mains[m].vub, nkeysok |-> Mains[m].nk = 0]]
SigsOf(r) ==
    LET q0 == Reqs[r] IN
    IF q0.w # 0 /\ q0.sig # "none" /\ q0.form \in {"ok", "badverif", "dummy"}
    THEN {[w |-> q0.w, key |-> IF q0.sig = "good" THEN q0.key ELSE "",
           good |-> q0.sig = "good" /\ q0.key \in Wits(q0.main)[q0.w].keys]}
    ELSE {}
TR == [r \in RIds |-> [main |-> Reqs[r].main, dep |-> Reqs[r].dep, nvb |-> Reqs[r].nvb, vub |-> Mains[Reqs[r].main].vub,
                       fee |-> Reqs[r].fee, cost |-> Reqs[r].fee, wf |-> Reqs[r].form = "ok", sigs |-> SigsOf(r)]]
Amt == [d \in {Reqs[r].dep : r \in RIds} |-> 2000]

(* ---- what a copy of the main transaction looks like, slot by slot ---- *)
CleanSlot == [ver |-> TRUE, inv |-> {}, junk |-> FALSE]
BaseScr(r) ==
    LET q0 == Reqs[r] IN
    [w \in Slots(q0.main) |->
        IF w = q0.w
        THEN [ver |-> q0.form # "badverif",
              inv |-> IF q0.sig = "good" /\ q0.form \in {"ok", "badverif", "dummy"} THEN {q0.key} ELSE {},
              junk |-> (q0.sig = "bad" /\ q0.form \in {"ok", "badverif", "dummy"}) \/ q0.form \in {"badinv", "twosigs"}]
        ELSE CleanSlot]

\* verifyIncompleteWitnesses
Valid(r) == Reqs[r].form = "ok" /\ (Mains[Reqs[r].main].nk = 0 \/ BugNoNKeys)

InitLeft(m) == [w \in Slots(m) |-> A!Need(Wits(m)[w])]
NoEnt == [on |-> FALSE]
NewEnt(r) == [on |-> TRUE, sent |-> FALSE, nsent |-> 0, minNvb |-> Reqs[r].nvb, fbs |-> <<>>, wi |-> FALSE,
              left |-> [w \in Slots(Reqs[r].main) |-> 0], have |-> [w \in Slots(Reqs[r].main) |-> {}], scr |-> BaseScr(r)]

Completed(m, e) ==
    /\ e.wi
    /\ IF BugOneWitness THEN e.left[CHOOSE w \in Slots(m) : Wits(m)[w].t # "notary" /\ \A v \in Slots(m) : Wits(m)[v].t # "notary" => w <= v] = 0
       ELSE \A w \in Slots(m) : e.left[w] = 0

Min2(a, b) == IF a < b THEN a ELSE b

\* the loop over the witnesses of the request's copy: only slot w of the copy carries something
ProcessSlot(e, r) ==
    LET q0 == Reqs[r]  m == q0.main  w == q0.w IN
    IF w = 0 \/ q0.sig = "none" THEN e
    ELSE IF Wits(m)[w].t = "notary" \/ e.left[w] = 0 THEN e
    ELSE LET isgood == q0.sig = "good"
             member == q0.key \in Wits(m)[w].keys IN
         IF Wits(m)[w].t = "sig"
         THEN IF (isgood /\ member) \/ BugNoVerify
              THEN [e EXCEPT !.scr[w] = [ver |-> TRUE, inv |-> IF isgood THEN {q0.key} ELSE {}, junk |-> ~isgood], !.left[w] = 0]
              ELSE e
         ELSE \* multisignature: the first key without a signature that verifies it
              LET cand == IF isgood /\ member
                          THEN IF q0.key \in e.have[w] /\ ~BugDoubleCount THEN {} ELSE {q0.key}
                          ELSE IF BugNoVerify /\ Wits(m)[w].keys \ e.have[w] # {} THEN {"!"} ELSE {} IN
              IF cand = {} THEN e
              ELSE LET hv == e.have[w] \cup cand
                       lf == e.left[w] - 1 IN
                   IF lf = 0
                   THEN [e EXCEPT !.have[w] = hv, !.left[w] = 0, !.scr[w] = [ver |-> e.scr[w].ver, inv |-> hv, junk |-> FALSE]]
                   ELSE [e EXCEPT !.have[w] = hv, !.left[w] = lf]

MainItem(m, e) == [k |-> "main", m |-> m, r |-> 0, key |-> acc, scr |-> e.scr]
FbItem(m, r) == [k |-> "fb", m |-> m, r |-> r, key |-> acc, scr |-> <<>>]

\* the state of an entry as a function of the requests it holds (WithdrawOnRemoval only)
RECURSIVE Replay(_, _, _)
Replay(e, rs, i) ==
    IF i > Len(rs) THEN e
    ELSE LET r == rs[i]
             e1 == IF ~e.wi /\ Valid(r) THEN [e EXCEPT !.wi = TRUE, !.left = InitLeft(Reqs[r].main), !.scr = BaseScr(r)] ELSE e
             e2 == IF Valid(r) /\ ~Completed(Reqs[r].main, e1) THEN ProcessSlot(e1, r) ELSE e1 IN
         Replay(e2, rs, i + 1)

(* ---- OnNewRequest ---- *)
OnNew(r) ==
    IF acc = "none" THEN UNCHANGED <<ent, q>>
    ELSE LET m == Reqs[r].main
             exists == ent[m].on
             valid == Valid(r) IN
         IF exists /\ \E i \in DOMAIN ent[m].fbs : ent[m].fbs[i] = r
         THEN UNCHANGED <<ent, q>>
         ELSE LET e0 == IF exists THEN [ent[m] EXCEPT !.minNvb = Min2(@, Reqs[r].nvb)] ELSE NewEnt(r)
                  e1 == IF ~e0.wi /\ valid
                        THEN [e0 EXCEPT !.wi = TRUE, !.left = InitLeft(m),
                                        !.scr = IF exists /\ ~KeepFirstCopy THEN BaseScr(r) ELSE @]
                        ELSE e0
                  e2 == [e1 EXCEPT !.fbs = Append(@, r)] IN
              IF (exists /\ Completed(m, e2)) \/ ~valid
              THEN ent' = [ent EXCEPT ![m] = e2] /\ UNCHANGED q
              ELSE LET e3 == ProcessSlot(e2, r) IN
                   /\ ent' = [ent EXCEPT ![m] = e3]
                   /\ q' = IF Completed(m, e3) /\ e3.minNvb > h THEN Append(q, MainItem(m, e3)) ELSE q

(* ---- OnRequestRemoval ---- *)
DropFirst(s, x) ==
    IF \E i \in DOMAIN s : s[i] = x
    THEN LET i == CHOOSE j \in DOMAIN s : s[j] = x /\ \A l \in DOMAIN s : s[l] = x => j <= l IN
         SubSeq(s, 1, i - 1) \o SubSeq(s, i + 1, Len(s))
    ELSE s

OnRem(r) ==
    LET m == Reqs[r].main IN
    /\ UNCHANGED q
    /\ IF acc = "none" \/ ~ent[m].on THEN UNCHANGED ent
       ELSE LET fb == DropFirst(ent[m].fbs, r)
                e1 == [ent[m] EXCEPT !.fbs = fb] IN
            IF WithdrawOnRemoval /\ ~e1.sent /\ fb # <<>>
            THEN ent' = [ent EXCEPT ![m] = Replay([e1 EXCEPT !.wi = FALSE, !.left = [w \in Slots(m) |-> 0],
                                                              !.have = [w \in Slots(m) |-> {}], !.scr = BaseScr(fb[1])], fb, 1)]
            ELSE ent' = [ent EXCEPT ![m] = e1]

(* ---- PostPersist: the loop over the request map (order of the main transactions: by id) ---- *)
RECURSIVE Persist(_, _, _)
Persist(m, e, qq) ==
    IF m > Len(Mains) THEN <<e, qq>>
    ELSE IF ~e[m].on THEN Persist(m + 1, e, qq)
    ELSE IF e[m].fbs = <<>> THEN Persist(m + 1, [e EXCEPT ![m] = NoEnt], qq)
    ELSE IF ~e[m].sent /\ Completed(m, e[m]) /\ e[m].minNvb > h THEN Persist(m + 1, e, Append(qq, MainItem(m, e[m])))
    ELSE IF e[m].minNvb <= h + (IF BugEarlyFallback THEN 1 ELSE 0)
         THEN Persist(m + 1, e, qq \o SelectSeq([i \in DOMAIN e[m].fbs |-> FbItem(m, e[m].fbs[i])],
                                                 LAMBDA it : Reqs[it.r].nvb <= h + (IF BugEarlyFallback THEN 1 ELSE 0)))
         ELSE Persist(m + 1, e, qq)

PostPersist ==
    IF acc = "none" THEN UNCHANGED <<ent, q>>
    ELSE LET res == Persist(1, ent, q) IN ent' = res[1] /\ q' = res[2]

MainLoop ==
    /\ inq # <<>>
    /\ inq' = Tail(inq)
    /\ LET n == Head(inq) IN
       CASE n.t = "add" -> OnNew(n.r)
         [] n.t = "rem" -> OnRem(n.r)
         [] n.t = "blk" -> PostPersist
    /\ UNCHANGED <<nodeVars, acc, fly, log>>

\* the pool's dispatcher still holds the last removal notification of a block when the chain's dispatcher offers the block
\* notification: mainLoop's select may take the block first
MainLoopRace ==
    /\ RemovalRace /\ Len(inq) >= 2 /\ inq[1].t = "rem" /\ inq[2].t = "blk"
    /\ inq' = <<inq[1]>> \o SubSeq(inq, 3, Len(inq))
    /\ PostPersist
    /\ UNCHANGED <<nodeVars, acc, fly, log>>

(* ---- the node's ledger and memory pool, as far as these transactions go ---- *)
SlotOK(m, w, c) == c.ver /\ ~c.junk /\ c.inv \subseteq Wits(m)[w].keys /\ Cardinality(c.inv) = A!Need(Wits(m)[w])
WokOf(it) ==
    IF it.k = "main"
    THEN [w \in Slots(it.m) |-> IF Wits(it.m)[w].t = "notary" THEN it.key \in desig ELSE SlotOK(it.m, w, it.scr[w])]
    ELSE <<it.key \in desig, TRUE>>
UsedOf(it) ==
    IF it.k = "main"
    THEN UNION {{[w |-> w, key |-> k] : k \in it.scr[w].inv} \cup (IF it.scr[w].junk THEN {[w |-> w, key |-> ""]} ELSE {})
                : w \in {v \in Slots(it.m) : Wits(it.m)[v].t # "notary"}}
    ELSE {}
Window(it) == IF it.k = "main" THEN h < Mains[it.m].vub ELSE Reqs[it.r].nvb <= h /\ h < Mains[it.m].vub
NotOnChain(it) == IF it.k = "main" THEN it.m \notin onM /\ \A r \in onF : Reqs[r].main # it.m
                  ELSE it.r \notin onF /\ it.m \notin onM
LedgerOK(it) == (\A i \in DOMAIN WokOf(it) : WokOf(it)[i]) /\ Window(it) /\ NotOnChain(it)
RefOK(it) == desig # {} /\ Window(it) /\ NotOnChain(it)

SendRec(it, pooled) ==
    [kind |-> it.k, main |-> it.m, req |-> it.r, h |-> h, nvb |-> IF it.k = "fb" THEN Reqs[it.r].nvb ELSE 0, vub |-> Mains[it.m].vub,
     wok |-> WokOf(it), nkey |-> it.key, desig |-> desig, admit |-> LedgerOK(it), ref |-> RefOK(it), pooled |-> pooled,
     onchain |-> IF it.k = "main" THEN it.m \in onM ELSE it.r \in onF, chm |-> onM, chf |-> onF, pool |-> pool, heard |-> heard,
     used |-> UsedOf(it)]

(* ---- newTxCallbackLoop ---- *)
TxTake ==
    /\ q # <<>> /\ fly = Null
    /\ q' = Tail(q)
    /\ LET it == Head(q)
           e == ent[it.m]
           drop == \/ ~e.on
                   \/ it.k = "main" /\ ((e.sent /\ ~BugMainTwice) \/ e.minNvb <= h \/ (WithdrawOnRemoval /\ e.scr # it.scr))
                   \/ it.k = "fb" /\ ~\E i \in DOMAIN e.fbs : e.fbs[i] = it.r IN
       IF drop THEN UNCHANGED <<fly, log, mpM, mpF>>
       ELSE LET ok == LedgerOK(it)
                dup == IF it.k = "main" THEN it.m \in mpM ELSE it.r \in mpF
                outbid == it.k = "fb" /\ it.m \in mpM      \* the pooled main transaction pays more than a fallback
                pooled == relay /\ ok /\ ~dup /\ ~outbid IN
            /\ log' = log \cup {SendRec(it, pooled)}
            /\ fly' = [it EXCEPT !.scr = <<>>] @@ [res |-> relay /\ ok /\ (pooled \/ dup)]
            /\ mpM' = IF pooled /\ it.k = "main" THEN mpM \cup {it.m} ELSE mpM
            /\ mpF' = IF pooled /\ it.k = "fb" THEN mpF \cup {it.r}
                      ELSE IF pooled /\ it.k = "main" THEN {r \in mpF : Reqs[r].main # it.m} ELSE mpF
    /\ UNCHANGED <<h, desig, onM, onF, pool, arrived, heard, relay, ripe, inq, acc, ent>>

TxDone ==
    /\ fly # Null
    /\ fly' = Null
    /\ LET m == fly.m IN
       IF ~fly.res \/ ~ent[m].on THEN UNCHANGED ent
       ELSE IF fly.k = "main" THEN ent' = [ent EXCEPT ![m].sent = TRUE, ![m].nsent = @ + 1]
       ELSE ent' = [ent EXCEPT ![m].fbs = DropFirst(@, fly.r)]
    /\ UNCHANGED <<nodeVars, inq, acc, q, log>>

(* ---- the driver ---- *)
AtRest == inq = <<>> /\ q = <<>> /\ fly = Null
FirstWallet(D) == IF \E i \in 1..Len(Wallet) : Wallet[i] \in D
                  THEN Wallet[CHOOSE i \in 1..Len(Wallet) : Wallet[i] \in D /\ \A j \in 1..Len(Wallet) : Wallet[j] \in D => i <= j]
                  ELSE "none"
NewAcc(a, D) == IF a # "none" /\ (a \in D \/ BugStaleKey) THEN a ELSE FirstWallet(D)

Cheapest(P) == CHOOSE l \in P : \A x \in P : Reqs[l].fee <= Reqs[x].fee
SortedSeq(S) == SetToSortSeq(S, LAMBDA a, b : a < b)

Submit(r) ==
    /\ Len(inq) <= 1
    /\ LET ok0 == r \notin pool /\ Mains[Reqs[r].main].vub > h /\ Reqs[r].main \notin onM /\ r \notin onF
           full == Cardinality(pool) >= Cap
           l == Cheapest(pool)
           ok == IF ~ok0 THEN FALSE ELSE IF full THEN Reqs[r].fee > Reqs[l].fee ELSE TRUE IN
       /\ ok    \* refused submissions change nothing; the generator adds them back for the driver
       /\ pool' = (IF full THEN pool \ {l} ELSE pool) \cup {r}
       /\ arrived' = arrived \cup {r}
       /\ heard' = IF acc # "none" THEN heard \cup {r} ELSE heard
       /\ inq' = inq \o (IF full THEN <<[t |-> "rem", r |-> l]>> ELSE <<>>) \o <<[t |-> "add", r |-> r]>>
    /\ UNCHANGED <<h, desig, onM, onF, mpM, mpF, relay, ripe, acc, ent, q, fly, log>>

Block(kind, D) ==
    /\ Len(inq) <= 1
    /\ h < MaxH
    /\ kind \in {"empty", "pooled", "desig"}
    /\ kind = "desig" => D \in DesigChoices /\ D # desig /\ (DesigRace \/ (q = <<>> /\ fly = Null))
    /\ kind # "desig" => D = desig
    /\ LET incM == IF kind = "empty" THEN {} ELSE mpM
           incF == IF kind = "empty" THEN {} ELSE mpF
           h2 == h + 1
           gone == {r \in pool : Mains[Reqs[r].main].vub <= h2 \/ Reqs[r].main \in incM \/ r \in incF}
           a2 == NewAcc(acc, D) IN
       /\ h' = h2 /\ desig' = D
       /\ onM' = onM \cup incM /\ onF' = onF \cup incF
       /\ mpM' = {m \in mpM \ incM : Mains[m].vub > h2}
       /\ mpF' = {r \in mpF \ incF : Mains[Reqs[r].main].vub > h2}
       /\ pool' = pool \ gone /\ ripe' = pool \ gone
       /\ acc' = a2 /\ heard' = IF a2 = "none" THEN {} ELSE heard
       /\ ent' = IF a2 = "none" THEN [m \in MIds |-> NoEnt] ELSE ent
       /\ inq' = inq \o [i \in 1..Cardinality(gone) |-> [t |-> "rem", r |-> SortedSeq(gone)[i]]] \o <<[t |-> "blk", r |-> 0]>>
    /\ UNCHANGED <<arrived, relay, q, fly, log>>

Restart ==
    /\ AllowRestart /\ AtRest
    /\ \E m \in MIds : ent[m].on
    /\ ent' = [m \in MIds |-> NoEnt]
    /\ acc' = FirstWallet(desig) /\ heard' = {}
    /\ UNCHANGED <<h, desig, onM, onF, mpM, mpF, pool, arrived, relay, ripe, inq, q, fly, log>>

Relay(b) ==
    /\ AllowRelayOff /\ AtRest /\ relay # b
    /\ relay' = b
    /\ UNCHANGED <<h, desig, onM, onF, mpM, mpF, pool, arrived, heard, ripe, svcVars, log>>

Init ==
    /\ h = 0 /\ desig = Desig0 /\ onM = {} /\ onF = {} /\ mpM = {} /\ mpF = {} /\ pool = {} /\ arrived = {} /\ heard = {} /\ relay = TRUE /\ ripe = {}
    /\ inq = <<>> /\ acc = FirstWallet(Desig0) /\ ent = [m \in MIds |-> NoEnt] /\ q = <<>> /\ fly = Null
    /\ log = {}

Driver == \/ \E r \in RIds : Submit(r)
          \/ \E k \in {"empty", "pooled"} : Block(k, desig)
          \/ \E D \in DesigChoices : Block("desig", D)
          \/ Restart
          \/ \E b \in BOOLEAN : Relay(b)

Next == Driver \/ MainLoop \/ MainLoopRace \/ TxTake \/ TxDone

Spec == Init /\ [][Next]_vars

(* ---- what TLC checks ---- *)
TypeOK == /\ h \in 0..MaxH /\ pool \subseteq RIds /\ Cardinality(pool) <= Cap /\ acc \in {"none"} \cup {Wallet[i] : i \in 1..Len(Wallet)}

\* PART 1 of the abstract level on every send and every state
JudgedInv ==
    /\ \A s \in log : A!JudgedSendFails(TR, s) = {}
    /\ A!JudgedStateFails(TR, mpM, mpF, onM, onF, Amt) = {}

\* PART 2: the service's own rules on every send
BeyondInv == \A s \in log : A!BeyondSendFails(TM, TR, arrived, s.pool \cap s.heard, s) = {}

\* ... withdrawal (the real code does not withdraw: refuted for the faithful model, holds with WithdrawOnRemoval)
WithdrawnInv == \A s \in log : A!Withdrawn(TR, s)

\* Impl level only: a main transaction is successfully sent at most once per entry
MainOnce == \A m \in MIds : ent[m].on => ent[m].nsent <= 1

\* progress at rest (only meaningful without restarts, relay failures, evictions and undesignated periods)
TriedM == {s.main : s \in {x \in log : x.kind = "main"}}
TriedF == {s.req : s \in {x \in log : x.kind = "fb"}}
DueInv ==
    (AtRest /\ acc # "none") =>
       /\ \A m \in MIds : A!MainDue(TM, TR, pool \cap heard, heard, h, onM, onF, TriedM, m)
       /\ \A r \in ripe \cap pool \cap heard : A!FallbackDue(TR, pool, h, onM, TriedF, r)

Bounded == Len(inq) <= 4 /\ Len(q) <= 5
=============================================================================
