SPECIFICATION SimSpec
CONSTANTS
  Mains <- M5
  Reqs <- U5
  Cap = 5
  MaxH = 8
  Desig0 <- DK1
  DesigChoices <- D4
  Wallet <- W12
  AllowRestart = TRUE
  AllowRelayOff = TRUE
  RemovalRace = FALSE
  DesigRace = FALSE
  KeepFirstCopy = FALSE
  WithdrawOnRemoval = FALSE
  BugDoubleCount = FALSE
  BugOneWitness = FALSE
  BugEarlyFallback = FALSE
  BugNoVerify = FALSE
  BugStaleKey = FALSE
  BugMainTwice = FALSE
  BugNoNKeys = FALSE
  Depth = 90
INVARIANT Emit
CHECK_DEADLOCK FALSE
