SPECIFICATION Spec
CONSTANTS
  Mains <- M1
  Reqs <- U1
  Cap = 3
  MaxH = 3
  Desig0 <- DK1
  DesigChoices <- DNone
  Wallet <- W12
  AllowRestart = FALSE
  AllowRelayOff = FALSE
  RemovalRace = TRUE
  DesigRace = FALSE
  KeepFirstCopy = FALSE
  WithdrawOnRemoval = FALSE
  BugDoubleCount = FALSE
  BugOneWitness = FALSE
  BugEarlyFallback = FALSE
  BugNoVerify = FALSE
  BugStaleKey = FALSE
  BugMainTwice = FALSE
  BugNoNKeys = FALSE
INVARIANTS TypeOK JudgedInv BeyondInv MainOnce
CONSTRAINT Bounded
CHECK_DEADLOCK FALSE
