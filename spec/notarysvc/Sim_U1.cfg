SPECIFICATION SimSpec
CONSTANTS
  Mains <- M1
  Reqs <- U1
  Cap = 3
  MaxH = 5
  Desig0 <- DK1
  DesigChoices <- DNone
  Wallet <- W12
  AllowRestart = FALSE
  AllowRelayOff = TRUE
  RemovalRace = FALSE
  DesigRace = FALSE
  KeepFirstCopy = FALSE
  WithdrawOnRemoval = FALSE
  BugDoubleCount = FALSE
  BugOneWitness = FALSE
  BugEarlyFallback = FALSE
  BugNoVerify = FALSE
  BugStaleKey = FALSE
  BugMainTwice = FALSE
  BugNoNKeys = FALSE
  Depth = 60
INVARIANT Emit
CHECK_DEADLOCK FALSE
