----------------------------- MODULE NotarySvc -----------------------------
(***************************************************************************)
(* Abstract (property level) specification of the NOTARY SERVICE of a      *)
(* designated notary node (pkg/services/notary): it hears of P2P notary    *)
(* requests (a copy of a MAIN transaction carrying at most the sender's    *)
(* own signature + a FALLBACK transaction paid from the sender's deposit)  *)
(* from the node's request pool, collects the signatures, and SENDS        *)
(* transactions: the completed main transaction, or - from the fallback's  *)
(* NotValidBefore height on - the fallbacks, each with the witness of the  *)
(* Notary contract made by the node's designated key.  What it sends is    *)
(* handed to the node's memory pool (PoolTx) and from there into blocks.   *)
(*                                                                         *)
(* Every send is observed in the node's onTransaction callback together    *)
(* with its context read from the real ledger at that moment (send record, *)
(* below); the node's pools and the chain are observed after every step.   *)
(*                                                                         *)
(* PART 1 - JUDGED: what the statements of C07 / C08 literally demand, on  *)
(* the path service -> memory pool -> block (a falsified predicate is a    *)
(* VIOLATION):                                                             *)
(*   AdmitSound     C07 "a transaction enters the memory pool only if it   *)
(*                  is well-formed, inside its validity window, neither on *)
(*                  chain nor named as a conflict by an on-chain           *)
(*                  transaction of one of its signers, satisfies ...       *)
(*                  attribute rules ... witnesses, all of which verify":   *)
(*                  a transaction of the service that the memory pool TOOK *)
(*                  has one verifying witness per signer (Notary's too:    *)
(*                  designated key, deposit), is inside [NotValidBefore,   *)
(*                  ValidUntilBlock), is not on chain and has no on-chain  *)
(*                  conflict (main <-> its fallbacks share the Notary      *)
(*                  signer)                                                *)
(*   PoolNoConflict C08 "no two pooled transactions conflict through a     *)
(*                  Conflicts attribute": the memory pool never holds a    *)
(*                  main transaction and one of its fallbacks              *)
(*   PoolSolvent    C08 "for every fee payer, including notary depositors, *)
(*                  the system plus network fees of its pooled             *)
(*                  transactions sum to no more than its balance": pooled  *)
(*                  fallbacks of a depositor vs. its deposit on chain      *)
(*   Proposable     C07 "any transactions taken from the memory pool in    *)
(*                  pool order ... form a block that, after being          *)
(*                  serialised and parsed again ..., is accepted by the    *)
(*                  ledger"                                                *)
(*   OneOutcome     C07 (no on-chain conflict): per main transaction at    *)
(*                  most one of {main, its fallbacks} is on chain          *)
(*                                                                         *)
(* PART 2 - BEYOND THE STATEMENTS: the intent of the service itself.  A    *)
(* falsified predicate is a named OBSERVATION ("beyond:<name>", drift +    *)
(* counters in the evidence), never a violation:                           *)
(*   Known            what is sent is the main transaction or a fallback   *)
(*                    of a request                                         *)
(*   FallbackNotEarly a fallback is never sent below its NotValidBefore    *)
(*   SigsComplete     every non-Notary witness of a sent transaction       *)
(*                    verifies, one witness per signer in signers' order   *)
(*   SigsFromRequests every signature inside a sent main transaction was   *)
(*                    carried by a request for THIS main transaction in    *)
(*                    THAT slot and is made by a key of that slot          *)
(*   ByDesignated     the Notary witness is a signature of a key           *)
(*                    designated for the next block                        *)
(*   Admitted         if the ledger admits the reference completion (built *)
(*                    by the harness from the same material) it admits     *)
(*                    what the service sent                                *)
(*   NKeysOK          no main transaction is completed whose               *)
(*                    NotaryAssisted.NKeys differs from its number of keys *)
(*   OrderIndependent twin histories (same requests, other arrival order,  *)
(*                    duplicates): the same main transactions are accepted *)
(*   Withdrawn        every signature used in a sent main transaction is   *)
(*                    carried by a request that is in the pool at the time *)
(*   MainBeforeNvb    the main transaction is not sent from the smallest   *)
(*                    NotValidBefore on of the pooled requests the running *)
(*                    instance heard of and has not yet handed over the    *)
(*                    fallback of                                          *)
(*   FallbackPooled   a fallback is sent only for a request still pooled   *)
(*                    (or pooled when the block being processed came)      *)
(*   MainOnce         (trace level) an instance does not hand over a main  *)
(*                    transaction again that the node took from it         *)
(*   NothingLost      (trace level) the pool holds no request the running  *)
(*                    instance has not heard of                            *)
(*   MainDue / FallbackDue  progress at rest (below)                       *)
(*                                                                         *)
(* Tables: TM[m] main transactions, TR[r] requests.                        *)
(*   TM[m] = [wits : Seq([t : {"sig","multi","notary"}, m : Nat,           *)
(*                        keys : SUBSET STRING]), vub, nkeysok]            *)
(*   TR[r] = [main, dep, nvb, vub, fee, cost, wf : BOOLEAN (the copy has   *)
(*            the documented form of an incomplete main transaction),      *)
(*            sigs : SUBSET [w, key, good]]  signatures the copy carries   *)
(*            (slot, whose - "" if nobody's -, key belongs to the slot)    *)
(* Send record s = [kind : {"main","fb","unknown"}, main, req, h, nvb,     *)
(*   vub, wok : Seq(BOOLEAN), nkey, desig : SUBSET STRING, admit, ref,     *)
(*   pooled, onchain, chm, chf : SUBSET Nat, pool : SUBSET Nat,            *)
(*   used : SUBSET [w, key]]                                               *)
(***************************************************************************)
EXTENDS Integers, Sequences, FiniteSets

NameIfNot(cond, name) == IF cond THEN {} ELSE {name}

(***************************************************************************)
(* PART 1 - JUDGED                                                         *)
(***************************************************************************)
AdmitSound(TR, s) ==
    s.pooled =>
       /\ s.kind \in {"main", "fb"}
       /\ \A i \in DOMAIN s.wok : s.wok[i]
       /\ s.kind = "main" => Len(s.wok) >= 2
       /\ s.kind = "fb" => (Len(s.wok) = 2 /\ s.h >= s.nvb /\ s.main \notin s.chm)
       /\ s.h < s.vub
       /\ ~s.onchain
       /\ s.kind = "main" => \A r \in s.chf : TR[r].main # s.main

PoolNoConflict(TR, mpm, mpf) == \A r \in mpf : TR[r].main \notin mpm

RECURSIVE SumCost(_, _)
SumCost(TR, S) == IF S = {} THEN 0 ELSE LET r == CHOOSE x \in S : TRUE IN TR[r].cost + SumCost(TR, S \ {r})

PoolSolvent(TR, mpf, amt) ==
    \A d \in DOMAIN amt : SumCost(TR, {r \in mpf : TR[r].dep = d}) <= amt[d]

OneOutcome(TR, chm, chf) == \A r \in chf : TR[r].main \notin chm

JudgedSendFails(TR, s) == NameIfNot(AdmitSound(TR, s), "AdmitSound")

JudgedStateFails(TR, mpm, mpf, chm, chf, amt) ==
    NameIfNot(PoolNoConflict(TR, mpm, mpf), "PoolNoConflict")
    \cup NameIfNot(PoolSolvent(TR, mpf, amt), "PoolSolvent")
    \cup NameIfNot(OneOutcome(TR, chm, chf), "OneOutcome")

(***************************************************************************)
(* PART 2 - BEYOND THE STATEMENTS                                          *)
(***************************************************************************)
Known(s) == s.kind \in {"main", "fb"}

FallbackNotEarly(s) == s.kind = "fb" => s.h >= s.nvb

SigsComplete(TM, s) ==
    CASE s.kind = "main" ->
           /\ Len(s.wok) = Len(TM[s.main].wits)
           /\ \A i \in DOMAIN s.wok : TM[s.main].wits[i].t # "notary" => s.wok[i]
      [] s.kind = "fb" -> Len(s.wok) = 2 /\ s.wok[2]
      [] OTHER -> TRUE

SigsFromRequests(TM, TR, arrived, s) ==
    s.kind = "main" =>
       \A u \in s.used :
          /\ u.w \in DOMAIN TM[s.main].wits
          /\ u.key \in TM[s.main].wits[u.w].keys
          /\ \E r \in arrived : TR[r].main = s.main /\ [w |-> u.w, key |-> u.key, good |-> TRUE] \in TR[r].sigs

ByDesignated(s) == s.nkey \in s.desig

Admitted(s) == s.ref => s.admit

NKeysOK(TM, s) == s.kind = "main" => TM[s.main].nkeysok

Withdrawn(TR, s) ==
    s.kind = "main" =>
       \A u \in s.used : \E r \in s.pool : TR[r].main = s.main /\ [w |-> u.w, key |-> u.key, good |-> TRUE] \in TR[r].sigs

\* (held: the requests in the pool that the service instance has heard of)
MainBeforeNvb(TR, held, s) ==
    s.kind = "main" => \A r \in held : TR[r].main = s.main => s.h < TR[r].nvb

\* a fallback is sent for a request that is in the pool, or was when the block being processed came (ppool: the last
\* removal notification of a block and the block notification reach mainLoop's select together, it takes either first)
FallbackPooled(s, ppool) == s.kind = "fb" => s.req \in s.pool \cup ppool

\* the service's own rules every send must obey (Withdrawn apart: see the Impl module)
BeyondSendFails(TM, TR, arrived, held, s) ==
    NameIfNot(Known(s), "beyond:Known")
    \cup NameIfNot(FallbackNotEarly(s), "beyond:FallbackNotEarly")
    \cup NameIfNot(SigsComplete(TM, s), "beyond:SigsComplete")
    \cup NameIfNot(SigsFromRequests(TM, TR, arrived, s), "beyond:SigsFromRequests")
    \cup NameIfNot(ByDesignated(s), "beyond:ByDesignated")
    \cup NameIfNot(Admitted(s), "beyond:Admitted")
    \cup NameIfNot(NKeysOK(TM, s), "beyond:NKeysOK")
    \cup NameIfNot(MainBeforeNvb(TR, held, s), "beyond:MainBeforeNvb")

OrderIndependent(a, b) == a = b

\* what the requests P hold for main m: enough good signatures of well-formed copies for every slot
Need(wit) == IF wit.t = "sig" THEN 1 ELSE IF wit.t = "multi" THEN wit.m ELSE 0
HeldKeys(TR, P, m, w) ==
    UNION {{u.key : u \in {x \in TR[r].sigs : x.w = w /\ x.good}} : r \in {x \in P : TR[x].main = m /\ TR[x].wf}}
Completable(TM, TR, P, m) ==
    \A w \in DOMAIN TM[m].wits : Cardinality(HeldKeys(TR, P, m, w)) >= Need(TM[m].wits[w])

\* at rest (the service's goroutines parked, nothing queued), authorised (a wallet key is designated): a main transaction
\* that is completable from the requests the pool holds (held), none of whose fallbacks is on chain, and that is below the
\* NotValidBefore of EVERY request the service instance has heard of for it (heard: the service's rule - it stops trying at
\* the smallest NotValidBefore it ever saw, also of requests that left the pool since) has been tried
MainDue(TM, TR, held, heard, h, chm, chf, triedM, m) ==
    ( /\ TM[m].nkeysok /\ TM[m].vub > h /\ m \notin chm
      /\ \A r \in DOMAIN TR : TR[r].main = m => r \notin chf
      /\ \E r \in held : TR[r].main = m
      /\ \A r \in heard : TR[r].main = m => h < TR[r].nvb
      /\ Completable(TM, TR, held, m) )
    => m \in triedM

\* at rest after a block: every pooled request whose NotValidBefore is reached and whose main is not on chain has had
\* its fallback tried
FallbackDue(TR, pool, h, chm, triedF, r) ==
    (r \in pool /\ TR[r].nvb <= h /\ TR[r].vub > h /\ TR[r].main \notin chm) => r \in triedF
=============================================================================
