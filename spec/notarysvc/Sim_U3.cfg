SPECIFICATION SimSpec
CONSTANTS
  Mains <- M3
  Reqs <- U3
  Cap = 4
  MaxH = 5
  Desig0 <- DK1
  DesigChoices <- DNone
  Wallet <- W12
  AllowRestart = FALSE
  AllowRelayOff = FALSE
  RemovalRace = FALSE
  DesigRace = FALSE
  KeepFirstCopy = FALSE
  WithdrawOnRemoval = FALSE
  BugDoubleCount = FALSE
  BugOneWitness = FALSE
  BugEarlyFallback = FALSE
  BugNoVerify = FALSE
  BugStaleKey = FALSE
  BugMainTwice = FALSE
  BugNoNKeys = FALSE
  Depth = 60
INVARIANT Emit
CHECK_DEADLOCK FALSE
