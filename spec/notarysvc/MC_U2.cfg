SPECIFICATION Spec
CONSTANTS
  Mains <- M2
  Reqs <- U2q
  Cap = 3
  MaxH = 3
  Desig0 <- DK1
  DesigChoices <- DNone
  Wallet <- W12
  AllowRestart = FALSE
  AllowRelayOff = TRUE
  RemovalRace = TRUE
  DesigRace = FALSE
  KeepFirstCopy = FALSE
  WithdrawOnRemoval = FALSE
  BugDoubleCount = FALSE
  BugOneWitness = FALSE
  BugEarlyFallback = FALSE
  BugNoVerify = FALSE
  BugStaleKey = FALSE
  BugMainTwice = FALSE
  BugNoNKeys = FALSE
INVARIANTS TypeOK JudgedInv BeyondInv MainOnce
CONSTRAINT Bounded
CHECK_DEADLOCK FALSE
