SPECIFICATION SimSpec
CONSTANTS
  Mains <- M2
  Reqs <- U2
  Cap = 4
  MaxH = 4
  Desig0 <- DK1
  DesigChoices <- DNone
  Wallet <- W12
  AllowRestart = TRUE
  AllowRelayOff = FALSE
  RemovalRace = FALSE
  DesigRace = FALSE
  KeepFirstCopy = FALSE
  WithdrawOnRemoval = FALSE
  BugDoubleCount = FALSE
  BugOneWitness = FALSE
  BugEarlyFallback = FALSE
  BugNoVerify = FALSE
  BugStaleKey = FALSE
  BugMainTwice = FALSE
  BugNoNKeys = FALSE
  Depth = 60
INVARIANT Emit
CHECK_DEADLOCK FALSE
