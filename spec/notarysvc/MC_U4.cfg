SPECIFICATION Spec
CONSTANTS
  Mains <- M4
  Reqs <- U4
  Cap = 3
  MaxH = 4
  Desig0 <- DK1
  DesigChoices <- D4
  Wallet <- W12
  AllowRestart = TRUE
  AllowRelayOff = FALSE
  RemovalRace = TRUE
  DesigRace = FALSE
  KeepFirstCopy = FALSE
  WithdrawOnRemoval = FALSE
  BugDoubleCount = FALSE
  BugOneWitness = FALSE
  BugEarlyFallback = FALSE
  BugNoVerify = FALSE
  BugStaleKey = FALSE
  BugMainTwice = FALSE
  BugNoNKeys = FALSE
INVARIANTS TypeOK JudgedInv BeyondInv MainOnce
CONSTRAINT Bounded
CHECK_DEADLOCK FALSE
