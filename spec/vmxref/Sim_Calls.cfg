\* generation only: few data instructions, so that most steps are loads, calls, returns, handlers and throws
SPECIFICATION SimSpec
CONSTANTS
  N = 2
  MaxKids = 1
  MaxStack = 2
  NS = 1
  MaxFrames = 8
  MaxSC = 5
  MaxArgs = 2
  Ops = {"prim", "new", "drop", "static", "call", "load", "ret", "try"}
  LoadKinds = {"rv1", "cc0", "all", "dyn"}
  Limit = 99
  MaxLeak = 100
  UnwindReleasesStack = FALSE
  BugTruncFirst = FALSE
  BugNoStaticOnUnwind = FALSE
  BugRetDoubleCount = FALSE
  BugArgsDoubleRelease = FALSE
  BugExcNotCounted = FALSE
  BugRetLeavesRest = FALSE
  Depth = 45
INVARIANT Emit
CHECK_DEADLOCK FALSE
