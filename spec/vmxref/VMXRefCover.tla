---------------------------- MODULE VMXRefCover ----------------------------
(* VMXRef plus a printer of every transition of the (small, exhaustively explored) state graph: source state,
   action label with the model's predictions for the target, target state.  tools/checks/c12_xscript.py builds
   from these lines walks from the initial state that together traverse EVERY transition of the graph
   (transition cover); harness/c12xscript realises each walk as a set of scripts loaded into one real VM. *)
EXTENDS VMXRef, Json

Key == ToString(<<h, scs, frames, everCyc, status>>)
EdgeRec == [op |-> last.op, a |-> last.a, b |-> last.b, kd |-> last.kd, refs |-> h.refs, walked |-> walked,
            cyc |-> everCyc, st |-> status, fr |-> Len(frames), nsc |-> Len(scs), ns |-> NS]
InitEmit == IF TLCGet("level") = 1 THEN PrintT(<<"@@INIT@@", Key>>) ELSE TRUE
EdgeEmit == [][PrintT(<<"@@EDGE@@", Key, ToJson(EdgeRec'), Key'>>)]_vars
=============================================================================
