---------------------------- MODULE VMXRefTrace ----------------------------
(* Validates the traces recorded by harness/c12xscript from the REAL NeoVM (one vm.VM executing several scripts
   that load each other; second binding: contracts on a real chain calling each other) against the abstract
   level of C12 (spec/vmref/VMLimits.tla, copied next to this module at run time).  One file holds many runs:
        i  (the scripts, gas limit, result of the static script check on all of them)
        s* (one per executed instruction, taken BEFORE it executes: script, offset, opcode, the VM's item counter
            read through the verif hook, the harness's own walk over v.Estack() and over the evaluation stack,
            static slot, locals and arguments of EVERY frame of the invocation stack (w), the same walk extended
            over the cells of stack objects that exception unwinding dropped (wa), depths, gas, what happened to
            the set of loaded script contexts since the previous observation (x: call / ret / unwind))
        f  (after Run returned: VM state, whether a Go panic escaped, gas; the walk again unless FAULT).
   Every event is turned into an observation of VMLimits and every clause it falsifies is reported (total and
   deterministic: never blocks).  Reported besides the clauses of the statement, for classification only:
        ExactModuloDropped   no cycle so far => counter = wa   (the listed finding "abandoned-stack" is an
                             ExactAcyclic failure WITHOUT this one: the surplus is exactly what unwinding left on
                             dropped stacks; with it, the surplus is something else and is reported as such)
        DroppedNeedsUnwind   wa # w only after a script context was unwound in this run (harness consistency) *)
EXTENDS TraceIO

VARIABLES l,        \* next line of the log
          limit,    \* gas limit of the current run (limbs)
          checked,  \* the scripts of the current run passed the static check
          cyc,      \* a cycle was seen earlier in the current run
          unw       \* a script context was unloaded by exception unwinding earlier in the current run

vars == <<l, limit, checked, cyc, unw>>

L == INSTANCE VMLimits WITH MaxItems <- 2048, MaxIntBits <- 256, MaxItemSize <- 131070, MaxInvoc <- 1024,
                            MaxTry <- 16, ObsSet <- {}, obs <- 0

StepObs(e) == [state |-> e.st, final |-> FALSE, panicked |-> FALSE, gas |-> e.g, limit |-> limit,
               refs |-> e.r, walked |-> e.w, cyc |-> e.c, intbits |-> e.b, itemsize |-> e.z,
               idepth |-> e.i, tdepth |-> e.t, checked |-> checked, onbnd |-> e.k]
FinalObs(e) == [state |-> e.st, final |-> TRUE, panicked |-> e.p, gas |-> e.g, limit |-> limit,
                refs |-> e.r, walked |-> e.w, cyc |-> e.c, intbits |-> e.b, itemsize |-> e.z,
                idepth |-> e.i, tdepth |-> e.t, checked |-> checked, onbnd |-> TRUE]

Rep(line, F, ctx) == IF F = {} THEN TRUE ELSE Report(line, F, ctx)

Sticky(o) == NameIf(cyc => o.cyc, "CycleFlagSticky")
ModDropped(o, e) == NameIf((L!Alive(o) /\ ~o.cyc) => e.r = e.wa, "ExactModuloDropped")
NeedsUnwind(o, e) == NameIf((L!Alive(o) /\ e.wa # e.w) => (unw \/ e.x = "unwind"), "DroppedNeedsUnwind")
Judge(o, e) == L!Broken(o) \cup Sticky(o) \cup ModDropped(o, e) \cup NeedsUnwind(o, e)

Init == l = 1 /\ limit = <<0, 0, 0>> /\ checked = FALSE /\ cyc = FALSE /\ unw = FALSE

Step ==
    /\ l <= Len(TLog)
    /\ l' = l + 1
    /\ LET e == TLog[l] IN
       CASE e.e = "i" ->
              /\ limit' = e.lim /\ checked' = e.chk /\ cyc' = FALSE /\ unw' = FALSE
         [] e.e = "s" ->
              LET o == StepObs(e) IN
              /\ Rep(l, Judge(o, e), [h |-> e.h, off |-> e.o, op |-> e.op, x |-> e.x, surplus |-> e.r - e.w, dropped |-> e.wa - e.w])
              /\ cyc' = o.cyc /\ unw' = (unw \/ e.x = "unwind") /\ UNCHANGED <<limit, checked>>
         [] e.e = "f" ->
              LET o == FinalObs(e) IN
              /\ Rep(l, Judge(o, e), [h |-> e.h, off |-> e.lo, op |-> e.lop, x |-> e.x, surplus |-> e.r - e.w, dropped |-> e.wa - e.w])
              /\ cyc' = o.cyc /\ unw' = (unw \/ e.x = "unwind") /\ UNCHANGED <<limit, checked>>

TraceSpec == Init /\ [][Step]_vars
=============================================================================
