------------------------------- MODULE VMXRef -------------------------------
(* IMPLEMENTATION-SHAPED level of the C12 extension "xscript": the item accounting of the NeoVM of neo-go in
   executions that span SEVERAL scripts in one VM, the way contract calls do.

   What pkg/vm/vm.go does at a script boundary (one action per critical section):

     loadScriptWithCallingHash  a new SCRIPT CONTEXT (vm.scriptContext: evaluation stack, static slot, return
                                count, unload callbacks) with its first frame.  The new context gets a stack
                                of its own (subStack) unless the return count is -1 AND the caller's stack is
                                empty at that moment: then caller and callee work on the SAME stack object.
                                The arguments were popped from the caller's stack by the syscall (counted Pop
                                = release) and are pushed on the callee's stack (PushItem = add).
     call                       CALL / CALLL / CALLA (and LoadNEFMethod's call of _initialize): a new FRAME of
                                the SAME script context: shares evaluation stack and static slot, has its
                                own locals / arguments / try stack.
     RET                        the frame is popped.  If the stack of the popped frame is not the stack of the
                                frame below (script boundary, own stack): the return count is checked (FAULT
                                if it differs) and ALL items of the callee's stack are appended to the caller's
                                stack WITHOUT touching the counter (they are already counted).  Then
     unloadContext              locals and arguments are released; if the frame below belongs to another script
                                context (or there is none) the static slot is released and the unload callback
                                runs (DynamicOnUnload: no value returned -> a Null is pushed on the caller's
                                stack, more than one -> FAULT).
     handleException            THROW pops the exception item (release); the frames above the innermost handler
                                are popped ONE BY ONE, each unloaded by unloadContext with the frame below it
                                as the current one - the handler may sit in another script context, several
                                script contexts may be unwound at once; the item is pushed (add) on the
                                handler's stack.

   The shared heap and its counters are those of spec/vmref/VMRef.tla (ref_counter.go transcribed: Add / Rem),
   restricted to arrays (struct cloning and maps are covered there).  Roots: the cells of every loaded script
   context's evaluation stack and static slot and the locals / arguments of every frame.

   Judged against the abstract level (VMLimits: NoUnderCount, ExactAcyclic; the item limit through Limit) plus
   UnloadRule: in every step, a script context that is unloaded in the step has its static slot released exactly
   once, one that stays loaded not at all.

   CODE SHAPE SWITCH  UnwindReleasesStack.  The tree under verification (FALSE) does not release what is left on
   the evaluation stack of a script context that is unwound by an exception: RET moves the items, unwinding just
   forgets the stack.  The counter then over-counts for the rest of the execution: TLC refutes ExactAcyclic
   (configuration MC_Shape, derived from MC_Q1.cfg by tools/checks/c12_xscript.py), and the real VM shows it (the
   check reports it from real traces, signature cause = "abandoned-stack": a listed known finding, the reference
   VM unwinds the same way).  TRUE is the shape for which all clauses hold (the stack of an unwound script
   context is cleared).  The .cfg files carry the shape of the code (FALSE) and check everything but exactness -
   their behaviours are what is replayed on the real VM, with exact predictions of its counter -; the check derives
   from each of them the TRUE variant, on which ALL clauses (ExactAcyclic, RcExact, AbsStep) are checked, and the
   variants with one named deviation each.

   NAMED DEVIATIONS TLC must refute (non-vacuity):
     BugTruncFirst         the invocation stack is truncated to the handler BEFORE the unload decisions: every
                           unwound frame of a script context looks like its last one, the static slot is
                           released once per frame (seeded change C12-unwind-truncates-istack-first)
     BugNoStaticOnUnwind   unwinding never releases a static slot
     BugRetDoubleCount     return values are counted again when they are moved to the caller's stack
     BugArgsDoubleRelease  the arguments are released twice when they leave the caller's stack
     BugExcNotCounted      the exception item is pushed on the handler's stack without being counted
     BugRetLeavesRest      RET does not enforce the return count: only the top `count` items of the callee's stack are
                           moved, what is below them is neither moved nor released *)
EXTENDS Integers, Sequences, FiniteSets, FiniteSetsExt, TLC

CONSTANTS N,          \* compound (array) ids 1..N; 0 is "some primitive item"
          MaxKids,    \* elements per array
          MaxStack,   \* cells per evaluation stack
          NS,         \* cells of an initialised static slot
          MaxFrames,  \* invocation frames (all script contexts together)
          MaxSC,      \* loaded script contexts (the entry script is number 1)
          MaxArgs,    \* arguments moved by one load
          Ops,        \* enabled instruction groups: subset of AllOps (configurations for the transition cover use fewer)
          LoadKinds,  \* subset of {"rv1", "rv0", "cc0", "all", "dyn"}, see LoadCallee
          Limit,      \* the item limit (MaxStackSize scaled down; large = never reached)
          MaxLeak,    \* state constraint: surplus of the counter over the walk
          UnwindReleasesStack,
          BugTruncFirst, BugNoStaticOnUnwind, BugRetDoubleCount, BugArgsDoubleRelease, BugExcNotCounted,
          BugRetLeavesRest

VARIABLES h,        \* heap: [kd: id -> "arr"|"free", k: id -> Seq(ref), rc: id -> Int, refs: Int]
          scs,      \* loaded script contexts, bottom first: Seq([st, ss, own, kind])
                    \*   st   evaluation stack (top = last element); <<>> and unused when ~own
                    \*   ss   static cells, <<>> = INITSSLOT not executed yet
                    \*   own  FALSE: works on the stack of the script context below (shared stack object)
                    \*   kind how it was loaded (return count / unload callback), "entry" for number 1
          frames,   \* invocation stack, bottom first: Seq([sc: index into scs, loc: Seq(ref), try: BOOLEAN])
          everCyc,  \* a cycle was built at some moment
          walked,   \* Walk of the current state (derived; a variable so that it is computed once)
          status,   \* "run" | "halt" (RET of the entry frame) | "fault" (terminal, nothing is said about it)
          last,     \* label of the last action (history / generation only)
          unl       \* unload record of the last action: set of [rel: times the static slot was released, gone: BOOLEAN]

vars == <<h, scs, frames, everCyc, walked, status, last, unl>>
Ids == 1..N
AllOps == {"prim", "new", "pack", "dup", "drop", "static", "local", "append", "setitem", "call", "load", "ret", "try"}

\* ------------------------------------------------------------------ graph helpers (as in VMRef)
KidSet(K, c) == {K[c][i] : i \in DOMAIN K[c]} \ {0}
ReachFrom(K, S0) ==
    LET RECURSIVE R(_)
        R(S) == LET T == S \cup UNION {KidSet(K, c) : c \in S}
                IN IF T = S THEN S ELSE R(T)
    IN R(S0 \ {0})
SeqSet(s) == {s[i] : i \in DOMAIN s}
SumOver(D, F(_)) == FoldSet(LAMBDA i, a : a + F(i), 0, D)

RootSet(S, F) == UNION {SeqSet(S[i].st) \cup SeqSet(S[i].ss) : i \in DOMAIN S} \cup UNION {SeqSet(F[i].loc) : i \in DOMAIN F}
RootCells(S, F) == SumOver(DOMAIN S, LAMBDA i : Len(S[i].st) + Len(S[i].ss)) + SumOver(DOMAIN F, LAMBDA i : Len(F[i].loc))
Walk(hh, S, F) == RootCells(S, F) + SumOver(ReachFrom(hh.k, RootSet(S, F)), LAMBDA c : Len(hh.k[c]))
Cyclic(K) == \E c \in Ids : c \in ReachFrom(K, KidSet(K, c))
Occ(s, c) == Cardinality({i \in DOMAIN s : s[i] = c})

\* ------------------------------------------------------------------ ref_counter.go, transcribed (arrays)
RECURSIVE Add(_, _), AddKids(_, _, _), Rem(_, _), RemKids(_, _, _)
Add(x, hh) ==
    IF x = 0 THEN [hh EXCEPT !.refs = @ + 1]
    ELSE LET h1 == [hh EXCEPT !.refs = @ + 1, !.rc[x] = @ + 1]
         IN IF h1.rc[x] = 1 THEN AddKids(x, 1, h1) ELSE h1
AddKids(x, i, hh) == IF i > Len(hh.k[x]) THEN hh ELSE AddKids(x, i + 1, Add(hh.k[x][i], hh))
Rem(x, hh) ==
    IF x = 0 THEN [hh EXCEPT !.refs = @ - 1]
    ELSE IF hh.rc[x] = 0 THEN hh                                   \* `if t.IsReferenced()`
         ELSE LET h1 == [hh EXCEPT !.refs = @ - 1, !.rc[x] = @ - 1]
              IN IF h1.rc[x] = 0 THEN RemKids(x, 1, h1) ELSE h1
RemKids(x, i, hh) == IF i > Len(hh.k[x]) THEN hh ELSE RemKids(x, i + 1, Rem(hh.k[x][i], hh))

\* Remove / Add the elements of a sequence one by one, first element first
RECURSIVE RemList(_, _, _), AddList(_, _, _)
RemList(s, i, hh) == IF i > Len(s) THEN hh ELSE RemList(s, i + 1, Rem(s[i], hh))
AddList(s, i, hh) == IF i > Len(s) THEN hh ELSE AddList(s, i + 1, Add(s[i], hh))

Free(hh) == {c \in Ids : hh.kd[c] = "free"}
MinOf(S) == CHOOSE x \in S : \A y \in S : x <= y

\* An item no root can reach can never be touched again: its id is recycled.  What it still holds in the
\* counters (a leaked cycle, a forgotten stack) stays in h.refs, which is all the properties need.
Collect(hh, S, F) ==
    LET reach == ReachFrom(hh.k, RootSet(S, F))
        drop  == (Ids \ Free(hh)) \ reach
    IN [hh EXCEPT !.kd = [c \in Ids |-> IF c \in drop THEN "free" ELSE @[c]],
                  !.k  = [c \in Ids |-> IF c \in drop THEN <<>> ELSE @[c]],
                  !.rc = [c \in Ids |-> IF c \in drop THEN 0 ELSE @[c]]]

\* ------------------------------------------------------------------ stacks of script contexts
RECURSIVE Owner(_, _)
Owner(S, i) == IF S[i].own THEN i ELSE Owner(S, i - 1)      \* the script context whose stack object i works on
TopFrame == frames[Len(frames)]
CurSC == TopFrame.sc
CurO == Owner(scs, CurSC)
Stk == scs[CurO].st
Top(i) == Stk[Len(Stk) - i]
PopN(n) == SubSeq(Stk, 1, Len(Stk) - n)
WithStk(st) == [scs EXCEPT ![CurO].st = st]
RemoveAtSeq(s, i) == SubSeq(s, 1, i - 1) \o SubSeq(s, i + 1, Len(s))
Rev(s) == [i \in 1..Len(s) |-> s[Len(s) + 1 - i]]
ButLast(s) == SubSeq(s, 1, Len(s) - 1)

Lab(op, a, b, kd) == [op |-> op, a |-> a, b |-> b, kd |-> kd]
NoUnl == {}
EmptyHeap == [kd |-> [c \in Ids |-> "free"], k |-> [c \in Ids |-> <<>>], rc |-> [c \in Ids |-> 0], refs |-> 0]
EntrySC == [st |-> <<>>, ss |-> <<>>, own |-> TRUE, kind |-> "entry"]

\* terminal: an uncaught exception, a failed return count check, a failed unload callback, the item limit
Fault(lab) ==
    /\ h' = EmptyHeap /\ scs' = << EntrySC >> /\ frames' = <<>>
    /\ everCyc' = everCyc /\ walked' = 0 /\ status' = "fault" /\ last' = lab /\ unl' = NoUnl

\* common epilogue of every action (execute's deferred check: more than MaxStackSize counted items -> FAULT)
Finish(hh, S, F, lab, u) ==
    IF hh.refs > Limit THEN Fault(lab)
    ELSE /\ h' = Collect(hh, S, F)
         /\ scs' = S /\ frames' = F
         /\ everCyc' = (everCyc \/ Cyclic(hh.k))
         /\ walked' = Walk(hh, S, F)
         /\ status' = "run"
         /\ last' = lab /\ unl' = u

\* ------------------------------------------------------------------ actions
Init ==
    /\ h = EmptyHeap
    /\ scs = << EntrySC >>
    /\ frames = << [sc |-> 1, loc |-> <<>>, try |-> FALSE] >>
    /\ everCyc = FALSE /\ walked = 0 /\ status = "run"
    /\ last = Lab("init", 0, 0, "") /\ unl = NoUnl

PushPrim ==
    /\ Len(Stk) < MaxStack
    /\ Finish(Add(0, h), WithStk(Append(Stk, 0)), frames, Lab("prim", 0, 0, ""), NoUnl)

\* NEWARRAY0 (PushItem) and NEWARRAY n (IncRC + pushItemCounted(n+1))
New(n) ==
    /\ Len(Stk) < MaxStack /\ Free(h) # {}
    /\ LET c  == MinOf(Free(h))
           h1 == [h EXCEPT !.kd[c] = "arr", !.k[c] = [i \in 1..n |-> 0], !.rc[c] = 0]
           h2 == IF n = 0 THEN Add(c, h1) ELSE [h1 EXCEPT !.rc[c] = 1, !.refs = @ + n + 1]
       IN Finish(h2, WithStk(Append(Stk, c)), frames, Lab("new", n, 0, ""), NoUnl)

Dup(i) ==
    /\ i < Len(Stk) /\ Len(Stk) < MaxStack
    /\ Finish(Add(Top(i), h), WithStk(Append(Stk, Top(i))), frames, Lab("dup", i, 0, ""), NoUnl)

Drop(i) ==
    /\ i < Len(Stk)
    /\ Finish(Rem(Top(i), h), WithStk(RemoveAtSeq(Stk, Len(Stk) - i)), frames, Lab("drop", i, 0, ""), NoUnl)

\* INITSSLOT NS: NS counted virtual Nulls in the static slot of the CURRENT script context
InitSSlot ==
    /\ scs[CurSC].ss = <<>>
    /\ Finish([h EXCEPT !.refs = @ + NS], [scs EXCEPT ![CurSC].ss = [i \in 1..NS |-> 0]], frames,
              Lab("initsslot", NS, 0, ""), NoUnl)

\* LDSFLD / LDLOC: PushItem;  STSFLD / STLOC: popNoRef, Remove(old)
LdStatic(j) ==
    /\ Len(Stk) < MaxStack /\ j \in DOMAIN scs[CurSC].ss
    /\ Finish(Add(scs[CurSC].ss[j], h), WithStk(Append(Stk, scs[CurSC].ss[j])), frames, Lab("lds", j, 0, ""), NoUnl)
StStatic(j) ==
    /\ Len(Stk) >= 1 /\ j \in DOMAIN scs[CurSC].ss
    /\ Finish(Rem(scs[CurSC].ss[j], h), [WithStk(PopN(1)) EXCEPT ![CurSC].ss[j] = Top(0)], frames,
              Lab("sts", j, 0, ""), NoUnl)
LdLocal(j) ==
    /\ Len(Stk) < MaxStack /\ j \in DOMAIN TopFrame.loc
    /\ Finish(Add(TopFrame.loc[j], h), WithStk(Append(Stk, TopFrame.loc[j])), frames, Lab("ldl", j, 0, ""), NoUnl)
StLocal(j) ==
    /\ Len(Stk) >= 1 /\ j \in DOMAIN TopFrame.loc
    /\ Finish(Rem(TopFrame.loc[j], h), WithStk(PopN(1)), [frames EXCEPT ![Len(frames)].loc[j] = Top(0)],
              Lab("stl", j, 0, ""), NoUnl)

\* APPEND: Pop item, Pop array, append, count the element only if the array is still referenced
AppendOp ==
    /\ Len(Stk) >= 2
    /\ LET x == Top(0)  p == Top(1) IN
       /\ p # 0 /\ Len(h.k[p]) < MaxKids
       /\ LET h1 == Rem(x, h)
              h2 == Rem(p, h1)
              h4 == [h2 EXCEPT !.k[p] = Append(@, x)]
              h5 == IF h2.rc[p] # 0 THEN Add(x, h4) ELSE h4
          IN Finish(h5, WithStk(PopN(2)), frames, Lab("append", 0, 0, ""), NoUnl)

\* SETITEM (idx 1-based): item popNoRef, array Pop; referenced array: old element released, else the item
SetItemOp(idx) ==
    /\ Len(Stk) >= 2
    /\ LET x == Top(0)  p == Top(1) IN
       /\ p # 0 /\ idx \in DOMAIN h.k[p]
       /\ LET hC == Rem(p, h)
              hD == IF hC.rc[p] # 0 THEN Rem(hC.k[p][idx], hC) ELSE Rem(x, hC)
              hE == [hD EXCEPT !.k[p][idx] = x]
          IN Finish(hE, WithStk(PopN(2)), frames, Lab("setitem", idx, 0, ""), NoUnl)

\* PACK n: n x popNoRef, IncRC, pushItemCounted(1)
PackOp(n) ==
    /\ n <= Len(Stk) /\ n <= MaxKids /\ Free(h) # {} /\ Len(Stk) - n + 1 <= MaxStack
    /\ LET c  == MinOf(Free(h))
           h1 == [h EXCEPT !.kd[c] = "arr", !.k[c] = [i \in 1..n |-> Top(i - 1)], !.rc[c] = 1, !.refs = @ + 1]
       IN Finish(h1, WithStk(Append(PopN(n), c)), frames, Lab("pack", n, 0, ""), NoUnl)

\* CALL + INITSLOT: a new frame of the SAME script context with one local (a counted virtual Null) or one
\* argument taken from the stack uncounted
InternalCall(fromStack) ==
    /\ Len(frames) < MaxFrames
    /\ (IF fromStack THEN Len(Stk) >= 1 ELSE TRUE)
    /\ IF fromStack
       THEN Finish(h, WithStk(PopN(1)), Append(frames, [sc |-> CurSC, loc |-> <<Top(0)>>, try |-> FALSE]),
                   Lab("call", 1, 0, ""), NoUnl)
       ELSE Finish([h EXCEPT !.refs = @ + 1], scs, Append(frames, [sc |-> CurSC, loc |-> <<0>>, try |-> FALSE]),
                   Lab("call", 0, 0, ""), NoUnl)

\* The syscall that loads a callee: k arguments leave the caller's stack (counted Pops, top first) and enter the
\* new script context's stack (PushItem, bottom first; the order on the stack is kept).  kind:
\*   "rv1"  LoadScriptWithHash / LoadNEFMethod(hasReturn): exactly one return value   (own stack)
\*   "rv0"  LoadNEFMethod(void): no return value                                      (own stack)
\*   "cc0"  like rv0 with the DynamicOnUnload callback (System.Contract.Call of a void method)
\*   "all"  LoadScriptWithFlags: everything left is returned; shares the caller's stack object if that is empty
\*   "dyn"  LoadDynamicScript: like "all" with DynamicOnUnload (0 values -> Null, more than 1 -> FAULT)
LoadCallee(k, kind) ==
    /\ Len(scs) < MaxSC /\ Len(frames) < MaxFrames /\ k <= Len(Stk) /\ k <= MaxArgs
    /\ LET args   == SubSeq(Stk, Len(Stk) - k + 1, Len(Stk))
           rest   == PopN(k)
           hP     == RemList(Rev(args), 1, h)
           hQ     == IF BugArgsDoubleRelease THEN RemList(Rev(args), 1, hP) ELSE hP
           shares == kind \in {"all", "dyn"} /\ rest = <<>>
           hA     == AddList(args, 1, hQ)
           S1     == WithStk(IF shares THEN args ELSE rest)
           nsc    == [st |-> IF shares THEN <<>> ELSE args, ss |-> <<>>, own |-> ~shares, kind |-> kind]
       IN Finish(hA, Append(S1, nsc), Append(frames, [sc |-> Len(scs) + 1, loc |-> <<>>, try |-> FALSE]),
                 Lab("load", k, IF shares THEN 1 ELSE 0, kind), NoUnl)

\* RET
Ret ==
    LET f  == TopFrame
        F1 == ButLast(frames)
    IN IF F1 # <<>> /\ F1[Len(F1)].sc = f.sc
       THEN \* an internal call returns: same stack, unloadContext releases locals / arguments only
            Finish(RemList(f.loc, 1, h), scs, F1, Lab("ret", 0, 0, ""), {[rel |-> 0, gone |-> FALSE]})
       ELSE IF F1 = <<>>
       THEN \* the entry frame returns: HALT; unloadContext releases locals and the static slot, the stack stays
            LET hh == RemList(scs[1].ss, 1, RemList(f.loc, 1, h))
                S  == << [scs[1] EXCEPT !.ss = <<>>] >>
            IN /\ h' = Collect(hh, S, <<>>) /\ scs' = S /\ frames' = <<>>
               /\ everCyc' = (everCyc \/ Cyclic(hh.k)) /\ walked' = Walk(hh, S, <<>>)
               /\ status' = "halt" /\ last' = Lab("ret", 2, 0, "entry") /\ unl' = {[rel |-> 1, gone |-> TRUE]}
       ELSE \* the last frame of a loaded script context returns to another script context
            LET c    == scs[f.sc]                      \* f.sc = Len(scs)
                S0   == ButLast(scs)
                co   == Owner(S0, F1[Len(F1)].sc)      \* the stack the caller works on
                old  == IF c.own THEN c.st ELSE S0[co].st
                rv   == CASE c.kind = "rv1" -> 1 [] c.kind \in {"rv0", "cc0"} -> 0 [] OTHER -> 0 - 1
                bad  == \/ c.own /\ rv >= 0 /\ Len(old) # rv /\ ~BugRetLeavesRest
                        \/ c.kind \in {"dyn", "cc0"} /\ Len(old) > 1
                addN == c.kind \in {"cc0", "dyn"} /\ Len(old) = 0       \* DynamicOnUnload pushes a Null
                mv   == IF BugRetLeavesRest /\ rv >= 0 /\ Len(old) > rv THEN SubSeq(old, Len(old) - rv + 1, Len(old)) ELSE old
                st1  == IF c.own THEN S0[co].st \o mv ELSE S0[co].st
                st2  == IF addN THEN Append(st1, 0) ELSE st1
                hM   == IF c.own /\ BugRetDoubleCount THEN AddList(old, 1, h) ELSE h     \* pushNoRef
                hU   == RemList(c.ss, 1, RemList(f.loc, 1, hM))
                hN   == IF addN THEN Add(0, hU) ELSE hU
            IN IF bad THEN Fault(Lab("ret", 1, 0 - 1, c.kind))
               ELSE /\ Len(st2) <= MaxStack
                    /\ Finish(hN, [S0 EXCEPT ![co].st = st2], F1, Lab("ret", 1, Len(old), c.kind),
                              {[rel |-> 1, gone |-> TRUE]})

TryOp ==
    /\ ~TopFrame.try
    /\ Finish(h, scs, [frames EXCEPT ![Len(frames)].try = TRUE], Lab("try", 0, 0, ""), NoUnl)
EndTryOp ==
    /\ TopFrame.try
    /\ Finish(h, scs, [frames EXCEPT ![Len(frames)].try = FALSE], Lab("endtry", 0, 0, ""), NoUnl)

\* handleException: the frames above the handler's frame j are popped one by one.  For each of them unloadContext
\* compares its script context with that of the frame below it (v.Context() after the pop).
RECURSIVE Unw(_, _, _, _, _)
Unw(F, S, j, hh, rel) ==
    IF Len(F) = j THEN [hh |-> hh, S |-> S, rel |-> rel]
    ELSE LET f    == F[Len(F)]
             F1   == ButLast(F)
             cur  == IF BugTruncFirst THEN frames[j].sc ELSE F1[Len(F1)].sc
             gone == F1[Len(F1)].sc # f.sc                  \* really the last frame of its script context
             relS == f.sc # cur /\ ~BugNoStaticOnUnwind     \* `ctx.sc != currCtx.sc`: static.clearRefs
             h1   == RemList(f.loc, 1, hh)
             h2   == IF relS THEN RemList(S[f.sc].ss, 1, h1) ELSE h1
             h3   == IF gone /\ UnwindReleasesStack /\ S[f.sc].own THEN RemList(S[f.sc].st, 1, h2) ELSE h2
         IN Unw(F1, IF gone THEN ButLast(S) ELSE S, j, h3, [rel EXCEPT ![f.sc] = @ + (IF relS THEN 1 ELSE 0)])

HasHandler == \E j \in DOMAIN frames : frames[j].try
Handler == CHOOSE j \in DOMAIN frames : frames[j].try /\ \A i \in DOMAIN frames : i > j => ~frames[i].try

\* THROW: Pop the item, unwind, push it (counted) in the catch block of the handler; the catch block is left by
\* ENDTRY at once (the handler is gone afterwards).  Label: a = frames unwound, b = script contexts unwound.
ThrowOp ==
    /\ Len(Stk) >= 1
    /\ LET x  == Top(0)
           hA == Rem(x, h)
           S0 == WithStk(PopN(1))
       IN IF ~HasHandler THEN Fault(Lab("throw", 0, 0 - 1, ""))
          ELSE LET j  == Handler
                   r  == Unw(frames, S0, j, hA, [i \in DOMAIN scs |-> 0])
                   ho == Owner(r.S, frames[j].sc)
                   hC == IF BugExcNotCounted THEN r.hh ELSE Add(x, r.hh)
               IN /\ Len(r.S[ho].st) < MaxStack
                  /\ Finish(hC, [r.S EXCEPT ![ho].st = Append(@, x)], [SubSeq(frames, 1, j) EXCEPT ![j].try = FALSE],
                            Lab("throw", Len(frames) - j, Len(scs) - Len(r.S), ""),
                            {[rel |-> r.rel[i], gone |-> i > Len(r.S)] : i \in frames[j].sc..Len(scs)})

On(op) == op \in Ops
NextOp ==
    \/ (On("prim") /\ PushPrim)
    \/ (On("new") /\ \E n \in 0..MaxKids : New(n))
    \/ (On("pack") /\ \E n \in 0..MaxKids : PackOp(n))
    \/ (On("dup") /\ \E i \in 0..(MaxStack - 1) : Dup(i))
    \/ (On("drop") /\ \E i \in 0..(MaxStack - 1) : Drop(i))
    \/ (On("static") /\ (InitSSlot \/ \E j \in 1..NS : LdStatic(j) \/ StStatic(j)))
    \/ (On("local") /\ (LdLocal(1) \/ StLocal(1)))
    \/ (On("append") /\ AppendOp)
    \/ (On("setitem") /\ \E i \in 1..MaxKids : SetItemOp(i))
    \/ (On("call") /\ \E b \in BOOLEAN : InternalCall(b))
    \/ (On("load") /\ \E k \in 0..MaxArgs, kind \in LoadKinds : LoadCallee(k, kind))
    \/ (On("ret") /\ Ret)
    \/ (On("try") /\ (TryOp \/ EndTryOp \/ ThrowOp))
Next == status = "run" /\ NextOp

Spec == Init /\ [][Next]_vars

\* ------------------------------------------------------------------ properties
WalkedOK == status = "fault" \/ walked = Walk(h, scs, frames)

\* the abstract level (spec/vmref/VMLimits.tla, copied next to this module at run time), instantiated on the
\* projection of this model; the item limit is the model's scaled-down one
Obs == [state |-> CASE status = "fault" -> "FAULT" [] status = "halt" -> "HALT" [] OTHER -> "NONE",
        final |-> status # "run", panicked |-> FALSE, gas |-> <<0>>, limit |-> <<0>>,
        refs |-> h.refs, walked |-> walked, cyc |-> everCyc, intbits |-> 0, itemsize |-> 0,
        idepth |-> Len(frames), tdepth |-> 0, checked |-> TRUE, onbnd |-> TRUE]
L == INSTANCE VMLimits WITH MaxItems <- Limit, MaxIntBits <- 256, MaxItemSize <- 131070, MaxInvoc <- 1024,
                            MaxTry <- 16, ObsSet <- {}, obs <- Obs

NoUnderCount == L!NoUnderCount(Obs)
ExactAcyclic == L!ExactAcyclic(Obs)
Bounded      == L!ItemsBounded(Obs) /\ L!CounterBounded(Obs)
AbsStep      == [][L!StepOK(Obs, Obs')]_vars     \* every step of the model is a step of the abstract level

\* evaluated on every transition (unl is hidden from the VIEW)
UnloadOK(u) == \A x \in u : x.rel = (IF x.gone THEN 1 ELSE 0)
UnloadRule  == [][UnloadOK(unl')]_vars

\* while acyclic: an item's counter = references from root cells + from referenced arrays
RcRefs(c) == SumOver(DOMAIN scs, LAMBDA i : Occ(scs[i].st, c) + Occ(scs[i].ss, c))
             + SumOver(DOMAIN frames, LAMBDA i : Occ(frames[i].loc, c))
             + SumOver(Ids \ Free(h), LAMBDA d : IF h.rc[d] > 0 THEN Occ(h.k[d], c) ELSE 0)
RcExact == (status = "run" /\ ~everCyc) => \A c \in Ids \ Free(h) : h.rc[c] = RcRefs(c)
RcSane == status = "fault" \/ (h.refs >= 0 /\ \A c \in ReachFrom(h.k, RootSet(scs, frames)) : h.rc[c] >= 1)

TypeOK == /\ Len(scs) <= MaxSC /\ Len(frames) <= MaxFrames
          /\ \A i \in DOMAIN scs : Len(scs[i].st) <= MaxStack /\ Len(scs[i].ss) \in {0, NS} /\ (~scs[i].own => scs[i].st = <<>>)
          /\ scs[1].own
          /\ \A i \in DOMAIN frames : frames[i].sc \in DOMAIN scs /\ (i > 1 => frames[i].sc \in {frames[i - 1].sc, frames[i - 1].sc + 1})
          /\ (status = "run" => frames # <<>> /\ frames[Len(frames)].sc = Len(scs))
          /\ \A c \in Ids : Len(h.k[c]) <= MaxKids

LeakBound == /\ h.refs <= walked + MaxLeak /\ h.refs >= walked - MaxLeak
             /\ \A c \in Ids \ Free(h) : h.rc[c] <= RcRefs(c) + MaxLeak /\ h.rc[c] >= RcRefs(c) - MaxLeak

\* `last` and `unl` are labels only
View == <<h, scs, frames, everCyc, status>>
=============================================================================
