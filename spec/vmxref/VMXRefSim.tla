----------------------------- MODULE VMXRefSim -----------------------------
(* Behaviour generator: VMXRef plus a history variable, printed as JSON when the depth bound is reached
   (tlc -simulate).  Every record carries the action label and the model's prediction of the VM's item counter
   and of the walk after the action; harness/c12xscript turns the history into scripts. *)
EXTENDS VMXRef, Json

CONSTANT Depth
VARIABLE hist

Rec == [op |-> last.op, a |-> last.a, b |-> last.b, kd |-> last.kd, refs |-> h.refs, walked |-> walked,
        cyc |-> everCyc, st |-> status, fr |-> Len(frames), nsc |-> Len(scs), ns |-> NS]
SimInit == Init /\ hist = << Rec >>
\* (FAULT and HALT end a run: such steps are left to the transition cover, generation goes on)
SimNext == Next /\ status' = "run" /\ hist' = Append(hist, Rec')
SimSpec == SimInit /\ [][SimNext]_<<vars, hist>>

Emit == Len(hist) # Depth \/ PrintT(<<"@@HIST@@", ToJson(hist)>>)
=============================================================================
