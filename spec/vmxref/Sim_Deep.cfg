\* generation only (no exhaustiveness): more script contexts, frames, items and arguments than the exhaustive
\* configurations; the shape of the code under verification
SPECIFICATION SimSpec
CONSTANTS
  N = 3
  MaxKids = 2
  MaxStack = 3
  NS = 2
  MaxFrames = 6
  MaxSC = 4
  MaxArgs = 2
  Ops <- AllOps
  LoadKinds = {"rv1", "rv0", "cc0", "all", "dyn"}
  Limit = 99
  MaxLeak = 100
  UnwindReleasesStack = FALSE
  BugTruncFirst = FALSE
  BugNoStaticOnUnwind = FALSE
  BugRetDoubleCount = FALSE
  BugArgsDoubleRelease = FALSE
  BugExcNotCounted = FALSE
  BugRetLeavesRest = FALSE
  Depth = 40
INVARIANT Emit
CHECK_DEADLOCK FALSE
