\* exhaustive (thorough): 3 script contexts, 4 frames, primitives only, 2 stack cells, 2 arguments
\* (the shape of the code under verification: UnwindReleasesStack = FALSE, everything but exactness is checked;
\*  tools/checks/c12_xscript.py derives the variant with the stack of an unwound script context released, on which
\*  ALL clauses - ExactAcyclic, RcExact, AbsStep - are checked, and the variants with one named deviation each)
SPECIFICATION Spec
CONSTANTS
  N = 1
  MaxKids = 1
  MaxStack = 2
  NS = 1
  MaxFrames = 4
  MaxSC = 3
  MaxArgs = 2
  Ops = {"prim","drop","static","call","load","ret","try"}
  LoadKinds = {"rv1","all","cc0"}
  Limit = 99
  MaxLeak = 2
  UnwindReleasesStack = FALSE
  BugTruncFirst = FALSE
  BugNoStaticOnUnwind = FALSE
  BugRetDoubleCount = FALSE
  BugArgsDoubleRelease = FALSE
  BugExcNotCounted = FALSE
  BugRetLeavesRest = FALSE
INVARIANTS TypeOK WalkedOK NoUnderCount Bounded RcSane
PROPERTIES UnloadRule
VIEW View
CONSTRAINT LeakBound
CHECK_DEADLOCK FALSE
