\* exhaustive, shape TRUE (all clauses): 2 script contexts, 3 frames, 1 array x 1 element, 2 stack cells, 1 static cell
SPECIFICATION Spec
CONSTANTS
  N = 1
  MaxKids = 1
  MaxStack = 2
  NS = 1
  MaxFrames = 3
  MaxSC = 2
  MaxArgs = 1
  Ops <- AllOps
  LoadKinds = {"rv1", "cc0"}
  Limit = 99
  MaxLeak = 1
  UnwindReleasesStack = TRUE
  BugTruncFirst = FALSE
  BugNoStaticOnUnwind = FALSE
  BugRetDoubleCount = FALSE
  BugArgsDoubleRelease = FALSE
  BugExcNotCounted = FALSE
INVARIANTS TypeOK WalkedOK NoUnderCount ExactAcyclic Bounded RcExact RcSane
PROPERTIES AbsStep UnloadRule
VIEW View
CONSTRAINT LeakBound
CHECK_DEADLOCK FALSE
