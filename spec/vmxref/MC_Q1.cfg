\* exhaustive (quick): 2 script contexts, 3 frames, 1 array x 1 element, 2 stack cells, kind rv1 (dyn, cc0: MC_C1, MC_C2)
\* (the shape of the code under verification: UnwindReleasesStack = FALSE, everything but exactness is checked;
\*  tools/checks/c12_xscript.py derives the variant with the stack of an unwound script context released, on which
\*  ALL clauses - ExactAcyclic, RcExact, AbsStep - are checked, and the variants with one named deviation each)
SPECIFICATION Spec
CONSTANTS
  N = 1
  MaxKids = 1
  MaxStack = 2
  NS = 1
  MaxFrames = 3
  MaxSC = 2
  MaxArgs = 1
  Ops = {"prim","new","drop","static","call","load","ret","try"}
  LoadKinds = {"rv1"}
  Limit = 99
  MaxLeak = 1
  UnwindReleasesStack = FALSE
  BugTruncFirst = FALSE
  BugNoStaticOnUnwind = FALSE
  BugRetDoubleCount = FALSE
  BugArgsDoubleRelease = FALSE
  BugExcNotCounted = FALSE
  BugRetLeavesRest = FALSE
INVARIANTS TypeOK WalkedOK NoUnderCount Bounded RcSane
PROPERTIES UnloadRule
VIEW View
CONSTRAINT LeakBound
CHECK_DEADLOCK FALSE
