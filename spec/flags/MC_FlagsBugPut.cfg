SPECIFICATION Spec
CONSTANTS
  MaxDepth = 2
  BugNoIntersect = FALSE
  BugNoSafeStrip = FALSE
  BugPutNoCheck = TRUE
INVARIANTS TypeOK FlagsShrink EnterConfined EffectImpliesFlag SafeNeverWrites EndToEnd CallEndToEnd
CHECK_DEADLOCK FALSE
