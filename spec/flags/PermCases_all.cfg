SPECIFICATION Spec
CONSTANTS
  BugGroupSkipsMethods = FALSE
  Pairs = TRUE
INVARIANTS ImplMatchesAbstract Emit
CHECK_DEADLOCK FALSE
