------------------------------- MODULE Flags -------------------------------
(***************************************************************************)
(* Abstract (property level) specification of call-flag confinement, C16.  *)
(* It says what the property statement says and nothing more.  A flag set  *)
(* is a subset of {R, W, C, N} (ReadStates 1, WriteStates 2, AllowCall 4,  *)
(* AllowNotify 8 - the bit values of pkg/smartcontract/callflag); Bits     *)
(* converts the integer found in the real vm.Context.                      *)
(*                                                                         *)
(* The same operators judge                                                *)
(*   - the implementation-shaped model FlagsImpl (TLC, exhaustively),      *)
(*   - the enumeration of call chains FlagsCases (answers handed to the    *)
(*     harness),                                                           *)
(*   - every invocation recorded from the real engine (FlagsTrace).        *)
(***************************************************************************)
EXTENDS Integers, Sequences, FiniteSets

R == 1
W == 2
C == 4
N == 8
AllFlags == {R, W, C, N}
FlagSets == SUBSET AllFlags

Bits(n)  == {b \in AllFlags : (n \div b) % 2 = 1}
ToInt(S) == (IF R \in S THEN R ELSE 0) + (IF W \in S THEN W ELSE 0)
          + (IF C \in S THEN C ELSE 0) + (IF N \in S THEN N ELSE 0)

\* effect kinds: "w" a contract's storage changes, "n" a notification is emitted, "c" a contract is called
Need(kind) == CASE kind = "w" -> W [] kind = "n" -> N [] kind = "c" -> C

\* Code running without the flag never produces the effect.
EffectOK(kind, fl) == Need(kind) \in fl

\* Flags only shrink along a call chain.
Shrinks(parent, child) == child \subseteq parent

\* The largest flag set a callee may run with: what the caller has, restricted to what the caller passes,
\* and never WriteStates / AllowNotify for a method marked safe ("whatever flags the caller passes").
ChildMax(parent, req, safe) == (parent \cap req) \ (IF safe THEN {W, N} ELSE {})
EnterOK(parent, req, safe, child) == child \subseteq ChildMax(parent, req, safe)

\* Effective flags at the end of a call chain that starts from root; chain is a sequence of hops
\* [q |-> requested flag set, s |-> callee method is safe].  A frame without AllowCall calls nobody: the rest
\* of the chain does not exist and nothing it could have done may be observed (empty flag set).
RECURSIVE EffChain(_, _)
EffChain(cur, chain) ==
    IF chain = <<>> THEN cur
    ELSE EffChain(IF C \in cur THEN ChildMax(cur, Head(chain).q, Head(chain).s) ELSE {}, Tail(chain))

\* End-to-end statement for one invocation: every observed effect was permitted by the effective flags.
E2EOK(root, chain, obsW, obsN, obsC) ==
    LET eff == EffChain(root, chain)
    IN  /\ obsW => W \in eff
        /\ obsN => N \in eff
        /\ obsC => C \in eff
=============================================================================
