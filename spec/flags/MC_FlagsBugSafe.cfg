SPECIFICATION Spec
CONSTANTS
  MaxDepth = 2
  BugNoIntersect = FALSE
  BugNoSafeStrip = TRUE
  BugPutNoCheck = FALSE
INVARIANTS TypeOK FlagsShrink EnterConfined EffectImpliesFlag SafeNeverWrites EndToEnd CallEndToEnd
CHECK_DEADLOCK FALSE
