SPECIFICATION Spec
CONSTANTS
  BugGroupSkipsMethods = TRUE
  Pairs = FALSE
INVARIANTS ImplMatchesAbstract
CHECK_DEADLOCK FALSE
