----------------------------- MODULE Permission -----------------------------
(***************************************************************************)
(* Abstract specification of manifest permissions, C16 second half.        *)
(* A permission is [kind, target, wild, methods]:                          *)
(*   kind    "wild" any contract | "hash" the contract with hash target |  *)
(*           "group" any contract whose manifest lists group key target    *)
(*   wild    TRUE: any method; FALSE: only the names in the set methods    *)
(* A callee is [hash, groups].  The statement: a deployed contract can     *)
(* call a NON-SAFE method of another contract only if one of its           *)
(* permissions matches BOTH the callee and the method name - for every     *)
(* permission kind.                                                        *)
(***************************************************************************)
EXTENDS Integers, Sequences, FiniteSets

CalleeMatch(p, callee) ==
    CASE p.kind = "wild"  -> TRUE
      [] p.kind = "hash"  -> p.target = callee.hash
      [] p.kind = "group" -> p.target \in callee.groups

MethodMatch(p, method) == p.wild \/ method \in p.methods

\* perms: sequence of permissions (manifest order is irrelevant)
CanCall(perms, callee, method) ==
    \E i \in DOMAIN perms : CalleeMatch(perms[i], callee) /\ MethodMatch(perms[i], method)

\* the call of `method` (marked safe or not) by a DEPLOYED contract whose manifest holds perms may go through
MayCall(perms, callee, method, safe) == safe \/ CanCall(perms, callee, method)
=============================================================================
