SPECIFICATION Spec
CONSTANTS
  D3First = {}
  D3Safe = {FALSE}
INVARIANT Emit
CHECK_DEADLOCK FALSE
