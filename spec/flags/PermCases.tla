----------------------------- MODULE PermCases -----------------------------
(***************************************************************************)
(* Enumeration (the specification is the oracle) + implementation-shaped   *)
(* model of manifest.Permission.IsAllowed / Manifest.CanCall.              *)
(* Universe: callee hash "H1" (the contract really called), another hash   *)
(* "H2"; group keys "G1", "G2"; callee methods "a", "b" (not safe) and "s" *)
(* (safe).  Manifests: every sequence of at most two permissions with      *)
(* distinct contract descriptors (what Permissions.AreValid accepts), each *)
(* with every method list in MethodLists (wildcard, empty, explicit).      *)
(* One state = one case; TLC checks Impl = Abstract in every case and      *)
(* prints the case with the specified answer.                              *)
(***************************************************************************)
EXTENDS Permission, TLC, Json

CONSTANTS BugGroupSkipsMethods,  \* named deviation: group permissions answer before looking at the method list
          Pairs                  \* TRUE: also manifests with two permissions

VARIABLE c

Descs == {[kind |-> "wild", target |-> "*"], [kind |-> "hash", target |-> "H1"], [kind |-> "hash", target |-> "H2"],
          [kind |-> "group", target |-> "G1"], [kind |-> "group", target |-> "G2"]}
MethodLists == {[wild |-> TRUE, methods |-> {}], [wild |-> FALSE, methods |-> {}], [wild |-> FALSE, methods |-> {"a"}],
                [wild |-> FALSE, methods |-> {"b"}], [wild |-> FALSE, methods |-> {"a", "b"}]}
Perms == {[kind |-> d.kind, target |-> d.target, wild |-> m.wild, methods |-> m.methods] : d \in Descs, m \in MethodLists}
Manifests == {<<>>} \cup {<<p>> : p \in Perms}
             \cup (IF Pairs THEN {pq \in Perms \X Perms : pq[1].kind # pq[2].kind \/ pq[1].target # pq[2].target} ELSE {})
Callees == {[hash |-> "H1", groups |-> g] : g \in SUBSET {"G1", "G2"}}
Methods == {[name |-> "a", safe |-> FALSE], [name |-> "b", safe |-> FALSE], [name |-> "s", safe |-> TRUE]}

Cases == [perms : Manifests, callee : Callees, m : Methods]

\* manifest/permission.go IsAllowed, statement by statement
ImplIsAllowed(p, callee, method) ==
    IF p.kind = "hash" /\ p.target # callee.hash THEN FALSE
    ELSE IF p.kind = "group" /\ BugGroupSkipsMethods THEN p.target \in callee.groups
    ELSE IF p.kind = "group" /\ p.target \notin callee.groups THEN FALSE
    ELSE IF p.wild THEN TRUE
    ELSE method \in p.methods
\* manifest/manifest.go CanCall
ImplCanCall(perms, callee, method) == \E i \in DOMAIN perms : ImplIsAllowed(perms[i], callee, method)

Init == c \in Cases
Next == UNCHANGED c
Spec == Init /\ [][Next]_c

ImplMatchesAbstract == ImplCanCall(c.perms, c.callee, c.m.name) = CanCall(c.perms, c.callee, c.m.name)

Row == [perms |-> c.perms, groups |-> c.callee.groups, method |-> c.m.name, safe |-> c.m.safe,
        each |-> [i \in DOMAIN c.perms |-> CalleeMatch(c.perms[i], c.callee) /\ MethodMatch(c.perms[i], c.m.name)],
        can |-> CanCall(c.perms, c.callee, c.m.name),
        may |-> MayCall(c.perms, c.callee, c.m.name, c.m.safe)]
Emit == PrintT(<<"@@CASE@@", ToJson(Row)>>)
=============================================================================
