SPECIFICATION Spec
CONSTANTS
  D3First = {0,1,2,3,4,5,6,7,8,9,10,11,12,13,14,15}
  D3Safe = {TRUE, FALSE}
INVARIANT Emit
CHECK_DEADLOCK FALSE
