----------------------------- MODULE FlagsImpl -----------------------------
(***************************************************************************)
(* Implementation-shaped model of the call-flag machinery, one action per  *)
(* code path of the real engine:                                           *)
(*   SyscallAllowed   interop/context.go SyscallHandler: cf.Has(required)  *)
(*   ContractCall     interop/contract/call.go Call -> callInternal (safe  *)
(*                    methods lose WriteStates|AllowNotify) ->             *)
(*                    callExFromNative (f = current flags & f)             *)
(*   NativeCallback   contract.CallFromNative (callflag.All & current):    *)
(*                    NEP-17 onNEP17Payment, _deploy, oracle callback,     *)
(*                    Notary.withdraw -> GAS.transfer                      *)
(*   LoadScript       interop/runtime/engine.go: current & ReadOnly & f    *)
(*   Put / Notify     System.Storage.Put|Delete (WriteStates),             *)
(*                    System.Runtime.Notify (AllowNotify); native methods  *)
(*                    behave the same through native/interop.go Call       *)
(* TLC checks that every reachable state satisfies the ABSTRACT predicates *)
(* of module Flags.  The Bug* constants are named deviations used to show  *)
(* that the invariants are not vacuous.                                    *)
(***************************************************************************)
EXTENDS Flags, TLC

CONSTANTS MaxDepth,        \* number of nested calls below the entry script
          BugNoIntersect,  \* callee gets the requested flags instead of current & requested
          BugNoSafeStrip,  \* safe methods keep WriteStates|AllowNotify
          BugPutNoCheck    \* storage write not gated by WriteStates

VARIABLES stack, last
vars == <<stack, last>>

NoEffect == [k |-> "none"]
Top == stack[Len(stack)]
ReadOnly == {R, C}

Init == /\ \E root \in FlagSets :
             stack = << [fl |-> root, req |-> AllFlags, safe |-> FALSE, kind |-> "r"] >>
        /\ last = NoEffect

SyscallAllowed(required) == required \subseteq Top.fl

ContractCall(req, safe) ==
    /\ Len(stack) <= MaxDepth
    /\ SyscallAllowed({R, C})                     \* RequiredFlags of System.Contract.Call
    /\ LET f1 == IF safe /\ ~BugNoSafeStrip THEN req \ {W, N} ELSE req
           f2 == IF BugNoIntersect THEN f1 ELSE Top.fl \cap f1
       IN  stack' = Append(stack, [fl |-> f2, req |-> req, safe |-> safe, kind |-> "c"])
    /\ last' = NoEffect

NativeCallback ==
    /\ Len(stack) <= MaxDepth
    /\ C \in Top.fl                               \* natives that call back require AllowCall in their method table
    /\ stack' = Append(stack, [fl |-> Top.fl \cap AllFlags, req |-> AllFlags, safe |-> FALSE, kind |-> "n"])
    /\ last' = NoEffect

LoadScript(req) ==
    /\ Len(stack) <= MaxDepth
    /\ SyscallAllowed({C})
    /\ stack' = Append(stack, [fl |-> Top.fl \cap ReadOnly \cap req, req |-> req, safe |-> FALSE, kind |-> "d"])
    /\ last' = NoEffect

Ret == /\ Len(stack) > 1
       /\ stack' = SubSeq(stack, 1, Len(stack) - 1)
       /\ last' = NoEffect

Put == /\ (BugPutNoCheck \/ SyscallAllowed({W}))
       /\ last' = [k |-> "w"]
       /\ UNCHANGED stack

Notify == /\ SyscallAllowed({N})
          /\ last' = [k |-> "n"]
          /\ UNCHANGED stack

Next == \/ \E req \in FlagSets, safe \in BOOLEAN : ContractCall(req, safe)
        \/ \E req \in FlagSets : LoadScript(req)
        \/ NativeCallback
        \/ Ret
        \/ Put
        \/ Notify

Spec == Init /\ [][Next]_vars

-----------------------------------------------------------------------------
(* The abstract predicates, evaluated on the model state. *)
Chain == [i \in 1..(Len(stack) - 1) |-> [q |-> stack[i + 1].req, s |-> stack[i + 1].safe]]

FlagsShrink == \A i \in 2..Len(stack) : Shrinks(stack[i - 1].fl, stack[i].fl)
EnterConfined == \A i \in 2..Len(stack) :
                    /\ EnterOK(stack[i - 1].fl, stack[i].req, stack[i].safe, stack[i].fl)
                    /\ EffectOK("c", stack[i - 1].fl)
EffectImpliesFlag == last.k # "none" => EffectOK(last.k, Top.fl)
SafeNeverWrites == last.k # "none" => \A i \in 1..Len(stack) : ~stack[i].safe
EndToEnd == last.k # "none" => Need(last.k) \in EffChain(stack[1].fl, Chain)
CallEndToEnd == Len(stack) > 1 => C \in EffChain(stack[1].fl, SubSeq(Chain, 1, Len(Chain) - 1))

TypeOK == /\ Len(stack) \in 1..(MaxDepth + 1)
          /\ \A i \in 1..Len(stack) : stack[i].fl \in FlagSets
=============================================================================
