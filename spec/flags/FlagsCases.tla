----------------------------- MODULE FlagsCases -----------------------------
(***************************************************************************)
(* Enumeration of call chains (spec -> code direction).  One state = one   *)
(* chain of at most three hops from an entry script running with all       *)
(* flags; a hop is [q |-> requested flag set (0..15), s |-> the called     *)
(* method is marked safe].  Every state is printed once with the answers   *)
(* of the abstract specification (eff: effective flags of the last frame,  *)
(* w/n/c: may the last frame change storage / notify / call) and with the  *)
(* prediction of the implementation-shaped level for the concrete probe    *)
(* operations of the harness (which system calls they issue).              *)
(* D3First restricts the first hop of three-hop chains (quick tier).       *)
(***************************************************************************)
EXTENDS Flags, TLC, Json

CONSTANTS D3First, D3Safe

VARIABLE c

HopsI == [q : 0..15, s : BOOLEAN]
Chains == {<<h>> : h \in HopsI}
          \cup {<<h1, h2>> : h1 \in HopsI, h2 \in HopsI}
          \cup {<<h1, h2, h3>> : h1 \in {h \in HopsI : h.q \in D3First /\ h.s \in D3Safe}, h2 \in HopsI, h3 \in HopsI}

Abs(ch) == [i \in DOMAIN ch |-> [q |-> Bits(ch[i].q), s |-> ch[i].s]]

\* every intermediate frame could make its call (System.Contract.Call needs ReadStates|AllowCall in the code)
RECURSIVE ImplEff(_, _)
ImplEff(cur, ch) ==
    IF ch = <<>> THEN cur
    ELSE ImplEff(IF {R, C} \subseteq cur THEN ChildMax(cur, Head(ch).q, Head(ch).s) ELSE {}, Tail(ch))
RECURSIVE ImplReach(_, _)
ImplReach(cur, ch) ==
    IF ch = <<>> THEN TRUE
    ELSE {R, C} \subseteq cur /\ ImplReach(ChildMax(cur, Head(ch).q, Head(ch).s), Tail(ch))

Row(ch) ==
    LET a == Abs(ch)
        eff == EffChain(AllFlags, a)
        ie  == ImplEff(AllFlags, a)
        rch == ImplReach(AllFlags, a)
    IN [chain |-> ch, eff |-> ToInt(eff),
        w |-> W \in eff, n |-> N \in eff, c |-> C \in eff,
        reach |-> rch,
        \* implementation-level prediction per concrete operation of the target contract
        put    |-> rch /\ {R, W} \subseteq ie,     \* System.Storage.GetContext + Put
        lput   |-> rch /\ W \in ie,                \* System.Storage.Local.Put
        del    |-> rch /\ W \in ie,                \* System.Storage.Local.Delete
        notify |-> rch /\ N \in ie,                \* System.Runtime.Notify
        call   |-> rch /\ {R, C} \subseteq ie]     \* System.Contract.Call

Init == c \in Chains
Next == UNCHANGED c
Spec == Init /\ [][Next]_c

Emit == PrintT(<<"@@CASE@@", ToJson(Row(c))>>)
=============================================================================
