----------------------------- MODULE FlagsTrace -----------------------------
(***************************************************************************)
(* Judges invocations recorded from the REAL engine (harness/c16flags)     *)
(* with the predicates of the abstract module Flags.  One line of the log  *)
(* = one invocation run under chain.GetTestVM with an instruction hook:    *)
(*   root    flags the entry script was loaded with                        *)
(*   chain   the hops the harness asked for, [q requested flags, s safe]   *)
(*           (safe = the Safe mark of the called method in the callee's    *)
(*           deployed manifest); the last hop reaches the frame under test *)
(*   frames  every real vm.Context in creation order: id (= index - 1),    *)
(*           par parent id, fl call flags READ FROM THE CONTEXT, req flags *)
(*           requested by the call instruction that created it, safe,      *)
(*           k: r entry | c contract call | n call made by native code |   *)
(*              d dynamic script | i intra-contract CALL                   *)
(*   eff     effects attributed to the frame executing the instruction:    *)
(*           w = the DAO layer of the invocation changed w.r.t. the chain, *)
(*           n = the notification list grew                                *)
(*   w, n    end to end: storage change set of ALL contracts in the        *)
(*           invocation's own DAO layer non-empty / notifications emitted  *)
(*   c       a contract outside the requested path was executed            *)
(*   t       the frame under test was executed                             *)
(* Total and deterministic: failures are reported, never blocking.         *)
(***************************************************************************)
EXTENDS TraceIO, Flags

VARIABLE l

Fl(F, id) == Bits(F[id + 1].fl)
ParFl(F, i) == Fl(F, F[i].par)
AbsChain(ch) == [i \in DOMAIN ch |-> [q |-> Bits(ch[i].q), s |-> ch[i].s]]
Cross(f) == f.k \in {"c", "n", "d"}

RECURSIVE SafeAnc(_, _)
SafeAnc(F, i) == F[i].safe \/ (F[i].par >= 0 /\ SafeAnc(F, F[i].par + 1))

\* what the implementation-shaped level predicts for a new frame (drift only)
ImplFlags(F, i) ==
    CASE F[i].k = "c" -> ChildMax(ParFl(F, i), Bits(F[i].req), F[i].safe)
      [] F[i].k = "d" -> ParFl(F, i) \cap {R, C} \cap Bits(F[i].req)
      [] OTHER -> ParFl(F, i)

Checks(e) ==
    LET F == e.frames
        root == Bits(e.root)
        ch == AbsChain(e.chain)
    IN  NameIf(\A i \in DOMAIN F : F[i].par >= 0 => Shrinks(ParFl(F, i), Fl(F, F[i].id)), "FlagsShrink")
        \cup NameIf(\A i \in DOMAIN F : (Cross(F[i]) /\ F[i].req \in 0..15) =>
                        EnterOK(ParFl(F, i), Bits(F[i].req), F[i].safe, Fl(F, F[i].id)), "EnterConfined")
        \cup NameIf(\A i \in DOMAIN F : F[i].k \in {"c", "n"} => EffectOK("c", ParFl(F, i)), "CallImpliesAllowCall")
        \cup NameIf(\A j \in DOMAIN e.eff : EffectOK(e.eff[j].k, Fl(F, e.eff[j].f)), "EffectImpliesFlag")
        \cup NameIf(\A j \in DOMAIN e.eff : ~SafeAnc(F, e.eff[j].f + 1), "SafeNeverWrites")
        \cup NameIf(E2EOK(root, ch, e.w, e.n, e.c), "EndToEnd")
        \cup NameIf(e.t => (ch = <<>> \/ C \in EffChain(root, SubSeq(ch, 1, Len(ch) - 1))), "CallEndToEnd")
        \cup NameIf(\A i \in DOMAIN F : (F[i].par >= 0 /\ (F[i].k \in {"n", "i"} \/ F[i].req \in 0..15)) =>
                        Fl(F, F[i].id) = ImplFlags(F, i), "ExactFlags")

Init == l = 1
Step == /\ l <= Len(TLog)
        /\ l' = l + 1
        /\ LET e == TLog[l] IN Report(l, Checks(e), [op |-> e.op, src |-> e.src])

TraceSpec == Init /\ [][Step]_l
=============================================================================
