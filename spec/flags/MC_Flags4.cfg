SPECIFICATION Spec
CONSTANTS
  MaxDepth = 4
  BugNoIntersect = FALSE
  BugNoSafeStrip = FALSE
  BugPutNoCheck = FALSE
INVARIANTS TypeOK FlagsShrink EnterConfined EffectImpliesFlag SafeNeverWrites EndToEnd CallEndToEnd
CHECK_DEADLOCK FALSE
