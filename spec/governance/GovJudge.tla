------------------------------ MODULE GovJudge ------------------------------
(* THE JUDGE of the governance side of the native NEO / GAS contracts (extension "gov" of property C05, and the
   "committee / validator answers are a function of the block sequence" clause of C01).

   The module is generic in the arithmetic of GAS amounts (Z, Plus, Minus, Times, DivFloor, DivCeil, Leq, Num):
   GovImpl.tla instantiates it with TLC's integers (exhaustive checking of the code-shaped model with small
   numbers), GovTrace.tla with BigInt limbs (what was recorded from a real chain).  NEO amounts are TLC integers.

   Step(env, st, o) takes the judge's state after block o.h - 1 and the OBSERVATION o of block o.h (what was read
   from storage, from the node's answers and from the stored execution results after the block) and returns
        fails : names of the ABSTRACT rules the observation breaks            (verdict)
        drift : names "d:..." of code-shaped predictions the observation differs from   (information only)
        ctx   : figures for the report
        next  : the judge's state after the block.

   ABSTRACT rules (NEO N3 governance; where the protocol text leaves a choice, every choice is accepted):
     Committee    committee in force for block h = Elect(candidate table after block e-1), e = the last multiple of
                  the committee size <= h (standby before the first boundary); getCommittee answers it
     Validators   getNextBlockValidators after block h = first k members (election order) of that committee;
                  the COMPUTED next validators = those of the committee that will be in force for block h+1
     FeeBurn      OnPersist burns system + network fee of every transaction from its sender (in order), nothing
                  without transactions
     PrimaryReward  then mints the sum of the network fees, minus (NKeys+1) * NotaryAssisted fee per such
                  transaction, to the validator (sorted by key) whose index is the block's PrimaryIndex
     CommitteeReward  PostPersist first mints GasPerBlock * 10 % to member (h mod n) of the committee in force, in
                  election order (GasPerBlock as before or as after the block's own transactions: both accepted)
     Claim        an account's first NEO balance change / vote / NEO transfer it sends in a block mints its
                  unclaimed GAS: balance * sum of GasPerBlock over the blocks held * 10 % / total supply, plus
                  balance * (growth of its candidate's reward per vote), where at every epoch boundary block the
                  reward per vote of committee member i grows by w * 80 % * GasPerBlock * n / ((n + k) * votes),
                  w = 2 for the first k members (validators), 1 otherwise, members without votes excluded;
                  nothing is minted to accounts that did nothing.  Rounding is the implementation's choice:
                  accepted iff  exact - (steps) < minted <= exact (+ 1/Fine per step), steps = epoch boundaries
                  involved + 2; `votes' as at the election or as after the boundary block: both accepted
     Unclaimed    unclaimedGas(account, h+1) answers the amount that rule gives for a claim in block h+1
   DRIFT (code-shaped, exact): stored committee with votes, stored reward per vote, exact claim / unclaimed amount,
   GasPerBlock of index h+1 used by PostPersist, balance heights. *)
EXTENDS Integers, Sequences, FiniteSets, Election

CONSTANTS Z, Plus(_, _), Minus(_, _), Times(_, _), DivFloor(_, _), DivCeil(_, _), Leq(_, _), Num(_),
          NoKey,           \* vote target of an account that does not vote
          Null,            \* null party of a Transfer event
          Total,           \* NEO total supply (TLC integer): 100 000 000
          Factor,          \* scale of the stored reward per vote (TLC integer): 100 000 000
          Fine             \* extra precision of the abstract bounds (TLC integer)

Lt(a, b) == ~Leq(b, a)
Max2(a, b) == IF Leq(a, b) THEN b ELSE a
Min2(a, b) == IF Leq(a, b) THEN a ELSE b
Get(f, x, d) == IF x \in DOMAIN f THEN f[x] ELSE d
SeqSet(s) == {s[i] : i \in DOMAIN s}
RECURSIVE SumSeq(_, _)
SumSeq(s, i) == IF i > Len(s) THEN Z ELSE Plus(s[i], SumSeq(s, i + 1))

HolderDen == Times(Num(100), Num(Total))          \* 10 % of GasPerBlock per NEO: * 10 / (100 * Total)
Q == Times(Num(Factor), Num(Fine))                \* scale of the fine accumulators (per NEO)
QHD == Times(Q, HolderDen)

(* ------------------------------------------------------------------ state *)
NoSnap == [h |-> 0, lo |-> Z, hi |-> Z, n |-> 0, x |-> Z]

InitState(env, o) ==
    [h |-> 0, cand |-> o.cand, voters |-> o.voters, neo |-> o.neo, nafee |-> o.nafee,
     inforce |-> [i \in 1..env.n |-> [key |-> env.standby[i], votes |-> 0]],
     g |-> <<o.gpb, o.gpb>>,                          \* g[j+1] = GasPerBlock of block index j, j = 0..h+1
     ps |-> <<Z, o.gpb, Plus(o.gpb, o.gpb)>>,         \* ps[j+1] = sum of g over indexes < j,  j = 0..h+2
     accLo |-> <<>>, accHi |-> <<>>, accN |-> <<>>, accX |-> <<>>,
     last |-> [a \in DOMAIN o.neo |-> NoSnap]]

Span(ps, start, end) == Minus(ps[end + 1], ps[start + 1])     \* sum of GasPerBlock over block indexes start..end-1

(* ------------------------------------------------------------------ claims *)
\* bounds of the unclaimed GAS of an account with balance bal voting for c since snapshot s, claimed in block `end'
Claim(ps, accLo, accHi, accN, accX, bal, c, s, end) ==
    LET B == Num(bal)
        S == Span(ps, s.h, end)
        hold == Times(Times(B, S), Num(10))                                   \* / HolderDen
        dlo == IF c = NoKey THEN Z ELSE Minus(Get(accLo, c, Z), s.lo)
        dhi == IF c = NoKey THEN Z ELSE Minus(Get(accHi, c, Z), s.hi)
        dx  == IF c = NoKey THEN Z ELSE Minus(Get(accX, c, Z), s.x)
        e   == IF c = NoKey THEN 0 ELSE Get(accN, c, 0) - s.n
    IN  [loT |-> Plus(Times(hold, Q), Times(Times(B, dlo), HolderDen)),       \* scale Q * HolderDen
         hiT |-> Plus(Times(hold, Q), Times(Times(B, dhi), HolderDen)),
         steps |-> (IF e > 0 THEN e ELSE 0) + 2,
         exact |-> Plus(DivFloor(hold, HolderDen), DivFloor(Times(B, dx), Num(Factor)))]

InBounds(amt, c) == /\ Leq(Times(amt, QHD), c.hiT)
                    /\ Lt(c.loT, Times(Plus(amt, Num(c.steps)), QHD))
Nothing == [loT |-> Z, hiT |-> Z, steps |-> 1, exact |-> Z]               \* exactly zero

(* ------------------------------------------------------------------ one block *)
Step(env, st, o) ==
    LET n == env.n
        k == env.k
        b == o.h
        boundary == b % n = 0
        inforce == IF boundary THEN Elect(st.cand, st.voters, Total, env.standby, n, env.rank) ELSE st.inforce
        nextC == IF (b + 1) % n = 0 THEN Elect(o.cand, o.voters, Total, env.standby, n, env.rank) ELSE inforce
        (* ---- answers *)
        okCommittee == SeqSet(o.committee) = MemberKeys(inforce) /\ Len(o.committee) = n
        okNextVals == SeqSet(o.nextvals) = ValidatorKeys(inforce, k) /\ Len(o.nextvals) = k
        okCompVals == SeqSet(o.compvals) = ValidatorKeys(nextC, k) /\ Len(o.compvals) = k
        (* ---- OnPersist of the GAS contract *)
        ntx == Len(o.txs)
        okBurn == IF ntx = 0 THEN Len(o.onev) = 0
                  ELSE /\ Len(o.onev) >= ntx
                       /\ \A i \in 1..ntx : /\ o.onev[i].from = o.txs[i].sender /\ o.onev[i].to = Null
                                            /\ o.onev[i].amt = Plus(o.txs[i].sys, o.txs[i].net)
                       /\ \A i \in (ntx + 1)..Len(o.onev) : o.onev[i].to # Null
        vals == ByKey(ValidatorKeys(inforce, k), env.rank)
        primary == env.acct[vals[o.primary + 1]]
        notaryPart == SumSeq([i \in 1..ntx |-> IF o.txs[i].nkeys < 0 THEN Z
                                               ELSE Times(Num(o.txs[i].nkeys + 1), st.nafee)], 1)
        primaryAmt == Minus(SumSeq([i \in 1..ntx |-> o.txs[i].net], 1), notaryPart)
        okPrimary == ntx = 0 \/ primaryAmt = Z
                     \/ /\ Len(o.onev) >= ntx + 1
                        /\ o.onev[ntx + 1] = [from |-> Null, to |-> primary, amt |-> primaryAmt]
        (* ---- PostPersist of the NEO contract: committee reward *)
        gOld == st.g[b + 1]                       \* GasPerBlock of index b as known before the block
        gNew == o.gpb                             \* GasPerBlock of index b + 1 (the block's own changes included)
        member == inforce[(b % n) + 1].key
        crOld == DivFloor(Times(gOld, Num(10)), Num(100))
        crNew == DivFloor(Times(gNew, Num(10)), Num(100))
        crJudged == crOld # Z /\ crNew # Z
        okCommitteeReward == ~crJudged
                             \/ /\ Len(o.postev) >= 1
                                /\ o.postev[1].from = Null /\ o.postev[1].to = env.acct[member]
                                /\ o.postev[1].amt \in {crOld, crNew}
        dReward == ~crJudged \/ Len(o.postev) = 0 \/ o.postev[1].amt = crNew
        (* ---- claims of the block's transactions *)
        touched == {o.neoev[i].from : i \in DOMAIN o.neoev}
                   \cup {o.neoev[i].to : i \in {j \in DOMAIN o.neoev : o.neoev[j].amt > 0 /\ o.neoev[j].from # o.neoev[j].to}}
                   \cup SeqSet(o.votev)
        real == touched \ {Null}
        mintsTo(a) == SelectSeq(o.mints, LAMBDA m : m.to = a)
        MintAmt(a) == SumSeq([i \in 1..Len(mintsTo(a)) |-> mintsTo(a)[i].amt], 1)
        expect(a) == IF a \in real /\ a \in DOMAIN st.neo
                     THEN Claim(st.ps, st.accLo, st.accHi, st.accN, st.accX, st.neo[a].bal, st.neo[a].vote, st.last[a], b)
                     ELSE Nothing
        \* one record per judged account, evaluated once (TLC builds the set eagerly)
        claims == {[a |-> a, amt |-> MintAmt(a), c |-> expect(a)] : a \in real \cup {o.mints[i].to : i \in DOMAIN o.mints}}
        badClaims == {r \in claims : ~InBounds(r.amt, r.c)}
        inexactClaims == {r \in claims : r.amt # r.c.exact}
        (* ---- accrual snapshots after the block's transactions (reward per vote as before PostPersist) *)
        snap(c) == IF c = NoKey THEN [NoSnap EXCEPT !.h = b]
                   ELSE [h |-> b, lo |-> Get(st.accLo, c, Z), hi |-> Get(st.accHi, c, Z), n |-> Get(st.accN, c, 0),
                         x |-> Get(st.accX, c, Z)]
        last1 == [a \in DOMAIN o.neo |-> IF a \in real \/ a \notin DOMAIN st.last THEN snap(o.neo[a].vote) ELSE st.last[a]]
        (* ---- PostPersist: reward per vote of the committee members at an epoch boundary *)
        changed == \/ \E i \in DOMAIN o.neoev : o.neoev[i].amt > 0 /\ o.neoev[i].from # o.neoev[i].to
                   \/ Len(o.votev) > 0
                   \/ {c \in DOMAIN st.cand : st.cand[c].registered} # {c \in DOMAIN o.cand : o.cand[c].registered}
                   \/ DOMAIN st.cand # DOMAIN o.cand
        votesEnd(c) == IF c \in DOMAIN o.cand /\ o.cand[c].registered THEN o.cand[c].votes ELSE 0
        numer(w, G) == Times(Times(Times(Num(w * 80 * n), G), Num(Factor)), Num(Fine))
        denom(v) == Num(100 * (n + k)) \* times v below (v can reach 10^8: kept as a separate factor)
        hiOf(w, G, v) == IF v <= 0 THEN Z ELSE DivCeil(numer(w, G), Times(denom(v), Num(v)))
        loOf(w, G, v) == IF v <= 0 THEN Z ELSE DivFloor(numer(w, G), Times(denom(v), Num(v)))
        codeR == DivFloor(DivFloor(Times(Times(Times(Num(80), gNew), Num(Factor)), Num(n)), Num(n + k)), Num(100))
        xOf(w, v) == IF v <= 0 THEN Z ELSE DivFloor(Times(Num(w), codeR), Num(v))
        idx(c) == CHOOSE i \in 1..n : inforce[i].key = c
        W(c) == IF idx(c) <= k THEN 2 ELSE 1
        V1(c) == inforce[idx(c)].votes
        V2(c) == votesEnd(c)
        Gs == {gOld, gNew}
        MaxOf(S) == CHOOSE m \in S : \A x \in S : Leq(x, m)
        MinOf(S) == CHOOSE m \in S : \A x \in S : Leq(m, x)
        \* one record per member, evaluated once
        incs == {[key |-> c,
                  hi |-> MaxOf({hiOf(W(c), G, v) : G \in Gs, v \in {V1(c), V2(c)}}),
                  lo |-> MinOf({loOf(W(c), G, v) : G \in Gs, v \in {V1(c), V2(c)}}),
                  x |-> xOf(W(c), IF changed THEN V2(c) ELSE V1(c))] : c \in IF boundary THEN MemberKeys(inforce) ELSE {}}
        inc(c) == CHOOSE r \in incs : r.key = c
        incHi(c) == inc(c).hi
        incLo(c) == inc(c).lo
        incX(c) == inc(c).x
        members == MemberKeys(inforce)
        keys1 == IF boundary THEN DOMAIN st.accLo \cup members ELSE DOMAIN st.accLo
        accLo1 == [c \in keys1 |-> IF boundary /\ c \in members THEN Plus(Get(st.accLo, c, Z), incLo(c)) ELSE st.accLo[c]]
        accHi1 == [c \in keys1 |-> IF boundary /\ c \in members THEN Plus(Get(st.accHi, c, Z), incHi(c)) ELSE st.accHi[c]]
        accN1 == [c \in keys1 |-> IF boundary /\ c \in members THEN Get(st.accN, c, 0) + 1 ELSE st.accN[c]]
        \* code-shaped accumulator: the stored value disappears with the candidate record
        keysX == (IF boundary THEN {c \in DOMAIN st.accX \cup members : c \in DOMAIN st.accX \/ incX(c) # Z}
                  ELSE DOMAIN st.accX) \cap DOMAIN o.cand
        accX1 == [c \in keysX |-> IF boundary /\ c \in members THEN Plus(Get(st.accX, c, Z), incX(c)) ELSE st.accX[c]]
        (* ---- unclaimedGas answers after the block *)
        ps1 == Append(st.ps, Plus(st.ps[Len(st.ps)], o.gpb))
        expectU(a) == IF a \in DOMAIN o.neo
                      THEN Claim(ps1, accLo1, accHi1, accN1, accX1, o.neo[a].bal, o.neo[a].vote, last1[a], b + 1)
                      ELSE Nothing
        answers == {[a |-> a, amt |-> o.unclaimed[a], c |-> expectU(a)] : a \in DOMAIN o.unclaimed}
        badUnclaimed == {r \in answers : ~InBounds(r.amt, r.c)}
        inexactUnclaimed == {r \in answers : r.amt # r.c.exact}
        (* ---- code-shaped storage *)
        dStored == o.stored = inforce
        dGpv == \A c \in DOMAIN o.gpv \cup DOMAIN accX1 : Get(o.gpv, c, Z) = Get(accX1, c, Z)
        dHeights == \A a \in DOMAIN o.neo : o.neo[a].bh = last1[a].h
        If(c, name) == IF c THEN {} ELSE {name}
    IN  [fails |-> If(okCommittee, "Committee") \cup If(okNextVals /\ okCompVals, "Validators")
                   \cup If(okBurn, "FeeBurn") \cup If(okPrimary, "PrimaryReward")
                   \cup If(okCommitteeReward, "CommitteeReward")
                   \cup If(badClaims = {}, "Claim") \cup If(badUnclaimed = {}, "Unclaimed"),
         drift |-> If(dStored, "d:StoredCommittee") \cup If(dGpv, "d:GasPerVote") \cup If(dHeights, "d:BalanceHeight")
                   \cup If(dReward, "d:RewardGasPerBlock") \cup If(inexactClaims = {}, "d:ClaimExact")
                   \cup If(inexactUnclaimed = {}, "d:UnclaimedExact"),
         ctx |-> [h |-> b, boundary |-> boundary, elected |-> inforce, next |-> nextC,
                  okNextVals |-> okNextVals, okCompVals |-> okCompVals,
                  member |-> member, primary |-> IF ntx = 0 THEN Null ELSE primary,
                  primaryAmt |-> primaryAmt, committeeReward |-> <<crOld, crNew>>,
                  badClaims |-> {[a |-> r.a, minted |-> r.amt, exact |-> r.c.exact, touched |-> r.a \in real] : r \in badClaims},
                  badUnclaimed |-> {[a |-> r.a, answer |-> r.amt, exact |-> r.c.exact] : r \in badUnclaimed},
                  inexactClaims |-> {[a |-> r.a, minted |-> r.amt, exact |-> r.c.exact] : r \in inexactClaims},
                  inexactUnclaimed |-> {[a |-> r.a, answer |-> r.amt, exact |-> r.c.exact] : r \in inexactUnclaimed},
                  accX |-> accX1],
         next |-> [h |-> b, cand |-> o.cand, voters |-> o.voters, neo |-> o.neo, nafee |-> o.nafee, inforce |-> inforce,
                   g |-> Append(st.g, o.gpb), ps |-> ps1,
                   accLo |-> accLo1, accHi |-> accHi1, accN |-> accN1,
                   \* a code-shaped difference is reported once: the prediction continues from the observed storage
                   accX |-> IF dGpv THEN accX1 ELSE o.gpv, last |-> last1]]

\* the genesis observation: the standby committee answers everything
InitFails(env, o) ==
    LET sb == {env.standby[i] : i \in 1..env.n}
        sv == {env.standby[i] : i \in 1..env.k}
    IN  (IF SeqSet(o.committee) = sb THEN {} ELSE {"Committee"})
        \cup (IF SeqSet(o.nextvals) = sv /\ SeqSet(o.compvals) = sv THEN {} ELSE {"Validators"})
=============================================================================
