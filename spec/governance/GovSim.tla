------------------------------- MODULE GovSim -------------------------------
(* Scenario generator (tlc -simulate): GovImpl over several epochs plus a history variable that is printed as JSON
   when the last block has ended.  The history starts with the initial configuration (who is registered, who votes
   for whom, balances) so that harness/c05gov can realise it on a real chain (blocks 1 and 2), then one element per
   step; "endblock" elements carry what the model predicts the node answers after that block (committee in election
   order with votes, next validators, computed next validators, candidate table, voters count): the driver reports a
   difference between prediction and chain as drift.
   The mix: TLC picks a disjunct of GenNext uniformly, then one of its successor states. *)
EXTENDS MCGov, Json

VARIABLE hist

GenNext ==
    \/ \E c \in Keys : Register(c) \/ Unregister(c)
    \/ \E a \in Acct, c \in Keys \cup {0} : Vote(a, c)
    \/ \E a \in Acct, c \in Keys \cup {0} : Vote(a, c)
    \/ \E a \in Acct, t \in Acct, x \in 0..TotalNeo : x \in {0, 1, Get([i \in DOMAIN neo |-> neo[i].bal], a, 0)} /\ Transfer(a, t, x)
    \/ \E g \in Gpbs : SetGpb(g)
    \/ \E p \in 0..(K - 1) : EndBlock(p)
    \/ \E p \in 0..(K - 1) : EndBlock(p)
    \/ \E p \in 0..(K - 1) : EndBlock(p)

CandSeq(cd) == [c \in Keys |-> IF c \in DOMAIN cd THEN [present |-> TRUE, registered |-> cd[c].registered, votes |-> cd[c].votes]
                             ELSE [present |-> FALSE, registered |-> FALSE, votes |-> 0]]
Predicted == [com |-> com', nvals |-> nvals', nnvals |-> nnvals', cand |-> CandSeq(cand'), voters |-> voters', flag |-> flag']

SimInit == /\ Init
           /\ hist = << [op |-> "init", n |-> N, k |-> K, standby |-> Standby, bal |-> Bal0, total |-> TotalNeo,
                         cand |-> CandSeq(cand), votes |-> [a \in Acct |-> neo[a].vote], b |-> b] >>
SimNext == /\ GenNext
           /\ hist' = Append(hist, IF lastop'.op = "endblock" THEN lastop' @@ [h |-> b, pred |-> Predicted] ELSE lastop')
SimSpec == SimInit /\ [][SimNext]_<<vars, hist>>

Emit == b <= MaxH \/ PrintT(<<"@@HIST@@", ToJson(hist)>>)
=============================================================================
