\* quick variant of MC_Election: one transaction
SPECIFICATION Spec
CONSTANTS
  NA = 3
  NKeys = 4
  Standby <- StandbyM
  N = 3
  K = 2
  TotalNeo = 20
  Bal0 <- Bal0M
  Gpb0 = 1000
  Gpbs <- NoGpbs
  NaFee = 3
  FactorM = 10
  FineM = 1
  RegSets <- RegAll
  UnregVoted <- Unreg2
  InitVotes <- Keys12
  MaxH = 6
  MaxTx = 2
  MaxTotalTx = 1
  WithReg = TRUE
  WithTransfer = FALSE
  WithPolicy = FALSE
  WithNotary = FALSE
  VoteSame = FALSE
  AnyPrimary = FALSE
  Dev <- NoDev
INVARIANTS JudgeOK NoDrift VotesAreSums VotersIsSum CacheShape
VIEW view
CHECK_DEADLOCK FALSE
