\* rewards: transfers (claims on the old balance), votes, GasPerBlock changes, notary-assisted transactions; two transactions in blocks 3..6, boundaries 3 and 6
SPECIFICATION Spec
CONSTANTS
  NA = 3
  NKeys = 4
  Standby <- StandbyM
  N = 3
  K = 2
  TotalNeo = 20
  Bal0 <- Bal0M
  Gpb0 = 1000
  Gpbs <- TwoGpbs
  NaFee = 3
  FactorM = 10
  FineM = 1
  RegSets <- RegOne
  UnregVoted <- Unreg2
  InitVotes <- Keys12
  MaxH = 7
  MaxTx = 2
  MaxTotalTx = 2
  WithReg = FALSE
  WithTransfer = TRUE
  WithPolicy = FALSE
  WithNotary = TRUE
  VoteSame = TRUE
  AnyPrimary = FALSE
  Dev <- NoDev
INVARIANTS JudgeOK NoDrift VotesAreSums VotersIsSum CacheShape
VIEW view
CHECK_DEADLOCK FALSE
