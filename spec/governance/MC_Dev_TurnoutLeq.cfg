\* named deviation TurnoutLeq: TLC must refute it with the JUDGE's rules (invariant JudgeOK)
SPECIFICATION Spec
CONSTANTS
  NA = 3
  NKeys = 4
  Standby <- StandbyM
  N = 3
  K = 2
  TotalNeo = 20
  Bal0 <- Bal0M
  Gpb0 = 1000
  Gpbs <- NoGpbs
  NaFee = 3
  FactorM = 10
  FineM = 1
  RegSets <- RegDev
  UnregVoted <- Unreg2
  InitVotes <- Keys12
  MaxH = 7
  MaxTx = 2
  MaxTotalTx = 1
  WithReg = TRUE
  WithTransfer = TRUE
  WithPolicy = FALSE
  WithNotary = FALSE
  VoteSame = FALSE
  AnyPrimary = FALSE
  Dev <- DevTurnoutLeq
INVARIANTS JudgeOK
VIEW view
CHECK_DEADLOCK FALSE
