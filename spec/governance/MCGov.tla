------------------------------- MODULE MCGov -------------------------------
(* Universes of the exhaustive runs of GovImpl.  Committee of 3 with 2 validators; 4 public keys (rank = number),
   standby committee <<3, 1, 4>> (not in key order); three holders with 2, 2 and 1 units of a total supply of 20
   (a bank holds the rest and never votes): the 20 % turnout threshold is exactly 4 units (two voters with 2 units
   each: voters * 5 = total), 3 units are below it, 5 above. *)
EXTENDS GovImpl

StandbyM == <<3, 1, 4>>
Bal0M == <<2, 2, 1>>
\* election universes: exactly n candidates, one more, one fewer
RegAll == {{1, 2, 4}, {1, 2, 3, 4}, {2, 4}}
RegFew == {{1, 2, 4}, {1, 2, 3, 4}}
RegOne == {{1, 2, 3, 4}}
RegDev == {{1, 2, 4}, {1, 2, 3, 4}, {2, 4}, {1, 3, 4}, {2, 3, 4}}
NoKeys == {}
Keys12 == {1, 2}
Keys124 == {1, 2, 4}
Unreg2 == {2}
NoGpbs == {}
TwoGpbs == {600, 1000}
NoDev == {}
DevStaleFlag == {"StaleFlag"}
DevRefreshLate == {"RefreshLate"}
DevRefreshEarly == {"RefreshEarly"}
DevTieInsertion == {"TieInsertion"}
DevTurnoutLeq == {"TurnoutLeq"}
DevCountUnregistered == {"CountUnregistered"}
DevRewardNext == {"RewardNext"}
DevNoDouble == {"NoDouble"}
DevClaimNewBalance == {"ClaimNewBalance"}
DevNotaryToPrimary == {"NotaryToPrimary"}
DevPolicyNoFlag == {"PolicyNoFlag"}
=============================================================================
