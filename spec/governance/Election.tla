------------------------------ MODULE Election ------------------------------
(* The committee / validator election of the NEO contract as a PURE FUNCTION of the candidate table.
   NEO amounts (votes, voters count, total supply = 10^8) fit TLC's integers (5 * 10^8 < 2^31).

     cand    : public key -> [registered : BOOLEAN, votes : Nat, blocked : BOOLEAN]
               the candidate records that exist; `blocked' = the key's signature account is on the Policy
               contract's block list (such a candidate is not electable)
     voters  : NEO held by all voting accounts ("voters count")
     total   : total NEO supply
     standby : the standby committee (sequence of keys, configuration order), at least n long
     n       : committee size
     rank    : public key -> Int, the total order of public keys (ECPoint order: X, then Y)

   Rule (NEO N3): when less than 20 % of the supply votes (voters * 5 < total) or fewer than n candidates are
   electable, the committee is the standby committee in configuration order; otherwise it is the n electable
   candidates with most votes, ties broken by public key order.  The ORDER of the result is the election order
   (it decides whose turn the committee reward is and who the validators are): validators are the first k
   members.  Answers given to users (getCommittee, getNextBlockValidators) are these sets sorted by key.

   A candidate that unregistered but is still voted for keeps its record (registered = FALSE, votes > 0) and is NOT
   electable.  Each member is returned with the votes it had in the table (0 for a standby member that is not an
   electable candidate): these are the votes the voter reward of the epoch is divided by. *)
EXTENDS Integers, Sequences, FiniteSets

Electable(cand) == {c \in DOMAIN cand : cand[c].registered /\ ~cand[c].blocked}

\* a comes before b in the election order
Before(cand, rank, a, b) == \/ cand[a].votes > cand[b].votes
                            \/ cand[a].votes = cand[b].votes /\ rank[a] < rank[b]

\* the electable candidates in election order (position = 1 + number of candidates that come before)
Ranked(cand, rank) ==
    LET E == Electable(cand)
        Pos(c) == 1 + Cardinality({d \in E : Before(cand, rank, d, c)})
    IN  [i \in 1..Cardinality(E) |-> CHOOSE c \in E : Pos(c) = i]

TurnoutReached(voters, total) == voters * 5 >= total

UseStandby(cand, voters, total, n) ==
    ~TurnoutReached(voters, total) \/ Cardinality(Electable(cand)) < n

Elect(cand, voters, total, standby, n, rank) ==
    IF UseStandby(cand, voters, total, n)
    THEN [i \in 1..n |-> [key |-> standby[i],
                          votes |-> IF standby[i] \in Electable(cand) THEN cand[standby[i]].votes ELSE 0]]
    ELSE LET r == Ranked(cand, rank)
         IN  [i \in 1..n |-> [key |-> r[i], votes |-> cand[r[i]].votes]]

MemberKeys(com) == {com[i].key : i \in DOMAIN com}
ValidatorKeys(com, k) == {com[i].key : i \in 1..k}

\* a set of keys as the sequence sorted by key order
ByKey(S, rank) == [i \in 1..Cardinality(S) |-> CHOOSE c \in S : Cardinality({d \in S : rank[d] < rank[c]}) = i - 1]
=============================================================================
