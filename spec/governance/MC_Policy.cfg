\* the repaired design of Policy block / unblock (votesChanged set): votes and block-list changes, two transactions
SPECIFICATION Spec
CONSTANTS
  NA = 3
  NKeys = 4
  Standby <- StandbyM
  N = 3
  K = 2
  TotalNeo = 20
  Bal0 <- Bal0M
  Gpb0 = 1000
  Gpbs <- NoGpbs
  NaFee = 3
  FactorM = 10
  FineM = 1
  RegSets <- RegFew
  UnregVoted <- Unreg2
  InitVotes <- Keys12
  MaxH = 7
  MaxTx = 2
  MaxTotalTx = 2
  WithReg = FALSE
  WithTransfer = FALSE
  WithPolicy = TRUE
  WithNotary = FALSE
  VoteSame = FALSE
  AnyPrimary = FALSE
  Dev <- NoDev
INVARIANTS JudgeOK VotesAreSums VotersIsSum CacheShape
VIEW view
CHECK_DEADLOCK FALSE
