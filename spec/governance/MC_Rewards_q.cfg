\* quick variant of MC_Rewards: one transaction
SPECIFICATION Spec
CONSTANTS
  NA = 3
  NKeys = 4
  Standby <- StandbyM
  N = 3
  K = 2
  TotalNeo = 20
  Bal0 <- Bal0M
  Gpb0 = 1000
  Gpbs <- TwoGpbs
  NaFee = 3
  FactorM = 10
  FineM = 1
  RegSets <- RegOne
  UnregVoted <- Unreg2
  InitVotes <- Keys124
  MaxH = 7
  MaxTx = 2
  MaxTotalTx = 1
  WithReg = FALSE
  WithTransfer = TRUE
  WithPolicy = FALSE
  WithNotary = TRUE
  VoteSame = TRUE
  AnyPrimary = FALSE
  Dev <- NoDev
INVARIANTS JudgeOK NoDrift VotesAreSums VotersIsSum CacheShape
VIEW view
CHECK_DEADLOCK FALSE
