\* scenarios: four epochs of a committee of 3, up to three transactions per block
SPECIFICATION SimSpec
CONSTANTS
  NA = 3
  NKeys = 4
  Standby <- StandbyM
  N = 3
  K = 2
  TotalNeo = 20
  Bal0 <- Bal0M
  Gpb0 = 1000
  Gpbs <- TwoGpbs
  NaFee = 3
  FactorM = 10
  FineM = 1
  RegSets <- RegDev
  UnregVoted <- Unreg2
  InitVotes <- Keys124
  MaxH = 13
  MaxTx = 3
  MaxTotalTx = 14
  WithReg = TRUE
  WithTransfer = TRUE
  WithPolicy = FALSE
  WithNotary = FALSE
  VoteSame = TRUE
  AnyPrimary = TRUE
  Dev <- NoDev
INVARIANT Emit
CHECK_DEADLOCK FALSE
