------------------------------ MODULE GovTrace ------------------------------
(* Judges what harness/c05gov recorded from real chains against GovJudge, with BigInt limb arithmetic
   (spec/common/BigInt.tla; amounts of GAS reach 10^16, intermediate products 10^40).
   One line per block boundary:
     init  : genesis (height 0) - starts a new history; carries the network (committee size n, validators k, the
             standby committee, every public key the history can use with its rank in key order and its account)
     block : the observation of block h (see GovJudge: candidate table, voters count, NEO accounts, GasPerBlock,
             the node's committee / validator answers, the block's fees and primary index, the GAS Transfer events
             of its OnPersist / PostPersist executions, the NEO Transfer and Vote events and the GAS mints of its
             successful transactions, unclaimedGas answers, and - code-shaped - the stored committee, the stored
             rewards per vote and the balance heights)
   The module is total and reporting (TraceIO): every line is consumed; a line that breaks an abstract rule or
   differs from a code-shaped prediction ("d:..." names) is printed as @@FAIL@@. *)
EXTENDS TraceIO, FiniteSets

BI == INSTANCE BigInt
J == INSTANCE GovJudge WITH Z <- BI!Zero,
                            Plus <- LAMBDA x, y : BI!Add(x, y), Minus <- LAMBDA x, y : BI!Sub(x, y),
                            Times <- LAMBDA x, y : BI!Mul(x, y),
                            DivFloor <- LAMBDA x, y : BI!Quo(x, y),
                            DivCeil <- LAMBDA x, y : BI!Quo(BI!Add(x, BI!Sub(y, BI!One)), y),
                            Leq <- LAMBDA x, y : BI!Le(x, y), Num <- LAMBDA i : BI!FromInt(i),
                            NoKey <- "", Null <- "", Total <- 100000000, Factor <- 100000000, Fine <- 1000000

VARIABLES l, env, st
vars == <<l, env, st>>

Init == l = 1 /\ env = <<>> /\ st = <<>>

EnvOf(e) == [n |-> e.n, k |-> e.k, standby |-> e.standby,
             rank |-> [c \in DOMAIN e.keys |-> e.keys[c].rank],
             acct |-> [c \in DOMAIN e.keys |-> e.keys[c].acct]]

Step ==
    /\ l <= Len(TLog)
    /\ l' = l + 1
    /\ LET e == TLog[l] IN
       IF e.event = "init"
       THEN /\ env' = EnvOf(e)
            /\ st' = J!InitState(EnvOf(e), e)
            /\ Report(l, J!InitFails(EnvOf(e), e), [hist |-> e.hist, h |-> 0])
       ELSE LET r == J!Step(env, st, e) IN
            /\ env' = env
            /\ st' = r.next
            /\ Report(l, r.fails \cup r.drift, [hist |-> e.hist] @@ r.ctx)

TraceSpec == Init /\ [][Step]_vars
=============================================================================
