------------------------------ MODULE GovImpl ------------------------------
(* Code-shaped model of the governance side of pkg/core/native/native_neo.go / native_gas.go, small numbers.
   One action per state-changing entry point, with the caches the code keeps:

     Register / Unregister / Vote / Transfer / Block / Unblock / SetGpb / NotaryTx   transactions of the open block b
     EndBlock(p)   PostPersist of block b (committee reward, at an epoch boundary the reward per vote of the members,
                   in the last block of an epoch the refresh of the newEpoch* cache if votesChanged), the OBSERVATION
                   of the block (what harness/c05gov records from a real node), then OnPersist of block b+1
                   (at an epoch boundary newEpoch* becomes the committee in force, votesChanged is reset)

   cache:  flag = votesChanged, com = committee with votes (= the stored committee), nvals = nextValidators,
           ncom / nnvals = newEpochCommittee / newEpochNextValidators;  gpvS = stored reward per vote (+ its cache);
           per account bh = BalanceHeight, lgpv = LastGasPerVote.

   Every observation is judged by the SAME judge as real traces (GovJudge, instantiated with TLC integers):
   JudgeOK (no abstract rule broken) and NoDrift (the code-shaped predictions of the judge agree with this model)
   are invariants.  Named deviations (Dev) that TLC must refute:
     StaleFlag          re-registration of a candidate whose record still exists does not set votesChanged
     RefreshLate/Early  newEpoch* refreshed in the first block of an epoch / one block before the last
     TieInsertion       ties broken by registration order instead of key order
     TurnoutLeq         standby committee also when voters * 5 = total
     CountUnregistered  a candidate that unregistered but is still voted for is electable
     RewardNext         committee reward paid to member (index + 1) mod n
     NoDouble           validators' reward per vote not doubled
     ClaimNewBalance    claim computed with the balance after the transfer
     NotaryToPrimary    NotaryAssisted part of the network fee also given to the primary
     PolicyNoFlag       block / unblock of a candidate's account does not set votesChanged  (= the code as it is,
                        see the finding reported with this extension; the default model has the repaired design)
   Accounts are integers: holders 1..NA, the account of key c is 100 + c, 99 the committee, 98 Notary, 0 = null.
   The model starts with block 3 open (committee size 3): blocks 1 and 2 distributed NEO, registered the initial
   candidates and cast the initial votes - exactly what the scenario driver does on a real chain. *)
EXTENDS Integers, Sequences, FiniteSets, TLC

CONSTANTS NA, NKeys, Standby, N, K, TotalNeo, Bal0, Gpb0, Gpbs, NaFee, FactorM, FineM,
          RegSets,       \* possible sets of initially registered keys
          UnregVoted,    \* keys that may start as "unregistered but still voted for"
          InitVotes,     \* keys the initial votes may go to
          MaxH, MaxTx, MaxTotalTx, WithReg, WithTransfer, WithPolicy, WithNotary, VoteSame, AnyPrimary,
          Dev

Acct == 1..NA
Keys == 1..NKeys
KeyAcct(c) == 100 + c
Committee99 == 99
Notary98 == 98

J == INSTANCE GovJudge WITH Z <- 0, Plus <- LAMBDA x, y : x + y, Minus <- LAMBDA x, y : x - y,
                            Times <- LAMBDA x, y : x * y, DivFloor <- LAMBDA x, y : x \div y,
                            DivCeil <- LAMBDA x, y : (x + y - 1) \div y, Leq <- LAMBDA x, y : x <= y,
                            Num <- LAMBDA i : i, NoKey <- 0, Null <- 0, Total <- TotalNeo, Factor <- FactorM, Fine <- FineM

VARIABLES b, ntx, ttx, cand, blocked, voters, neo, gpvS, grec, flag, com, nvals, ncom, nnvals,
          txs, neoev, votev, mints, regOrder, st, fails, drift, lastop
state == <<b, ntx, ttx, cand, blocked, voters, neo, gpvS, grec, flag, com, nvals, ncom, nnvals, txs, neoev, votev, mints, regOrder>>
vars == <<state, st, fails, drift, lastop>>

Env == [n |-> N, k |-> K, standby |-> Standby, rank |-> [c \in Keys |-> c], acct |-> [c \in Keys |-> KeyAcct(c)]]
Get(f, x, d) == IF x \in DOMAIN f THEN f[x] ELSE d
Without(f, x) == [y \in DOMAIN f \ {x} |-> f[y]]
With(f, x, v) == [y \in DOMAIN f \cup {x} |-> IF y = x THEN v ELSE f[y]]
RECURSIVE SumTo(_, _, _)
SumTo(F(_), from, to) == IF from >= to THEN 0 ELSE F(from) + SumTo(F, from + 1, to)

(* ---- GasPerBlock records: the latest record whose index is <= idx *)
RECURSIVE GpbFrom(_, _, _)
GpbFrom(rec, i, idx) == IF rec[i].idx <= idx THEN rec[i].val ELSE GpbFrom(rec, i - 1, idx)
GpbAt(rec, idx) == GpbFrom(rec, Len(rec), idx)

(* ---- calculateBonus *)
Bonus(rec, gpv, s, bal, end) ==
    LET S == LET G(j) == GpbAt(rec, j) IN SumTo(G, s.bh, end)
        holder == (bal * S * 10) \div (100 * TotalNeo)
        voter == IF s.vote = 0 THEN 0 ELSE ((Get(gpv, s.vote, 0) - s.lgpv) * bal) \div FactorM
    IN  holder + voter

(* ---- computeCommitteeMembers, with the named deviations *)
Compute(cd, bl, vt, order) ==
    LET tab == [c \in DOMAIN cd |-> [registered |-> cd[c].registered \/ "CountUnregistered" \in Dev,
                                     votes |-> cd[c].votes, blocked |-> c \in bl]]
        rk == IF "TieInsertion" \in Dev
              THEN [c \in Keys |-> IF \E i \in DOMAIN order : order[i] = c THEN CHOOSE i \in DOMAIN order : order[i] = c ELSE 100 + c]
              ELSE [c \in Keys |-> c]
        v == IF "TurnoutLeq" \in Dev /\ vt * 5 = TotalNeo THEN vt - 1 ELSE vt
    IN  J!Elect(tab, v, TotalNeo, Standby, N, rk)
ValsOf(c) == {c[i].key : i \in 1..K}

DropIfZero(cd, c) == c \in DOMAIN cd /\ ~cd[c].registered /\ cd[c].votes = 0
\* ModifyAccountVotes(acc, value, isNewVote)
AddVotes(cd, gp, c, x, isNew) ==
    IF c = 0 THEN [cand |-> cd, gpv |-> gp]
    ELSE LET cd1 == [cd EXCEPT ![c].votes = @ + x]
         IN  IF ~isNew /\ DropIfZero(cd1, c) THEN [cand |-> Without(cd1, c), gpv |-> Without(gp, c)]
             ELSE [cand |-> cd1, gpv |-> gp]

Fee(sender) == [sender |-> sender, sys |-> 2, net |-> 1, nkeys |-> -1]
CanTx == ntx < MaxTx /\ ttx < MaxTotalTx /\ b < MaxH      \* the last block is empty
Count(tx) == /\ ntx' = ntx + 1 /\ ttx' = ttx + 1 /\ txs' = Append(txs, tx) /\ UNCHANGED <<st, fails, drift>>

(* ------------------------------------------------------------------ transactions *)
Register(c) ==
    /\ CanTx /\ (IF c \in DOMAIN cand THEN ~cand[c].registered ELSE TRUE)
    /\ cand' = With(cand, c, [registered |-> TRUE, votes |-> IF c \in DOMAIN cand THEN cand[c].votes ELSE 0])
    /\ flag' = IF "StaleFlag" \in Dev /\ c \in DOMAIN cand THEN flag ELSE TRUE
    /\ regOrder' = IF \E i \in DOMAIN regOrder : regOrder[i] = c THEN regOrder ELSE Append(regOrder, c)
    /\ Count(Fee(KeyAcct(c)))
    /\ lastop' = [op |-> "register", c |-> c]
    /\ UNCHANGED <<b, blocked, voters, neo, gpvS, grec, com, nvals, ncom, nnvals, neoev, votev, mints>>

Unregister(c) ==
    /\ CanTx /\ c \in DOMAIN cand /\ cand[c].registered
    /\ LET cd1 == [cand EXCEPT ![c].registered = FALSE]
       IN  IF DropIfZero(cd1, c) THEN cand' = Without(cd1, c) /\ gpvS' = Without(gpvS, c)
           ELSE cand' = cd1 /\ gpvS' = gpvS
    /\ flag' = TRUE
    /\ Count(Fee(KeyAcct(c)))
    /\ lastop' = [op |-> "unregister", c |-> c]
    /\ UNCHANGED <<b, blocked, voters, neo, grec, com, nvals, ncom, nnvals, neoev, votev, mints, regOrder>>

\* distributeGas: the account's state after a claim in block b and the amount (0 = nothing minted)
Claimed(s, bal) == IF s.bh = b THEN [s |-> s, amt |-> 0]
                   ELSE [s |-> [s EXCEPT !.bh = b, !.lgpv = IF s.vote = 0 THEN @ ELSE Get(gpvS, s.vote, 0)],
                         amt |-> Bonus(grec, gpvS, s, bal, b)]
MintOf(a, amt) == IF amt > 0 THEN <<[to |-> a, amt |-> amt]>> ELSE <<>>

Vote(a, c) ==
    /\ CanTx /\ a \in DOMAIN neo /\ (c = 0 \/ (c \in DOMAIN cand /\ cand[c].registered))
    /\ (VoteSame \/ c # neo[a].vote)
    /\ LET s == neo[a]
           cl == Claimed(s, s.bal)
           r1 == AddVotes(cand, gpvS, s.vote, 0 - s.bal, FALSE)
           lg == IF c = 0 THEN 0 ELSE Get(r1.gpv, c, 0)
           r2 == AddVotes(r1.cand, r1.gpv, c, s.bal, TRUE)
       IN  /\ voters' = IF (s.vote = 0) # (c = 0) THEN (IF c = 0 THEN voters - s.bal ELSE voters + s.bal) ELSE voters
           /\ cand' = r2.cand /\ gpvS' = r2.gpv
           /\ neo' = [neo EXCEPT ![a] = [cl.s EXCEPT !.vote = c, !.lgpv = lg]]
           /\ mints' = mints \o MintOf(a, cl.amt)
    /\ flag' = TRUE
    /\ votev' = Append(votev, a)
    /\ Count(Fee(a))
    /\ lastop' = [op |-> "vote", a |-> a, c |-> c]
    /\ UNCHANGED <<b, blocked, grec, com, nvals, ncom, nnvals, neoev, regOrder>>

Transfer(a, t, x) ==
    /\ CanTx /\ a \in DOMAIN neo /\ x \in 0..neo[a].bal /\ t \in Acct
    /\ neoev' = Append(neoev, [from |-> a, to |-> t, amt |-> x])
    /\ Count(Fee(a))
    /\ lastop' = [op |-> "transfer", a |-> a, t |-> t, x |-> x]
    /\ IF a = t \/ x = 0
       THEN LET cl == Claimed(neo[a], neo[a].bal)
            IN  /\ neo' = [neo EXCEPT ![a] = cl.s]
                /\ mints' = mints \o MintOf(a, cl.amt)
                /\ UNCHANGED <<cand, gpvS, voters, flag>>
       ELSE LET sa == neo[a]
                cla == Claimed(sa, IF "ClaimNewBalance" \in Dev THEN sa.bal - x ELSE sa.bal)
                r1 == AddVotes(cand, gpvS, sa.vote, 0 - x, FALSE)
                v1 == IF sa.vote = 0 THEN voters ELSE voters - x
                neo1 == IF sa.bal = x THEN Without(neo, a) ELSE [neo EXCEPT ![a] = [cla.s EXCEPT !.bal = @ - x]]
                st0 == IF t \in DOMAIN neo1 THEN neo1[t] ELSE [bal |-> 0, vote |-> 0, bh |-> 0, lgpv |-> 0]
                \* a brand-new state has height 0 and balance 0: its claim is 0 and only sets the height
                clt == LET base == [s |-> [st0 EXCEPT !.bh = b, !.lgpv = IF st0.vote = 0 THEN @ ELSE Get(r1.gpv, st0.vote, 0)],
                                    amt |-> Bonus(grec, r1.gpv, st0, IF "ClaimNewBalance" \in Dev THEN st0.bal + x ELSE st0.bal, b)]
                       IN  IF st0.bh = b THEN [s |-> st0, amt |-> 0] ELSE base
                r2 == AddVotes(r1.cand, r1.gpv, st0.vote, x, FALSE)
                v2 == IF st0.vote = 0 THEN v1 ELSE v1 + x
            IN  /\ neo' = With(neo1, t, [clt.s EXCEPT !.bal = @ + x])
                /\ cand' = r2.cand /\ gpvS' = r2.gpv /\ voters' = v2
                /\ mints' = mints \o MintOf(a, cla.amt) \o MintOf(t, clt.amt)
                /\ flag' = TRUE
    /\ UNCHANGED <<b, blocked, grec, com, nvals, ncom, nnvals, votev, regOrder>>

SetBlocked(c, on) ==
    /\ WithPolicy /\ CanTx /\ (c \in blocked) # on
    /\ blocked' = IF on THEN blocked \cup {c} ELSE blocked \ {c}
    /\ flag' = IF "PolicyNoFlag" \in Dev THEN flag ELSE TRUE
    /\ Count(Fee(Committee99))
    /\ lastop' = [op |-> IF on THEN "block" ELSE "unblock", c |-> c]
    /\ UNCHANGED <<b, cand, voters, neo, gpvS, grec, com, nvals, ncom, nnvals, neoev, votev, mints, regOrder>>

SetGpb(g) ==
    /\ CanTx /\ g \in Gpbs /\ g # GpbAt(grec, b + 1)
    /\ grec' = Append(grec, [idx |-> b + 1, val |-> g])
    /\ Count(Fee(Committee99))
    /\ lastop' = [op |-> "setgpb", g |-> g]
    /\ UNCHANGED <<b, cand, blocked, voters, neo, gpvS, flag, com, nvals, ncom, nnvals, neoev, votev, mints, regOrder>>

NotaryTx(nk) ==
    /\ WithNotary /\ CanTx
    /\ Count([sender |-> Notary98, sys |-> 1, net |-> 1 + (nk + 1) * NaFee, nkeys |-> nk])
    /\ lastop' = [op |-> "notarytx", nk |-> nk]
    /\ UNCHANGED <<b, cand, blocked, voters, neo, gpvS, grec, flag, com, nvals, ncom, nnvals, neoev, votev, mints, regOrder>>

(* ------------------------------------------------------------------ block boundary *)
RECURSIVE SumNet(_, _)
SumNet(s, i) == IF i > Len(s) THEN 0 ELSE s[i].net + SumNet(s, i + 1)
RECURSIVE SumNotary(_, _)
SumNotary(s, i) == IF i > Len(s) THEN 0 ELSE (IF s[i].nkeys < 0 THEN 0 ELSE (s[i].nkeys + 1) * NaFee) + SumNotary(s, i + 1)

\* gasPerVote after PostPersist of a boundary block
RECURSIVE Accrue(_, _, _)
Accrue(gp, i, R) ==
    IF i > N THEN gp
    ELSE LET c == com[i].key
             v == IF flag THEN (IF c \in DOMAIN cand /\ cand[c].registered THEN cand[c].votes ELSE -1) ELSE com[i].votes
             w == IF i <= K /\ "NoDouble" \notin Dev THEN 2 ELSE 1
         IN  Accrue(IF v > 0 THEN With(gp, c, Get(gp, c, 0) + (w * R) \div v) ELSE gp, i + 1, R)

EndBlock(p) ==
    /\ b <= MaxH /\ p \in 0..(K - 1) /\ (AnyPrimary \/ p = (b + ntx) % K)
    /\ LET G == GpbAt(grec, b + 1)
           ridx == IF "RewardNext" \in Dev THEN ((b + 1) % N) + 1 ELSE (b % N) + 1
           cr == (G * 10) \div 100
           postev == IF cr > 0 THEN <<[from |-> 0, to |-> KeyAcct(com[ridx].key), amt |-> cr]>> ELSE <<>>
           R == (((80 * G) * (FactorM * N)) \div (N + K)) \div 100
           gpv1 == IF b % N = 0 THEN Accrue(gpvS, 1, R) ELSE gpvS
           refresh == IF "RefreshLate" \in Dev THEN b % N = 0
                      ELSE IF "RefreshEarly" \in Dev THEN (b + 2) % N = 0 ELSE (b + 1) % N = 0
           ncom1 == IF refresh /\ flag THEN Compute(cand, blocked, voters, regOrder) ELSE ncom
           nnvals1 == IF refresh /\ flag THEN ValsOf(ncom1) ELSE nnvals
           vals == J!ByKey(nvals, [c \in Keys |-> c])
           nota == SumNotary(txs, 1)
           burns == [i \in 1..Len(txs) |-> [from |-> txs[i].sender, to |-> 0, amt |-> txs[i].sys + txs[i].net]]
           pamt == SumNet(txs, 1) - (IF "NotaryToPrimary" \in Dev THEN 0 ELSE nota)
           onev == IF Len(txs) = 0 THEN <<>>
                   ELSE burns \o (IF pamt > 0 THEN <<[from |-> 0, to |-> KeyAcct(vals[p + 1]), amt |-> pamt]>> ELSE <<>>)
                        \o (IF nota > 0 THEN <<[from |-> 0, to |-> 97, amt |-> nota]>> ELSE <<>>)
           o == [h |-> b,
                 cand |-> [c \in DOMAIN cand |-> [registered |-> cand[c].registered, votes |-> cand[c].votes, blocked |-> c \in blocked]],
                 voters |-> voters,
                 neo |-> [a \in DOMAIN neo |-> [bal |-> neo[a].bal, vote |-> neo[a].vote, bh |-> neo[a].bh]],
                 gpb |-> G, nafee |-> NaFee,
                 committee |-> [i \in 1..N |-> com[i].key],
                 nextvals |-> J!ByKey(nvals, [c \in Keys |-> c]),
                 compvals |-> J!ByKey(nnvals1, [c \in Keys |-> c]),
                 primary |-> p, txs |-> txs, onev |-> onev, postev |-> postev,
                 neoev |-> neoev, votev |-> votev, mints |-> mints,
                 unclaimed |-> [a \in DOMAIN neo |-> Bonus(grec, gpv1, neo[a], neo[a].bal, b + 1)],
                 stored |-> com, gpv |-> gpv1]
           r == J!Step(Env, st, o)
       IN  /\ gpvS' = gpv1 /\ ncom' = ncom1 /\ nnvals' = nnvals1
           /\ st' = r.next /\ fails' = r.fails /\ drift' = r.drift
           \* OnPersist of the next block
           /\ IF (b + 1) % N = 0 THEN com' = ncom1 /\ nvals' = nnvals1 /\ flag' = FALSE
              ELSE UNCHANGED <<com, nvals, flag>>
    /\ b' = b + 1 /\ ntx' = 0 /\ txs' = <<>> /\ neoev' = <<>> /\ votev' = <<>> /\ mints' = <<>>
    /\ lastop' = [op |-> "endblock", p |-> p]
    /\ UNCHANGED <<ttx, cand, blocked, voters, neo, grec, regOrder>>

(* ------------------------------------------------------------------ initial states *)
\* block 1 distributed the NEO (balance heights 1), block 2 registered and voted (heights of voters 2)
InitTable(reg, vt) ==
    LET voted == {vt[a] : a \in Acct} \ {0}
        VotesFor(c) == LET F(a) == IF vt[a] = c THEN Bal0[a] ELSE 0 IN SumTo(F, 1, NA + 1)
    IN  [c \in reg \cup voted |-> [registered |-> c \in reg, votes |-> VotesFor(c)]]

InitJudge(tab, vt, vcount, G) ==
    [h |-> 2, cand |-> [c \in DOMAIN tab |-> [registered |-> tab[c].registered, votes |-> tab[c].votes, blocked |-> FALSE]],
     voters |-> vcount,
     neo |-> [a \in Acct |-> [bal |-> Bal0[a], vote |-> vt[a], bh |-> IF vt[a] = 0 THEN 1 ELSE 2]],
     nafee |-> NaFee,
     inforce |-> [i \in 1..N |-> [key |-> Standby[i], votes |-> 0]],
     g |-> <<G, G, G, G>>, ps |-> <<0, G, 2 * G, 3 * G, 4 * G>>,
     accLo |-> <<>>, accHi |-> <<>>, accN |-> <<>>, accX |-> <<>>,
     last |-> [a \in Acct |-> [J!NoSnap EXCEPT !.h = IF vt[a] = 0 THEN 1 ELSE 2]]]

Init ==
    \E reg \in RegSets, vt \in [Acct -> InitVotes \cup {0}] :
       /\ \A a \in Acct : vt[a] = 0 \/ vt[a] \in reg \cup UnregVoted
       /\ LET tab == InitTable(reg, vt)
              vc == LET F(a) == IF vt[a] = 0 THEN 0 ELSE Bal0[a] IN SumTo(F, 1, NA + 1)
              c0 == Compute(tab, {}, vc, <<>>)
          IN  /\ cand = tab /\ voters = vc
              /\ neo = [a \in Acct |-> [bal |-> Bal0[a], vote |-> vt[a], bh |-> IF vt[a] = 0 THEN 1 ELSE 2, lgpv |-> 0]]
              /\ com = c0 /\ ncom = c0 /\ nvals = ValsOf(c0) /\ nnvals = ValsOf(c0)
              /\ st = InitJudge(tab, vt, vc, Gpb0)
              /\ regOrder = J!ByKey(reg, [c \in Keys |-> c])
    /\ b = 3 /\ ntx = 0 /\ ttx = 0 /\ blocked = {} /\ gpvS = <<>> /\ grec = <<[idx |-> 0, val |-> Gpb0]>>
    /\ flag = FALSE /\ txs = <<>> /\ neoev = <<>> /\ votev = <<>> /\ mints = <<>>
    /\ fails = {} /\ drift = {} /\ lastop = [op |-> "init"]

Next ==
    \/ \E c \in Keys : WithReg /\ (Register(c) \/ Unregister(c))
    \/ \E a \in Acct, c \in Keys \cup {0} : Vote(a, c)
    \/ \E a \in Acct, t \in Acct, x \in 0..TotalNeo : WithTransfer /\ x \in {0, 1, Get([i \in DOMAIN neo |-> neo[i].bal], a, 0)} /\ Transfer(a, t, x)
    \/ \E c \in Keys : SetBlocked(c, TRUE) \/ SetBlocked(c, FALSE)
    \/ \E g \in Gpbs : SetGpb(g)
    \/ \E nk \in 0..1 : NotaryTx(nk)
    \/ \E p \in 0..(K - 1) : EndBlock(p)

Spec == Init /\ [][Next]_vars
view == <<state, st, fails, drift>>

(* ------------------------------------------------------------------ what TLC checks *)
JudgeOK == fails = {}
NoDrift == drift = {}
\* conservation inside the model (the C05 laws the token model checks on its own; here as a sanity check of this model)
VotesAreSums == \A c \in DOMAIN cand :
                   cand[c].votes = LET F(a) == IF a \in DOMAIN neo /\ neo[a].vote = c THEN neo[a].bal ELSE 0 IN SumTo(F, 1, NA + 1)
VotersIsSum == voters = LET F(a) == IF a \in DOMAIN neo /\ neo[a].vote # 0 THEN neo[a].bal ELSE 0 IN SumTo(F, 1, NA + 1)
CacheShape == /\ nvals = ValsOf(com) /\ nnvals = ValsOf(ncom)
              /\ (~flag /\ (b % N) # 0 => TRUE)
=============================================================================
