-------------------------------- MODULE DBFT --------------------------------
(***************************************************************************)
(* dBFT 2.0 as integrated by the node (pkg/consensus on top of             *)
(* nspcc-dev/dbft v0.4.0), one block height.  Implementation shaped: one   *)
(* action per event the service's event loop handles (a timer firing, one  *)
(* delivered payload, a block arriving through the chain instead of        *)
(* consensus).  The network is a set of sent payloads; Deliver(m, v) hands *)
(* any sent payload to any validator at most once (the node's extensible   *)
(* pool drops duplicates before the service sees them), in any order;      *)
(* a payload never delivered is a lost one.  Up to F validators may be     *)
(* silent at any moment (they neither send nor process), and the silent    *)
(* set changes over time.                                                   *)
(*                                                                         *)
(* Recovery traffic (RecoveryRequest / RecoveryMessage) is not a separate   *)
(* action: a RecoveryMessage re-delivers payloads its sender knows, which   *)
(* Deliver already allows for every payload at any time.  The binding       *)
(* exercises it on the real services (the harness loses every direct        *)
(* payload of one type so that only recovery can carry it).                 *)
(* Dead end of dBFT 2.0 (CommitLock): a validator that committed in view v  *)
(* never leaves v; once another validator is past v the two can never       *)
(* count each other - DBFTTrace exempts exactly that situation from the     *)
(* Progress judgement of a height left over from an asynchronous period.    *)
(*                                                                         *)
(* Safety judged: Agreement - no two validators accept different blocks.   *)
(* Progress: with nobody silent and every payload eventually delivered     *)
(* and timers eventually firing, every validator eventually accepts.       *)
(***************************************************************************)
EXTENDS Integers, FiniteSets, TLC

CONSTANTS N,        \* number of validators, numbered 0..N-1
          MaxView,  \* views explored: 0..MaxView
          Height,   \* block index being agreed on (determines the primary rotation)
          InitSilentSets,   \* the possible initial silent sets (each of at most F members)
          BugNoCommitLock,  \* named deviation: a validator may change view after it sent a commit
          BugQuorum,        \* named deviation: M-1 commits are enough to accept a block
          MaxSilentChanges  \* how many times the adversary may change the silent set after the initial choice

F == (N - 1) \div 3
M == N - F
Val == 0..(N - 1)
Views == 0..MaxView
None == -1


Mod(a, b) == a - b * (a \div b)
PrimaryOf(w) == Mod(Mod(Height - w, N) + N, N)

VARIABLES view,      \* view[v]
          reqSeen,   \* validator has the PrepareRequest of its current view (sent or received)
          commitV,   \* view in which v sent its Commit, None if it has not
          accepted,  \* view of the block v accepted (a block is identified by the view it was proposed in), None
          cvReq,     \* highest view v asked to change to (ChangeView sent), 0 if none
          msgs,      \* set of payloads ever sent
          seen,      \* seen[v]: payloads delivered to v
          silent,    \* currently silent validators
          sc         \* silent-set changes made so far

vars == <<view, reqSeen, commitV, accepted, cvReq, msgs, seen, silent, sc>>

Msg(t, f, w) == [type |-> t, from |-> f, view |-> w]

Init ==
    /\ view = [v \in Val |-> 0]
    /\ reqSeen = [v \in Val |-> FALSE]
    /\ commitV = [v \in Val |-> None]
    /\ accepted = [v \in Val |-> None]
    /\ cvReq = [v \in Val |-> 0]
    /\ msgs = {}
    /\ seen = [v \in Val |-> {}]
    /\ silent \in {S \in InitSilentSets : Cardinality(S) <= F}
    /\ sc = 0

Active(v) == v \notin silent /\ accepted[v] = None

\* payloads v knows of: delivered ones and its own
Known(v) == seen[v] \cup {m \in msgs : m.from = v}

Preps(v, w)   == {m.from : m \in {x \in Known(v) : x.type \in {"PrepareRequest", "PrepareResponse"} /\ x.view = w}}
Commits(v, w) == {m.from : m \in {x \in Known(v) : x.type = "Commit" /\ x.view = w}}
CVs(v, w)     == {m.from : m \in {x \in Known(v) : x.type = "ChangeView" /\ x.view >= w}}

\* the derived reactions of the service after any event (checkPrepare / checkCommit / checkChangeView)
\* are folded into the event's action through these operators
CanCommit(v, kn, rs, w)  == rs /\ Cardinality({m.from : m \in {x \in kn : x.type \in {"PrepareRequest", "PrepareResponse"} /\ x.view = w}}) >= M
CanAccept(kn, rs, w)     == rs /\ Cardinality({m.from : m \in {x \in kn : x.type = "Commit" /\ x.view = w}}) >= (IF BugQuorum THEN M - 1 ELSE M)

\* A timer fires.
Timeout(v) ==
    /\ Active(v)
    /\ IF PrimaryOf(view[v]) = v /\ ~reqSeen[v] /\ commitV[v] = None
       THEN /\ msgs' = msgs \cup {Msg("PrepareRequest", v, view[v])}
            /\ reqSeen' = [reqSeen EXCEPT ![v] = TRUE]
            /\ UNCHANGED <<cvReq, commitV>>
       ELSE IF commitV[v] = None /\ view[v] < MaxView
       THEN /\ msgs' = msgs \cup {Msg("ChangeView", v, view[v] + 1)}
            /\ cvReq' = [cvReq EXCEPT ![v] = view[v] + 1]
            /\ UNCHANGED <<reqSeen, commitV>>
       ELSE UNCHANGED <<msgs, reqSeen, cvReq, commitV>>   \* committed: only recovery traffic, not modelled
    /\ UNCHANGED <<view, accepted, seen, silent, sc>>

\* A payload that can still matter to v: not of a view v has left (a validator never goes back)
Relevant(m, v) == IF m.type = "ChangeView" THEN m.view > view[v] ELSE m.view >= view[v]

\* One payload is handed to v's service.
Deliver(m, v) ==
    /\ Active(v) /\ m \in msgs /\ m.from # v /\ m \notin seen[v] /\ Relevant(m, v)
    /\ seen' = [seen EXCEPT ![v] = @ \cup {m}]
    /\ LET kn == Known(v) \cup {m}
           w  == view[v]
           \* change view first: M validators asked for a view above ours and we are not locked by a commit
           nv == IF (BugNoCommitLock \/ commitV[v] = None) /\ \E x \in Views : x > w /\ Cardinality({y.from : y \in {z \in kn : z.type = "ChangeView" /\ z.view >= x}}) >= M
                 THEN CHOOSE x \in Views : /\ x > w
                                           /\ Cardinality({y.from : y \in {z \in kn : z.type = "ChangeView" /\ z.view >= x}}) >= M
                                           /\ \A x2 \in Views : (x2 > x) => Cardinality({y.from : y \in {z \in kn : z.type = "ChangeView" /\ z.view >= x2}}) < M
                 ELSE w
           changed == nv # w
           \* a PrepareRequest of our view from its primary, accepted unless we are asking to leave the view
           rs == IF changed THEN FALSE
                 ELSE reqSeen[v] \/ (m.type = "PrepareRequest" /\ m.view = w /\ m.from = PrimaryOf(w) /\ cvReq[v] <= w /\ commitV[v] = None)
           newResp == ~changed /\ rs /\ ~reqSeen[v]
           cm == IF changed THEN (IF BugNoCommitLock THEN None ELSE commitV[v])
                 ELSE IF commitV[v] = None /\ CanCommit(v, kn \cup (IF newResp THEN {Msg("PrepareResponse", v, w)} ELSE {}), rs, w) THEN w ELSE commitV[v]
           newCommit == cm # commitV[v]
           out == (IF newResp THEN {Msg("PrepareResponse", v, w)} ELSE {}) \cup (IF newCommit THEN {Msg("Commit", v, w)} ELSE {})
           acc == IF cm # None /\ cm = nv /\ CanAccept(kn \cup out, rs, nv) THEN nv ELSE None
       IN  /\ view' = [view EXCEPT ![v] = nv]
           /\ reqSeen' = [reqSeen EXCEPT ![v] = rs]
           /\ commitV' = [commitV EXCEPT ![v] = cm]
           /\ msgs' = msgs \cup out
           /\ accepted' = [accepted EXCEPT ![v] = acc]
           /\ UNCHANGED <<cvReq, silent, sc>>

\* A block accepted by somebody reaches v through ordinary block synchronisation (handleChainBlock).
SyncBlock(v) ==
    /\ v \notin silent /\ accepted[v] = None
    /\ \E u \in Val : accepted[u] # None /\ accepted' = [accepted EXCEPT ![v] = accepted[u]]
    /\ UNCHANGED <<view, reqSeen, commitV, cvReq, msgs, seen, silent, sc>>

\* The adversary changes who is silent (at most F at a time).
SetSilent(S) ==
    /\ Cardinality(S) <= F /\ S # silent /\ sc < MaxSilentChanges
    /\ silent' = S /\ sc' = sc + 1
    /\ UNCHANGED <<view, reqSeen, commitV, accepted, cvReq, msgs, seen>>

Next ==
    \/ \E v \in Val : Timeout(v) \/ SyncBlock(v)
    \/ \E v \in Val, m \in msgs : Deliver(m, v)
    \/ \E S \in SUBSET Val : SetSilent(S)

Spec == Init /\ [][Next]_vars

\* all honest, synchronous: nobody is ever silent, every payload is eventually delivered, and timers are slower than
\* the network - a timer fires only when no deliverable payload is left (what the harness calls a synchronous phase)
Deliverable == \E v \in Val, m \in msgs : ENABLED Deliver(m, v)
\* a backup's timer is longer than the primary's: it fires only after the primary of its view has proposed
SyncTimeout(v) == /\ ~Deliverable
                  /\ (v = PrimaryOf(view[v]) \/ Msg("PrepareRequest", PrimaryOf(view[v]), view[v]) \in msgs)
                  /\ Timeout(v)
NextSync == \/ \E v \in Val : SyncTimeout(v) \/ SyncBlock(v)
            \/ \E v \in Val, m \in msgs : Deliver(m, v)
InitSync == Init /\ silent = {}
SpecSync == InitSync /\ [][NextSync]_vars
            /\ (\A v \in Val : WF_vars(SyncTimeout(v)) /\ WF_vars(SyncBlock(v)))
            /\ (\A u \in Val : WF_vars(\E m \in msgs : Deliver(m, u)))

----------------------------------------------------------------------------
Agreement == \A a, b \in Val : (accepted[a] # None /\ accepted[b] # None) => accepted[a] = accepted[b]

\* a validator accepts a block only with M commits of that block's view among the payloads it knows, or by sync
AcceptJustified ==
    \A v \in Val : accepted[v] # None =>
        \/ Cardinality(Commits(v, accepted[v])) >= M
        \/ \E u \in Val : u # v /\ accepted[u] = accepted[v]

\* commit lock: a validator that sent a commit never leaves that view
CommitLock == \A v \in Val : commitV[v] # None => view[v] = commitV[v]

Progress == <>(\A v \in Val : accepted[v] # None)
=============================================================================
