SPECIFICATION Spec
CONSTANTS
  N = 4
  MaxView = 0
  Height = 1
  InitSilentSets <- SilentAny
  BugQuorum = FALSE
  BugNoCommitLock = FALSE
  MaxSilentChanges = 0
INVARIANTS Agreement AcceptJustified CommitLock
CHECK_DEADLOCK FALSE
