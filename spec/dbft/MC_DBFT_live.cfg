SPECIFICATION SpecSync
CONSTANTS
  N = 4
  MaxView = 0
  Height = 1
  InitSilentSets <- SilentAny
  BugQuorum = FALSE
  BugNoCommitLock = FALSE
  MaxSilentChanges = 0
INVARIANTS Agreement
PROPERTIES Progress
CHECK_DEADLOCK FALSE
