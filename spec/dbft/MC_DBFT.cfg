SPECIFICATION Spec
CONSTANTS
  N = 4
  MaxView = 1
  Height = 1
  InitSilentSets <- SilentAny
  BugQuorum = FALSE
  BugNoCommitLock = FALSE
  MaxSilentChanges = 1
INVARIANTS Agreement AcceptJustified CommitLock
CHECK_DEADLOCK FALSE
