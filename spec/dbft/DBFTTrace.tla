----------------------------- MODULE DBFTTrace -----------------------------
(* Judges traces of N real consensus services on N real ledgers (harness/c19dbft) against the property-level
   content of DBFT.tla:
     Agreement    no two validators ever hold different blocks at the same height
     Acceptable   every block a validator committed is accepted by every other ledger it is fed to
     Progress     in an all-honest, fully-delivering phase the lowest height grows within `bound` rounds
     TxIncluded   a valid transaction pooled by every validator at the start of such a phase is in a block once
                  every validator is 3 blocks past the highest block that existed at the start of the phase
                  (the first of those blocks may have been proposed before the phase began)
   A height left over from an asynchronous period is exempt from Progress only while it is in dBFT 2.0's known dead
   end: some validator is locked by a Commit sent in view v while another validator has already moved past v (it can
   neither commit in v nor take the locked one along).  Any other stall under synchrony is a Progress violation.
   Events: init | send | accept | queued (block assembled by a validator, witness checked on its peers' ledgers) | feed | syncstart | syncround | syncend | txgiven ; other events are ignored here. *)
EXTENDS TraceIO, FiniteSets

VARIABLES l, chain, sync, cm, mv
vars == <<l, chain, sync, cm, mv>>

\* chain: function height -> block hash agreed so far;  sync: [on, base, rounds, bound, txs]
NoSync == [on |-> FALSE, base |-> 0, rounds |-> 0, bound |-> 0, txs |-> {}, messy |-> FALSE, maxh0 |-> 0]
Init == l = 1 /\ chain = <<>> /\ sync = NoSync /\ cm = {} /\ mv = {}

\* cm: <<height, validator, view>> of every Commit sent;  mv: the same for every payload sent (views a validator was seen in)
DeadEnd(h) == \E c \in cm, m \in mv : c[1] = h /\ m[1] = h /\ m[2] # c[2] /\ m[3] > c[3]
DeadEndIn(lo, hi) == \E h \in lo..hi : DeadEnd(h)

HasH(h) == h \in DOMAIN chain

Step ==
    /\ l <= Len(TLog)
    /\ l' = l + 1
    /\ LET e == TLog[l] IN
       CASE e.event = "init" -> chain' = <<>> /\ sync' = NoSync /\ cm' = {} /\ mv' = {}
         [] e.event = "send" ->
              /\ mv' = mv \cup {<<e.h, e.from, e.view>>}
              /\ cm' = IF e.type = "Commit" THEN cm \cup {<<e.h, e.from, e.view>>} ELSE cm
              /\ UNCHANGED <<chain, sync>>
         [] e.event = "accept" ->
              /\ chain' = IF HasH(e.h) THEN chain ELSE (e.h :> e.hash) @@ chain
              /\ UNCHANGED <<sync, cm, mv>>
              /\ Report(l, NameIf(~HasH(e.h) \/ chain[e.h] = e.hash, "Agreement"), [ev |-> e])
         [] e.event = "feed" ->
              /\ UNCHANGED <<chain, sync, cm, mv>>
              /\ Report(l, NameIf(e.ok, "Acceptable") \cup NameIf(~HasH(e.h) \/ chain[e.h] = e.hash, "Agreement"), [ev |-> e])
         [] e.event = "queued" ->
              /\ UNCHANGED <<chain, sync, cm, mv>>
              /\ Report(l, NameIf(e.witness_ok, "Acceptable") \cup NameIf(~HasH(e.h) \/ chain[e.h] = e.hash, "Agreement"), [ev |-> e])
         [] e.event = "syncstart" ->
              /\ sync' = [on |-> TRUE, base |-> e.minh, rounds |-> 0, bound |-> e.bound, txs |-> {e.txs[i] : i \in DOMAIN e.txs},
                          messy |-> e.messy, maxh0 |-> e.maxh]
              /\ UNCHANGED <<chain, cm, mv>>
         [] e.event = "syncround" ->
              /\ UNCHANGED <<chain, cm, mv>>
              /\ IF e.minh > sync.base
                 THEN sync' = [sync EXCEPT !.base = e.minh, !.rounds = 0, !.txs = @ \ {e.included[i] : i \in DOMAIN e.included}]
                 ELSE sync' = [sync EXCEPT !.rounds = @ + 1, !.txs = @ \ {e.included[i] : i \in DOMAIN e.included}]
              \* after an asynchronous period a height left over from it that sits in the protocol's dead end is outside the
              \* liveness clause ("when all validators are honest and messages are delivered")
              /\ Report(l, NameIf((sync.messy /\ e.minh <= sync.maxh0 /\ DeadEndIn(e.minh + 1, sync.maxh0 + 1)) \/ e.minh > sync.base \/ sync.rounds + 1 <= sync.bound, "Progress"),
                        [ev |-> e, base |-> sync.base, rounds |-> sync.rounds])
         [] e.event = "syncend" ->
              /\ sync' = NoSync /\ UNCHANGED <<chain, cm, mv>>
              /\ Report(l, NameIf(~e.reached \/ sync.txs = {}, "TxIncluded"), [ev |-> e, pending |-> sync.txs])
         [] OTHER -> UNCHANGED <<chain, sync, cm, mv>>

TraceSpec == Init /\ [][Step]_vars
=============================================================================
