----------------------------- MODULE DBFTTrace -----------------------------
(* Judges traces of N real consensus services on N real ledgers (harness/c19dbft) against the property-level
   content of DBFT.tla:
     Agreement    no two validators ever hold different blocks at the same height
     Acceptable   every block a validator committed is accepted by every other ledger it is fed to
     Progress     in an all-honest, fully-delivering phase the lowest height grows within `bound` rounds
     TxIncluded   a valid transaction pooled by every validator at the start of such a phase is in a block once
                  every validator is 3 blocks past the highest block that existed at the start of the phase
                  (the first of those blocks may have been proposed before the phase began)
   Events: init | accept | queued (block assembled by a validator, witness checked on its peers' ledgers) | feed | syncstart | syncround | syncend | txgiven ; other events are ignored here. *)
EXTENDS TraceIO, FiniteSets

VARIABLES l, chain, sync
vars == <<l, chain, sync>>

\* chain: function height -> block hash agreed so far;  sync: [on, base, rounds, bound, txs]
NoSync == [on |-> FALSE, base |-> 0, rounds |-> 0, bound |-> 0, txs |-> {}, messy |-> FALSE, maxh0 |-> 0]
Init == l = 1 /\ chain = <<>> /\ sync = NoSync

HasH(h) == h \in DOMAIN chain

Step ==
    /\ l <= Len(TLog)
    /\ l' = l + 1
    /\ LET e == TLog[l] IN
       CASE e.event = "init" -> chain' = <<>> /\ sync' = NoSync
         [] e.event = "accept" ->
              /\ chain' = IF HasH(e.h) THEN chain ELSE (e.h :> e.hash) @@ chain
              /\ UNCHANGED sync
              /\ Report(l, NameIf(~HasH(e.h) \/ chain[e.h] = e.hash, "Agreement"), [ev |-> e])
         [] e.event = "feed" ->
              /\ UNCHANGED <<chain, sync>>
              /\ Report(l, NameIf(e.ok, "Acceptable") \cup NameIf(~HasH(e.h) \/ chain[e.h] = e.hash, "Agreement"), [ev |-> e])
         [] e.event = "queued" ->
              /\ UNCHANGED <<chain, sync>>
              /\ Report(l, NameIf(e.witness_ok, "Acceptable") \cup NameIf(~HasH(e.h) \/ chain[e.h] = e.hash, "Agreement"), [ev |-> e])
         [] e.event = "syncstart" ->
              /\ sync' = [on |-> TRUE, base |-> e.minh, rounds |-> 0, bound |-> e.bound, txs |-> {e.txs[i] : i \in DOMAIN e.txs},
                          messy |-> e.messy, maxh0 |-> e.maxh]
              /\ UNCHANGED chain
         [] e.event = "syncround" ->
              /\ UNCHANGED chain
              /\ IF e.minh > sync.base
                 THEN sync' = [sync EXCEPT !.base = e.minh, !.rounds = 0, !.txs = @ \ {e.included[i] : i \in DOMAIN e.included}]
                 ELSE sync' = [sync EXCEPT !.rounds = @ + 1, !.txs = @ \ {e.included[i] : i \in DOMAIN e.included}]
              \* after an asynchronous period the height left over from it is outside the liveness clause ("when all validators
              \* are honest and messages are delivered"): rounds are judged once every validator is past it
              /\ Report(l, NameIf((sync.messy /\ e.minh <= sync.maxh0) \/ e.minh > sync.base \/ sync.rounds + 1 <= sync.bound, "Progress"),
                        [ev |-> e, base |-> sync.base, rounds |-> sync.rounds])
         [] e.event = "syncend" ->
              /\ sync' = NoSync /\ UNCHANGED chain
              /\ Report(l, NameIf(~e.reached \/ sync.txs = {}, "TxIncluded"), [ev |-> e, pending |-> sync.txs])
         [] OTHER -> UNCHANGED <<chain, sync>>

TraceSpec == Init /\ [][Step]_vars
=============================================================================
