SPECIFICATION Spec
CONSTANTS
  N = 4
  MaxView = 1
  Height = 1
  InitSilentSets <- SilentPrimary
  BugQuorum = FALSE
  BugNoCommitLock = FALSE
  MaxSilentChanges = 0
INVARIANTS Agreement AcceptJustified CommitLock
CHECK_DEADLOCK FALSE
