SPECIFICATION SimSpec
CONSTANTS
  N = 4
  MaxView = 2
  Height = 1
  InitSilentSets <- SilentAny
  BugQuorum = FALSE
  BugNoCommitLock = FALSE
  MaxSilentChanges = 3
  Depth = 90
INVARIANT GoalEmit
CHECK_DEADLOCK FALSE
