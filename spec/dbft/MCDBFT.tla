------------------------------- MODULE MCDBFT -------------------------------
EXTENDS DBFT
SilentNone == {{}}
SilentAny  == {S \in SUBSET Val : Cardinality(S) <= F}
SilentBackup == {{0}}            \* one backup silent from the start (Height = 1: primaries are 1, 0, 3, ...)
SilentPrimary == {{PrimaryOf(0)}} \* the first primary silent from the start
=============================================================================
