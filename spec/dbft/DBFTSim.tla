------------------------------ MODULE DBFTSim ------------------------------
(* Schedule generator: behaviours of DBFT (timer firings, deliveries in any order, changing silent sets)
   printed as JSON at the depth bound. *)
EXTENDS MCDBFT, Sequences, Json

CONSTANT Depth
VARIABLE hist

SimInit == Init /\ hist = <<>>
SimNext ==
    \/ \E v \in Val : Timeout(v) /\ hist' = Append(hist, [op |-> "timeout", v |-> v])
    \/ \E v \in Val, m \in msgs : Deliver(m, v) /\ hist' = Append(hist, [op |-> "deliver", type |-> m.type, from |-> m.from, view |-> m.view, to |-> v])
    \/ \E v \in Val, m \in msgs : Deliver(m, v) /\ hist' = Append(hist, [op |-> "deliver", type |-> m.type, from |-> m.from, view |-> m.view, to |-> v])
    \/ \E S \in {{}} \cup {{x} : x \in Val} : SetSilent(S) /\ Cardinality(S) <= F /\ hist' = Append(hist, [op |-> "silent", set |-> S])
SimSpec == SimInit /\ [][SimNext]_<<vars, hist>>
Emit == Len(hist) # Depth \/ PrintT(<<"@@HIST@@", ToJson([goal |-> "depth", hist |-> hist])>>)

(* Scenario goals: used as "invariants" whose falsification is the goal; when a random walk first reaches a goal
   state its schedule is printed.  They give the binding the situations the safety argument is about. *)
Acc == {v \in Val : accepted[v] # None}
G1 == \E x \in Val, y \in Acc : commitV[x] = 0 /\ accepted[y] >= 1          \* stale commit of view 0 + block of a later view
G2 == \E y \in Acc : accepted[y] >= 1                                        \* a view change led to a block
G3 == Cardinality(Acc) = M /\ silent # {}                                    \* exactly a quorum accepted while somebody is silent
G4 == \E x, y \in Val : commitV[x] # None /\ commitV[y] # None /\ commitV[x] # commitV[y]  \* commits in different views
Reached(g) == IF g = "G1" THEN G1 ELSE IF g = "G2" THEN G2 ELSE IF g = "G3" THEN G3 ELSE G4
GoalEmit == \A g \in {"G1", "G2", "G3", "G4"} :
               (Reached(g) /\ hist # <<>>) => PrintT(<<"@@HIST@@", ToJson([goal |-> g, hist |-> hist])>>)
=============================================================================
