------------------------------ MODULE DBFTSim ------------------------------
(* Schedule generator: behaviours of DBFT (timer firings, deliveries in any order, changing silent sets)
   printed as JSON at the depth bound. *)
EXTENDS MCDBFT, Sequences, Json

CONSTANT Depth
VARIABLE hist

SimInit == Init /\ hist = <<>>
SimNext ==
    \/ \E v \in Val : Timeout(v) /\ hist' = Append(hist, [op |-> "timeout", v |-> v])
    \/ \E v \in Val, m \in msgs : Deliver(m, v) /\ hist' = Append(hist, [op |-> "deliver", type |-> m.type, from |-> m.from, view |-> m.view, to |-> v])
    \/ \E v \in Val, m \in msgs : Deliver(m, v) /\ hist' = Append(hist, [op |-> "deliver", type |-> m.type, from |-> m.from, view |-> m.view, to |-> v])
    \/ \E S \in {{}} \cup {{x} : x \in Val} : SetSilent(S) /\ Cardinality(S) <= F /\ hist' = Append(hist, [op |-> "silent", set |-> S])
SimSpec == SimInit /\ [][SimNext]_<<vars, hist>>
Emit == Len(hist) # Depth \/ PrintT(<<"@@HIST@@", ToJson(hist)>>)
=============================================================================
