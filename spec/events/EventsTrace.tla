----------------------------- MODULE EventsTrace -----------------------------
(* Validates traces recorded from REAL nodes (harness/c04events) against the ABSTRACT specification Events.
   One line per step of a run; every line carries what EVERY subscriber received during the step (`got`, by
   subscriber id; the serial observer S0 with the chain height read at each receipt), the blocks accepted during
   the step AS STORAGE SHOWS THEM afterwards (`blocks`), the pool events the two pool subscribers received (`mp`) and
   the pool content (`pool`), all taken at a quiescent point.
     init     a fresh node; `subs` = the subscribers and their kinds (S0: all five kinds, serial, subscribed for the
              whole run when `serial` is true and absent otherwise; G: the gate of an episode; E1 .. B2: buffered)
     sub / unsub / msub / munsub   a call made at a quiescent point
     add      AddBlock of the valid next block
     hdr      AddHeaders only
     rej      an offer the node refused (`kind`)
     pool     PoolTx (`ok`)
     epi      a gated episode; `roles` says what each subscriber was during it (steady / join / leave / idle)
     final    everybody unsubscribed
   Who is subscribed is tracked HERE from the recorded calls (not taken from the harness).  Predicate names are the
   violation kinds; names starting with "i:" are informational (never a violation). *)
EXTENDS TraceIO, FiniteSets, SequencesExt

VARIABLES l, kinds, s0on, active, m2, live, known
vars == <<l, kinds, s0on, active, m2, live, known>>

M == INSTANCE Events

Init == l = 1 /\ kinds = <<>> /\ s0on = FALSE /\ active = {} /\ m2 = FALSE /\ live = {} /\ known = {}

Quiet == {"sub", "unsub", "msub", "munsub", "final", "init"}

RoleIn(e, s) ==
    IF e.event = "epi" THEN e.roles[s]
    ELSE IF s = "S0" THEN (IF s0on THEN "steady" ELSE "idle")
    ELSE IF s \in active THEN "steady" ELSE "idle"

Step ==
    /\ l <= Len(TLog)
    /\ l' = l + 1
    /\ LET e == TLog[l] IN
       IF e.event = "init"
       THEN /\ kinds' = [i \in DOMAIN e.subs |-> [id |-> e.subs[i].id, K |-> ToSet(e.subs[i].kinds)]]
            /\ s0on' = e.serial
            /\ active' = {} /\ m2' = FALSE /\ live' = {} /\ known' = {}
            /\ Report(l, NameIf(\A i \in DOMAIN e.subs : e.got[e.subs[i].id] = <<>>, "ExactlyOnce")
                         \cup NameIf(e.mp.M1 = <<>> /\ e.mp.M2 = <<>> /\ e.pool = <<>>, "MempoolEvents"), [run |-> e.run, event |-> e.event])
       ELSE
       LET bs       == e.blocks
           cs       == M!ChainStream(bs)
           rejected == e.event \in {"rej", "hdr"}
           by       == [i \in DOMAIN kinds |->
                           M!JudgeS(e.got[kinds[i].id], kinds[i].K, RoleIn(e, kinds[i].id), cs, bs, known, rejected)]
           chainF   == UNION {by[i] : i \in DOMAIN kinds}
           \* documented: announced only after the chain is updated (sampled by the serial observer)
           commitF  == NameIf(M!AfterCommit(e.got["S0"], bs), "Order")
           \* informational: a subscription taking effect during an episode starts with a block
           alignF   == IF e.event = "epi" /\ \E i \in DOMAIN kinds : /\ e.roles[kinds[i].id] = "join"
                                                                    /\ by[i] = {}
                                                                    /\ ~M!BlockAligned(e.got[kinds[i].id], kinds[i].K, bs)
                       THEN {"i:BlockAligned"} ELSE {}
           \* memory pool
           ev1      == e.mp.M1
           ev2      == e.mp.M2
           pool     == ToSet(e.pool)
           touches  == e.event \in {"pool", "add", "epi"}
           mpF      == NameIf(M!Alternates(live, ev1), "MempoolEvents")
                       \cup NameIf(M!MatchesPool(live, ev1, pool), "MempoolEvents")
                       \cup NameIf(~(e.event = "pool" /\ ~e.ok) \/ M!Silent(ev1), "MempoolEvents")
                       \cup NameIf(touches \/ rejected \/ M!Silent(ev1), "MempoolEvents")
                       \cup NameIf(M!BlockTxsGone(bs, pool), "MempoolEvents")
                       \cup NameIf(~rejected \/ M!Silent(ev1), "RejectedBlockEvent")
           \* the second pool subscriber: the same events while subscribed, nothing otherwise
           m2F      == NameIf(IF e.event \in {"msub", "munsub"} THEN ev2 = <<>>
                              ELSE IF m2 THEN ev2 = ev1 ELSE ev2 = <<>>, "SubscriptionWindow")
           failing  == {i \in DOMAIN kinds : by[i] # {}}
       IN  /\ kinds' = kinds /\ s0on' = s0on
           /\ active' = CASE e.event = "sub"   -> active \cup {e.s}
                          [] e.event = "unsub" -> active \ {e.s}
                          [] e.event = "epi"   -> (active \ {s \in DOMAIN e.roles : e.roles[s] = "leave"})
                                                  \cup ({s \in DOMAIN e.roles : e.roles[s] = "join"} \ {"S0", "G"})
                          [] e.event = "final" -> {}
                          [] OTHER -> active
           /\ m2' = CASE e.event = "msub" -> TRUE [] e.event \in {"munsub", "final"} -> FALSE [] OTHER -> m2
           /\ live' = pool
           /\ known' = IF bs = <<>> THEN known ELSE known \cup M!StoredItems(bs)
           /\ Report(l, chainF \cup commitF \cup alignF \cup mpF \cup m2F,
                     [run |-> e.run, event |-> e.event,
                      subs |-> [i \in failing |-> [id |-> kinds[i].id, what |-> by[i], role |-> RoleIn(e, kinds[i].id)]],
                      commit |-> commitF, mp |-> mpF \cup m2F])

TraceSpec == Init /\ [][Step]_vars
=============================================================================
