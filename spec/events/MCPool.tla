------------------------------- MODULE MCPool -------------------------------
EXTENDS PoolEventsImpl
\* five transactions: 4 replaces 1 (Conflicts, higher fee), 5 names 2 but pays less (refused), 3 expires early
TxsA  == 1..5
FeeA  == [t \in TxsA |-> CASE t = 1 -> 3 [] t = 2 -> 5 [] t = 3 -> 2 [] t = 4 -> 6 [] t = 5 -> 4]
ConfA == [t \in TxsA |-> CASE t = 4 -> {1} [] t = 5 -> {2} [] OTHER -> {}]
ExpA  == [t \in TxsA |-> IF t = 3 THEN 1 ELSE 9]
=============================================================================
