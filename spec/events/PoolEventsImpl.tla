--------------------------- MODULE PoolEventsImpl ---------------------------
(***************************************************************************)
(* Implementation-shaped model of the EVENTS of the node's memory pool     *)
(* (pkg/core/mempool: mem_pool.go, subscriptions.go).  Every place that    *)
(* changes the content of the pool sends one event on mp.events:           *)
(*   Add          ErrDup / expired / a conflict that cannot be replaced /  *)
(*                ErrOOM: nothing changes, nothing is sent;                *)
(*                otherwise `removed` for every pooled transaction the new *)
(*                one replaces through a Conflicts attribute               *)
(*                (removeInternal), `removed` for the lowest-priority      *)
(*                entry when the pool is at capacity                       *)
(*                (removeFromMapWithFeesAndAttrs(unlucky)), then `added`   *)
(*   RemoveStale  after a block: `removed` for every entry that is on      *)
(*                chain now, expired, or conflicts with the chain          *)
(* TLC checks the mempool predicates of the abstract module Events on it.  *)
(* Named deviations TLC must refute:                                       *)
(*   BugEvictSilent  eviction at capacity is not reported                  *)
(*   BugStaleSilent  removal by RemoveStale is not reported                *)
(*   BugDupEmits     an Add refused as duplicate announces `added` again   *)
(***************************************************************************)
EXTENDS Integers, Sequences, FiniteSets, SequencesExt, FiniteSetsExt, TLC

CONSTANTS Txs,        \* transaction ids (integers)
          Fee,        \* [Txs -> Nat]: priority (distinct values)
          Conf,       \* [Txs -> SUBSET Txs]: transactions named by the Conflicts attributes of a transaction
          Exp,        \* [Txs -> Nat]: ValidUntilBlock
          CapP, MaxH,
          BugEvictSilent, BugStaleSilent, BugDupEmits

VARIABLES pool, onchain, hgt, live, last, lastop
vars == <<pool, onchain, hgt, live, last, lastop>>

Abs == INSTANCE Events

Ev(t, tx) == [t |-> t, tx |-> tx]
Removed(S) == [i \in 1..Cardinality(S) |-> Ev("removed", SetToSortSeq(S, <)[i])]
Lowest(p) == CHOOSE x \in p : \A y \in p : Fee[x] <= Fee[y]

Done(op, ok, evs, p) ==
    /\ pool' = p /\ last' = evs /\ lastop' = [op |-> op, ok |-> ok]
    /\ live' = Abs!ApplyMp(live, last).live      \* the subscriber's view BEFORE the events of this step

Add(t) ==
    LET victims == {x \in pool : x \in Conf[t]}
        p1      == pool \ victims
        full    == Cardinality(p1) = CapP IN
    /\ t \notin onchain
    /\ UNCHANGED <<onchain, hgt>>
    /\ IF t \in pool THEN Done("add", FALSE, IF BugDupEmits THEN <<Ev("added", t)>> ELSE <<>>, pool)
       ELSE IF Exp[t] <= hgt THEN Done("add", FALSE, <<>>, pool)
       ELSE IF \E x \in victims : Fee[x] >= Fee[t] THEN Done("add", FALSE, <<>>, pool)
       ELSE IF full /\ Fee[t] < Fee[Lowest(p1)] THEN Done("add", FALSE, <<>>, pool)   \* ErrOOM (then victims = {})
       ELSE LET unlucky == IF full THEN {Lowest(p1)} ELSE {} IN
            Done("add", TRUE,
                 Removed(victims) \o (IF BugEvictSilent THEN <<>> ELSE Removed(unlucky)) \o <<Ev("added", t)>>,
                 (p1 \ unlucky) \cup {t})

Block(S) ==
    LET h2    == hgt + 1
        chain == onchain \cup S
        stale == {x \in pool : x \in chain \/ Exp[x] <= h2 \/ \E c \in chain : x \in Conf[c] \/ c \in Conf[x]} IN
    /\ hgt < MaxH /\ S \subseteq Txs \ onchain /\ \A x \in S : Exp[x] > hgt
    /\ hgt' = h2 /\ onchain' = chain
    /\ Done("block", TRUE, IF BugStaleSilent THEN <<>> ELSE Removed(stale), pool \ stale)

Init == pool = {} /\ onchain = {} /\ hgt = 0 /\ live = {} /\ last = <<>> /\ lastop = [op |-> "init", ok |-> TRUE]
Next == (\E t \in Txs : Add(t)) \/ (\E S \in SUBSET Txs : Cardinality(S) <= 2 /\ Block(S))
Spec == Init /\ [][Next]_vars

\* Impl => Abstract (the mempool predicates of Events.tla, evaluated on the events of the last step)
Alternation  == Abs!Alternates(live, last)
PoolMatches  == Abs!MatchesPool(live, last, pool)
FailedSilent == (lastop.op = "add" /\ ~lastop.ok) => Abs!Silent(last)
ChainGone    == pool \cap onchain = {}
Bounded      == Cardinality(pool) <= CapP
=============================================================================
