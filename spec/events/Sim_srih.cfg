SPECIFICATION SimSpec
CONSTANTS
  NBlocks = 12
  SRIH = TRUE
  Depth = 22
INVARIANT Emit
CHECK_DEADLOCK FALSE
