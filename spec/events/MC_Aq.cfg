SPECIFICATION Spec
CONSTANTS
  Blocks <- Chain2
  Subs <- SubsA
  KindOf <- KindA
  Cap <- CapA
  Big = 99
  MaxCalls = 3
  BugFaultNotes = FALSE
  BugBlockFirst = FALSE
  BugEarlyEvent = FALSE
  BugUnsubDrain = FALSE
INVARIANTS StreamPrefix QuiescentComplete SubscriberWindow JudgedAtQuiescence BlockAligned
CHECK_DEADLOCK FALSE
