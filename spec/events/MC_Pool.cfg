SPECIFICATION Spec
CONSTANTS
  Txs <- TxsA
  Fee <- FeeA
  Conf <- ConfA
  Exp <- ExpA
  CapP = 2
  MaxH = 3
  BugEvictSilent = FALSE
  BugStaleSilent = FALSE
  BugDupEmits = FALSE
INVARIANTS Alternation PoolMatches FailedSilent ChainGone Bounded
CHECK_DEADLOCK FALSE
