------------------------------- MODULE Events -------------------------------
(***************************************************************************)
(* Abstract (property level) specification of the node's EVENT STREAM:    *)
(* what core.Blockchain delivers to its subscribers (SubscribeForBlocks,   *)
(* ...HeadersOfAddedBlocks, ...Transactions, ...Notifications,             *)
(* ...Executions) and what the node's memory pool delivers                 *)
(* (mempool.Pool.SubscribeForTransactions), as a FUNCTION OF THE ACCEPTED  *)
(* BLOCKS.  Extension of the check of property C04, with the clauses of    *)
(* C06 and C01 that speak about the same objects.  It judges only:         *)
(*                                                                         *)
(*  C04  "A transaction whose script faults changes nothing ... its ...    *)
(*        notifications are all discarded - while a transaction that halts *)
(*        has all of its effects applied."  For the stream: notifications  *)
(*        of an execution are delivered iff the execution HALTed           *)
(*        [ExecStream; kind FaultedNotificationDelivered].                 *)
(*  C06  "A rejected block never changes ledger state or the mempool":     *)
(*        nothing is delivered, by the chain or by the pool, for an offer  *)
(*        that was refused, early or at the very end of storeBlock, nor    *)
(*        for headers added without their blocks [kind RejectedBlockEvent].*)
(*  C01  "identical ... execution results (VM state, gas, stack,           *)
(*        notifications)": what a subscriber is given equals what storage  *)
(*        answers for the same container [kind StoredDisagrees].           *)
(*  docs/notifications.md, "Ordering and persistence guarantees":          *)
(*        - block and header announced only after the chain is updated to  *)
(*          the new height [AfterCommit, kind Order];                      *)
(*        - per block: OnPersist execution, its notifications; for every   *)
(*          transaction in block order: execution, its notifications (only *)
(*          for a successful transaction), the transaction; PostPersist    *)
(*          execution, its notifications; header; block [BlockStream,      *)
(*          kinds Order / ExactlyOnce];                                    *)
(*        - "all announcements are being done in the same order they       *)
(*          happen on the chain": blocks in chain order, never interleaved;*)
(*        - "unsubscription may not cancel pending, but not yet sent       *)
(*          events", UnsubscribeFrom* "can read from this channel          *)
(*          (discarding any read data)": the subscriber that is LEAVING    *)
(*          may lose events of its own; nobody else may                    *)
(*          [kind SubscriptionWindow / ExactlyOnce];                       *)
(*        - "Memory pool events are triggered whenever a transaction       *)
(*          enters or leaves the mempool" [kind MempoolEvents].            *)
(*                                                                         *)
(* NOT judged (the documentation promises nothing): the order in which     *)
(* different subscribers of one kind are served; whether a subscription    *)
(* that takes effect during an episode starts at a block boundary          *)
(* (informational predicate "i:BlockAligned"); how much of its own queue   *)
(* a leaving subscriber loses.                                             *)
(*                                                                         *)
(* Data.  An item is a record [k, c, d]: kind ("E" execution,              *)
(* "N" notification, "T" transaction, "H" header, "B" block), container /  *)
(* own hash, digest of the content.  A block record (what STORAGE shows    *)
(* for an accepted block):                                                 *)
(*   [h, execs, hd, bk, txs] with execs = << OnPersist, tx_1 .. tx_n,      *)
(*   PostPersist >>, each [x: item, halt: BOOLEAN, n: Seq(item) - the      *)
(*   notifications recorded in the stored result, also of a FAULTed        *)
(*   execution -, t: Seq(item) - << the transaction >> for Application     *)
(*   executions, << >> otherwise].                                         *)
(***************************************************************************)
EXTENDS Integers, Sequences, FiniteSets, SequencesExt, FiniteSetsExt

Kinds == {"E", "N", "T", "H", "B"}

\* projection of a received item to what is compared (received items may carry observation fields)
P(it) == [k |-> it.k, c |-> it.c, d |-> it.d]
PSeq(s) == [i \in DOMAIN s |-> P(s[i])]

----------------------------------------------------------------------------
\* THE STREAM AS A FUNCTION OF THE ACCEPTED BLOCKS

\* C04: notifications of an execution exist for subscribers iff it HALTed
ExecStream(e)  == <<P(e.x)>> \o (IF e.halt THEN PSeq(e.n) ELSE <<>>) \o PSeq(e.t)
BlockStream(b) == FlattenSeq([i \in DOMAIN b.execs |-> ExecStream(b.execs[i])]) \o <<P(b.hd), P(b.bk)>>
ChainStream(bs) == FlattenSeq([i \in DOMAIN bs |-> BlockStream(bs[i])])
OfKinds(s, K) == SelectSeq(s, LAMBDA it : it.k \in K)

\* everything storage knows about the blocks (incl. notifications of faulted executions)
StoredItems(bs) ==
    UNION {{P(b.hd), P(b.bk)} \cup UNION {{P(e.x)} \cup {P(x) : x \in ToSet(e.n)} \cup {P(x) : x \in ToSet(e.t)} : e \in ToSet(b.execs)}
           : b \in ToSet(bs)}
FaultedNotes(bs) ==
    UNION {UNION {IF e.halt THEN {} ELSE {P(x) : x \in ToSet(e.n)} : e \in ToSet(b.execs)} : b \in ToSet(bs)}
HaltedNotes(bs) ==
    UNION {UNION {IF e.halt THEN {P(x) : x \in ToSet(e.n)} ELSE {} : e \in ToSet(b.execs)} : b \in ToSet(bs)}
Identities(S) == {<<x.k, x.c>> : x \in S}

IsInfix(g, s) == \E i \in 0..(Len(s) - Len(g)) : SubSeq(s, i + 1, i + Len(g)) = g
IsSuffixOf(g, s) == Len(g) <= Len(s) /\ SubSeq(s, Len(s) - Len(g) + 1, Len(s)) = g
Count(s, x) == Cardinality({i \in DOMAIN s : s[i] = x})
SameBag(g, e) == Len(g) = Len(e) /\ \A x \in ToSet(g) \cup ToSet(e) : Count(g, x) = Count(e, x)
RECURSIVE IsSubseq(_, _)
IsSubseq(g, s) == IF g = <<>> THEN TRUE
                  ELSE IF s = <<>> THEN FALSE
                  ELSE IF Head(g) = Head(s) THEN IsSubseq(Tail(g), Tail(s)) ELSE IsSubseq(g, Tail(s))

\* the suffixes of OfKinds(ChainStream(bs), K) that begin with a block
AlignedSuffixes(bs, K) == {OfKinds(ChainStream(SubSeq(bs, i, Len(bs))), K) : i \in 1..(Len(bs) + 1)}

----------------------------------------------------------------------------
\* JUDGED.  got = what one subscriber of kinds K received during a step in which exactly the blocks bs were accepted;
\* role = what the subscriber was during the step:
\*   "steady"  subscribed before and after: it is owed everything, once, in order
\*   "idle"    not subscribed: it is owed nothing
\*   "join"    its Subscribe call ran during the step: a suffix of the step's stream
\*   "leave"   its Unsubscribe call ran during the step: a contiguous piece of the step's stream
\* known = the items storage holds for blocks accepted in EARLIER steps; rejected = the step's only offer was refused
\* (or consisted of headers only).  The result is the set of names of falsified predicates (empty = accepted).
JudgeS(got0, K, role, cs, bs, known, rejected) ==
    LET got  == PSeq(got0)
        full == OfKinds(cs, K)
        G    == ToSet(got)
        ok   == CASE role = "steady" -> got = full
                  [] role = "idle"   -> got = <<>>
                  [] role = "join"   -> IsSuffixOf(got, full)
                  [] role = "leave"  -> IsInfix(got, full)
    IN  IF ok THEN {}
        ELSE LET
          stored  == StoredItems(bs)
          foreign == G \ (stored \cup known)
          late    == (G \cap known) \ stored
          mine    == foreign = {} /\ late = {} /\ ~rejected
          \* C04: a notification of a faulted execution reached a subscriber
          fn  == IF (G \cap FaultedNotes(bs)) \ HaltedNotes(bs) # {} THEN {"FaultedNotificationDelivered"} ELSE {}
          \* C06: anything at all during a step whose only offer was refused
          rj  == IF rejected /\ got # <<>> THEN {"RejectedBlockEvent"} ELSE {}
          \* C01: an item for a container storage knows, with different content - or for nothing storage knows
          sd  == IF ~rejected /\ foreign # {} THEN {"StoredDisagrees"} ELSE {}
          \* a subscriber that is owed nothing got genuine items; a joining / leaving one got them with holes
          sw  == IF mine /\ (\/ (role = "idle" /\ got # <<>>)
                             \/ (role \in {"join", "leave"} /\ IsSubseq(got, full)))
                 THEN {"SubscriptionWindow"} ELSE {}
          \* missing, duplicated, or announced again in a later step
          eo  == IF ~rejected /\ foreign = {} /\ role # "idle" /\
                    (\/ late # {}
                     \/ (role = "steady" /\ ~SameBag(got, full))
                     \/ (role # "steady" /\ \E x \in G : Count(got, x) > Count(full, x)))
                 THEN {"ExactlyOnce"} ELSE {}
          \* everything that is owed, once, but in another order
          od  == IF mine /\ role # "idle" /\
                    (\/ (role = "steady" /\ SameBag(got, full))
                     \/ (role # "steady" /\ ~IsSubseq(got, full) /\ \A x \in G : Count(got, x) <= Count(full, x)))
                 THEN {"Order"} ELSE {}
          IN fn \cup rj \cup sd \cup sw \cup eo \cup od

Judge(got0, K, role, bs, rejected) == JudgeS(got0, K, role, ChainStream(bs), bs, {}, rejected)

\* informational: a subscription that took effect during the step starts with a block
BlockAligned(got0, K, bs) == PSeq(got0) \in AlignedSuffixes(bs, K)

\* "new block and header of this block are only announced after block's processing is complete and the chain is updated
\* to the new height" (and the in-block announcements come before them): every item of block b was received at a
\* chain height >= b.h.  got0 carries hh = the height read when the item was received (-1 = not sampled).
HeightOf(it, bs) ==
    LET hs == {b.h : b \in {bb \in ToSet(bs) : P(it) \in StoredItems(<<bb>>)}} IN IF hs = {} THEN 0 - 1 ELSE Max(hs)
AfterCommit(got0, bs) == \A i \in DOMAIN got0 : got0[i].hh < 0 \/ got0[i].hh >= HeightOf(got0[i], bs)

----------------------------------------------------------------------------
\* MEMORY POOL EVENTS.  An event is [t |-> "added" | "removed", tx |-> id].
\* live = transactions added and not yet removed according to the events seen so far.
ApplyMp(live, evs) ==
    LET step(acc, e) ==
          IF e.t = "added"
          THEN [live |-> acc.live \cup {e.tx}, bad |-> acc.bad \/ e.tx \in acc.live]
          ELSE [live |-> acc.live \ {e.tx},   bad |-> acc.bad \/ e.tx \notin acc.live]
    IN  FoldLeft(step, [live |-> live, bad |-> FALSE], evs)

\* for every transaction `added` and `removed` alternate starting with `added`
Alternates(live, evs) == ~ApplyMp(live, evs).bad
\* at quiescence the transactions added and not removed are exactly the pool content
MatchesPool(live, evs, pool) == ApplyMp(live, evs).live = pool
\* a failed Add emits nothing; a rejected block emits nothing
Silent(evs) == evs = <<>>
\* every transaction of an accepted block that was pooled is gone (and, with MatchesPool, was reported removed)
BlockTxsGone(bs, pool) == \A i \in DOMAIN bs : ToSet(bs[i].txs) \cap pool = {}
=============================================================================
