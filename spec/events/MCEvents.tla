------------------------------ MODULE MCEvents ------------------------------
(* Universes for the exhaustive runs of EventsImpl: two or three small blocks that contain every shape the judged
   predicates distinguish (a FAULTed transaction with a notification, a HALTed one with a notification, block-level
   executions with and without notifications, an empty block), a gate-like execution subscriber with a channel of
   capacity 1 that is read item by item, and unbounded subscribers of other kinds. *)
EXTENDS EventsImpl

It(k, c, d) == [k |-> k, c |-> c, d |-> d]
X(c, tag, halt, notes, hasTx) ==
    [x |-> It("E", c, tag), halt |-> halt, n |-> [i \in 1..notes |-> It("N", c, tag \o ToString(i))],
     t |-> IF hasTx THEN <<It("T", c, "tx")>> ELSE <<>>]
Blk(h, name, execs, txs) == [h |-> h, execs |-> execs, hd |-> It("H", name, "hdr"), bk |-> It("B", name, "blk"), txs |-> txs]

\* block 1: a transaction that FAULTs after a notification; block 2: a transaction that HALTs with a notification
B1 == Blk(1, "b1", <<X("b1", "on", TRUE, 0, FALSE), X("t1", "app", FALSE, 1, TRUE), X("b1", "post", TRUE, 1, FALSE)>>, <<"t1">>)
B2 == Blk(2, "b2", <<X("b2", "on", TRUE, 1, FALSE), X("t2", "app", TRUE, 1, TRUE), X("b2", "post", TRUE, 0, FALSE)>>, <<"t2">>)
B3 == Blk(3, "b3", <<X("b3", "on", TRUE, 0, FALSE), X("b3", "post", TRUE, 1, FALSE)>>, <<>>)

Chain2 == <<B1, B2>>
Chain3 == <<B1, B2, B3>>

\* g: execution subscriber with a one-slot channel (the harness' gate), n: notifications, b: blocks, e: executions
SubsA == {"g", "n", "b"}
KindA == [s \in SubsA |-> CASE s = "g" -> "E" [] s = "n" -> "N" [] s = "b" -> "B"]
CapA  == [s \in SubsA |-> IF s = "g" THEN 1 ELSE 99]
SubsB == {"g", "e", "t"}
KindB == [s \in SubsB |-> CASE s = "g" -> "E" [] s = "e" -> "E" [] s = "t" -> "T"]
CapB  == [s \in SubsB |-> IF s = "g" THEN 1 ELSE 99]
\* thorough: four subscribers, two of them of the gate's kind (one bounded, one not)
SubsC == {"g", "e", "n", "h"}
KindC == [s \in SubsC |-> CASE s = "g" -> "E" [] s = "e" -> "E" [] s = "n" -> "N" [] s = "h" -> "H"]
CapC  == [s \in SubsC |-> IF s = "g" THEN 1 ELSE 99]
=============================================================================
