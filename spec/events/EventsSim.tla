------------------------------ MODULE EventsSim ------------------------------
(* Schedule generator (tlc -simulate): the harness-level step language of the event-stream check, with the abstract
   bookkeeping that decides which steps are possible (chain height, header height, who is subscribed) and the model's
   prediction of who is subscribed after every step (`act`, compared with the real harness state as drift detector).
     sub s / unsub s     a Subscribe / Unsubscribe call at a quiescent moment
     add                 AddBlock of the valid next block
     hdr n               AddHeaders of the next n headers (header-only path: nothing may be announced)
     rej kind            an offer the node must refuse: badsig, future, dup, badmerkle; terminal (the header chain is
                         left with a header no valid block matches): resealed, late (StateRootInHeader worlds)
     pool kind           PoolTx of a transaction of that kind (result not predicted: the pool is judged by its events)
     msub / munsub       the second pool subscriber
     epi                 gated episode: block h+1 is being fanned out (pos execution events have passed the gate) while
                         the Subscribe calls of `join`, the Unsubscribe calls of `leave` and - second - AddBlock(h+2) run
   Parameters are picked by rotation over the history length so that parameter-rich steps do not crowd out the others
   (simulation picks uniformly among successor states). *)
EXTENDS Integers, Sequences, FiniteSets, SequencesExt, TLC, Json

CONSTANTS NBlocks, SRIH, Depth

VARIABLES h, hdr, active, m2, ended, hist
vars == <<h, hdr, active, m2, ended, hist>>

SubSeqIds == <<"E1", "N1", "T1", "H1", "B1", "E2", "N2", "T2", "H2", "B2">>
SubIds == ToSet(SubSeqIds)
PoolKinds == <<"next", "lo", "hi", "next", "short", "conflict", "next2", "dup", "bad", "hi", "lo">>
RejKinds == {"badsig", "future", "dup", "badmerkle"}

\* up to two members of S, chosen by rotation
Rot(S) == LET k == Len(hist) % 10
              ord == [i \in 1..10 |-> SubSeqIds[((i + k - 1) % 10) + 1]]
              in  == SelectSeq(ord, LAMBDA x : x \in S)
          IN  {in[i] : i \in 1..(IF Len(in) < 2 THEN Len(in) ELSE 2)}
Opt(S) == {{}} \cup {{x} : x \in Rot(S)} \cup (IF Cardinality(Rot(S)) = 2 /\ Len(hist) % 3 = 0 THEN {Rot(S)} ELSE {})

Log(op) == hist' = Append(hist, op)

Sub(s)   == /\ s \notin active /\ active' = active \cup {s} /\ UNCHANGED <<h, hdr, m2, ended>>
            /\ Log([op |-> "sub", s |-> s, act |-> active'])
Unsub(s) == /\ s \in active /\ active' = active \ {s} /\ UNCHANGED <<h, hdr, m2, ended>>
            /\ Log([op |-> "unsub", s |-> s, act |-> active'])
Add(w)   == /\ h < NBlocks /\ h' = h + 1 /\ hdr' = (IF hdr > h THEN hdr ELSE h + 1) /\ UNCHANGED <<active, m2, ended>>
            /\ Log([op |-> "add", w |-> w, act |-> active])
Hdr      == LET n == 1 + (Len(hist) % 2) IN
            /\ hdr + n <= NBlocks /\ hdr' = hdr + n /\ UNCHANGED <<h, active, m2, ended>>
            /\ Log([op |-> "hdr", n |-> n, act |-> active])
Rej(k)   == /\ k = "future" => h + 2 <= NBlocks
            /\ k = "dup" => h >= 1
            /\ k \in {"badsig", "badmerkle"} => h + 1 <= NBlocks
            /\ hdr' = (IF k = "badmerkle" /\ hdr = h THEN h + 1 ELSE hdr)
            /\ UNCHANGED <<h, active, m2, ended>>
            /\ Log([op |-> "rej", kind |-> k, act |-> active])
Terminal(k) == /\ hdr = h /\ h + 2 <= NBlocks /\ Len(hist) >= Depth \div 2
               /\ k = "late" => SRIH
               /\ ended' = TRUE /\ UNCHANGED <<h, hdr, active, m2>>
               /\ Log([op |-> "rej", kind |-> k, act |-> active])
Pool     == /\ UNCHANGED <<h, hdr, active, m2, ended>>
            /\ \E d \in 0..2 : Log([op |-> "pool", kind |-> PoolKinds[((Len(hist) + 4 * d) % Len(PoolKinds)) + 1], act |-> active])
MSub     == /\ m2' = ~m2 /\ UNCHANGED <<h, hdr, active, ended>>
            /\ Log([op |-> IF m2 THEN "munsub" ELSE "msub", act |-> active])
Epi(J, L) == LET second == Len(hist) % 3 # 1 /\ h + 2 <= NBlocks
                 n == IF second THEN 2 ELSE 1 IN
            /\ h + 1 <= NBlocks /\ J \cup L # {}
            /\ h' = h + n /\ hdr' = (IF hdr > h + n THEN hdr ELSE h + n)
            /\ active' = (active \ L) \cup J /\ UNCHANGED <<m2, ended>>
            /\ Log([op |-> "epi", pos |-> Len(hist) % 4, join |-> J, leave |-> L, second |-> second, act |-> active'])
Pad      == ended /\ UNCHANGED <<h, hdr, active, m2, ended>> /\ Log([op |-> "nop"])

Init == h = 0 /\ hdr = 0 /\ active = {} /\ m2 = FALSE /\ ended = FALSE
        /\ hist = <<[op |-> "init", n |-> NBlocks, srih |-> SRIH]>>

Next == IF ended THEN Pad
        ELSE \/ \E s \in Rot(SubIds \ active) : Sub(s)
             \/ \E s \in Rot(active) : Len(hist) % 2 = 0 /\ Unsub(s)
             \/ \E w \in 1..5 : Add(w)
             \/ Hdr
             \/ \E k \in RejKinds : Len(hist) % 2 = 1 /\ Rej(k)
             \/ \E k \in {"resealed", "late"} : Terminal(k)
             \/ Pool
             \/ MSub
             \/ \E J \in Opt(SubIds \ active), L \in Opt(active) : Epi(J, L)

SimSpec == Init /\ [][Next]_vars

Emit == Len(hist) # Depth \/ PrintT(<<"@@HIST@@", ToJson(hist)>>)
=============================================================================
