SPECIFICATION SimSpec
CONSTANTS
  NBlocks = 12
  SRIH = FALSE
  Depth = 22
INVARIANT Emit
CHECK_DEADLOCK FALSE
