SPECIFICATION Spec
CONSTANTS
  Blocks <- Chain3
  Subs <- SubsC
  KindOf <- KindC
  Cap <- CapC
  Big = 99
  MaxCalls = 4
  BugFaultNotes = FALSE
  BugBlockFirst = FALSE
  BugEarlyEvent = FALSE
  BugUnsubDrain = FALSE
INVARIANTS StreamPrefix QuiescentComplete SubscriberWindow JudgedAtQuiescence BlockAligned
CHECK_DEADLOCK FALSE
