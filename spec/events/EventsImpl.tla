----------------------------- MODULE EventsImpl -----------------------------
(***************************************************************************)
(* Implementation-shaped model of the notification subsystem of            *)
(* core.Blockchain (pkg/core/blockchain.go):                               *)
(*                                                                         *)
(*   storeBlock            executes the block, commits it (bc.lock:        *)
(*                         PersistPrivate, topBlock, blockHeight, memory   *)
(*                         pool refresh) and THEN does                     *)
(*                         `bc.events <- bcEvent{block, appExecResults}`   *)
(*                         on an UNBUFFERED channel (AddBlock holds        *)
(*                         addLock: one event can be waiting at a time)    *)
(*   notificationDispatcher  one goroutine, one `select`:                  *)
(*       case sub := <-bc.subCh      SubTake   (Subscribe* blocks until    *)
(*                                              then)                      *)
(*       case unsub := <-bc.unsubCh  UnsubTake (Unsubscribe* loops         *)
(*                                   `select { case <-ch: ; case           *)
(*                                   bc.unsubCh <- ch }`: UnsubEat         *)
(*                                   discards what is queued for ITS       *)
(*                                   channel while it waits)               *)
(*       case event := <-bc.events   Intake, then the fan-out loops:       *)
(*                                   FanOut sends the items of the block   *)
(*                                   one by one, each to every subscriber  *)
(*                                   of its kind (a full channel blocks    *)
(*                                   the dispatcher), notifications of a   *)
(*                                   transaction only `if aer.VMState ==   *)
(*                                   vmstate.Halt`                         *)
(*   Read                  the owner of a small channel takes an item      *)
(*                                                                         *)
(* TLC checks that every judged predicate of the abstract module Events    *)
(* holds on this model (Impl => Abstract).  Named deviations, each of      *)
(* which TLC must refute (non-vacuity):                                    *)
(*   BugFaultNotes  notifications are sent regardless of the VM state      *)
(*   BugBlockFirst  the block event is sent before the executions          *)
(*   BugEarlyEvent  the event is put on bc.events before the block is      *)
(*                  committed: an offer that fails at the end of           *)
(*                  storeBlock (state root mismatch) still produces events *)
(*   BugUnsubDrain  the unsubscription loop also reads the SHARED queue    *)
(*                  (bc.events): an event all other subscribers are owed   *)
(*                  is lost                                                *)
(* With all four FALSE the model follows the code.                         *)
(***************************************************************************)
EXTENDS Integers, Sequences, FiniteSets, SequencesExt, FiniteSetsExt, TLC

CONSTANTS Blocks,    \* the canonical chain, offered in order: sequence of block records (shape of Events.tla)
          Subs,      \* subscriber ids
          KindOf,    \* [Subs -> kind]
          Cap,       \* [Subs -> Nat]: channel capacity; subscribers with Cap < Big are read explicitly (Read)
          Big,
          MaxCalls,  \* bound on Subscribe / Unsubscribe calls
          BugFaultNotes, BugBlockFirst, BugEarlyEvent, BugUnsubDrain

VARIABLES height,   \* blocks on the chain
          hdr,      \* header height (>= height): headers can be added without blocks
          stuck,    \* an offer failed late: the header chain holds a header no valid block matches
          pending,  \* the event waiting on bc.events ([b, ok]) or NoEvent
          disp,     \* dispatcher: [st |-> "select"] or [st |-> "fan", ev, pos]
          feed,     \* subscribers in the dispatcher's feed maps
          ch,       \* per subscriber: items queued in its channel
          rd,       \* per subscriber: items its owner has read
          call,     \* per subscriber: "none" | "sub" | "unsub" (API call in progress)
          calls,
          \* history (ghost) variables
          emitted,  \* every item the dispatcher has fanned out, in order
          sent,     \* per subscriber: every item ever put into its channel
          eaten,    \* per subscriber: how many items its own unsubscription loop discarded
          took, left \* per subscriber: Len(emitted) when its subscription / unsubscription took effect (-1: not yet)
vars == <<height, hdr, stuck, pending, disp, feed, ch, rd, call, calls, emitted, sent, eaten, took, left>>

Abs == INSTANCE Events

NoEvent == [b |-> 0, ok |-> TRUE]
N == Len(Blocks)

\* what the dispatcher's loops produce for one event
ImplExec(e)   == <<Abs!P(e.x)>> \o (IF e.halt \/ BugFaultNotes THEN Abs!PSeq(e.n) ELSE <<>>) \o Abs!PSeq(e.t)
ImplStream(b) == LET body == FlattenSeq([i \in DOMAIN b.execs |-> ImplExec(b.execs[i])]) IN
                 IF BugBlockFirst THEN <<Abs!P(b.bk)>> \o body \o <<Abs!P(b.hd)>> ELSE body \o <<Abs!P(b.hd), Abs!P(b.bk)>>

Init ==
    /\ height = 0 /\ hdr = 0 /\ stuck = FALSE /\ pending = NoEvent /\ disp = [st |-> "select"]
    /\ feed = {} /\ ch = [s \in Subs |-> <<>>] /\ rd = [s \in Subs |-> <<>>]
    /\ call = [s \in Subs |-> "none"] /\ calls = 0
    /\ emitted = <<>> /\ sent = [s \in Subs |-> <<>>] /\ eaten = [s \in Subs |-> 0]
    /\ took = [s \in Subs |-> 0 - 1] /\ left = [s \in Subs |-> 0 - 1]

\* ---- the chain side -------------------------------------------------------------------------------------------
\* AddBlock of the valid next block, up to and including the moment it offers the event on bc.events
StoreBlock ==
    /\ pending = NoEvent /\ ~stuck /\ height < N
    /\ height' = height + 1 /\ hdr' = IF hdr > height THEN hdr ELSE height + 1
    /\ pending' = [b |-> height + 1, ok |-> TRUE]
    /\ UNCHANGED <<stuck, disp, feed, ch, rd, call, calls, emitted, sent, eaten, took, left>>

\* the valid next block, executed completely and refused at the very end of storeBlock (the next header is known and
\* names another state root).  Nothing is committed.
LateFail ==
    /\ pending = NoEvent /\ ~stuck /\ height < N /\ hdr = height
    /\ stuck' = TRUE /\ hdr' = height + 1
    /\ pending' = IF BugEarlyEvent THEN [b |-> height + 1, ok |-> FALSE] ELSE pending
    /\ UNCHANGED <<height, disp, feed, ch, rd, call, calls, emitted, sent, eaten, took, left>>

\* AddHeaders: the header-only path announces nothing
HeaderOnly ==
    /\ ~stuck /\ hdr < N /\ hdr' = hdr + 1
    /\ UNCHANGED <<height, stuck, pending, disp, feed, ch, rd, call, calls, emitted, sent, eaten, took, left>>

\* ---- the API ----------------------------------------------------------------------------------------------------
SubReq(s) ==
    /\ call[s] = "none" /\ s \notin feed /\ took[s] < 0 /\ calls < MaxCalls
    /\ call' = [call EXCEPT ![s] = "sub"] /\ calls' = calls + 1
    /\ UNCHANGED <<height, hdr, stuck, pending, disp, feed, ch, rd, emitted, sent, eaten, took, left>>

UnsubReq(s) ==
    /\ call[s] = "none" /\ s \in feed /\ calls < MaxCalls
    /\ call' = [call EXCEPT ![s] = "unsub"] /\ calls' = calls + 1
    /\ UNCHANGED <<height, hdr, stuck, pending, disp, feed, ch, rd, emitted, sent, eaten, took, left>>

\* `case <-ch:` of the unsubscription loop
UnsubEat(s) ==
    /\ call[s] = "unsub" /\ ch[s] # <<>>
    /\ ch' = [ch EXCEPT ![s] = Tail(@)] /\ eaten' = [eaten EXCEPT ![s] = @ + 1]
    /\ UNCHANGED <<height, hdr, stuck, pending, disp, feed, rd, call, calls, emitted, sent, took, left>>

\* deviation: the loop reads the shared queue as well
UnsubDrainShared(s) ==
    /\ BugUnsubDrain /\ call[s] = "unsub" /\ pending # NoEvent
    /\ pending' = NoEvent
    /\ UNCHANGED <<height, hdr, stuck, disp, feed, ch, rd, call, calls, emitted, sent, eaten, took, left>>

\* the owner of a small channel reads one item (what is left after its own unsubscription stays in `ch`)
Read(s) ==
    /\ Cap[s] < Big /\ ch[s] # <<>> /\ call[s] # "unsub" /\ eaten[s] = 0
    /\ rd' = [rd EXCEPT ![s] = Append(@, Head(ch[s]))] /\ ch' = [ch EXCEPT ![s] = Tail(@)]
    /\ UNCHANGED <<height, hdr, stuck, pending, disp, feed, call, calls, emitted, sent, eaten, took, left>>

\* ---- the dispatcher: one action per select branch -----------------------------------------------------------------
SubTake(s) ==
    /\ disp.st = "select" /\ call[s] = "sub"
    /\ feed' = feed \cup {s} /\ call' = [call EXCEPT ![s] = "none"] /\ took' = [took EXCEPT ![s] = Len(emitted)]
    /\ UNCHANGED <<height, hdr, stuck, pending, disp, ch, rd, calls, emitted, sent, eaten, left>>

UnsubTake(s) ==
    /\ disp.st = "select" /\ call[s] = "unsub"
    /\ feed' = feed \ {s} /\ call' = [call EXCEPT ![s] = "none"] /\ left' = [left EXCEPT ![s] = Len(emitted)]
    /\ UNCHANGED <<height, hdr, stuck, pending, disp, ch, rd, calls, emitted, sent, eaten, took>>

Intake ==
    /\ disp.st = "select" /\ pending # NoEvent
    /\ disp' = [st |-> "fan", ev |-> pending, pos |-> 1] /\ pending' = NoEvent
    /\ UNCHANGED <<height, hdr, stuck, feed, ch, rd, call, calls, emitted, sent, eaten, took, left>>

\* one item to every subscriber of its kind (the order among them is map order: not modelled, not judged)
FanOut ==
    /\ disp.st = "fan"
    /\ LET items == ImplStream(Blocks[disp.ev.b])
           it    == items[disp.pos]
           to    == {s \in feed : KindOf[s] = it.k}
       IN  /\ \A s \in to : Len(ch[s]) < Cap[s]
           /\ ch' = [s \in Subs |-> IF s \in to THEN Append(ch[s], it) ELSE ch[s]]
           /\ sent' = [s \in Subs |-> IF s \in to THEN Append(sent[s], it) ELSE sent[s]]
           /\ emitted' = Append(emitted, it)
           /\ disp' = IF disp.pos = Len(items) THEN [st |-> "select"] ELSE [disp EXCEPT !.pos = @ + 1]
    /\ UNCHANGED <<height, hdr, stuck, pending, feed, rd, call, calls, eaten, took, left>>

Next ==
    \/ StoreBlock \/ LateFail \/ HeaderOnly
    \/ \E s \in Subs : SubReq(s) \/ UnsubReq(s) \/ UnsubEat(s) \/ UnsubDrainShared(s) \/ Read(s) \/ SubTake(s) \/ UnsubTake(s)
    \/ Intake \/ FanOut

Spec == Init /\ [][Next]_vars

----------------------------------------------------------------------------
\* Impl => Abstract
Accepted == SubSeq(Blocks, 1, height)
Full     == Abs!ChainStream(Accepted)
IsPrefixOf(a, b) == Len(a) <= Len(b) /\ SubSeq(b, 1, Len(a)) = a

\* what has been announced is a prefix of THE stream of the accepted blocks: order inside a block, chain order, halted
\* notifications only, nothing for an offer that was refused
StreamPrefix == IsPrefixOf(emitted, Full)

\* when nothing is in flight, everything has been announced (nothing is lost)
Quiet == disp.st = "select" /\ pending = NoEvent
QuiescentComplete == Quiet => emitted = Full

\* a subscriber is sent exactly the piece of the stream between the moments its subscription and its unsubscription
\* took effect; it holds that piece minus what its own unsubscription loop discarded (one contiguous run)
Window(s) == IF took[s] < 0 THEN <<>>
             ELSE Abs!OfKinds(SubSeq(emitted, took[s] + 1, IF left[s] < 0 THEN Len(emitted) ELSE left[s]), {KindOf[s]})
Held(s)   == rd[s] \o ch[s]
SubscriberWindow ==
    \A s \in Subs :
        /\ sent[s] = Window(s)
        /\ Held(s) = SubSeq(sent[s], 1, Len(rd[s])) \o SubSeq(sent[s], Len(rd[s]) + eaten[s] + 1, Len(sent[s]))

\* the judge of the abstract level, applied to what each subscriber holds at quiescence over the whole history
RoleOf(s) == IF took[s] < 0 THEN "idle"
             ELSE IF took[s] = 0 /\ left[s] < 0 /\ eaten[s] = 0 THEN "steady"
             ELSE IF left[s] < 0 /\ eaten[s] = 0 THEN "join"
             ELSE "leave"
JudgedAtQuiescence ==
    (Quiet /\ \A s \in Subs : call[s] = "none") =>
        \A s \in Subs :
            IF RoleOf(s) = "leave"   \* what was read before the Unsubscribe call, and what is left after it
            THEN /\ Abs!Judge(rd[s], {KindOf[s]}, "leave", Accepted, FALSE) = {}
                 /\ Abs!Judge(ch[s], {KindOf[s]}, "leave", Accepted, FALSE) = {}
            ELSE Abs!Judge(Held(s), {KindOf[s]}, RoleOf(s), Accepted, FALSE) = {}

\* informational (holds on the model, not promised by the documentation): subscriptions take effect between blocks
Boundaries == {Len(Abs!ChainStream(SubSeq(Blocks, 1, i))) : i \in 0..N}
BlockAligned == \A s \in Subs : (took[s] >= 0 => took[s] \in Boundaries) /\ (left[s] >= 0 => left[s] \in Boundaries)

AbsInv == StreamPrefix /\ QuiescentComplete /\ SubscriberWindow /\ JudgedAtQuiescence /\ BlockAligned
=============================================================================
