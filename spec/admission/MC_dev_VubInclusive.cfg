SPECIFICATION Spec
CONSTANTS
  K = 1
  Mode = "single"
  Deviation = "VubInclusive"
INVARIANTS ConstructionMatchesAbstract ImplMatchesAbstract AtMostOne
CHECK_DEADLOCK FALSE
