SPECIFICATION Spec
CONSTANTS
  K = 1
  Mode = "single"
  Deviation = "none"
INVARIANTS ConstructionMatchesAbstract ImplMatchesAbstract AtMostOne Emit
CHECK_DEADLOCK FALSE
