SPECIFICATION Spec
CONSTANTS
  K = 2
  Mode = "single"
  Deviation = "none"
INVARIANTS ConstructionMatchesAbstract ImplMatchesAbstract AtMostOne Emit
CHECK_DEADLOCK FALSE
