--------------------------- MODULE AdmissionTrace ---------------------------
(***************************************************************************)
(* C07 - validates what the real node did against the ABSTRACT level.      *)
(* Events (one JSON object per line):                                      *)
(*   world    parameters of a prepared chain (informative)                 *)
(*   admit    f = facts of the offered transaction (read back from the     *)
(*            real transaction / chain), o = observation [parsed, poolok,  *)
(*            verifyok, inpool, poolerr], want = what the enumeration      *)
(*            printed for the requested cell                               *)
(*   propose  pool (ids in pool order), sel (ids packed), tx (sequence of  *)
(*            [size, sysfee] by id), limits, wiresize, accepted            *)
(* Names reported: Sound, FeeExact, Consistent, Proposable, WithinLimits   *)
(* are properties of the statement (violations).  Names starting with      *)
(* "Drift" compare with the implementation-shaped level only.              *)
(***************************************************************************)
EXTENDS TraceIO, FiniteSets, SequencesExt, AdmissionImpl

VARIABLES l
vars == <<l>>

Init == l = 1

AdmitChecks(e) ==
    LET f == e.f  o == e.o IN
           NameIf(Sound(f, o), "Sound")
      \cup NameIf(FeeExact(f, o), "FeeExact")
      \cup NameIf(Consistent(f, o), "Consistent")
      \* the facts read back must be the facts of the requested cell, otherwise the harness did not build what TLC asked for
      \cup NameIf(Defects(f) = ToSet(e.want.defects) /\ Outcome(f) = e.want.outcome, "DriftRealisation")
      \cup NameIf(o.parsed => (ImplAdmit(f) = o.poolerr), "DriftErrorClass")
      \cup NameIf(Outcome(f) = "open" /\ o.parsed => o.inpool = (f.recvslack >= 0), "DriftOpenCell")
      \* the fee calculator, the calculatenetworkfee logic (run the witness, take the gas) and the node's attribute fees agree
      \cup NameIf(f.form = "ok" => f.feesources, "DriftFeeSources")

ProposeChecks(e) ==
           NameIf(Proposable(e), "Proposable")
      \cup NameIf(WithinLimits(e), "WithinLimits")
      \cup NameIf(InPoolOrder(e), "DriftPoolOrder")
      \cup NameIf(e.pred < 0 \/ Len(e.sel) = e.pred, "DriftSelection")

Step ==
    /\ l <= Len(TLog)
    /\ l' = l + 1
    /\ LET e == TLog[l] IN
       CASE e.event = "admit"   -> Report(l, AdmitChecks(e), [idx |-> e.idx, world |-> e.world])
         [] e.event = "propose" -> Report(l, ProposeChecks(e), [src |-> e.src])
         [] OTHER -> TRUE

TraceSpec == Init /\ [][Step]_vars
=============================================================================
