SPECIFICATION Spec
CONSTANTS
  MaxLen = 3
  Sizes = {1, 2, 3}
  SysFees = {0, 1, 2}
  Limits <- LimitsReal
  Deviation = "none"
INVARIANTS PackWithinLimits PackInPoolOrder PackMaximal Emit
CHECK_DEADLOCK FALSE
