SPECIFICATION Spec
CONSTANTS
  K = 1
  Mode = "single"
  Deviation = "ConflictAnySigner"
INVARIANTS ConstructionMatchesAbstract ImplMatchesAbstract AtMostOne
CHECK_DEADLOCK FALSE
