SPECIFICATION Spec
CONSTANTS
  K = 0
  Mode = "pairs"
  Deviation = "none"
INVARIANTS ConstructionMatchesAbstract ImplMatchesAbstract AtMostOne Emit
CHECK_DEADLOCK FALSE
