SPECIFICATION Spec
CONSTANTS
  K = 1
  Mode = "pairs"
  Deviation = "none"
INVARIANTS ConstructionMatchesAbstract ImplMatchesAbstract AtMostOne Emit
CHECK_DEADLOCK FALSE
