SPECIFICATION Spec
CONSTANTS
  K = 1
  Mode = "prod"
  Deviation = "none"
INVARIANTS ConstructionMatchesAbstract ImplMatchesAbstract AtMostOne Emit
CHECK_DEADLOCK FALSE
