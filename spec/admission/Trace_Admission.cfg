SPECIFICATION TraceSpec
CONSTANTS
  Deviation = "none"
POSTCONDITION TraceAccepted
CHECK_DEADLOCK FALSE
