--------------------------- MODULE AdmissionCases ---------------------------
(***************************************************************************)
(* C07 - enumeration of admission cells (the specification is the oracle). *)
(* A cell is a transaction described symbolically, one value per           *)
(* dimension; every dimension has valid values (GoodVals) and values that  *)
(* break the rule in exactly that respect (BadVals).  The cells are        *)
(*   Base(K)     the default valid transaction with at most K dimensions   *)
(*               moved to another VALID value, and                         *)
(*   Defective   every base cell with exactly ONE dimension moved to an    *)
(*               invalid value                                             *)
(* restricted to the feasible ones (combinations the harness can realise   *)
(* as one concrete transaction on one prepared chain).  Mode "prod" adds   *)
(* the full product of the witness / cosigner / attribute / size /         *)
(* encoding / fee-slack dimensions.                                        *)
(* One TLC state = one cell.  TLC checks on every cell that                *)
(*   - the abstract Defects of its facts is exactly what the construction  *)
(*     intends (empty for a base cell, the one named respect otherwise),   *)
(*   - the implementation-shaped ImplAdmit says "ok" iff Defects is empty, *)
(* and prints the cell with the specified outcome class (@@CASE@@).        *)
(***************************************************************************)
EXTENDS AdmissionImpl, TLC, Json

CONSTANTS K,       \* number of valid variations of the default cell
          Mode     \* "single" | "prod" | "pairs" (two defects at once: model-level check only, not emitted)

VARIABLE c

Inc     == 500        \* model values of the chain parameters (the harness reads the real ones back)
MaxSize == 102400

Default == [form |-> "ok", script |-> "ok", vub |-> "mid", chain |-> "fresh", blocked |-> "none", sysfee |-> "ok",
            attr |-> "none", size |-> "small", d |-> "0", wit |-> "sig", cos |-> "none", wval |-> "ok", wat |-> "1",
            bal |-> "ok", enc |-> "canon"]
DimSet == DOMAIN Default

StdWit == {"sig", "ms11", "ms12", "ms22", "ms13", "ms23", "ms33", "ms14", "ms24", "ms34", "ms44"}
MsWit  == StdWit \ {"sig"}
Ms2Wit == {"ms22", "ms23", "ms33", "ms24", "ms34", "ms44"}     \* at least two signatures
Widths == {"fd", "fe", "ff"}
NcFields == {"nsigners", "nattrs", "scriptlen", "nwit", "invlen", "verlen", "rulecount"}
NcEnc == {f \o "_" \o w : f \in NcFields, w \in Widths} \cup {"boolbyte"}
\* encodings whose non-minimal part lies inside the hashed (signed) fields
HashedNc == {f \o "_" \o w : f \in {"nsigners", "nattrs", "scriptlen", "rulecount"}, w \in Widths} \cup {"boolbyte"}

OracleOK  == {"oracle"}
OracleBad == {"oracle_scope", "oracle_nosigner", "oracle_script", "oracle_noreq", "oracle_gas"}
NotaryS   == {"notarysender", "notary_sender3"}

GoodVals == [form |-> {"ok"}, script |-> {"ok"}, vub |-> {"lo", "mid", "hi"},
             chain |-> {"fresh", "namedother"}, blocked |-> {"none"}, sysfee |-> {"ok", "limit"},
             attr |-> {"none", "high", "nvb", "nvbnow", "conflicts", "conflicts2", "notary", "notarysender"} \cup OracleOK,
             size |-> {"small", "mid", "max"}, d |-> {"0", "p1"},
             wit |-> StdWit \cup {"cver", "carg", "any"}, cos |-> {"none", "sig", "ms23", "cver"},
             wval |-> {"ok"}, wat |-> {"1", "2"}, bal |-> {"ok", "exact"}, enc |-> {"canon"} \cup NcEnc]

BadVals ==  [form |-> {"version", "nosigner", "dupsigner", "dupattr", "emptyscript", "witcount", "trailing", "attrtype",
                       "manyattrs", "negsysfee"},
             script |-> {"badop", "trunc", "badjump", "midjump", "badtype"}, vub |-> {"expired", "far"},
             chain |-> {"dup", "namedsender", "namedcosigner"}, blocked |-> {"sender", "cosigner"}, sysfee |-> {"over"},
             attr |-> {"high_nocommittee", "nvb_future", "conflicts_dup", "conflicts_onchain", "notary_nosigner",
                       "notary_sender3", "reserved"} \cup OracleBad,
             size |-> {"over"}, d |-> {"m1"}, wit |-> {}, cos |-> {},
             wval |-> {"badsig", "wrongkey", "fewsigs", "sigorder", "hashmismatch", "noinv", "extra", "cfalse", "cunknown",
                       "cnoverify", "cfault", "badverscript"},
             wat |-> {}, bal |-> {"short"}, enc |-> {}]

DefectOf == [form |-> "form", script |-> "script", chain |-> "chain", blocked |-> "policy", sysfee |-> "policy",
             attr |-> "attr", size |-> "size", d |-> "fee", wval |-> "witness", bal |-> "funds", vub |-> "vub",
             wit |-> "", cos |-> "", wat |-> "", enc |-> ""]

Target(x) == IF x.wat = "1" THEN x.wit ELSE x.cos

(* what one concrete transaction on one prepared chain can be *)
Feasible(x) ==
    /\ x.wat = "2" => x.cos # "none" /\ x.wval # "ok"          \* the position only matters for a broken witness
    /\ x.blocked = "cosigner" => x.cos # "none"
    /\ x.chain = "namedcosigner" => x.cos # "none"
    /\ x.wval \in {"badsig", "wrongkey", "noinv", "extra", "hashmismatch", "fewsigs"} => Target(x) \in StdWit
    /\ x.wval = "fewsigs" => Target(x) \in MsWit
    /\ x.wval = "sigorder" => Target(x) \in Ms2Wit
    /\ x.wval = "cfalse" => Target(x) = "carg"
    /\ x.wval \in {"cunknown", "cnoverify", "cfault"} => Target(x) = "cver"
    /\ x.wval = "badverscript" => Target(x) = "any"
    \* facts about the chain are prepared in advance for canonical, mid-window, otherwise plain transactions
    /\ x.chain # "fresh" => x.enc = "canon" /\ x.vub = "mid" /\ x.bal = "ok" /\ x.attr \in {"none", "nvb", "conflicts"}
                            /\ x.sysfee = "ok" /\ x.form = "ok"
    \* the oracle response and the notary-sponsored transaction have fixed signers
    /\ x.attr \in OracleOK \cup OracleBad =>
          x.wit = "sig" /\ x.cos = "none" /\ x.blocked = "none" /\ x.bal = "ok" /\ x.size = "small" /\ x.wval = "ok"
          /\ x.sysfee = "ok" /\ x.enc \notin {"rulecount_fd", "rulecount_fe", "rulecount_ff", "boolbyte"} /\ x.form = "ok"
          /\ x.script = "ok"
    /\ x.attr \in NotaryS =>
          x.wit = "sig" /\ x.cos = "none" /\ x.blocked = "none" /\ x.bal = "ok" /\ x.wval = "ok" /\ x.sysfee = "ok"
          /\ x.form = "ok"
    \* the balance is matched through the system fee; the system fee limit needs the rich single-signature account
    /\ x.bal # "ok" => x.sysfee = "ok"
    /\ x.sysfee # "ok" => x.wit = "sig" /\ x.blocked = "none"
    /\ x.blocked = "sender" => x.wit = "sig"
    /\ x.blocked = "cosigner" => x.cos = "sig"
    \* malformed containers are built from plain content
    /\ x.form # "ok" => x.enc = "canon" /\ x.size = "small"
    /\ x.form = "dupattr" => x.attr \in {"none", "high"}
    /\ x.form = "manyattrs" => x.attr = "none"

Vary1(B)     == B \cup UNION {{[b EXCEPT ![dm] = v] : v \in GoodVals[dm]} : b \in B, dm \in DimSet}
RECURSIVE BaseK(_)
BaseK(k)     == IF k = 0 THEN {Default} ELSE Vary1(BaseK(k - 1))
Defective(B) == UNION {{[b EXCEPT ![dm] = v] : v \in BadVals[dm]} : b \in B, dm \in DimSet}
                \* a broken witness of the SECOND signer is one defect as well (the position is not a variation)
                \cup {[b EXCEPT !.wval = v, !.wat = "2"] : b \in {x \in B : x.cos # "none"}, v \in BadVals.wval}

Prod == {[Default EXCEPT !.wit = w, !.cos = o, !.attr = a, !.size = s, !.enc = e, !.d = dd] :
            w \in GoodVals.wit, o \in GoodVals.cos, a \in GoodVals.attr \ ({"notarysender"} \cup OracleOK),
            s \in GoodVals.size, e \in GoodVals.enc, dd \in {"0", "m1"}}

\* valid combinations of two or three variations where fee accounting depends on both (always included)
Extra == {[Default EXCEPT !.attr = a, !.cos = o, !.d = dd] :
             a \in {"high", "conflicts", "conflicts2", "notary", "nvb"}, o \in {"sig", "ms23", "cver"}, dd \in {"0", "m1", "p1"}}
         \cup {[Default EXCEPT !.wit = w, !.size = sz, !.d = dd] : w \in GoodVals.wit, sz \in {"mid", "max"}, dd \in {"0", "m1"}}
         \cup {[Default EXCEPT !.wit = w, !.cos = o, !.d = dd] : w \in GoodVals.wit, o \in {"sig", "ms23", "cver"}, dd \in {"0", "m1"}}
         \cup {[Default EXCEPT !.wit = w, !.enc = e] : w \in {"ms23", "cver"}, e \in GoodVals.enc}
         \cup {[Default EXCEPT !.size = sz, !.enc = e, !.d = dd] : sz \in {"max", "over"}, e \in GoodVals.enc, dd \in {"0"}}
         \cup {[Default EXCEPT !.bal = b, !.wit = w] : b \in {"exact", "short"}, w \in GoodVals.wit}

BaseCells == {x \in BaseK(K) : Feasible(x)}
Cases == IF Mode = "single" THEN BaseCells \cup {x \in Defective(BaseCells) \cup Extra : Feasible(x)}
         ELSE IF Mode = "prod" THEN {x \in Prod : Feasible(x)}
         ELSE {x \in Defective(Defective(BaseCells)) : Feasible(x)}

----------------------------------------------------------------------------
(* the facts of a cell (model values; the harness reads the real ones back from the built transaction) *)
BadDims(x) == {dm \in DimSet : x[dm] \in BadVals[dm]}   \* (wat has no bad values)
IsStd(x) == x.wit \in StdWit /\ x.cos \in StdWit \cup {"none"}
            /\ x.attr \notin {"notary", "notarysender", "notary_sender3"} \cup OracleOK \cup OracleBad
\* encodings as long as the canonical one: the boolean byte, and the 3-byte length of a script of 253 bytes or more
\* (which IS the minimal form then)
\* and the 3-byte length of a four-signature invocation script (264 bytes)
SameLen(x) == \/ x.enc \in {"canon", "boolbyte"}
              \/ (x.enc = "scriptlen_fd" /\ x.size # "small")
              \/ (x.enc = "invlen_fd" /\ x.wit = "ms44" /\ (x.wat = "2" \/ x.wval \notin {"fewsigs", "noinv", "hashmismatch"}))
Facts(x) ==
    [form |-> x.form, script |-> x.script,
     vubrel |-> CASE x.vub = "expired" -> 0 [] x.vub = "lo" -> 1 [] x.vub = "mid" -> 10 [] x.vub = "hi" -> Inc [] x.vub = "far" -> Inc + 1,
     inc |-> Inc, dup |-> x.chain = "dup",
     namedby |-> IF x.chain \in {"namedsender", "namedcosigner"} THEN "signer" ELSE IF x.chain = "namedother" THEN "other" ELSE "none",
     blocked |-> x.blocked # "none", sysover |-> x.sysfee = "over",
     attr |-> IF x.attr \in BadVals.attr THEN x.attr ELSE "ok",
     size |-> CASE x.size = "small" -> 300 [] x.size = "mid" -> 30000 [] x.size = "max" -> MaxSize [] x.size = "over" -> MaxSize + 1,
     maxsize |-> MaxSize,
     baseslack |-> 100, std |-> IsStd(x),
     \* the fee slack of a cell is relative to the size the node attributes to the transaction: the length of its
     \* (canonical) encoding, however it was received (a non-minimal encoding is longer; before repair 7f2d340 the node
     \* charged for the received length)
     slack |-> (CASE x.d = "m1" -> -1 [] x.d = "0" -> 0 [] x.d = "p1" -> 1),
     recvslack |-> CASE x.d = "m1" -> -1 [] x.d = "0" -> 0 [] x.d = "p1" -> 1,
     wval |-> x.wval,
     balslack |-> CASE x.bal = "ok" -> 1000 [] x.bal = "exact" -> 0 [] x.bal = "short" -> -1,
     enc |-> x.enc]

\* the defect names of the abstract level per dimension
Intended(x) == {CASE dm = "vub" -> (IF x.vub = "expired" THEN "expired" ELSE "notyet")
                  [] dm = "chain" -> (IF x.chain = "dup" THEN "dup" ELSE "conflict")
                  [] dm = "d" -> (IF IsStd(x) THEN "fee" ELSE "open")
                  [] OTHER -> DefectOf[dm] : dm \in BadDims(x)} \ {"open"}

Init == c \in Cases
Next == UNCHANGED c
Spec == Init /\ [][Next]_c

ConstructionMatchesAbstract == Defects(Facts(c)) = Intended(c)
ImplMatchesAbstract == Outcome(Facts(c)) # "open" => ((ImplAdmit(Facts(c)) = "ok") <=> (Defects(Facts(c)) = {}))
AtMostOne == Mode # "pairs" => Cardinality(Defects(Facts(c))) <= 1

Row == [cell |-> c, defects |-> Defects(Facts(c)), outcome |-> Outcome(Facts(c)), err |-> ImplAdmit(Facts(c)),
        std |-> IsStd(c), hashednc |-> c.enc \in HashedNc]
Emit == Mode = "pairs" \/ PrintT(<<"@@CASE@@", ToJson(Row)>>)
=============================================================================
