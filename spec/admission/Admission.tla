----------------------------- MODULE Admission -----------------------------
(***************************************************************************)
(* C07 - ABSTRACT level (the judge).                                       *)
(*                                                                         *)
(* Part 1, admission.  A transaction offered to a node is described by the *)
(* FACTS the property statement mentions, nothing else (record f):         *)
(*   form      "ok" or the way the container is malformed                  *)
(*   script    "ok" or the way the script is not a well-formed program     *)
(*   vubrel    ValidUntilBlock - current height          (integer)         *)
(*   inc       MaxValidUntilBlockIncrement of the chain  (integer)         *)
(*   dup       a transaction with this hash is on chain                    *)
(*   namedby   "none" | "signer" | "other": an on-chain transaction names  *)
(*             this hash in a Conflicts attribute and (signer) shares a    *)
(*             signer with it / (other) shares none                        *)
(*   blocked   one of its signers is blocked by the Policy contract        *)
(*   sysover   its system fee exceeds the block system fee limit (policy)  *)
(*   attr      "ok" or the attribute rule it breaks                        *)
(*   size, maxsize   serialized size / protocol limit                      *)
(*   baseslack netfee - (size*feePerByte + attribute fees)                 *)
(*   std       every witness is a standard signature / multisignature one  *)
(*   slack     netfee - (size*feePerByte + attribute fees + witness cost   *)
(*             given by the fee calculator), meaningful when std           *)
(*   wval      "ok" or the way one witness does not verify                 *)
(*   balslack  payer balance - (sysfee + netfee)                           *)
(*   enc       "canon" or the non-minimal encoding variant it came in      *)
(* Defects(f) is the set of respects in which f breaks the rule.  The      *)
(* statement is an "only if" plus an exact threshold for standard          *)
(* witnesses:                                                              *)
(*   Sound     Defects # {}  =>  not pooled                                *)
(*   FeeExact  Defects = {} /\ std /\ canonical encoding => pooled         *)
(*             (slack = 0 is accepted; slack = -1 is the defect "fee")     *)
(* Everything else (contract-based witnesses with no defect, the canonical *)
(* -size fee of a non-canonical encoding) is left open; only the two entry *)
(* points must agree with each other (Consistent).                         *)
(*                                                                         *)
(* Part 2, proposals.  A proposal is what a primary builds from its pool:  *)
(* the pool order, the packed selection, the limits, what the wire block   *)
(* weighs, and whether an independent replica accepted the block after the *)
(* wire round trip.                                                        *)
(***************************************************************************)
EXTENDS Integers, Sequences, FiniteSets

Defects(f) ==
       (IF f.form # "ok" THEN {"form"} ELSE {})
  \cup (IF f.script # "ok" THEN {"script"} ELSE {})
  \cup (IF f.vubrel < 1 THEN {"expired"} ELSE {})
  \cup (IF f.vubrel > f.inc THEN {"notyet"} ELSE {})
  \cup (IF f.dup THEN {"dup"} ELSE {})
  \cup (IF f.namedby = "signer" THEN {"conflict"} ELSE {})
  \cup (IF f.blocked \/ f.sysover THEN {"policy"} ELSE {})
  \cup (IF f.attr # "ok" THEN {"attr"} ELSE {})
  \cup (IF f.size > f.maxsize THEN {"size"} ELSE {})
  \cup (IF f.baseslack < 0 \/ (f.std /\ f.slack < 0) THEN {"fee"} ELSE {})
  \cup (IF f.wval # "ok" THEN {"witness"} ELSE {})
  \cup (IF f.balslack < 0 THEN {"funds"} ELSE {})

\* the specified outcome class
Outcome(f) == IF Defects(f) # {} THEN "reject"
              ELSE IF f.std /\ f.enc = "canon" THEN "accept"
              ELSE "open"

\* o = observation of the real node: parsed, poolok (PoolTx returned nil), verifyok (VerifyTx returned nil),
\* inpool (the pool contains the hash afterwards)
Sound(f, o)      == Defects(f) # {} => ~o.inpool /\ ~o.poolok
FeeExact(f, o)   == Outcome(f) = "accept" => o.parsed /\ o.inpool
Consistent(f, o) == (o.poolok <=> o.inpool) /\ (o.parsed => (o.poolok <=> o.verifyok)) /\ (~o.parsed => ~o.poolok)

----------------------------------------------------------------------------
(* proposals: p.pool, p.sel sequences of transaction ids; p.tx[id] = [size, sysfee];                         *)
(* p.maxtx (0 = no limit), p.maxsize, p.maxsys; p.wiresize = length of the encoded block; p.accepted         *)
RECURSIVE SumSys(_, _)
SumSys(tx, s) == IF s = <<>> THEN 0 ELSE tx[Head(s)].sysfee + SumSys(tx, Tail(s))

IsPrefix(s, t) == Len(s) <= Len(t) /\ \A i \in DOMAIN s : s[i] = t[i]

WithinLimits(p) == /\ (p.maxtx = 0 \/ Len(p.sel) <= p.maxtx)
                   /\ p.wiresize <= p.maxsize
                   /\ SumSys(p.tx, p.sel) <= p.maxsys
InPoolOrder(p)  == IsPrefix(p.sel, p.pool)
Proposable(p)   == p.accepted
=============================================================================
