---------------------------- MODULE AdmissionPack ----------------------------
(***************************************************************************)
(* C07 - block packing under the limits.  One TLC state = one pool (a      *)
(* sequence of at most MaxLen transactions in pool order, each with a size *)
(* and a system fee in model units) together with one limit record         *)
(* [maxtx (0 = no limit), maxsize, maxsys].  TLC checks that the selection *)
(* of the implementation-shaped ApplyPolicyToTxSet is a prefix of the pool *)
(* and within the abstract limits (the size of the real block is at most   *)
(* the estimate the code sums up: base + the sizes), and prints the case   *)
(* with the predicted selection for the replay on the real node.           *)
(***************************************************************************)
EXTENDS AdmissionImpl, TLC, Json

CONSTANTS MaxLen, Sizes, SysFees, Limits

VARIABLE c

Shapes == [size : Sizes, sysfee : SysFees]
RECURSIVE SeqsUpTo(_)
SeqsUpTo(n) == IF n = 0 THEN {<<>>} ELSE LET P == SeqsUpTo(n - 1) IN P \cup {Append(s, x) : s \in {q \in P : Len(q) = n - 1}, x \in Shapes}

Init == c \in [pool : SeqsUpTo(MaxLen), lim : Limits]
Next == UNCHANGED c
Spec == Init /\ [][Next]_c

Ids(x) == [i \in DOMAIN x.pool |-> i]
Sel(x) == ImplPack(x.pool, Ids(x), x.lim.maxtx, x.lim.maxsize, x.lim.maxsys, 0)
RECURSIVE SumSize(_, _)
SumSize(tx, s) == IF s = <<>> THEN 0 ELSE tx[Head(s)].size + SumSize(tx, Tail(s))
Prop(x) == [pool |-> Ids(x), sel |-> Sel(x), tx |-> x.pool, maxtx |-> x.lim.maxtx, maxsize |-> x.lim.maxsize,
            maxsys |-> x.lim.maxsys, wiresize |-> SumSize(x.pool, Sel(x)), accepted |-> TRUE]

PackWithinLimits == WithinLimits(Prop(c))
PackInPoolOrder  == InPoolOrder(Prop(c))
\* the selection is not needlessly short: the next pool entry would break a limit
PackMaximal == LET s == Sel(c) IN
    Len(s) < Len(c.pool) =>
        LET nxt == Append(s, Len(s) + 1) IN
        \/ (c.lim.maxtx # 0 /\ Len(nxt) > c.lim.maxtx)
        \/ SumSize(c.pool, nxt) > c.lim.maxsize
        \/ SumSys(c.pool, nxt) > c.lim.maxsys

Emit == PrintT(<<"@@CASE@@", ToJson([pool |-> c.pool, lim |-> c.lim, sel |-> Len(Sel(c))])>>)
=============================================================================
