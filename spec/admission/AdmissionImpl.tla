--------------------------- MODULE AdmissionImpl ---------------------------
(***************************************************************************)
(* C07 - IMPLEMENTATION-SHAPED level: the order of the checks of           *)
(*   transaction.NewTransactionFromBytes  (container)                      *)
(*   Blockchain.verifyAndPoolOffChainTx / verifyAndPoolTx                  *)
(*        (blockchain.go:2921-3001), mempool.Pool.Add (funds)              *)
(* as a function from the facts to the class of the FIRST error, and       *)
(*   Blockchain.ApplyPolicyToTxSet (blockchain.go:2840-2874)               *)
(* as a function from the pool sequence and the limits to the selection.   *)
(* Used (a) by TLC: Impl answer "ok" <=> the abstract Defects set is empty *)
(* on every enumerated cell, the selection is within the abstract limits   *)
(* for every enumerated pool; (b) as the predictor for drift reports (which*)
(* error, which selection).  Named deviations (constants) must be caught   *)
(* by the same invariants: non-vacuity of the model level.                 *)
(***************************************************************************)
EXTENDS Admission

CONSTANTS Deviation    \* "none" | "VubInclusive" | "ConflictAnySigner" | "PackNoSysFee" | "PackCountLate"

ImplAdmit(f) ==
    IF f.form # "ok" THEN "parse"
    ELSE IF f.sysover THEN "policy"
    ELSE IF f.script # "ok" THEN "script"
    ELSE IF (IF Deviation = "VubInclusive" THEN f.vubrel < 0 ELSE f.vubrel <= 0) THEN "expired"
    ELSE IF f.vubrel > f.inc THEN "notyet"
    ELSE IF f.blocked THEN "policy"
    ELSE IF f.size > f.maxsize THEN "toobig"
    ELSE IF f.baseslack < 0 THEN "smallfee"
    ELSE IF f.dup THEN "exists"
    ELSE IF f.namedby = "signer" \/ (Deviation = "ConflictAnySigner" /\ f.namedby = "other") THEN "conflicts"
    ELSE IF f.wval # "ok" THEN "witness"
    ELSE IF f.attr = "notary_sender3" THEN "witness"  \* the native Notary verification refuses it before the attribute check
    ELSE IF f.recvslack < 0 THEN "witness"            \* the verification runs out of gas (size as received)
    ELSE IF f.attr # "ok" THEN "attr"
    ELSE IF f.balslack < 0 THEN "funds"
    ELSE "ok"

----------------------------------------------------------------------------
(* ApplyPolicyToTxSet: cut to maxtx first, then the longest prefix whose estimated block size and system    *)
(* fee stay within the limits.  base(n) = size of a block without transactions that announces n of them.    *)
RECURSIVE PackFrom(_, _, _, _, _, _, _)
PackFrom(tx, s, i, size, sys, maxsize, maxsys) ==
    IF i > Len(s) THEN s
    ELSE LET size2 == size + tx[s[i]].size
             sys2  == IF Deviation = "PackNoSysFee" THEN 0 ELSE sys + tx[s[i]].sysfee
         IN IF size2 > maxsize \/ sys2 > maxsys THEN SubSeq(s, 1, i - 1)
            ELSE PackFrom(tx, s, i + 1, size2, sys2, maxsize, maxsys)

ImplPack(tx, pool, maxtx, maxsize, maxsys, base) ==
    LET cut == IF maxtx # 0 /\ Len(pool) > maxtx /\ Deviation # "PackCountLate" THEN SubSeq(pool, 1, maxtx) ELSE pool
    IN PackFrom(tx, cut, 1, base, 0, maxsize, maxsys)
=============================================================================
