------------------------------- MODULE MCPack -------------------------------
EXTENDS AdmissionPack
LimitsFull == [maxtx : 0..3, maxsize : {2, 4, 5, 7, 12}, maxsys : {0, 1, 3, 100}]
\* the limit records the harness realises as chain configurations (one real chain per record)
LimitsReal == {[maxtx |-> 2, maxsize |-> 4, maxsys |-> 3], [maxtx |-> 0, maxsize |-> 5, maxsys |-> 100],
               [maxtx |-> 3, maxsize |-> 12, maxsys |-> 2], [maxtx |-> 1, maxsize |-> 2, maxsys |-> 1]}
=============================================================================
