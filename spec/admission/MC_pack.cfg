SPECIFICATION Spec
CONSTANTS
  MaxLen = 4
  Sizes = {1, 2, 3}
  SysFees = {0, 1, 2}
  Limits <- LimitsFull
  Deviation = "none"
INVARIANTS PackWithinLimits PackInPoolOrder PackMaximal
CHECK_DEADLOCK FALSE
