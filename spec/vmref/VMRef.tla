------------------------------- MODULE VMRef -------------------------------
(* IMPLEMENTATION-SHAPED level of C12: the item accounting of the NeoVM of neo-go.

   pkg/vm/ref_counter.go is transcribed exactly (Add / Rem below), and every collection instruction is an
   action that performs the hand-optimised counter adjustments of pkg/vm/vm.go in the same order as
   the code (counted / uncounted pops and pushes, "only if the parent is still referenced" branches,
   struct cloning on APPEND / SETITEM / VALUES, slot stores, context unloading on RET and on exception
   unwinding).

   The heap holds at most N compound items (ids 1..N; 0 is "some primitive item").  Roots are the cells
   of the evaluation stack (shared by all frames, as in the VM for CALL), the static slot cells and the
   local slot cells of every frame.

   Judged against the abstract level (VMLimits, clauses NoUnderCount and ExactAcyclic):
       refs >= Walk(roots)                      always
       no cycle was ever built => refs = Walk   exact
   where Walk counts every root cell plus the elements of every DISTINCT reachable compound item
   (a map entry counts key and value).  RcExact additionally says that, while acyclic, an item's own
   counter is the number of references to it from roots and from referenced compounds.

   Named deviations (must be caught by TLC, non-vacuity): BugAppend (APPEND forgets to count the new
   element), BugRemGuard (Remove decrements the counter of an unreferenced compound), BugOORDoubleRelease
   (SETITEM releases the value of a no longer referenced container before the range check and again on
   the out-of-range path).

   Exceptions raised by the instructions themselves: SETITEM with an index out of range (SetItemOOR) and
   PICKITEM with an index out of range / a missing map key (PickItemOOR, PickMapMissing) call v.throw with
   a fresh primitive message item AFTER part of the counter adjustments were made; the model performs the
   adjustments of the failing path in the order of vm.go and then unwinds exactly like THROW.  Without a
   handler in any frame the VM FAULTs: the model goes to a terminal state (fault = TRUE) about which
   nothing is said.

   Code shape switch MapRemoveDropsFirst.  vm.go (tree aafec21 + verif hooks) executes REMOVE on a map as
   "Remove(key); Remove(value); Drop(index)".  TLC shows (MC_Q1.cfg, 9 actions) that this order breaks
   NoUnderCount: if the removed value holds - directly or through other items - the last reference to the
   map itself, Remove(value) recurses into the map, which still contains the entry, and removes the key
   a second time.  Reproduced on the real VM (script c84a104bd010d2).  MapRemoveDropsFirst = TRUE is the
   order "Drop(index); Remove(key); Remove(value)" (what CLEARITEMS does), for which all configurations
   pass.  The .cfg files carry the shape of the code under verification (FALSE); tools/checks/c12.py
   verifies the other shape exhaustively when the configured one yields a counterexample, and replays
   the counterexample on the real VM, where the abstract level decides. *)
EXTENDS Integers, Sequences, FiniteSets, FiniteSetsExt, TLC

CONSTANTS N,          \* compound ids 1..N
          MaxKids,    \* elements per compound
          MaxStack,   \* evaluation stack cells
          NS,         \* static slot cells
          MaxFrames,  \* invocation frames (frame 1 is the entry context)
          Kinds,      \* subset of {"arr", "struct", "map"}
          MaxLeak,    \* state constraint: surplus of the counter over the walk (leaked cycles)
          MapRemoveDropsFirst,   \* code shape of REMOVE on a map, see RemoveOp
          BugAppend, BugRemGuard, BugOORDoubleRelease

VARIABLES h,        \* heap: [kd: id -> kind|"free", k: id -> Seq(ref), mk: id -> Seq(key), rc: id -> Int, refs: Int]
          stack,    \* Seq(ref), top is the last element
          statics,  \* Seq(ref) of length NS
          frames,   \* Seq([loc: Seq(ref), try: BOOLEAN])
          everCyc,  \* a cycle was built at some moment
          walked,   \* Walk of the current state (derived; kept as a variable so that it is computed once)
          fault,    \* the VM faulted (terminal; the other variables are reset and mean nothing)
          last      \* label of the last action (history / generation only)

vars == <<h, stack, statics, frames, everCyc, walked, fault, last>>
Ids == 1..N

\* ------------------------------------------------------------------ graph helpers
KidSet(K, c) == {K[c][i] : i \in DOMAIN K[c]} \ {0}

ReachFrom(K, S0) ==
    LET RECURSIVE R(_)
        R(S) == LET T == S \cup UNION {KidSet(K, c) : c \in S}
                IN IF T = S THEN S ELSE R(T)
    IN R(S0 \ {0})

SeqSet(s) == {s[i] : i \in DOMAIN s}
RootSet(st, sl, fr) == SeqSet(st) \cup SeqSet(sl) \cup UNION {SeqSet(fr[i].loc) : i \in DOMAIN fr}
RootCells(st, sl, fr) == Len(st) + Len(sl) + FoldSet(LAMBDA i, a : a + Len(fr[i].loc), 0, DOMAIN fr)

Weight(hh, c) == Len(hh.k[c]) * (IF hh.kd[c] = "map" THEN 2 ELSE 1)
Walk(hh, st, sl, fr) ==
    RootCells(st, sl, fr) + FoldSet(LAMBDA c, a : a + Weight(hh, c), 0, ReachFrom(hh.k, RootSet(st, sl, fr)))

Cyclic(K) == \E c \in Ids : c \in ReachFrom(K, KidSet(K, c))

Occ(s, c) == Cardinality({i \in DOMAIN s : s[i] = c})

\* ------------------------------------------------------------------ ref_counter.go, transcribed
RECURSIVE Add(_, _), AddKids(_, _, _), Rem(_, _), RemKids(_, _, _)
Add(x, hh) ==
    IF x = 0 THEN [hh EXCEPT !.refs = @ + 1]
    ELSE LET h1 == [hh EXCEPT !.refs = @ + 1, !.rc[x] = @ + 1]
         IN IF h1.rc[x] = 1 THEN AddKids(x, 1, h1) ELSE h1
AddKids(x, i, hh) ==
    IF i > Len(hh.k[x]) THEN hh
    ELSE AddKids(x, i + 1, Add(hh.k[x][i], IF hh.kd[x] = "map" THEN [hh EXCEPT !.refs = @ + 1] ELSE hh))
Rem(x, hh) ==
    IF x = 0 THEN [hh EXCEPT !.refs = @ - 1]
    ELSE IF hh.rc[x] = 0
         THEN (IF BugRemGuard THEN [hh EXCEPT !.refs = @ - 1] ELSE hh)   \* `if t.IsReferenced()`
         ELSE LET h1 == [hh EXCEPT !.refs = @ - 1, !.rc[x] = @ - 1]
              IN IF h1.rc[x] = 0 THEN RemKids(x, 1, h1) ELSE h1
RemKids(x, i, hh) ==
    IF i > Len(hh.k[x]) THEN hh
    ELSE RemKids(x, i + 1, Rem(hh.k[x][i], IF hh.kd[x] = "map" THEN [hh EXCEPT !.refs = @ - 1] ELSE hh))

\* remove saved elements one by one (CLEARITEMS, clearRefs of a slot)
RECURSIVE RemList(_, _, _, _)
RemList(s, i, isMap, hh) ==
    IF i > Len(s) THEN hh
    ELSE RemList(s, i + 1, isMap, Rem(s[i], IF isMap THEN [hh EXCEPT !.refs = @ - 1] ELSE hh))

\* ------------------------------------------------------------------ allocation, struct cloning
Free(hh) == {c \in Ids : hh.kd[c] = "free"}
MinOf(S) == CHOOSE x \in S : \A y \in S : x <= y
IsStruct(hh, x) == x # 0 /\ hh.kd[x] = "struct"

StructKids(hh, c) == {d \in KidSet(hh.k, c) : hh.kd[d] = "struct"}
StructReach(hh, S0) ==
    LET RECURSIVE R(_)
        R(S) == LET T == S \cup UNION {StructKids(hh, c) : c \in S} IN IF T = S THEN S ELSE R(T)
    IN R(S0)
StructAcyclic(hh, x) == \A c \in StructReach(hh, {x}) : c \notin StructReach(hh, StructKids(hh, c))
\* number of fresh structs Clone(x) creates (a struct occurring twice is cloned twice)
RECURSIVE Need(_, _)
Need(hh, x) == 1 + FoldSet(LAMBDA i, a : a + (IF IsStruct(hh, hh.k[x][i]) THEN Need(hh, hh.k[x][i]) ELSE 0),
                           0, DOMAIN hh.k[x])
Clonable(hh, x) == IF IsStruct(hh, x) THEN StructAcyclic(hh, x) /\ Need(hh, x) <= Cardinality(Free(hh)) ELSE TRUE

\* stackitem.Struct.Clone: nested structs by value, everything else by reference; the clone has rc = 0
RECURSIVE CloneRec(_, _), CloneKids(_, _, _, _)
CloneRec(x, hh) ==
    LET n  == MinOf(Free(hh))
        h1 == [hh EXCEPT !.kd[n] = "struct", !.k[n] = <<>>, !.mk[n] = <<>>, !.rc[n] = 0]
        r  == CloneKids(hh.k[x], 1, h1, <<>>)
    IN [hh |-> [r.hh EXCEPT !.k[n] = r.out], id |-> n]
CloneKids(s, i, hh, out) ==
    IF i > Len(s) THEN [hh |-> hh, out |-> out]
    ELSE IF IsStruct(hh, s[i])
         THEN LET r == CloneRec(s[i], hh) IN CloneKids(s, i + 1, r.hh, Append(out, r.id))
         ELSE CloneKids(s, i + 1, hh, Append(out, s[i]))
\* cloneIfStruct
CIS(x, hh) == IF IsStruct(hh, x) THEN CloneRec(x, hh) ELSE [hh |-> hh, id |-> x]

\* ------------------------------------------------------------------ garbage
\* An item no root can reach can never be touched again by any instruction: its id is recycled.  What
\* it still holds in the counters (a leaked cycle) stays in h.refs, which is all the properties need.
Collect(hh, st, sl, fr) ==
    LET reach == ReachFrom(hh.k, RootSet(st, sl, fr))
        drop  == (Ids \ Free(hh)) \ reach
    IN [hh EXCEPT !.kd = [c \in Ids |-> IF c \in drop THEN "free" ELSE @[c]],
                  !.k  = [c \in Ids |-> IF c \in drop THEN <<>> ELSE @[c]],
                  !.mk = [c \in Ids |-> IF c \in drop THEN <<>> ELSE @[c]],
                  !.rc = [c \in Ids |-> IF c \in drop THEN 0 ELSE @[c]]]

\* ------------------------------------------------------------------ stack helpers
Top(i) == stack[Len(stack) - i]
PopN(n) == SubSeq(stack, 1, Len(stack) - n)
RemoveAtSeq(s, i) == SubSeq(s, 1, i - 1) \o SubSeq(s, i + 1, Len(s))
Rev(s) == [i \in 1..Len(s) |-> s[Len(s) + 1 - i]]
TopFrame == frames[Len(frames)]

\* common epilogue of every action
Finish(hh, st, sl, fr, lab) ==
    /\ h' = Collect(hh, st, sl, fr)
    /\ stack' = st /\ statics' = sl /\ frames' = fr
    /\ everCyc' = (everCyc \/ Cyclic(hh.k))
    /\ walked' = Walk(hh, st, sl, fr)
    /\ fault' = FALSE
    /\ last' = lab

Lab(op, a, b, kd) == [op |-> op, a |-> a, b |-> b, kd |-> kd]

\* ------------------------------------------------------------------ actions
Init ==
    /\ h = [kd |-> [c \in Ids |-> "free"], k |-> [c \in Ids |-> <<>>], mk |-> [c \in Ids |-> <<>>],
            rc |-> [c \in Ids |-> 0], refs |-> NS]            \* INITSSLOT NS: NS virtual Nulls
    /\ stack = <<>>
    /\ statics = [i \in 1..NS |-> 0]
    /\ frames = << [loc |-> <<>>, try |-> FALSE] >>
    /\ everCyc = FALSE
    /\ walked = NS
    /\ fault = FALSE
    /\ last = Lab("init", 0, 0, "")

PushPrim ==
    /\ Len(stack) < MaxStack
    /\ Finish(Add(0, h), Append(stack, 0), statics, frames, Lab("prim", 0, 0, ""))

\* NEWARRAY0 / NEWSTRUCT0 / NEWMAP (PushItem) and NEWARRAY / NEWSTRUCT n (IncRC + pushItemCounted(n+1))
New(kd, n) ==
    /\ Len(stack) < MaxStack /\ Free(h) # {}
    /\ (IF kd = "map" THEN n = 0 ELSE TRUE)
    /\ LET c  == MinOf(Free(h))
           h1 == [h EXCEPT !.kd[c] = kd, !.k[c] = [i \in 1..n |-> 0], !.mk[c] = <<>>, !.rc[c] = 0]
           h2 == IF n = 0 THEN Add(c, h1) ELSE [h1 EXCEPT !.rc[c] = 1, !.refs = @ + n + 1]
       IN Finish(h2, Append(stack, c), statics, frames, Lab("new", n, 0, kd))

\* DUP / OVER / PICK
Dup(i) ==
    /\ i < Len(stack) /\ Len(stack) < MaxStack
    /\ Finish(Add(Top(i), h), Append(stack, Top(i)), statics, frames, Lab("dup", i, 0, ""))

\* DROP / NIP / XDROP
Drop(i) ==
    /\ i < Len(stack)
    /\ Finish(Rem(Top(i), h), RemoveAtSeq(stack, Len(stack) - i), statics, frames, Lab("drop", i, 0, ""))

\* LDSFLD / LDLOC / LDARG: PushItem
LdStatic(j) ==
    /\ Len(stack) < MaxStack
    /\ Finish(Add(statics[j], h), Append(stack, statics[j]), statics, frames, Lab("lds", j, 0, ""))
LdLocal(j) ==
    /\ Len(stack) < MaxStack /\ j \in DOMAIN TopFrame.loc
    /\ Finish(Add(TopFrame.loc[j], h), Append(stack, TopFrame.loc[j]), statics, frames, Lab("ldl", j, 0, ""))
\* Slot.store: popNoRef, Remove(old)
StStatic(j) ==
    /\ Len(stack) >= 1
    /\ Finish(Rem(statics[j], h), PopN(1), [statics EXCEPT ![j] = Top(0)], frames, Lab("sts", j, 0, ""))
StLocal(j) ==
    /\ Len(stack) >= 1 /\ j \in DOMAIN TopFrame.loc
    /\ Finish(Rem(TopFrame.loc[j], h), PopN(1), statics,
              [frames EXCEPT ![Len(frames)].loc[j] = Top(0)], Lab("stl", j, 0, ""))

\* APPEND
AppendOp ==
    /\ Len(stack) >= 2
    /\ LET x == Top(0)  p == Top(1) IN
       /\ p # 0 /\ h.kd[p] \in {"arr", "struct"} /\ Len(h.k[p]) < MaxKids
       /\ LET h1 == Rem(x, h)                \* itemElem := Pop()
              h2 == Rem(p, h1)               \* arrElem := Pop()
          IN /\ Clonable(h2, x)
             /\ LET r  == CIS(x, h2)
                    h3 == r.hh
                    isRef == h3.rc[p] # 0
                    h4 == [h3 EXCEPT !.k[p] = Append(@, r.id)]
                    h5 == IF isRef /\ ~BugAppend THEN Add(r.id, h4) ELSE h4
                IN Finish(h5, PopN(2), statics, frames, Lab("append", 0, 0, h.kd[p]))

\* SETITEM on an array / struct, idx is 1-based here
SetItemOp(idx) ==
    /\ Len(stack) >= 2
    /\ LET x == Top(0)  p == Top(1) IN
       /\ p # 0 /\ h.kd[p] \in {"arr", "struct"} /\ idx \in DOMAIN h.k[p]
       /\ Clonable(h, x)
       /\ LET r  == CIS(x, h)                                   \* item := popNoRef; cloneIfStruct
              hB == IF IsStruct(h, x) THEN Add(r.id, Rem(x, r.hh)) ELSE r.hh
              hC == Rem(p, hB)                                  \* (key push/pop: net zero) obj := Pop()
              hD == IF hC.rc[p] # 0 THEN Rem(hC.k[p][idx], hC) ELSE Rem(r.id, hC)
              hE == [hD EXCEPT !.k[p][idx] = r.id]
          IN Finish(hE, PopN(2), statics, frames, Lab("setitem", idx, 0, h.kd[p]))

\* SETITEM on a map with key `key`
KeyIdx(hh, p, key) == IF \E i \in DOMAIN hh.mk[p] : hh.mk[p][i] = key
                      THEN CHOOSE i \in DOMAIN hh.mk[p] : hh.mk[p][i] = key ELSE 0
SetMapOp(key) ==
    /\ Len(stack) >= 2
    /\ LET x == Top(0)  p == Top(1) IN
       /\ p # 0 /\ h.kd[p] = "map"
       /\ (IF KeyIdx(h, p, key) = 0 THEN Len(h.k[p]) < MaxKids ELSE TRUE)
       /\ Clonable(h, x)
       /\ LET r  == CIS(x, h)
              hB == IF IsStruct(h, x) THEN Add(r.id, Rem(x, r.hh)) ELSE r.hh
              hC == Rem(p, hB)
              i  == KeyIdx(hC, p, key)
              hD == IF hC.rc[p] # 0
                    THEN (IF i > 0 THEN Rem(hC.k[p][i], hC) ELSE [hC EXCEPT !.refs = @ + 1])   \* refs.Add(key)
                    ELSE Rem(r.id, hC)
              hE == IF i > 0 THEN [hD EXCEPT !.k[p][i] = r.id]
                    ELSE [hD EXCEPT !.k[p] = Append(@, r.id), !.mk[p] = Append(@, key)]
          IN Finish(hE, PopN(2), statics, frames, Lab("setmap", key, 0, "map"))

\* REMOVE (idx 1-based position; for a map the harness uses the key stored at that position).
\* vm.go removes the element's references while the element is still in the collection and takes it
\* out afterwards.  MapRemoveDropsFirst = TRUE describes the other order (as CLEARITEMS does).
RemoveOp(idx) ==
    /\ Len(stack) >= 1
    /\ LET p == Top(0) IN
       /\ p # 0 /\ idx \in DOMAIN h.k[p]
       /\ LET hA == Rem(p, h)
              isMap == h.kd[p] = "map"
              v  == hA.k[p][idx]
              dropped == [hA EXCEPT !.k[p] = RemoveAtSeq(@, idx),
                                    !.mk[p] = IF isMap THEN RemoveAtSeq(@, idx) ELSE @]
              hB == IF isMap /\ MapRemoveDropsFirst THEN dropped ELSE hA
              hC == IF hB.rc[p] # 0
                    THEN Rem(v, IF isMap THEN [hB EXCEPT !.refs = @ - 1] ELSE hB)
                    ELSE hB
              hD == [hC EXCEPT !.k[p] = dropped.k[p], !.mk[p] = dropped.mk[p]]
          IN Finish(hD, PopN(1), statics, frames,
                    Lab("remove", idx, IF isMap THEN h.mk[p][idx] ELSE 0, h.kd[p]))

\* POPITEM
PopItemOp ==
    /\ Len(stack) >= 1
    /\ LET p == Top(0) IN
       /\ p # 0 /\ h.kd[p] \in {"arr", "struct"} /\ Len(h.k[p]) >= 1
       /\ LET hA == Rem(p, h)                         \* arr := Pop()
              e  == hA.k[p][Len(hA.k[p])]
              hB == Add(e, hA)                        \* PushItem(elem) first
              hC == [hB EXCEPT !.k[p] = SubSeq(@, 1, Len(@) - 1)]
              hD == IF hC.rc[p] # 0 THEN Rem(e, hC) ELSE hC
          IN Finish(hD, Append(PopN(1), e), statics, frames, Lab("popitem", 0, 0, h.kd[p]))

\* CLEARITEMS
ClearOp ==
    /\ Len(stack) >= 1
    /\ LET p == Top(0) IN
       /\ p # 0 /\ Len(h.k[p]) >= 1
       /\ LET hA == Rem(p, h)
              el == hA.k[p]
              hB == [hA EXCEPT !.k[p] = <<>>, !.mk[p] = <<>>]
              hC == IF hB.rc[p] # 0 THEN RemList(el, 1, h.kd[p] = "map", hB) ELSE hB
          IN Finish(hC, PopN(1), statics, frames, Lab("clear", 0, 0, h.kd[p]))

\* REVERSEITEMS
ReverseOp ==
    /\ Len(stack) >= 1
    /\ LET p == Top(0) IN
       /\ p # 0 /\ h.kd[p] \in {"arr", "struct"} /\ Len(h.k[p]) >= 2
       /\ LET hA == Rem(p, h)
          IN Finish([hA EXCEPT !.k[p] = Rev(@)], PopN(1), statics, frames, Lab("reverse", 0, 0, h.kd[p]))

\* PACK / PACKSTRUCT n: n x popNoRef, IncRC, pushItemCounted(1)
PackOp(kd, n) ==
    /\ kd \in {"arr", "struct"} /\ n <= Len(stack) /\ n <= MaxKids /\ Free(h) # {}
    /\ Len(stack) - n + 1 <= MaxStack
    /\ LET c  == MinOf(Free(h))
           h1 == [h EXCEPT !.kd[c] = kd, !.k[c] = [i \in 1..n |-> Top(i - 1)], !.mk[c] = <<>>,
                           !.rc[c] = 1, !.refs = @ + 1]
       IN Finish(h1, Append(PopN(n), c), statics, frames, Lab("pack", n, 0, kd))

\* PACKMAP n with distinct keys 0..n-1 pushed by the harness (n keys become counted items of the map);
\* dup = TRUE (n = 2): the same key twice, the second pair replaces the first value.
PackMapOp(n, dup) ==
    /\ n <= Len(stack) /\ n <= MaxKids /\ Free(h) # {}
    /\ Len(stack) - n + 1 <= MaxStack
    /\ (IF dup THEN n = 2 ELSE TRUE)
    /\ LET c  == MinOf(Free(h))
           hk == [h EXCEPT !.refs = @ + n]                       \* the keys pushed before PACKMAP
           h1 == IF ~dup
                 THEN [hk EXCEPT !.kd[c] = "map", !.k[c] = [i \in 1..n |-> Top(i - 1)],
                                 !.mk[c] = [i \in 1..n |-> i - 1], !.rc[c] = 1, !.refs = @ + 1]
                 ELSE LET hr == Rem(Top(0), [hk EXCEPT !.refs = @ - 1])   \* v.refs--; v.refs.Remove(old)
                      IN [hr EXCEPT !.kd[c] = "map", !.k[c] = <<Top(1)>>, !.mk[c] = <<0>>,
                                    !.rc[c] = 1, !.refs = @ + 1]
       IN Finish(h1, Append(PopN(n), c), statics, frames, Lab("packmap", n, IF dup THEN 1 ELSE 0, "map"))

\* UNPACK (followed by DROP of the count): popNoRef, refs--, DecRC, then counted or uncounted pushes
RECURSIVE UnpackPush(_, _, _, _, _)
UnpackPush(p, i, isRef, hh, st) ==          \* i runs from Len down to 1
    IF i = 0 THEN [hh |-> hh, st |-> st]
    ELSE LET v  == hh.k[p][i]
             h1 == IF isRef THEN Add(v, hh) ELSE hh
         IN IF hh.kd[p] = "map"
            THEN UnpackPush(p, i - 1, isRef, IF isRef THEN [h1 EXCEPT !.refs = @ + 1] ELSE h1,
                            Append(Append(st, v), 0))
            ELSE UnpackPush(p, i - 1, isRef, h1, Append(st, v))
UnpackOp ==
    /\ Len(stack) >= 1
    /\ LET p == Top(0) IN
       /\ p # 0
       /\ Len(stack) - 1 + Weight(h, p) <= MaxStack
       /\ LET h1 == [h EXCEPT !.refs = @ - 1, !.rc[p] = @ - 1]
              r  == UnpackPush(p, Len(h.k[p]), h1.rc[p] # 0, h1, PopN(1))
          IN Finish(r.hh, r.st, statics, frames, Lab("unpack", 0, 0, h.kd[p]))

\* VALUES: popNoRef, DecRC, cpValues, IncRC, pushItemCounted(0)
RECURSIVE CpValues(_, _, _, _, _)
CpValues(s, i, isRef, hh, out) ==
    IF i > Len(s) THEN [hh |-> hh, out |-> out]
    ELSE LET r == CIS(s[i], hh)
             h1 == IF isRef THEN Add(r.id, r.hh)
                   ELSE IF IsStruct(hh, s[i]) THEN Add(r.id, Rem(s[i], r.hh)) ELSE r.hh
         IN CpValues(s, i + 1, isRef, h1, Append(out, r.id))
NeedAll(hh, s) == FoldSet(LAMBDA i, a : a + (IF IsStruct(hh, s[i]) THEN Need(hh, s[i]) ELSE 0), 0, DOMAIN s)
ValuesOp ==
    /\ Len(stack) >= 1
    /\ LET p == Top(0) IN
       /\ p # 0
       /\ \A i \in DOMAIN h.k[p] : IF IsStruct(h, h.k[p][i]) THEN StructAcyclic(h, h.k[p][i]) ELSE TRUE
       /\ LET h1 == [h EXCEPT !.rc[p] = @ - 1]
              isRef == h1.rc[p] # 0
              \* (model economy) an unreferenced acyclic source is garbage afterwards: the result takes its id
              reuse == ~isRef /\ p \notin ReachFrom(h.k, KidSet(h.k, p))
          IN /\ NeedAll(h, h.k[p]) + (IF reuse THEN 0 ELSE 1) <= Cardinality(Free(h))
             /\ LET c  == IF reuse THEN p ELSE MinOf(Free(h))
                    hr == IF reuse THEN h1 ELSE [h1 EXCEPT !.kd[c] = "arr"]         \* reserve the result
                    h2 == IF h.kd[p] = "map" /\ ~isRef THEN [hr EXCEPT !.refs = @ - Len(h.k[p])] ELSE hr
                    r  == CpValues(h.k[p], 1, isRef, h2, <<>>)
                    h3 == [r.hh EXCEPT !.kd[c] = "arr", !.k[c] = r.out, !.mk[c] = <<>>, !.rc[c] = 1]
                IN Finish(h3, Append(PopN(1), c), statics, frames, Lab("values", 0, 0, h.kd[p]))

\* KEYS: Pop, new array of the (primitive) keys, IncRC, pushItemCounted(len+1)
KeysOp ==
    /\ Len(stack) >= 1 /\ Free(h) # {}
    /\ LET p == Top(0) IN
       /\ p # 0 /\ h.kd[p] = "map"
       /\ LET hA == Rem(p, h)
              c  == MinOf(Free(hA))
              n  == Len(h.k[p])
              hB == [hA EXCEPT !.kd[c] = "arr", !.k[c] = [i \in 1..n |-> 0], !.rc[c] = 1, !.refs = @ + n + 1]
          IN Finish(hB, Append(PopN(1), c), statics, frames, Lab("keys", 0, 0, "map"))

\* CALL + INITSLOT: one local (a counted virtual Null) or one argument taken from the stack uncounted
CallOp(fromStack) ==
    /\ Len(frames) < MaxFrames
    /\ (IF fromStack THEN Len(stack) >= 1 ELSE TRUE)
    /\ IF fromStack
       THEN Finish(h, PopN(1), statics, Append(frames, [loc |-> <<Top(0)>>, try |-> FALSE]), Lab("call", 1, 0, ""))
       ELSE Finish([h EXCEPT !.refs = @ + 1], stack, statics, Append(frames, [loc |-> <<0>>, try |-> FALSE]),
                   Lab("call", 0, 0, ""))

\* RET of a called frame: unloadContext -> clearRefs of its slots (the stack is shared)
RetOp ==
    /\ Len(frames) > 1
    /\ Finish(RemList(TopFrame.loc, 1, FALSE, h), stack, statics, SubSeq(frames, 1, Len(frames) - 1),
              Lab("ret", 0, 0, ""))

TryOp ==
    /\ ~TopFrame.try
    /\ Finish(h, stack, statics, [frames EXCEPT ![Len(frames)].try = TRUE], Lab("try", 0, 0, ""))

\* THROW: Pop the item, unwind to the innermost frame with a handler unloading the frames above it,
\* push the item in the catch block; ENDTRY then drops the handler
RECURSIVE Unwind(_, _, _)
Unwind(fr, j, hh) == IF Len(fr) = j THEN hh
                     ELSE Unwind(SubSeq(fr, 1, Len(fr) - 1), j, RemList(fr[Len(fr)].loc, 1, FALSE, hh))
ThrowOp ==
    /\ Len(stack) >= 1
    /\ \E j \in DOMAIN frames :
          /\ frames[j].try /\ \A i \in DOMAIN frames : i > j => ~frames[i].try
          /\ LET x  == Top(0)
                 hA == Rem(x, h)
                 hB == Unwind(frames, j, hA)
                 hC == Add(x, hB)
             IN Finish(hC, stack, statics, [SubSeq(frames, 1, j) EXCEPT ![j].try = FALSE],
                       Lab("throw", Len(frames) - j, 0, ""))

\* ------------------------------------------------------------------ exceptions raised by instructions
EmptyHeap == [kd |-> [c \in Ids |-> "free"], k |-> [c \in Ids |-> <<>>], mk |-> [c \in Ids |-> <<>>],
              rc |-> [c \in Ids |-> 0], refs |-> NS]
\* uncaught: throwUnhandledException panics, the VM is in FAULT and stays there
Fault(lab) ==
    /\ h' = EmptyHeap /\ stack' = <<>> /\ statics' = [i \in 1..NS |-> 0]
    /\ frames' = << [loc |-> <<>>, try |-> FALSE] >>
    /\ everCyc' = everCyc /\ walked' = NS /\ fault' = TRUE /\ last' = lab
HasHandler == \E j \in DOMAIN frames : frames[j].try
Handler == CHOOSE j \in DOMAIN frames : frames[j].try /\ \A i \in DOMAIN frames : i > j => ~frames[i].try
\* v.throw(NewByteArray(msg)) with heap hh and stack st at that moment: handleException unloads the frames
\* above the handler, pushes the message (counted) in the catch block; ENDTRY then drops the handler.
\* The label's b is the number of unloaded frames, -1 for the uncaught case.
Raise(hh, st, op, a, kd) ==
    IF HasHandler
    THEN LET j  == Handler
             hB == Unwind(frames, j, hh)
             hC == Add(0, hB)
         IN Finish(hC, Append(st, 0), statics, [SubSeq(frames, 1, j) EXCEPT ![j].try = FALSE],
                   Lab(op, a, Len(frames) - j, kd))
    ELSE Fault(Lab(op, a, 0 - 1, kd))

\* SETITEM on an array / struct with an index out of range (idx = Len + 1 stands for every such index; the
\* harness uses Len, Len + k and negative indexes in turn): popNoRef of the item, cloneIfStruct (+ Remove /
\* Add), counted Pop of key and container, refs.Remove(cloned), throw
SetItemOOR ==
    /\ Len(stack) >= 2
    /\ LET x == Top(0)  p == Top(1) IN
       /\ p # 0 /\ h.kd[p] \in {"arr", "struct"}
       /\ Clonable(h, x)
       /\ LET r  == CIS(x, h)
              hB == IF IsStruct(h, x) THEN Add(r.id, Rem(x, r.hh)) ELSE r.hh
              hC == Rem(p, hB)
              hX == IF BugOORDoubleRelease /\ hC.rc[p] = 0 THEN Rem(r.id, hC) ELSE hC
              hD == Rem(r.id, hX)
          IN Raise(hD, PopN(2), "setitem_oor", Len(h.k[p]) + 1, h.kd[p])

\* PICKITEM: valid index / key: counted Pops, PushItem(element)
PickItemOp(idx) ==
    /\ Len(stack) >= 1
    /\ LET p == Top(0) IN
       /\ p # 0 /\ idx \in DOMAIN h.k[p]
       /\ LET hA == Rem(p, h)
              hB == Add(hA.k[p][idx], hA)
          IN Finish(hB, Append(PopN(1), h.k[p][idx]), statics, frames,
                    Lab("pickitem", idx, IF h.kd[p] = "map" THEN h.mk[p][idx] ELSE 0, h.kd[p]))
\* PICKITEM with an index out of range (array / struct) or a key that is not there (map): counted Pops, throw
PickItemOOR ==
    /\ Len(stack) >= 1
    /\ LET p == Top(0) IN
       /\ p # 0 /\ h.kd[p] \in {"arr", "struct"}
       /\ Raise(Rem(p, h), PopN(1), "pickitem_oor", Len(h.k[p]) + 1, h.kd[p])
PickMapMissing ==
    /\ Len(stack) >= 1
    /\ LET p == Top(0) IN
       /\ p # 0 /\ h.kd[p] = "map"
       /\ LET free == {key \in 0..MaxKids : \A i \in DOMAIN h.mk[p] : h.mk[p][i] # key}
          IN Raise(Rem(p, h), PopN(1), "pickmap_missing", MinOf(free), "map")

NextOp ==
    \/ PushPrim
    \/ \E kd \in Kinds, n \in 0..MaxKids : New(kd, n)
    \/ \E i \in 0..(MaxStack - 1) : Dup(i) \/ Drop(i)
    \/ \E j \in 1..NS : LdStatic(j) \/ StStatic(j)
    \/ \E j \in 1..1 : LdLocal(j) \/ StLocal(j)
    \/ AppendOp
    \/ \E i \in 1..MaxKids : SetItemOp(i) \/ RemoveOp(i)
    \/ \E key \in 0..(MaxKids - 1) : SetMapOp(key)
    \/ PopItemOp \/ ClearOp \/ ReverseOp
    \/ \E kd \in Kinds \cap {"arr", "struct"}, n \in 0..MaxKids : PackOp(kd, n)
    \/ ("map" \in Kinds /\ \E n \in 0..MaxKids, d \in BOOLEAN : PackMapOp(n, d))
    \/ UnpackOp \/ ValuesOp \/ KeysOp
    \/ \E b \in BOOLEAN : CallOp(b)
    \/ RetOp \/ TryOp \/ ThrowOp
    \/ SetItemOOR \/ PickItemOOR \/ PickMapMissing
    \/ \E i \in 1..MaxKids : PickItemOp(i)
Next == ~fault /\ NextOp

Spec == Init /\ [][Next]_vars

\* ------------------------------------------------------------------ properties
Walked == walked
WalkedOK == walked = Walk(h, stack, statics, frames)

\* the abstract level, instantiated on the projection of this model
Obs == [state |-> IF fault THEN "FAULT" ELSE "NONE", final |-> fault, panicked |-> FALSE, gas |-> <<0>>, limit |-> <<0>>,
        refs |-> h.refs, walked |-> Walked, cyc |-> everCyc, intbits |-> 0, itemsize |-> 0,
        idepth |-> Len(frames), tdepth |-> 0, checked |-> TRUE, onbnd |-> TRUE]
L == INSTANCE VMLimits WITH MaxItems <- 2048, MaxIntBits <- 256, MaxItemSize <- 131070, MaxInvoc <- 1024,
                            MaxTry <- 16, ObsSet <- {}, obs <- Obs

AbsCount == L!CountSafe(Obs)                       \* NoUnderCount /\ ExactAcyclic
AbsStep  == [][L!StepOK(Obs, Obs')]_vars           \* every step of the model is a step of the abstract level

\* while acyclic: an item's counter = references from root cells + from referenced compounds
RcRefs(c) == Occ(stack, c) + Occ(statics, c)
             + FoldSet(LAMBDA i, a : a + Occ(frames[i].loc, c), 0, DOMAIN frames)
             + FoldSet(LAMBDA d, a : a + (IF h.rc[d] > 0 THEN Occ(h.k[d], c) ELSE 0), 0, Ids \ Free(h))
RcExact == ~everCyc => \A c \in Ids \ Free(h) : h.rc[c] = RcRefs(c)
\* reachable items are referenced, the counter is never negative
RcSane == /\ h.refs >= 0
          /\ \A c \in ReachFrom(h.k, RootSet(stack, statics, frames)) : h.rc[c] >= 1

TypeOK == /\ Len(stack) <= MaxStack /\ Len(frames) <= MaxFrames
          /\ \A c \in Ids : Len(h.k[c]) <= MaxKids /\ (h.kd[c] = "map" => Len(h.mk[c]) = Len(h.k[c]))

\* leaked cycles only ever add to the counter: exploring a bounded surplus is enough (the lower bound only
\* matters when the graph of a model that violates AbsCount is explored for the transition cover)
LeakBound == /\ h.refs <= Walked + MaxLeak /\ h.refs >= Walked - MaxLeak
             /\ \A c \in Ids \ Free(h) : h.rc[c] <= RcRefs(c) + MaxLeak /\ h.rc[c] >= RcRefs(c) - MaxLeak

\* `last` is a label only
View == <<h, stack, statics, frames, everCyc, fault>>
=============================================================================
