\* generation only: longer behaviours over a smaller heap (more mutations of the same items)
SPECIFICATION SimSpec
CONSTANTS
  N = 3
  MaxKids = 2
  MaxStack = 3
  NS = 1
  MaxFrames = 2
  Kinds = {"arr", "struct", "map"}
  MaxLeak = 100
  MapRemoveDropsFirst = TRUE
  BugAppend = FALSE
  BugRemGuard = FALSE
  BugOORDoubleRelease = FALSE
  Depth = 45
INVARIANT Emit
CHECK_DEADLOCK FALSE
