\* exhaustive: 2 compound items of every kind, 2 elements each, 3 stack cells, 1 static cell, 2 frames
SPECIFICATION Spec
CONSTANTS
  N = 2
  MaxKids = 2
  MaxStack = 3
  NS = 1
  MaxFrames = 2
  Kinds = {"arr", "struct", "map"}
  MapRemoveDropsFirst = TRUE
  BugAppend = FALSE
  BugRemGuard = FALSE
INVARIANTS TypeOK AbsCount RcExact RcSane
PROPERTIES AbsStep
VIEW View
CHECK_DEADLOCK FALSE
