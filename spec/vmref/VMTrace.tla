------------------------------ MODULE VMTrace ------------------------------
(* Validates the traces recorded by harness/c12vm from the REAL NeoVM against the abstract level
   (VMLimits).  One file holds many runs; each run is
        i  (script, gas limit, result of the static script check)
        s* (one per executed instruction, taken BEFORE it executes: offset, opcode, the VM's item counter
            read through the verif hook, the harness's own walk of all stacks and slots, depths, gas)
        f  (after Run returned: VM state, whether a Go panic escaped, gas; the walk again unless FAULT).
   Every event is turned into an observation of VMLimits and every clause it falsifies is reported.
   The specification is total and deterministic: it never blocks on a bad event. *)
EXTENDS TraceIO

VARIABLES l,        \* next line of the log
          limit,    \* gas limit of the current run (limbs)
          checked,  \* the current script passed the static check
          cyc       \* a cycle was seen earlier in the current run

vars == <<l, limit, checked, cyc>>

L == INSTANCE VMLimits WITH MaxItems <- 2048, MaxIntBits <- 256, MaxItemSize <- 131070, MaxInvoc <- 1024,
                            MaxTry <- 16, ObsSet <- {}, obs <- 0

StepObs(e) == [state |-> e.st, final |-> FALSE, panicked |-> FALSE, gas |-> e.g, limit |-> limit,
               refs |-> e.r, walked |-> e.w, cyc |-> e.c, intbits |-> e.b, itemsize |-> e.z,
               idepth |-> e.i, tdepth |-> e.t, checked |-> checked, onbnd |-> e.k]
FinalObs(e) == [state |-> e.st, final |-> TRUE, panicked |-> e.p, gas |-> e.g, limit |-> limit,
                refs |-> e.r, walked |-> e.w, cyc |-> e.c, intbits |-> e.b, itemsize |-> e.z,
                idepth |-> e.i, tdepth |-> e.t, checked |-> checked, onbnd |-> TRUE]

\* reporter without an action-level disjunction (TLC would take both disjuncts of TraceIO!Report as two
\* branches of the next-state relation and print a record for every line)
Rep(line, F, ctx) == IF F = {} THEN TRUE ELSE Report(line, F, ctx)

\* the harness's cycle flag must be sticky within a run (a property of the recording, reported like the others)
Sticky(o) == NameIf(cyc => o.cyc, "CycleFlagSticky")

Init == l = 1 /\ limit = <<0, 0, 0>> /\ checked = FALSE /\ cyc = FALSE

Step ==
    /\ l <= Len(TLog)
    /\ l' = l + 1
    /\ LET e == TLog[l] IN
       CASE e.e = "i" ->
              /\ limit' = e.lim /\ checked' = e.chk /\ cyc' = FALSE
         [] e.e = "s" ->
              LET o == StepObs(e) IN
              /\ Rep(l, L!Broken(o) \cup Sticky(o), [off |-> e.o, op |-> e.op])
              /\ cyc' = o.cyc /\ UNCHANGED <<limit, checked>>
         [] e.e = "f" ->
              LET o == FinalObs(e) IN
              /\ Rep(l, L!Broken(o) \cup Sticky(o), [off |-> e.lo, op |-> e.lop])
              /\ cyc' = o.cyc /\ UNCHANGED <<limit, checked>>

TraceSpec == Init /\ [][Step]_vars
=============================================================================
