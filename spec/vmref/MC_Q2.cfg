\* exhaustive: structs (cloning) and arrays, 2 items x 1 element, 2 stack cells, 1 static cell, 1 frame
SPECIFICATION Spec
CONSTANTS
  N = 2
  MaxKids = 1
  MaxStack = 2
  NS = 1
  MaxFrames = 1
  Kinds = {"struct", "arr"}
  MaxLeak = 1
  MapRemoveDropsFirst = TRUE
  BugAppend = FALSE
  BugRemGuard = FALSE
  BugOORDoubleRelease = FALSE
INVARIANTS TypeOK WalkedOK AbsCount RcExact RcSane
PROPERTIES AbsStep
VIEW View
CONSTRAINT LeakBound
CHECK_DEADLOCK FALSE
