------------------------------ MODULE VMRefSim ------------------------------
(* Behaviour generator: VMRef plus a history variable, printed as JSON when the depth bound is reached
   (tlc -simulate).  Every record carries the action label and the model's prediction of the VM's item
   counter and of the walk after the action; harness/c12vm turns the history into a NeoVM script. *)
EXTENDS VMRef, Json

CONSTANT Depth
VARIABLE hist

Rec == [op |-> last.op, a |-> last.a, b |-> last.b, kd |-> last.kd, refs |-> h.refs, walked |-> walked,
        cyc |-> everCyc, ns |-> NS]
SimInit == Init /\ hist = << Rec >>
\* (an uncaught exception ends a run: such steps are left to the transition cover, generation goes on)
SimNext == Next /\ ~fault' /\ hist' = Append(hist, Rec')
SimSpec == SimInit /\ [][SimNext]_<<vars, hist>>

Emit == Len(hist) # Depth \/ PrintT(<<"@@HIST@@", ToJson(hist)>>)
=============================================================================
