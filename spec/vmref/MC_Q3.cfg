\* exhaustive: calls, returns, exceptions: arrays, 1 item x 2 elements, 2 stack cells, 1 static cell, 2 frames
SPECIFICATION Spec
CONSTANTS
  N = 1
  MaxKids = 2
  MaxStack = 2
  NS = 1
  MaxFrames = 2
  Kinds = {"arr"}
  MaxLeak = 1
  MapRemoveDropsFirst = TRUE
  BugAppend = FALSE
  BugRemGuard = FALSE
  BugOORDoubleRelease = FALSE
INVARIANTS TypeOK WalkedOK AbsCount RcExact RcSane
PROPERTIES AbsStep
VIEW View
CONSTRAINT LeakBound
CHECK_DEADLOCK FALSE
