----------------------------- MODULE VMRefCover -----------------------------
(* VMRef plus a printer of every transition of the (small, exhaustively explored) state graph:
   source state, action label with the model's predictions for the target, target state.  tools/checks/c12.py
   builds from these lines a set of walks from the initial state that traverses EVERY transition of the
   graph at least once (transition cover); harness/c12vm realises each walk as a script on the real VM. *)
EXTENDS VMRef, Json

Key == ToString(<<h, stack, statics, frames, everCyc, fault>>)
EdgeRec == [op |-> last.op, a |-> last.a, b |-> last.b, kd |-> last.kd, refs |-> h.refs, walked |-> walked,
            cyc |-> everCyc, ns |-> NS]
InitEmit == IF TLCGet("level") = 1 THEN PrintT(<<"@@INIT@@", Key>>) ELSE TRUE
EdgeEmit == [][PrintT(<<"@@EDGE@@", Key, ToJson(EdgeRec'), Key'>>)]_vars
=============================================================================
