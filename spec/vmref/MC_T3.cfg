\* exhaustive: arrays, 2 items x 2 elements, 3 stack cells
SPECIFICATION Spec
CONSTANTS
  N = 2
  MaxKids = 2
  MaxStack = 3
  NS = 1
  MaxFrames = 1
  Kinds = {"arr"}
  MaxLeak = 1
  MapRemoveDropsFirst = TRUE
  BugAppend = FALSE
  BugRemGuard = FALSE
  BugOORDoubleRelease = FALSE
INVARIANTS TypeOK WalkedOK AbsCount RcExact RcSane
PROPERTIES AbsStep
VIEW View
CONSTRAINT LeakBound
CHECK_DEADLOCK FALSE
