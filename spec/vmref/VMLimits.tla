------------------------------ MODULE VMLimits ------------------------------
(* ABSTRACT level of C12 (the judge).  It says what the property statement says about one execution
   of one script under one finite gas limit, and nothing more.

   An OBSERVATION is what can be seen of the virtual machine between two instructions (and once more
   when Run returned).  It is a record of scalars measured from outside the VM:

     state    "NONE" while running; the VM state after Run returned otherwise ("HALT", "FAULT", ...)
     final    TRUE for the observation taken after Run returned
     panicked TRUE iff a Go panic escaped Run                                   (final only)
     gas      gas consumed so far, limit: the gas limit (both as limbs, see GasLE)
     refs     the VM's own item counter
     walked   number of items found by WALKING the evaluation stacks and slots of every loaded
              context: one per stack cell and per slot cell, plus the elements of every DISTINCT
              compound item reachable from them (a map entry counts key and value)
     cyc      TRUE iff a cyclic structure was built at some moment of the run so far
     intbits  largest two's complement width of an integer found by the walk (0 if none)
     itemsize largest byte string / buffer length found by the walk
     idepth   number of nested invocations (contexts), tdepth: largest number of nested try blocks
              of a context
     checked  TRUE iff the script passed the static script check
     onbnd    TRUE iff the offset about to be executed is an instruction boundary of the script
              (decoded independently of the code under test); TRUE in final observations

   The count/size/depth limits constrain every state the VM did not declare faulty; nothing is said
   about the wreck left by a FAULT.  *)
EXTENDS Integers, Sequences

CONSTANTS MaxItems,      \* 2048
          MaxIntBits,    \* 256
          MaxItemSize,   \* 131070 = 2 * 65535
          MaxInvoc,      \* 1024
          MaxTry,        \* 16
          ObsSet         \* finite universe of observations, used only to model-check this module alone

VARIABLE obs

\* big naturals as sequences of equal length, most significant limb first
RECURSIVE GasLEFrom(_, _, _)
GasLEFrom(a, b, i) == IF i > Len(a) THEN TRUE
                      ELSE IF a[i] < b[i] THEN TRUE
                      ELSE IF a[i] > b[i] THEN FALSE
                      ELSE GasLEFrom(a, b, i + 1)
GasLE(a, b) == Len(a) = Len(b) /\ GasLEFrom(a, b, 1)

Alive(o) == o.state # "FAULT"

\* --- the clauses of the statement, one predicate each ---------------------------------------
Total(o)          == o.final => (o.state \in {"HALT", "FAULT"} /\ ~o.panicked)
RunningIsNone(o)  == ~o.final => o.state = "NONE"
GasBounded(o)     == Alive(o) => GasLE(o.gas, o.limit)
ItemsBounded(o)   == Alive(o) => o.walked <= MaxItems
CounterBounded(o) == Alive(o) => o.refs <= MaxItems
IntBounded(o)     == Alive(o) => o.intbits <= MaxIntBits
SizeBounded(o)    == Alive(o) => o.itemsize <= MaxItemSize
InvocBounded(o)   == Alive(o) => o.idepth <= MaxInvoc
TryBounded(o)     == Alive(o) => o.tdepth <= MaxTry
NoUnderCount(o)   == Alive(o) => o.refs >= o.walked
ExactAcyclic(o)   == (Alive(o) /\ ~o.cyc) => o.refs = o.walked
OnBoundary(o)     == o.checked => o.onbnd

Names == <<"Total", "RunningIsNone", "GasBounded", "ItemsBounded", "CounterBounded", "IntBounded", "SizeBounded",
           "InvocBounded", "TryBounded", "NoUnderCount", "ExactAcyclic", "OnBoundary">>
Holds(n, o) ==
    CASE n = "Total" -> Total(o)             [] n = "RunningIsNone" -> RunningIsNone(o)
      [] n = "GasBounded" -> GasBounded(o)   [] n = "ItemsBounded" -> ItemsBounded(o)
      [] n = "CounterBounded" -> CounterBounded(o) [] n = "IntBounded" -> IntBounded(o)
      [] n = "SizeBounded" -> SizeBounded(o) [] n = "InvocBounded" -> InvocBounded(o)
      [] n = "TryBounded" -> TryBounded(o)   [] n = "NoUnderCount" -> NoUnderCount(o)
      [] n = "ExactAcyclic" -> ExactAcyclic(o) [] n = "OnBoundary" -> OnBoundary(o)

\* names of the clauses an observation falsifies
Broken(o) == {Names[i] : i \in {j \in DOMAIN Names : ~Holds(Names[j], o)}}
Safe(o) == Broken(o) = {}

\* only the clauses about item accounting (what VMRef refines)
CountSafe(o) == NoUnderCount(o) /\ ExactAcyclic(o)

\* --- as a specification: every observation is safe, a cycle once built stays recorded, the run
\*     ends with its final observation
Init == obs \in ObsSet /\ ~obs.final /\ Safe(obs)
StepOK(o, p) == /\ ~o.final
                /\ Safe(p)
                /\ (o.cyc => p.cyc)
                /\ p.limit = o.limit /\ p.checked = o.checked
Next == \E p \in ObsSet : StepOK(obs, p) /\ obs' = p
Spec == Init /\ [][Next]_obs

Inv == Safe(obs)
=============================================================================
