----------------------------- MODULE MCVMLimits -----------------------------
(* The abstract level alone on a tiny universe of observations (limits scaled down to 1 item, 2-bit
   integers, 1 try block).  MC_Limits.cfg: every behaviour of VMLimits stays Safe and the cycle flag is
   sticky.  MC_LimitsAll.cfg starts from ANY observation and must violate Inv (the clauses exclude
   something: the judge is not vacuous). *)
EXTENDS VMLimits

Universe ==
    [state : {"NONE", "HALT", "FAULT", "BREAK"}, final : BOOLEAN, panicked : BOOLEAN,
     gas : {<<0>>, <<2>>}, limit : {<<1>>}, refs : 0..2, walked : 0..2, cyc : BOOLEAN,
     intbits : {0, 3}, itemsize : {0}, idepth : {1}, tdepth : {0, 2}, checked : {TRUE}, onbnd : BOOLEAN]

AnySpec == obs \in ObsSet /\ [][FALSE]_obs
CycSticky == [][obs.cyc => obs'.cyc]_obs
=============================================================================
