SPECIFICATION AnySpec
CONSTANTS
  MaxItems = 1
  MaxIntBits = 2
  MaxItemSize = 1
  MaxInvoc = 1
  MaxTry = 1
  ObsSet <- Universe
INVARIANT Inv
CHECK_DEADLOCK FALSE
