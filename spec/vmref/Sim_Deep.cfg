\* generation only (no exhaustiveness): a larger heap than the exhaustive configurations
SPECIFICATION SimSpec
CONSTANTS
  N = 4
  MaxKids = 3
  MaxStack = 4
  NS = 2
  MaxFrames = 3
  Kinds = {"arr", "struct", "map"}
  MaxLeak = 100
  MapRemoveDropsFirst = TRUE
  BugAppend = FALSE
  BugRemGuard = FALSE
  BugOORDoubleRelease = FALSE
  Depth = 30
INVARIANT Emit
CHECK_DEADLOCK FALSE
