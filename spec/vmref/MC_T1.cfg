\* exhaustive: arrays and maps, 2 items x 2 elements, 2 stack cells
SPECIFICATION Spec
CONSTANTS
  N = 2
  MaxKids = 2
  MaxStack = 2
  NS = 1
  MaxFrames = 1
  Kinds = {"arr", "map"}
  MaxLeak = 1
  MapRemoveDropsFirst = TRUE
  BugAppend = FALSE
  BugRemGuard = FALSE
  BugOORDoubleRelease = FALSE
INVARIANTS TypeOK WalkedOK AbsCount RcExact RcSane
PROPERTIES AbsStep
VIEW View
CONSTRAINT LeakBound
CHECK_DEADLOCK FALSE
