\* exhaustive: all kinds with frames, 2 items x 1 element, 2 stack cells, 2 frames
SPECIFICATION Spec
CONSTANTS
  N = 2
  MaxKids = 1
  MaxStack = 2
  NS = 1
  MaxFrames = 2
  Kinds = {"arr", "struct", "map"}
  MaxLeak = 1
  MapRemoveDropsFirst = TRUE
  BugAppend = FALSE
  BugRemGuard = FALSE
  BugOORDoubleRelease = FALSE
INVARIANTS TypeOK WalkedOK AbsCount RcExact RcSane
PROPERTIES AbsStep
VIEW View
CONSTRAINT LeakBound
CHECK_DEADLOCK FALSE
