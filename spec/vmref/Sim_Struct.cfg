\* generation only: structs inside arrays (cloning on APPEND / SETITEM / VALUES needs spare ids)
SPECIFICATION SimSpec
CONSTANTS
  N = 5
  MaxKids = 2
  MaxStack = 3
  NS = 1
  MaxFrames = 1
  Kinds = {"arr", "struct"}
  MaxLeak = 100
  MapRemoveDropsFirst = TRUE
  BugAppend = FALSE
  BugRemGuard = FALSE
  BugOORDoubleRelease = FALSE
  Depth = 25
INVARIANT Emit
CHECK_DEADLOCK FALSE
