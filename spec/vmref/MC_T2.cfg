\* exhaustive: structs and arrays, 3 items x 1 element (nested clones)
SPECIFICATION Spec
CONSTANTS
  N = 3
  MaxKids = 1
  MaxStack = 2
  NS = 1
  MaxFrames = 1
  Kinds = {"struct", "arr"}
  MaxLeak = 1
  MapRemoveDropsFirst = TRUE
  BugAppend = FALSE
  BugRemGuard = FALSE
  BugOORDoubleRelease = FALSE
INVARIANTS TypeOK WalkedOK AbsCount RcExact RcSane
PROPERTIES AbsStep
VIEW View
CONSTRAINT LeakBound
CHECK_DEADLOCK FALSE
