------------------------------ MODULE MPTImpl ------------------------------
(***************************************************************************)
(* Implementation-shaped model of the restructuring code of the real trie: *)
(*   ImplPut / ImplDelete   the local rewrites of pkg/core/mpt/trie.go     *)
(*                          (putIntoLeaf/Branch/Extension, deleteFromX)    *)
(*   ImplBatch              pkg/core/mpt/batch.go (putBatchIntoX,          *)
(*                          addToBranch, stripBranch, mergeExtension,      *)
(*                          newSubTrieMany)                                *)
(* Hash nodes, caches and reference counts are not part of this model      *)
(* (they do not change the structure; C11 covers counting); they are       *)
(* exercised on the real code by the harness (flush/collapse/reload).      *)
(* TLC checks, in every reachable state, tree = Build(content): the local  *)
(* rewrites produce exactly the canonical structure of the new content.    *)
(***************************************************************************)
EXTENDS MPTCanon, TLC

CONSTANTS KeySet,      \* set of paths
          ValSet,      \* set of values
          MaxBatch,    \* max number of entries of a batch explored exhaustively
          BugNoMerge   \* named deviation: deleteFromBranch does not merge with a child extension

VARIABLES content,     \* [KeySet -> ValSet \cup {Nil}]
          tree,        \* structure maintained by the local rewrites
          last         \* last operation (for the generator / error traces)
vars == <<content, tree, last>>
View == <<content, tree>>      \* `last' is an observation variable only

Pairs(c) == {<<k, c[k]>> : k \in {k \in DOMAIN c : c[k] # Nil}}

EmptyBranch == [i \in 1..17 |-> EmptyN]
Slot(path) == IF path = <<>> THEN 17 ELSE path[1] + 1       \* splitPath
Rest(path) == IF path = <<>> THEN <<>> ELSE Drop(path, 1)
NewSubTrie(path, n) == IF path = <<>> THEN n ELSE ExtN(path, n)
Lcp(a, b) == Take(a, CommonLen({a, b}))
NonEmptySlots(c) == {i \in 1..17 : c[i].t # "E"}

---------------------------------------------------------------------------
\* trie.go: Put
RECURSIVE ImplPut(_, _, _)
ImplPut(n, path, v) ==
    CASE n.t = "E" -> NewSubTrie(path, LeafN(v))
      [] n.t = "L" -> IF path = <<>> THEN LeafN(v)
                      ELSE BranchN([EmptyBranch EXCEPT ![path[1] + 1] = NewSubTrie(Drop(path, 1), LeafN(v)),
                                                       ![17] = n])
      [] n.t = "B" -> BranchN([n.c EXCEPT ![Slot(path)] = ImplPut(@, Rest(path), v)])
      [] n.t = "X" ->
            IF HasPrefix(path, n.k) THEN ExtN(n.k, ImplPut(n.n, Drop(path, Len(n.k)), v))
            ELSE LET pref == Lcp(n.k, path)
                     lp == Len(pref)
                     keyTail == Drop(n.k, lp)
                     pathTail == Drop(path, lp)
                     b == BranchN([EmptyBranch EXCEPT ![keyTail[1] + 1] = NewSubTrie(Drop(keyTail, 1), n.n),
                                                      ![Slot(pathTail)] = NewSubTrie(Rest(pathTail), LeafN(v))])
                 IN  IF lp > 0 THEN ExtN(pref, b) ELSE b

\* trie.go: Delete
RECURSIVE ImplDelete(_, _)
ImplDelete(n, path) ==
    CASE n.t = "E" -> n
      [] n.t = "L" -> IF path = <<>> THEN EmptyN ELSE n
      [] n.t = "B" ->
            LET c == [n.c EXCEPT ![Slot(path)] = ImplDelete(@, Rest(path))]
                ne == NonEmptySlots(c)
            IN  IF Cardinality(ne) > 1 THEN BranchN(c)
                ELSE LET i == CHOOSE i \in ne : TRUE
                         ch == c[i]
                     IN  IF i = 17 THEN ch
                         ELSE IF ch.t = "X" /\ ~BugNoMerge THEN ExtN(<<i - 1>> \o ch.k, ch.n)
                         ELSE ExtN(<<i - 1>>, ch)
      [] n.t = "X" ->
            IF ~HasPrefix(path, n.k) THEN n
            ELSE LET r == ImplDelete(n.n, Drop(path, Len(n.k))) IN
                 CASE r.t = "X" -> ExtN(n.k \o r.k, r.n)
                   [] r.t = "E" -> r
                   [] OTHER -> ExtN(n.k, r)

---------------------------------------------------------------------------
\* batch.go.  kv: sequence of [k |-> path, v |-> value or Nil (= delete)], sorted by k, distinct keys.
StripKV(kv, n) == [i \in 1..Len(kv) |-> [k |-> Drop(kv[i].k, n), v |-> kv[i].v]]
LcpMany(kv) == Take(kv[1].k, CommonLen({kv[i].k : i \in 1..Len(kv)}))

\* getLastIndex: <<slot, number of leading entries that go there>>
GroupLen(kv) == IF kv[1].k = <<>> THEN 1
                ELSE LET c == kv[1].k[1]
                         same == {j \in 1..Len(kv) : \A i \in 1..j : kv[i].k # <<>> /\ kv[i].k[1] = c}
                     IN  Max(same)

RECURSIVE MergeExtension(_, _)
MergeExtension(prefix, sub) ==
    CASE sub.t = "X" -> ExtN(prefix \o sub.k, sub.n)
      [] sub.t = "E" -> sub
      [] OTHER -> IF prefix # <<>> THEN ExtN(prefix, sub) ELSE sub

StripBranch(c) ==
    LET ne == NonEmptySlots(c) IN
    IF ne = {} THEN EmptyN
    ELSE IF Cardinality(ne) = 1 THEN
         LET i == CHOOSE i \in ne : TRUE IN
         IF i # 17 THEN MergeExtension(<<i - 1>>, c[i]) ELSE c[i]
    ELSE BranchN(c)

RECURSIVE BatchIntoNode(_, _), AddToBranch(_, _), IterateBatch(_, _), NewSubTrieMany(_, _, _)

\* iterateBatch + the callback of addToBranch: children updated group by group
IterateBatch(c, kv) ==
    IF kv = <<>> THEN c
    ELSE LET g == GroupLen(kv)
             slot == Slot(kv[1].k)
             grp == IF slot = 17 THEN Take(kv, g) ELSE StripKV(Take(kv, g), 1)
         IN  IterateBatch([c EXCEPT ![slot] = BatchIntoNode(@, grp)], Drop(kv, g))

AddToBranch(c, kv) == StripBranch(IterateBatch(c, kv))

NewSubTrieMany(prefix, kv, value) ==
    IF kv[1].k = <<>> /\ kv[1].v = Nil THEN
         IF Len(kv) = 1 THEN EmptyN ELSE NewSubTrieMany(prefix, Drop(kv, 1), Nil)
    ELSE IF kv[1].k = <<>> /\ Len(kv) = 1 THEN NewSubTrie(prefix, LeafN(kv[1].v))
    ELSE LET val == IF kv[1].k = <<>> THEN kv[1].v ELSE value
             c == IF val # Nil THEN [EmptyBranch EXCEPT ![17] = LeafN(val)] ELSE EmptyBranch
         IN  MergeExtension(prefix, AddToBranch(c, kv))

ExtNoPrefix(key, next, kv) ==
    AddToBranch([EmptyBranch EXCEPT ![key[1] + 1] = IF Len(key) > 1 THEN ExtN(Drop(key, 1), next) ELSE next], kv)

BatchIntoNode(n, kv) ==
    CASE n.t = "L" -> NewSubTrieMany(<<>>, kv, n.v)
      [] n.t = "B" -> AddToBranch(n.c, kv)
      [] n.t = "X" ->
            LET pref == Lcp(LcpMany(kv), n.k) IN
            IF Len(pref) = Len(n.k) THEN MergeExtension(pref, BatchIntoNode(n.n, StripKV(kv, Len(n.k))))
            ELSE IF Len(pref) # 0 THEN
                 MergeExtension(pref, ExtNoPrefix(Drop(n.k, Len(pref)), n.n, StripKV(kv, Len(pref))))
            ELSE ExtNoPrefix(n.k, n.n, kv)
      [] n.t = "E" -> LET common == LcpMany(kv) IN NewSubTrieMany(common, StripKV(kv, Len(common)), Nil)

\* MapToMPTBatch: a change set (function from a set of keys to values / Nil) as a sorted sequence
KVLess(x, y) == Less(x.k, y.k)
ToBatch(chg) == SetToSortSeq({[k |-> k, v |-> chg[k]] : k \in DOMAIN chg}, KVLess)
ImplBatch(n, chg) == IF DOMAIN chg = {} THEN n ELSE BatchIntoNode(n, ToBatch(chg))

---------------------------------------------------------------------------
Init == /\ content = [k \in KeySet |-> Nil]
        /\ tree = EmptyN
        /\ last = [op |-> "init"]

Put(k, v) == /\ content' = [content EXCEPT ![k] = v]
             /\ tree' = ImplPut(tree, k, v)
             /\ last' = [op |-> "put", k |-> k, v |-> v]

Delete(k) == /\ content' = [content EXCEPT ![k] = Nil]
             /\ tree' = ImplDelete(tree, k)
             /\ last' = [op |-> "del", k |-> k]

Batch(chg) == /\ content' = [k \in KeySet |-> IF k \in DOMAIN chg THEN chg[k] ELSE content[k]]
              /\ tree' = ImplBatch(tree, chg)
              /\ last' = [op |-> "batch", chg |-> chg]

ChangeSets == UNION {[D -> ValSet \cup {Nil}] : D \in {D \in SUBSET KeySet : Cardinality(D) \in 1..MaxBatch}}

Next == \/ \E k \in KeySet, v \in ValSet : Put(k, v)
        \/ \E k \in KeySet : Delete(k)
        \/ \E chg \in ChangeSets : Batch(chg)

Spec == Init /\ [][Next]_vars

---------------------------------------------------------------------------
\* Abstract properties of every reachable state
Canonical   == tree = Build(Pairs(content))                 \* history independence
StructInv   == Structural(tree)                             \* doc.go invariants
ReadsAgree  == \A k \in KeySet : Walk(tree, k) = content[k]
Injective   == ContentOf(tree) = Pairs(content)             \* the structure determines the content
=============================================================================
