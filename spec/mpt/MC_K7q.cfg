SPECIFICATION Spec
CONSTANTS
  KeySet <- K7
  ValSet <- V2
  MaxBatch = 1
  BugNoMerge = FALSE
INVARIANTS Canonical StructInv ReadsAgree Injective
VIEW View
CHECK_DEADLOCK FALSE
