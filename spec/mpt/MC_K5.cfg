SPECIFICATION Spec
CONSTANTS
  KeySet <- K5
  ValSet <- V2
  MaxBatch = 5
  BugNoMerge = FALSE
INVARIANTS Canonical StructInv ReadsAgree Injective
VIEW View
CHECK_DEADLOCK FALSE
