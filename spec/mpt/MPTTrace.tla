------------------------------ MODULE MPTTrace ------------------------------
(***************************************************************************)
(* Validates traces recorded from the real mpt.Trie / mpt.TrieStore /      *)
(* mpt.VerifyProof against the ABSTRACT specification MPTCanon.            *)
(* The specification tracks the content P (set of <<path, value>>) from    *)
(* the operations alone (map semantics) and F, the content at the last     *)
(* Flush; every observation recorded from the real objects is compared     *)
(* with what MPTCanon says about P:                                        *)
(*   root / fresh   hex of Trie.StateRoot() and of the root of a fresh     *)
(*                  trie built from the expected content   [RootIsFresh]   *)
(*   specroot       hash, by the real node hashing, of the canonical       *)
(*                  structure TLC printed for this step    [RootIsCanon]   *)
(*   dump.tree      the structure decoded from the serialized nodes        *)
(*                  reachable from the root by hash        [Canonical]     *)
(*   dump.gets      Trie.Get of every key of the universe  [GetAgrees]     *)
(*   dump.proofs    GetProof + VerifyProof per present key [ProofComplete] *)
(*   tamper.res     VerifyProof on tampered node lists     [ProofSound]    *)
(*   find / seek    Trie.Find, TrieStore.Seek   [FindAgrees] [SeekAgrees]  *)
(* Values are hex strings of the real bytes, paths are nibble sequences.   *)
(***************************************************************************)
EXTENDS TraceIO, MPTCanon

VARIABLES l, P, F
vars == <<l, P, F>>

Init == l = 1 /\ P = {} /\ F = {}

PutP(S, k, v) == {p \in S : p[1] # k} \cup {<<k, v>>}
DelP(S, k) == {p \in S : p[1] # k}
RECURSIVE ApplyBatch(_, _, _)
ApplyBatch(S, b, i) == IF i > Len(b) THEN S
                       ELSE ApplyBatch(IF b[i].del THEN DelP(S, b[i].k) ELSE PutP(S, b[i].k, b[i].v), b, i + 1)

KV(res) == [i \in 1..Len(res) |-> <<res[i].k, res[i].v>>]

RootChecks(e) ==
    NameIf(e.root = e.fresh, "RootIsFresh") \cup NameIf(e.specroot = "" \/ e.specroot = e.root, "RootIsCanon")

DumpChecks(S, e) ==
    NameIf(("tree" \notin DOMAIN e) \/ e.tree = Build(S), "Canonical")   \* very deep structures come without it (JSON nesting limit of the reader)
    \cup NameIf(\A i \in 1..Len(e.gets) :
                   LET g == e.gets[i] IN IF g.found THEN Lookup(S, g.k) = g.v ELSE Lookup(S, g.k) = Nil, "GetAgrees")
    \cup NameIf(/\ \A i \in 1..Len(e.proofs) : LET r == e.proofs[i] IN r.ok /\ r.v = Lookup(S, r.k)
                /\ Keys(S) \subseteq {e.proofs[i].k : i \in 1..Len(e.proofs)}, "ProofComplete")

TamperChecks(S, e) ==
    NameIf(\A i \in 1..Len(e.res) : LET r == e.res[i] IN (~r.ok) \/ (Lookup(S, e.k) # Nil /\ r.v = Lookup(S, e.k)),
           "ProofSound")
    \cup NameIf(Lookup(S, e.k) = Nil \/ (e.honest.ok /\ e.honest.v = Lookup(S, e.k)), "ProofComplete")

FindChecks(S, e) ==
    NameIf(KV(e.res) = FindExp(S, e.prefix, e.from, e.hasfrom, e.max), "FindAgrees")

SeekChecks(S, e) ==
    LET obs == KV(e.res)
        judged == SelectSeq(obs, LAMBDA p : ~Ambiguous(p[1], e.prefix, e.start, e.back))
    IN  NameIf(judged = SeekExp(S, e.prefix, e.start, e.back), "SeekAgrees")
        \cup NameIf(StrictlyOrdered(obs, e.back) /\ \A i \in 1..Len(obs) : obs[i] \in S, "SeekOrdered")

Step ==
    /\ l <= Len(TLog)
    /\ l' = l + 1
    /\ LET e == TLog[l] IN
       CASE e.event = "init" -> P' = {} /\ F' = {}
         [] e.event = "put" ->
              LET S == PutP(P, e.k, e.v) IN P' = S /\ F' = F /\ Report(l, RootChecks(e), [ev |-> e.event])
         [] e.event = "del" ->
              LET S == DelP(P, e.k) IN P' = S /\ F' = F /\ Report(l, RootChecks(e), [ev |-> e.event])
         [] e.event = "batch" ->
              LET S == ApplyBatch(P, e.b, 1) IN P' = S /\ F' = F /\ Report(l, RootChecks(e), [ev |-> e.event])
         [] e.event = "flush" -> P' = P /\ F' = P /\ Report(l, RootChecks(e), [ev |-> e.event])
         [] e.event = "reload" -> P' = F /\ F' = F /\ Report(l, RootChecks(e), [ev |-> e.event])
         [] e.event \in {"persist", "collapse"} -> UNCHANGED <<P, F>> /\ Report(l, RootChecks(e), [ev |-> e.event])
         [] e.event = "dump" -> UNCHANGED <<P, F>> /\ Report(l, DumpChecks(P, e) \cup RootChecks(e), [ev |-> e.event])
         [] e.event = "tamper" -> UNCHANGED <<P, F>> /\ Report(l, TamperChecks(P, e), [ev |-> e.event])
         [] e.event = "find" -> UNCHANGED <<P, F>> /\ Report(l, FindChecks(P, e), [ev |-> e.event])
         [] e.event = "seek" -> UNCHANGED <<P, F>> /\ Report(l, SeekChecks(P, e), [ev |-> e.event])

TraceSpec == Init /\ [][Step]_vars
=============================================================================
