------------------------------ MODULE MPTCanon ------------------------------
(***************************************************************************)
(* Abstract (property level) specification of the state trie, C10.         *)
(*                                                                         *)
(* The trie is an authenticated MAP from nibble paths (sequences over      *)
(* 0..15; a real key of n bytes is the path of its 2n nibbles) to values.  *)
(* A content is a finite set P of pairs <<path, value>> with distinct      *)
(* paths.  Everything the property says is a function of P:                *)
(*   Build(P)     the canonical structure (pkg/core/mpt/doc.go): empty /   *)
(*                leaf / extension over the longest common prefix /        *)
(*                branch, the empty-suffix value in slot 17 (lastChild)    *)
(*   Root(P)      = H(Build(P)); H is INJECTIVE, modelled as the identity  *)
(*   Lookup, FindExp, SeekExp   what reads and ordered searches return     *)
(*   Prove / Verify             membership proofs, re-walked by hash       *)
(* Nothing here depends on the order in which P was produced: history      *)
(* independence of the root IS "root = H(Build(P))".                       *)
(*                                                                         *)
(* Node values (also the JSON shape used by the Go harness):               *)
(*   [t |-> "E"]                        empty                              *)
(*   [t |-> "L", v |-> value]           leaf                               *)
(*   [t |-> "X", k |-> path, n |-> node] extension                         *)
(*   [t |-> "B", c |-> <<n0..n15, nv>>]  branch (c[i+1] child for nibble i,*)
(*                                       c[17] value slot)                 *)
(***************************************************************************)
EXTENDS Integers, Sequences, FiniteSets, SequencesExt, FiniteSetsExt

Nil == "<nil>"          \* "no value" / "not found"; never a legal value (values are hex or short strings)

EmptyN      == [t |-> "E"]
LeafN(v)    == [t |-> "L", v |-> v]
ExtN(k, n)  == [t |-> "X", k |-> k, n |-> n]
BranchN(c)  == [t |-> "B", c |-> c]

Drop(s, n) == SubSeq(s, n + 1, Len(s))
Take(s, n) == SubSeq(s, 1, n)
HasPrefix(s, p) == Len(p) <= Len(s) /\ \A i \in 1..Len(p) : s[i] = p[i]

\* lexicographic order on paths (= bytes.Compare on the keys)
RECURSIVE LessAt(_, _, _)
LessAt(a, b, i) == IF i > Len(a) THEN i <= Len(b)
                   ELSE IF i > Len(b) THEN FALSE
                   ELSE IF a[i] # b[i] THEN a[i] < b[i]
                   ELSE LessAt(a, b, i + 1)
Less(a, b) == LessAt(a, b, 1)

Keys(P) == {p[1] : p \in P}
WellFormed(P) == \A p, q \in P : p[1] = q[1] => p = q
Lookup(P, k) == IF \E p \in P : p[1] = k THEN (CHOOSE p \in P : p[1] = k)[2] ELSE Nil

\* length of the longest common prefix of a non-empty set of paths
RECURSIVE CommonFrom(_, _, _)
CommonFrom(D, s0, n) == IF \A s \in D : Len(s) > n /\ s[n + 1] = s0[n + 1]
                        THEN CommonFrom(D, s0, n + 1) ELSE n
CommonLen(D) == CommonFrom(D, CHOOSE s \in D : TRUE, 0)

Strip(P, n) == {<<Drop(p[1], n), p[2]>> : p \in P}

(***************************************************************************)
(* The canonical structure.                                                *)
(***************************************************************************)
RECURSIVE Build(_)
Build(P) ==
    IF P = {} THEN EmptyN
    ELSE IF Cardinality(P) = 1 THEN
        LET p == CHOOSE p \in P : TRUE IN
        IF p[1] = <<>> THEN LeafN(p[2]) ELSE ExtN(p[1], LeafN(p[2]))
    ELSE
        LET n == CommonLen(Keys(P)) IN
        IF n > 0 THEN ExtN(Take((CHOOSE p \in P : TRUE)[1], n), Build(Strip(P, n)))
        ELSE BranchN([i \in 1..17 |->
                 IF i = 17 THEN Build({p \in P : p[1] = <<>>})
                 ELSE Build(Strip({p \in P : p[1] # <<>> /\ p[1][1] = i - 1}, 1))])

Root(P) == Build(P)      \* H = identity: injective by construction

(***************************************************************************)
(* The three structural invariants of pkg/core/mpt/doc.go (+ no empty      *)
(* subtree under an extension, leaves only where a path ends).             *)
(***************************************************************************)
RECURSIVE Structural(_)
Structural(n) ==
    CASE n.t = "E" -> TRUE
      [] n.t = "L" -> n.v # Nil
      [] n.t = "X" -> /\ Len(n.k) > 0                  \* extension key not empty
                      /\ n.n.t \in {"L", "B"}          \* no extension under extension, no empty next
                      /\ Structural(n.n)
      [] n.t = "B" -> /\ Cardinality({i \in 1..17 : n.c[i].t # "E"}) > 1   \* branch has > 1 children
                      /\ n.c[17].t \in {"E", "L"}
                      /\ \A i \in 1..17 : Structural(n.c[i])
      [] OTHER -> FALSE

\* content held by a structure (inverse of Build on canonical structures)
RECURSIVE ContentOf(_)
ContentOf(n) ==
    CASE n.t = "E" -> {}
      [] n.t = "L" -> {<<<<>>, n.v>>}
      [] n.t = "X" -> {<<n.k \o p[1], p[2]>> : p \in ContentOf(n.n)}
      [] n.t = "B" -> ContentOf(n.c[17]) \cup
                      UNION {{<<<<i - 1>> \o p[1], p[2]>> : p \in ContentOf(n.c[i])} : i \in 1..16}
      [] OTHER -> {}

(***************************************************************************)
(* Reads on a structure (Trie.Get = strict walk).                          *)
(***************************************************************************)
RECURSIVE Walk(_, _)
Walk(n, path) ==
    CASE n.t = "L" -> IF path = <<>> THEN n.v ELSE Nil
      [] n.t = "B" -> IF path = <<>> THEN Walk(n.c[17], <<>>) ELSE Walk(n.c[path[1] + 1], Drop(path, 1))
      [] n.t = "X" -> IF HasPrefix(path, n.k) THEN Walk(n.n, Drop(path, Len(n.k))) ELSE Nil
      [] OTHER -> Nil

(***************************************************************************)
(* Ordered searches.                                                       *)
(*  Find(prefix, from, max): the first max pairs, ascending, among keys    *)
(*    with the prefix that are > prefix \o from (hasFrom) / all (~hasFrom).*)
(*  Seek(prefix, start, backwards): ascending keys >= prefix \o start, or  *)
(*    descending keys <= prefix \o start (all, if start is empty).         *)
(*    Keys that strictly extend prefix \o start in a backwards seek are    *)
(*    not judged (the storage back-ends themselves disagree on them, see   *)
(*    C09); Ambiguous identifies them.                                     *)
(***************************************************************************)
PairLess(x, y) == Less(x[1], y[1])
Asc(S)  == SetToSortSeq(S, PairLess)
Desc(S) == Reverse(Asc(S))
MinN(a, b) == IF a < b THEN a ELSE b

FindExp(P, prefix, from, hasFrom, max) ==
    LET cand == {p \in P : HasPrefix(p[1], prefix) /\ (hasFrom => Less(prefix \o from, p[1]))}
        s == Asc(cand)
    IN  Take(s, MinN(max, Len(s)))

Ambiguous(k, prefix, start, back) ==
    back /\ start # <<>> /\ HasPrefix(k, prefix \o start) /\ k # prefix \o start

SeekExp(P, prefix, start, back) ==
    LET bound == prefix \o start
        cand == {p \in P : HasPrefix(p[1], prefix)}
    IN  IF ~back THEN Asc({p \in cand : ~Less(p[1], bound)})
        ELSE IF start = <<>> THEN Desc(cand)
        ELSE Desc({p \in cand : ~Less(bound, p[1]) })

StrictlyOrdered(s, back) ==
    \A i \in 1..(Len(s) - 1) : IF back THEN Less(s[i + 1][1], s[i][1]) ELSE Less(s[i][1], s[i + 1][1])

(***************************************************************************)
(* Membership proofs.  A proof is a set of serialized nodes; with the      *)
(* identity hash a serialized node is the node and "the node whose hash is *)
(* h" is h itself, available iff it was supplied.  Verify re-walks from    *)
(* the root hash exactly like the real VerifyProof (strict Get over a      *)
(* store that contains only the supplied nodes).                           *)
(***************************************************************************)
RECURSIVE ProveSet(_, _)
ProveSet(n, path) ==      \* nodes visited by the walk (also when it fails)
    CASE n.t = "L" -> {n}
      [] n.t = "B" -> {n} \cup (IF path = <<>> THEN ProveSet(n.c[17], <<>>)
                                ELSE ProveSet(n.c[path[1] + 1], Drop(path, 1)))
      [] n.t = "X" -> {n} \cup (IF HasPrefix(path, n.k) THEN ProveSet(n.n, Drop(path, Len(n.k))) ELSE {})
      [] OTHER -> {}

\* BugNoHash: a verifier that accepts any supplied node of the expected kind instead of the node with
\* the expected hash (named deviation, used only by the non-vacuity self-test)
RECURSIVE VWalk(_, _, _, _)
Fetch(h, S, BugNoHash) ==
    IF h.t = "E" THEN EmptyN
    ELSE IF h \in S THEN h
    ELSE IF BugNoHash /\ \E m \in S : m.t = h.t THEN CHOOSE m \in S : m.t = h.t
    ELSE EmptyN
VWalk(h, path, S, BugNoHash) ==
    LET n == Fetch(h, S, BugNoHash) IN
    CASE n.t = "L" -> IF path = <<>> THEN n.v ELSE Nil
      [] n.t = "B" -> IF path = <<>> THEN VWalk(n.c[17], <<>>, S, BugNoHash)
                      ELSE VWalk(n.c[path[1] + 1], Drop(path, 1), S, BugNoHash)
      [] n.t = "X" -> IF HasPrefix(path, n.k) THEN VWalk(n.n, Drop(path, Len(n.k)), S, BugNoHash) ELSE Nil
      [] OTHER -> Nil
Verify(root, path, S) == VWalk(root, path, S, FALSE)

\* what the property demands of one verification outcome r for key k under content P
SoundOutcome(P, k, r) == r = Nil \/ r = Lookup(P, k)
=============================================================================
