SPECIFICATION SimSpec
CONSTANTS
  KeySet <- K7
  ValSet <- V3
  MaxBatch = 1
  BugNoMerge = FALSE
  Depth = 16
INVARIANT Emit
CHECK_DEADLOCK FALSE
