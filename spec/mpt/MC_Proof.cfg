SPECIFICATION Spec
CONSTANTS
  KeySet <- K4
  ValSet <- V2
  Foreign = "near"
  BugNoHash = FALSE
INVARIANTS Complete Sound Minimal
CHECK_DEADLOCK FALSE
