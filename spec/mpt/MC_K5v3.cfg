SPECIFICATION Spec
CONSTANTS
  KeySet <- K5
  ValSet <- V3
  MaxBatch = 5
  BugNoMerge = FALSE
INVARIANTS Canonical StructInv ReadsAgree Injective
VIEW View
CHECK_DEADLOCK FALSE
