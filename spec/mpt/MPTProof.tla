------------------------------ MODULE MPTProof ------------------------------
(***************************************************************************)
(* Completeness and soundness of membership proofs, checked exhaustively   *)
(* over a small universe.  A state is a pair of contents (c, d): c is the  *)
(* trie whose root the verifier trusts, d a foreign trie (another version  *)
(* of the state, a sibling chain) whose nodes an adversary may mix in.     *)
(* For every key k, every key k2 and EVERY subset S of the nodes on the    *)
(* proof path of k in c and of k2 in d (d = c gives sibling substitution): *)
(*   Verify(Root(c), k, S) is "not found" or the value stored under k in c *)
(*   (never another value, never a value for an absent key)   [Sound]      *)
(*   Verify(Root(c), k, Prove(c, k)) = c[k] for present k     [Complete]   *)
(* The hash is injective (identity).  BugNoHash switches the verifier to a *)
(* deviation that does not bind nodes to hashes; TLC must refute Sound.    *)
(***************************************************************************)
EXTENDS MPTCanon, TLC

CONSTANTS KeySet, ValSet,
          Foreign,      \* "near": d differs from c in at most one key; "all": every d
          BugNoHash

VARIABLES c, d, stage
vars == <<c, d, stage>>

Contents == [KeySet -> ValSet \cup {Nil}]
Pairs(f) == {<<k, f[k]>> : k \in {k \in DOMAIN f : f[k] # Nil}}
Near(f) == {g \in Contents : Cardinality({k \in KeySet : f[k] # g[k]}) <= 1}
NoContent == [k \in KeySet |-> Nil]

\* a two-level fan-out (choose c, then d) so that TLC's workers share the evaluation of the invariants,
\* which are judged on the leaves (stage 2)
Init == c = NoContent /\ d = NoContent /\ stage = 0
Next == \/ stage = 0 /\ c' \in Contents /\ d' = d /\ stage' = 1
        \/ stage = 1 /\ d' \in (IF Foreign = "all" THEN Contents ELSE Near(c)) /\ c' = c /\ stage' = 2
Spec == Init /\ [][Next]_vars

\* (LET-bound values are computed once per state by TLC)
Complete == stage = 2 =>
    LET tc == Build(Pairs(c)) IN
    \A k \in KeySet : c[k] # Nil => Verify(tc, k, ProveSet(tc, k)) = c[k]

Sound == stage = 2 =>
    LET tc == Build(Pairs(c))
        td == Build(Pairs(d))
        pc == Pairs(c)
    IN  \A k \in KeySet, k2 \in KeySet :
            LET u == ProveSet(tc, k) \cup ProveSet(td, k2) IN
            \A S \in SUBSET u : SoundOutcome(pc, k, VWalk(tc, k, S, BugNoHash))

\* dropping any node of a proof makes it fail (the proof is minimal): not demanded by the property, a fact about
\* the design that makes the tampering family "drop a node" non-trivial
Minimal == stage = 2 =>
    LET tc == Build(Pairs(c)) IN
    \A k \in KeySet : c[k] # Nil =>
        LET ps == ProveSet(tc, k) IN \A n \in ps : Verify(tc, k, ps \ {n}) = Nil
=============================================================================
