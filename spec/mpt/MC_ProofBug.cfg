SPECIFICATION Spec
CONSTANTS
  KeySet <- K4
  ValSet <- V2
  Foreign = "near"
  BugNoHash = TRUE
INVARIANTS Complete Sound Minimal
CHECK_DEADLOCK FALSE
