SPECIFICATION Spec
CONSTANTS
  KeySet <- K7
  ValSet <- V2
  MaxBatch = 2
  BugNoMerge = FALSE
INVARIANTS Canonical StructInv ReadsAgree Injective
VIEW View
CHECK_DEADLOCK FALSE
