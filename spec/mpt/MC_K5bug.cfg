SPECIFICATION Spec
CONSTANTS
  KeySet <- K5
  ValSet <- V2
  MaxBatch = 1
  BugNoMerge = TRUE
INVARIANTS Canonical StructInv ReadsAgree Injective
VIEW View
CHECK_DEADLOCK FALSE
