------------------------------- MODULE MCMPT -------------------------------
(* Universes for the exhaustive runs of MPTImpl (DESIGN 4/C10).  Paths are even-length nibble strings
   (one real key byte = two nibbles).  The universes contain keys that are prefixes of each other, keys that
   share long nibble prefixes, keys that diverge at an odd and at an even nibble position. *)
EXTENDS MPTImpl

\* 7 keys: 00 | 0000 | 0001 | 0010 | 01 | 10 | 000000
K7 == { <<0,0>>, <<0,0,0,0>>, <<0,0,0,1>>, <<0,0,1,0>>, <<0,1>>, <<1,0>>, <<0,0,0,0,0,0>> }
\* 5 keys for full change sets: 00 | 0000 | 0001 | 01 | 10
K5 == { <<0,0>>, <<0,0,0,0>>, <<0,0,0,1>>, <<0,1>>, <<1,0>> }
\* "" is the empty value (legal, distinct from absent); equal values under different keys arise by construction
V2 == {"a", ""}
V3 == {"a", "b", ""}
=============================================================================
