------------------------------- MODULE MPTSim -------------------------------
(* Behaviour generator (tlc -simulate): MPTImpl plus the parts of a trie's life that do not change its content
   (flush, persist, collapse to depth n, reload from the store) and read operations placed at TLC-chosen points,
   with a history variable printed as JSON when the depth bound is reached.  Every mutating step carries
   canon = Build(content'), the canonical structure demanded by the abstract specification: the harness builds
   real Branch/Extension/Leaf nodes from it, hashes them with the real node hashing and compares with
   Trie.StateRoot().  Collapse is enabled only on a flushed trie (its documented precondition); reloading an
   unflushed trie legitimately returns to the last flushed content. *)
EXTENDS MCMPT, Json

CONSTANT Depth
VARIABLES flushed,   \* content as of the last Flush
          dirty,     \* mutated since the last Flush
          hist

simvars == <<vars, flushed, dirty, hist>>

Canon(c) == Build(Pairs(c))
\* change set as a JSON-able sequence of [k, v]
ChgSeq(chg) == SetToSeq({[k |-> k, v |-> chg[k]] : k \in DOMAIN chg})

\* a random change set, a function of ONE random number r (operator arguments and LET definitions are re-evaluated
\* by TLC at every use, so RandomElement must be bound by a quantifier before it is used twice):
\* digit j of r in base Len(Opts) says whether the j-th key is skipped / deleted / put with some value
Skip == "<skip>"
Opts == <<Skip, Skip, Nil>> \o SetToSeq(ValSet)
KeySeq == SetToSeq(KeySet)
RECURSIVE Pow(_, _)
Pow(b, e) == IF e = 0 THEN 1 ELSE b * Pow(b, e - 1)
ChgOf(r) == LET f == [j \in 1..Len(KeySeq) |-> Opts[((r \div Pow(Len(Opts), j - 1)) % Len(Opts)) + 1]]
                D == {KeySeq[j] : j \in {j \in 1..Len(KeySeq) : f[j] # Skip}}
            IN  [k \in D |-> f[CHOOSE j \in 1..Len(KeySeq) : KeySeq[j] = k]]
RandomNumbers(n) == {RandomElement(0..(Pow(Len(Opts), Len(KeySeq)) - 1)) : i \in 1..n}

PrefixChoices == {<<>>, <<0,0>>, <<0,0,0,0>>, <<0,1>>, <<1,1>>, <<0,0,0,0,0,0>>}
FromChoices    == {<<>>, <<0,0>>, <<0,1>>, <<0,0,0,1>>, <<1,0>>, <<0,0,0,0>>}

SimInit == /\ Init /\ flushed = content /\ dirty = FALSE
           /\ hist = << [op |-> "init", keys |-> SetToSeq(KeySet)] >>

Mutate(rec) == /\ dirty' = TRUE /\ UNCHANGED flushed
               /\ hist' = Append(hist, rec @@ [canon |-> Canon(content')])
Same(rec) == /\ UNCHANGED <<vars, flushed, dirty>>
             /\ hist' = Append(hist, rec)

\* Find and TrieStore.Seek read through a Trie rooted at a hash over the store (as stateroot.Module does), which
\* needs a flushed trie: the harness flushes first when the trie is dirty
Clean(rec) == /\ UNCHANGED vars /\ flushed' = content /\ dirty' = FALSE
              /\ hist' = Append(hist, rec)

GenNext ==
    \/ \E k \in KeySet : \E v \in {RandomElement(ValSet)} : Put(k, v) /\ Mutate([op |-> "put", k |-> k, v |-> v])
    \/ \E k \in KeySet : Delete(k) /\ Mutate([op |-> "del", k |-> k])
    \/ \E r \in RandomNumbers(6) : LET chg == ChgOf(r) IN
          /\ DOMAIN chg # {}
          /\ Batch(chg) /\ Mutate([op |-> "batch", b |-> ChgSeq(chg)])
    \/ \E w \in 1..4 : /\ UNCHANGED vars /\ flushed' = content /\ dirty' = FALSE
                       /\ hist' = Append(hist, [op |-> "flush", w |-> w])
    \/ Same([op |-> "persist"])
    \/ \E n \in 0..3 : ~dirty /\ Same([op |-> "collapse", n |-> n])
    \/ \E w \in 1..2 : /\ content' = flushed /\ tree' = Build(Pairs(flushed)) /\ last' = [op |-> "reload"]
                       /\ dirty' = FALSE /\ UNCHANGED flushed
                       /\ hist' = Append(hist, [op |-> "reload", w |-> w, canon |-> Canon(flushed)])
    \/ \E w \in 1..2 : Same([op |-> "dump", w |-> w])
    \/ \E i \in 1..2 : Same([op |-> "tamper", k |-> RandomElement(KeySet), other |-> RandomElement(KeySet)])
    \/ \E i \in 1..3 : Clean([op |-> "find", prefix |-> RandomElement(PrefixChoices), from |-> RandomElement(FromChoices),
                             hasfrom |-> RandomElement({TRUE, FALSE}), max |-> RandomElement({1, 2, 100})])
    \/ \E i \in 1..4 : Clean([op |-> "seek", prefix |-> RandomElement(PrefixChoices), start |-> RandomElement(FromChoices),
                             back |-> RandomElement({TRUE, FALSE})])

SimSpec == SimInit /\ [][GenNext]_simvars

Emit == Len(hist) # Depth \/ PrintT(<<"@@HIST@@", ToJson(hist)>>)
=============================================================================
