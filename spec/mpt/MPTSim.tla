------------------------------- MODULE MPTSim -------------------------------
(* Behaviour generator (tlc -simulate): MPTImpl plus the parts of a trie's life that do not change its content
   (flush, persist, collapse to depth n, reload from the store) and read operations placed at TLC-chosen points,
   with a history variable printed as JSON when the depth bound is reached.  Every mutating step carries
   canon = Build(content'), the canonical structure demanded by the abstract specification: the harness builds
   real Branch/Extension/Leaf nodes from it, hashes them with the real node hashing and compares with
   Trie.StateRoot().  Collapse is enabled only on a flushed trie (its documented precondition); reloading an
   unflushed trie legitimately returns to the last flushed content. *)
EXTENDS MCMPT, Json

CONSTANT Depth
VARIABLES flushed,   \* content as of the last Flush
          dirty,     \* mutated since the last Flush
          rng,       \* state of a Lehmer generator: TLC's RandomElement restarts identically at every step of a
                     \* simulation, so the parameter choices are derived from this variable instead; TLC picks its
                     \* initial value, the action and the successor of every step from -seed
          hist

simvars == <<vars, flushed, dirty, rng, hist>>

Canon(c) == Build(Pairs(c))
\* change set as a JSON-able sequence of [k, v]
ChgSeq(chg) == SetToSeq({[k |-> k, v |-> chg[k]] : k \in DOMAIN chg})

Lehmer(x) == (x * 75) % 65537
RECURSIVE Tab(_, _)
Tab(x, n) == IF n = 0 THEN <<>> ELSE <<x>> \o Tab(Lehmer(x), n - 1)     \* the next n draws
NDraws == 110
Pick(seq, x) == seq[(x % Len(seq)) + 1]

Skip == "<skip>"
Opts == <<Skip, Skip, Skip, Nil, Nil>> \o SetToSeq(ValSet)
ValSeq == SetToSeq(ValSet)
KeySeq == SetToSeq(KeySet)
KeyIdx(k) == CHOOSE j \in 1..Len(KeySeq) : KeySeq[j] = k
\* the i-th random change set of this step: every key is skipped / deleted / put with some value
\* (operator arguments and LET definitions are re-evaluated by TLC at every use: values that are used more than
\* once are bound by a quantifier over a singleton set)
ChgFrom(f) == LET D == {KeySeq[j] : j \in {j \in 1..Len(KeySeq) : f[j] # Skip}}
              IN  [k \in D |-> f[KeyIdx(k)]]

PrefixChoices == << <<>>, <<0,0>>, <<0,0,0,0>>, <<0,1>>, <<1,1>>, <<0,0,0,0,0,0>>, <<0,0,0,1>>, <<1,0>> >>
FromChoices   == << <<>>, <<0,0>>, <<0,1>>, <<0,0,0,1>>, <<1,0>>, <<0,0,0,0>>, <<0,0,1,0>>, <<1,1>> >>

SimInit == /\ Init /\ flushed = content /\ dirty = FALSE
           /\ rng \in 1..4096
           /\ hist = << [op |-> "init", keys |-> KeySeq] >>

Mutate(rec) == /\ dirty' = TRUE /\ UNCHANGED flushed
               /\ hist' = Append(hist, rec @@ [canon |-> Canon(content')])
Same(rec) == /\ UNCHANGED <<vars, flushed, dirty>>
             /\ hist' = Append(hist, rec)
\* Find and TrieStore.Seek read through a Trie rooted at a hash over the store (as stateroot.Module does), which
\* needs a flushed trie: the harness flushes first when the trie is dirty
Clean(rec) == /\ UNCHANGED vars /\ flushed' = content /\ dirty' = FALSE
              /\ hist' = Append(hist, rec)

\* Every disjunct of GenNext is an action of its own: in simulation mode TLC first picks an action uniformly, then
\* one of its successors (repeated disjuncts = weights).  The last step of a behaviour is fixed (a full
\* observation), so that exactly one history is printed per behaviour.
Going == Len(hist) < Depth - 1
Draws == Tab(Lehmer(rng), NDraws)
Tick(d) == rng' = Lehmer(d[NDraws])

APut == Going /\ \E d \in {Draws} : Tick(d) /\ \E k \in KeySet : LET v == Pick(ValSeq, d[KeyIdx(k)]) IN
            Put(k, v) /\ Mutate([op |-> "put", k |-> k, v |-> v])
ADel == Going /\ \E d \in {Draws} : Tick(d) /\ \E k \in KeySet : Delete(k) /\ Mutate([op |-> "del", k |-> k])
ABatch == Going /\ \E d \in {Draws} : Tick(d) /\
            \E i \in 1..6 : \E f \in {[j \in 1..Len(KeySeq) |-> Pick(Opts, d[8 * i + j])]} : \E chg \in {ChgFrom(f)} :
              /\ DOMAIN chg # {}
              /\ Batch(chg) /\ Mutate([op |-> "batch", b |-> ChgSeq(chg)])
AFlush == Going /\ \E d \in {Draws} : Tick(d) /\ UNCHANGED vars /\ flushed' = content /\ dirty' = FALSE
                                       /\ hist' = Append(hist, [op |-> "flush"])
APersist == Going /\ \E d \in {Draws} : Tick(d) /\ Same([op |-> "persist"])
ACollapse == Going /\ ~dirty /\ \E d \in {Draws} : Tick(d) /\ \E n \in 0..3 : Same([op |-> "collapse", n |-> n])
AReload == Going /\ \E d \in {Draws} : Tick(d)
                 /\ content' = flushed /\ tree' = Build(Pairs(flushed)) /\ last' = [op |-> "reload"]
                 /\ dirty' = FALSE /\ UNCHANGED flushed
                 /\ hist' = Append(hist, [op |-> "reload", canon |-> Canon(flushed)])
ADump == Going /\ \E d \in {Draws} : Tick(d) /\ Same([op |-> "dump"])
ATamper == Going /\ \E d \in {Draws} : Tick(d) /\
            \E i \in 1..2 : Same([op |-> "tamper", k |-> Pick(KeySeq, d[60 + i]), other |-> Pick(KeySeq, d[64 + i])])
AFind == Going /\ \E d \in {Draws} : Tick(d) /\
            \E i \in 1..3 : Clean([op |-> "find", prefix |-> Pick(PrefixChoices, d[70 + i]),
                                  from |-> Pick(FromChoices, d[74 + i]), hasfrom |-> d[78 + i] % 3 # 0,
                                  max |-> Pick(<<1, 2, 100, 100>>, d[82 + i])])
ASeek == Going /\ \E d \in {Draws} : Tick(d) /\
            \E i \in 1..4 : Clean([op |-> "seek", prefix |-> Pick(PrefixChoices, d[90 + i]),
                                  start |-> Pick(FromChoices, d[95 + i]), back |-> d[100 + i] % 2 = 0])
AFinal == Len(hist) = Depth - 1 /\ UNCHANGED rng /\ Same([op |-> "dump"])

GenNext == \/ APut \/ APut \/ ADel \/ ABatch \/ ABatch \/ ABatch \/ AFlush \/ AFlush \/ APersist \/ ACollapse \/ AReload
           \/ ADump \/ ATamper \/ AFind \/ ASeek \/ ASeek \/ AFinal

SimSpec == SimInit /\ [][GenNext]_simvars

Emit == Len(hist) # Depth \/ PrintT(<<"@@HIST@@", ToJson(hist)>>)
=============================================================================
