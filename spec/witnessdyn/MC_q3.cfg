\* quick: TWO transactions (same block / next block), depth <= 1, <= 1 change per transaction
SPECIFICATION ISpec
CONSTANTS
  Universe = "quick"
  Bug = "none"
  Contracts <- MCContracts
  Groups <- MCGroups
  InitTables <- MCInitTables
  MaxDepth = 1
  MaxChanges = 1
  MaxTx = 2
  WithTry = TRUE
  WithNoRS = TRUE
  WithCb = FALSE
INVARIANTS ImplAgrees Coherent

CHECK_DEADLOCK FALSE
