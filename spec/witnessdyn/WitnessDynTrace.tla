---------------------------- MODULE WitnessDynTrace ----------------------------
(* C15, dynamic contract table - judges what the REAL code did (harness/c15dyn: real transactions in real
   blocks of a neotest chain) with the ABSTRACT rule: every recorded System.Runtime.CheckWitness answer against
   Witness!CheckX over the contract table AS THE SPECIFICATION TRACKS IT from the recorded steps.

   trace.ndjson - several histories, each starting with "init":
     {"event":"init",    "tbl":{c:{"st","groups":[..],"uc"}..}}        the table read back from the chain
     {"event":"begintx", "signers":[..]}                               as decoded from the stored transaction
     {"event":"call","c","rs","try"} | {"event":"ret"} | {"event":"upd","c","groups","cb"} | {"event":"destroy","c"}
     | {"event":"deploy","c","groups","cb"} | {"event":"throw"}         steps that REALLY completed (reconstructed
                                                                       from the markers the probe code left); cb: the
                                                                       contract's _deploy method is running now
     {"event":"check",   "acct", "res"}     res 0 false, 1 true, 2 the execution faulted in this check
     {"event":"tab",     "uc":{c:n..}}      ContractManagement.getContract as seen INSIDE the execution at that
                                            point: the update counter, -1 no such contract
     {"event":"endtx",   "how"}             HALT | FAULT, the state in the application log
     {"event":"block",   "cache":{..}, "stored":{..}}   the table after the block: as ContractManagement answers
                                            (its cache) and as decoded from its storage records

   Reported names:  C15 proper      GrantedWhereDenied (observed success => MayGrant)
                                    RefusedWhereGranted (observed refusal => ~MustGrant)
                    the binding     ModelStep (a step the abstract actions do not admit), TableInTx, TableCache,
                                    TableStored (the table the specification tracks is not the chain's): these are
                                    not about witnesses - the runner reports them as drift and does not judge the
                                    history they occur in.
   Total and deterministic: every line is consumed, nothing blocks. *)
EXTENDS TraceIO, WitnessDynOps

VARIABLES l, tbl, base, stack, signers
tvars == <<l, tbl, base, stack, signers>>

NormT(t) == [c \in DOMAIN t |-> [st |-> t[c].st, groups |-> ToSet(t[c].groups), uc |-> t[c].uc]]
\* what a read-back can show: a destroyed contract is simply not there
Shown(t) == [c \in DOMAIN t |-> IF t[c].st = "live" THEN t[c] ELSE AbsentE]
UcShown(t) == [c \in DOMAIN t |-> IF t[c].st = "live" THEN t[c].uc ELSE -1]

Init == l = 1 /\ tbl = <<>> /\ base = <<>> /\ stack = <<>> /\ signers = <<>>

Running == stack # <<>>
Full == Running /\ Top(stack).rs

Step ==
    /\ l <= Len(TLog)
    /\ l' = l + 1
    /\ LET e == TLog[l] IN
       CASE e.event = "init" ->
              /\ tbl' = NormT(e.tbl) /\ base' = NormT(e.tbl) /\ stack' = <<>> /\ signers' = <<>>
         [] e.event = "begintx" ->
              /\ stack' = << EntryFrame(tbl) >> /\ base' = tbl /\ signers' = e.signers /\ UNCHANGED tbl
              /\ Report(l, NameIf(~Running, "ModelStep"), [ev |-> e])
         [] e.event = "call" ->
              /\ stack' = PushCall(stack, tbl, e.c, e.rs, e.try) /\ UNCHANGED <<tbl, base, signers>>
              /\ Report(l, NameIf(Full /\ IsLive(tbl, e.c), "ModelStep"), [ev |-> e])
         [] e.event = "ret" ->
              /\ stack' = (IF Len(stack) > 1 THEN PopRet(stack) ELSE stack) /\ UNCHANGED <<tbl, base, signers>>
              /\ Report(l, NameIf(Len(stack) > 1, "ModelStep"), [ev |-> e])
         [] e.event = "upd" ->
              /\ tbl' = Updated(tbl, e.c, ToSet(e.groups)) /\ UNCHANGED <<base, signers>>
              /\ stack' = IF e.cb THEN PushDeployCb(stack, tbl', e.c) ELSE stack
              /\ Report(l, NameIf(Full /\ Len(stack) > 1 /\ Top(stack).hash = e.c /\ IsLive(tbl, e.c), "ModelStep"), [ev |-> e])
         [] e.event = "destroy" ->
              /\ tbl' = Destroyed(tbl, e.c) /\ UNCHANGED <<stack, base, signers>>
              /\ Report(l, NameIf(Full /\ Len(stack) > 1 /\ Top(stack).hash = e.c /\ IsLive(tbl, e.c), "ModelStep"), [ev |-> e])
         [] e.event = "deploy" ->
              /\ tbl' = Deployed(tbl, e.c, ToSet(e.groups)) /\ UNCHANGED <<base, signers>>
              /\ stack' = IF e.cb THEN PushDeployCb(stack, tbl', e.c) ELSE stack
              /\ Report(l, NameIf(Full /\ tbl[e.c].st = "absent", "ModelStep"), [ev |-> e])
         [] e.event = "throw" ->
              /\ IF Running /\ CatchIndex(stack) # 0
                 THEN stack' = AfterThrowStack(stack) /\ tbl' = AfterThrowTable(stack)
                 ELSE UNCHANGED <<stack, tbl>>                   \* nobody catches it: the endtx FAULT follows
              /\ UNCHANGED <<base, signers>>
              /\ Report(l, NameIf(Running, "ModelStep"), [ev |-> e])
         [] e.event = "check" ->
              /\ UNCHANGED <<tbl, base, stack, signers>>
              /\ IF ~Running THEN Report(l, {"ModelStep"}, [ev |-> e])
                 ELSE Report(l, IF e.res = 1 THEN NameIf(MayGrant(signers, e.acct, stack, tbl), "GrantedWhereDenied")
                                ELSE NameIf(~MustGrant(signers, e.acct, stack, tbl), "RefusedWhereGranted"),
                             [ev |-> e, code |-> AnswerCode(signers, e.acct, stack, tbl), ctx |-> CtxOf(stack, tbl),
                              depth |-> Len(stack), tbl |-> tbl, acct |-> ResolveAcct(e.acct, stack)])
         [] e.event = "tab" ->
              /\ UNCHANGED <<tbl, base, stack, signers>>
              /\ Report(l, NameIf(\A c \in DOMAIN e.uc : c \in DOMAIN tbl /\ e.uc[c] = UcShown(tbl)[c], "TableInTx"),
                        [ev |-> e, tbl |-> tbl])
         [] e.event = "endtx" ->
              /\ stack' = <<>> /\ UNCHANGED signers
              /\ IF e.how = "HALT" THEN tbl' = tbl /\ base' = tbl ELSE tbl' = base /\ base' = base
              /\ Report(l, NameIf(Running /\ (e.how = "HALT" => Len(stack) = 1), "ModelStep"), [ev |-> e])
         [] e.event = "block" ->
              /\ UNCHANGED <<tbl, base, stack, signers>>
              /\ Report(l, NameIf(~Running, "ModelStep")
                           \cup NameIf(NormT(e.cache) = Shown(tbl), "TableCache")
                           \cup NameIf(NormT(e.stored) = Shown(tbl), "TableStored"),
                        [ev |-> e, tbl |-> tbl])

TraceSpec == Init /\ [][Step]_tvars
=============================================================================
