SPECIFICATION ISpec
CONSTANTS
  Universe = "two"
  Bug = "StaleCacheAfterCatch"
  Contracts <- MCContracts
  Groups <- MCGroups
  InitTables <- MCInitTables
  MaxDepth = 2
  MaxChanges = 1
  MaxTx = 1
  WithTry = TRUE
  WithNoRS = FALSE
  WithCb = FALSE
INVARIANTS ImplAgrees
CHECK_DEADLOCK FALSE
