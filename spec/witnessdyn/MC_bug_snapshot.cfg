SPECIFICATION ISpec
CONSTANTS
  Universe = "two"
  Bug = "GroupsFromFrameSnapshot"
  Contracts <- MCContracts
  Groups <- MCGroups
  InitTables <- MCInitTables
  MaxDepth = 2
  MaxChanges = 1
  MaxTx = 1
  WithTry = FALSE
  WithNoRS = FALSE
  WithCb = TRUE
INVARIANTS ImplAgrees
CHECK_DEADLOCK FALSE
