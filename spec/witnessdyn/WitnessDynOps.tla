---------------------------- MODULE WitnessDynOps ----------------------------
(* C15, dynamic contract table - the PURE part of the abstract specification: what a contract table, a call
   stack and a transition of them are, and the witness rule over the CURRENT table.  No constants, no
   variables: the same operators define the actions of WitnessDyn (model checking, generation) and the
   event application of WitnessDynTrace (judging what the real code did).

   Property C15 (properties.jsonl), the clause relied upon:
     "... only inside listed contracts or contracts of listed groups for the custom scopes; and for
      rule-based scopes according to the first rule whose condition matches, evaluated over the REAL
      calling and current contracts, THEIR GROUPS and the entry relation."
   The groups of a contract are what the contract table says about it AT THE MOMENT OF THE CHECK: a manifest
   update that happened earlier in the same transaction has taken effect, a destroyed contract has no
   groups any more, a contract deployed a moment ago has the groups it was deployed with, and changes that
   were discarded (the transaction FAULTed, or the exception of a callee was caught by a caller's try block:
   everything the callee did is rolled back) never happened.

   Table    [c |-> [st, groups, uc]]   st \in {"absent", "live", "dead"} (dead: destroyed, its hash is blocked
                                       for ever), groups a SET of group names, uc the update counter
   Frame    [hash, rs, snap]           hash  script hash (the entry script is "E", not a contract)
                                       rs    the frame's call flags contain ReadStates
                                       snap  [has, t]: the frame was entered from inside a try block of its
                                             caller; t is the table at that moment (what a caught
                                             exception restores)
   Stack    sequence of frames, stack[1] the entry script, the last one is executing.  "M" is the native
            ContractManagement contract: update / deploy may run the (new) contract's _deploy method before they
            return - frames M and c on top of the frame that called update / deploy; the table already holds the
            new manifest while _deploy runs.  An exception that leaves _deploy uncaught cannot be caught by
            anybody below the native frame: the transaction FAULTs. *)
EXTENDS Integers, Sequences, FiniteSets, SequencesExt

W == INSTANCE Witness

EntryHash == "E"
MgmtHash == "M"
AbsentE == [st |-> "absent", groups |-> {}, uc |-> 0]
DeadE   == [st |-> "dead", groups |-> {}, uc |-> 0]
LiveE(g, uc) == [st |-> "live", groups |-> g, uc |-> uc]

NoSnap(t)  == [has |-> FALSE, t |-> [c \in DOMAIN t |-> AbsentE]]
SnapOf(t)  == [has |-> TRUE, t |-> t]
Fr(h, rs, snap) == [hash |-> h, rs |-> rs, snap |-> snap]
EntryFrame(t) == Fr(EntryHash, TRUE, NoSnap(t))

IsLive(t, h) == h \in DOMAIN t /\ t[h].st = "live"
GroupsOf(t, h) == IF IsLive(t, h) THEN SetToSeq(t[h].groups) ELSE <<>>

(* the context the statement speaks about, over the CURRENT table t *)
CtxOf(st, t) ==
    LET n == Len(st) IN
    [cur          |-> st[n].hash,
     curGroups    |-> GroupsOf(t, st[n].hash),
     caller       |-> IF n > 1 THEN st[n - 1].hash ELSE W!NoCaller,
     callerGroups |-> IF n > 1 THEN GroupsOf(t, st[n - 1].hash) ELSE <<>>,
     byEntry      |-> n <= 2,
     rs           |-> st[n].rs]

\* account names that depend on the context
ResolveAcct(a, st) ==
    IF a = "caller" THEN (IF Len(st) > 1 THEN st[Len(st) - 1].hash ELSE "Z") ELSE a

Answer(signers, acct, st, t)    == W!CheckX(signers, ResolveAcct(acct, st), CtxOf(st, t))
AnswerCode(signers, acct, st, t) == W!CodeX(signers, ResolveAcct(acct, st), CtxOf(st, t))
MayGrant(signers, acct, st, t)  == W!MayGrantX(signers, ResolveAcct(acct, st), CtxOf(st, t))
MustGrant(signers, acct, st, t) == W!MustGrantX(signers, ResolveAcct(acct, st), CtxOf(st, t))

----------------------------------------------------------------------------
(* transitions (functions; the guards are in WitnessDyn) *)
Top(st) == st[Len(st)]
Pop(st) == SubSeq(st, 1, Len(st) - 1)

PushCall(st, t, c, rs, try) == Append(st, Fr(c, rs, IF try THEN SnapOf(t) ELSE NoSnap(t)))
\* ContractManagement calls c._deploy
PushDeployCb(st, t, c) == st \o << Fr(MgmtHash, TRUE, NoSnap(t)), Fr(c, TRUE, NoSnap(t)) >>
\* a frame returns; the native frame that called it (if any) returns right after it
PopRet(st) == IF Len(st) > 2 /\ st[Len(st) - 1].hash = MgmtHash THEN SubSeq(st, 1, Len(st) - 2) ELSE Pop(st)
\* contract frames above the entry script
Depth(st) == Cardinality({i \in 2..Len(st) : st[i].hash # MgmtHash})
Updated(t, c, g)  == [t EXCEPT ![c] = LiveE(g, t[c].uc + 1)]
Destroyed(t, c)   == [t EXCEPT ![c] = DeadE]
Deployed(t, c, g) == [t EXCEPT ![c] = LiveE(g, 0)]

(* An exception thrown by the executing frame is caught by the try block around the nearest call (from the top)
   that was made inside one: that frame and everything above it are gone, the table is what it was when the
   call was made.  0: nobody catches it (the transaction FAULTs). *)
CatchIndex(st) ==
    LET N == {i \in 1..Len(st) : st[i].hash = MgmtHash}
        lim == IF N = {} THEN 1 ELSE CHOOSE i \in N : \A j \in N : j <= i      \* nothing below a native frame catches
        I == {i \in (lim + 1)..Len(st) : st[i].snap.has}
    IN IF I = {} THEN 0 ELSE CHOOSE i \in I : \A j \in I : j <= i
AfterThrowStack(st) == SubSeq(st, 1, CatchIndex(st) - 1)
AfterThrowTable(st) == st[CatchIndex(st)].snap.t
=============================================================================
