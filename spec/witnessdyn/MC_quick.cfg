SPECIFICATION ISpec
CONSTANTS
  Universe = "quick"
  Bug = "none"
  Contracts <- MCContracts
  Groups <- MCGroups
  InitTables <- MCInitTables
  MaxDepth = 2
  MaxChanges = 2
  MaxTx = 2
  WithTry = TRUE
  WithNoRS = TRUE
INVARIANTS ImplAgrees Coherent
CHECK_DEADLOCK FALSE
