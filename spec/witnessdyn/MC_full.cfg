\* thorough: 3 contracts, 2 groups, stack depth <= 3, <= 2 table changes per transaction, 2 transactions (same / next block), leaf frames without ReadStates; no try blocks
SPECIFICATION ISpec
CONSTANTS
  Universe = "quick"
  Bug = "none"
  Contracts <- MCContracts
  Groups <- MCGroups
  InitTables <- MCInitTables
  MaxDepth = 3
  MaxChanges = 2
  MaxTx = 2
  WithTry = FALSE
  WithNoRS = TRUE
  WithCb = FALSE
INVARIANTS ImplAgrees Coherent

CHECK_DEADLOCK FALSE
