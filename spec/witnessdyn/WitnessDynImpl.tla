---------------------------- MODULE WitnessDynImpl ----------------------------
(* C15, dynamic contract table - IMPLEMENTATION-SHAPED model of how neo-go answers a witness check while the
   contract table changes (pkg/core/interop/runtime/witness.go getContractGroups -> ic.GetContract ->
   native.GetContract(ic.DAO) -> ManagementCache; pkg/core/dao/dao.go GetROCache / GetRWCache / Persist /
   GetPrivate; pkg/core/interop/contract/call.go callExFromNative; pkg/core/blockchain.go storeBlock;
   pkg/vm/vm.go loadScriptWithCallingHash).  It runs in lock step with the abstract actions of WitnessDyn and
   adds what the code has and the statement does not:

     dao   the stack of DAO layers, bottom to top:  1 the chain's (bc.dao), 2 the block's (storeBlock: cache),
           3 the transaction's (ic.DAO = cache.GetPrivate()), 4.. one per call made from inside a try block
           (callExFromNative: wrapped => ic.DAO = ic.DAO.GetPrivate()).  A layer is [has, t]: it owns a copy of
           ContractManagement's contract cache (t) or inherits the one below.  Reads go to the nearest layer
           that owns a copy (GetROCache); a write first copies it into every layer above (GetRWCache, Copy())
           and changes the topmost copy; Persist moves a layer's copy into the layer below; a discarded layer is
           simply dropped.
     fr    the VM's invocation stack: per context its script hash, ITS OWN RECORD of the calling script hash,
           the call flags, and the manifest it was loaded with (vm.Context.GetManifest: taken from the contract
           table when the context was created - mg, and cg for the caller's at that moment).

   The answer is WitnessImpl!ImplCheckSt (the static, code-shaped witness check) given the invocation stack
   and the contract table as the code looks it up.

   Bug names a deliberately wrong variant (non-vacuity: TLC must refute each of them against the abstract rule):
     "GroupsFromFrameSnapshot"  the groups of the executing contract are taken from the manifest the context was
                                loaded with (ctx.GetManifest()) instead of the contract table
     "CallerGroupsAtCallTime"   the groups of the calling contract are the ones it had when the call was made
     "StaleCacheAfterFault"     the contract cache changed by a FAULTed transaction is not dropped with the
                                transaction's DAO layer (e.g. GetRWCache handing out the lower layer's cache without Copy())
     "StaleCacheAfterCatch"     the same for the layer of a call whose exception was caught
     "DestroyedStillGrouped"    destroy leaves the contract's manifest visible to the group lookup *)
EXTENDS WitnessDyn

CONSTANT Bug

M == INSTANCE WitnessImpl WITH Deviation <- "none"

VARIABLES dao, fr
ivars == <<dao, fr>>
vars == <<tbl, base, stack, nchg, ntx, pend, dao, fr>>

NoCache(t) == [has |-> FALSE, t |-> [c \in DOMAIN t |-> AbsentE]]
Own(t)     == [has |-> TRUE, t |-> t]

TopHas(d) == CHOOSE i \in DOMAIN d : d[i].has /\ \A j \in DOMAIN d : d[j].has => j <= i
View(d)   == d[TopHas(d)].t                       \* GetROCache from the top layer

\* GetRWCache from the top layer + the change
Write(d, c, e) ==
    LET k == TopHas(d)
        v == d[k].t
        n == Len(d)
    IN [i \in DOMAIN d |-> IF i = n THEN Own([v EXCEPT ![c] = e])
                           ELSE IF i > k THEN Own(v) ELSE d[i]]

\* dao.Persist of the top layer: its native cache entry replaces the lower layer's
PersistTop(d) ==
    LET n == Len(d) IN
    IF d[n].has THEN [i \in 1..(n - 1) |-> IF i = n - 1 THEN d[n] ELSE d[i]]
    ELSE SubSeq(d, 1, n - 1)
DropTop(d) == SubSeq(d, 1, Len(d) - 1)
RECURSIVE Fold(_, _, _)
Fold(d, n, persist) == IF Len(d) <= n THEN d ELSE Fold(IF persist THEN PersistTop(d) ELSE DropTop(d), n, persist)

IFrame(h, calling, rs, mg, cg) == [hash |-> h, calling |-> calling, rs |-> rs, mg |-> mg, cg |-> cg]
GroupsIn(t, h) == IF h \in DOMAIN t /\ t[h].st = "live" THEN t[h].groups ELSE {}

IInit == /\ AInit /\ dao = << Own(tbl) >> /\ fr = <<>>

IBeginTx ==
    /\ BeginTx
    /\ dao' = (IF Len(dao) = 1 THEN Append(dao, NoCache(tbl)) ELSE dao) \o << NoCache(tbl) >>
    /\ fr' = << IFrame(EntryHash, M!Zero, TRUE, {}, {}) >>

ICall(c, rs, try) ==
    /\ Call(c, rs, try)
    /\ fr' = Append(fr, IFrame(c, fr[Len(fr)].hash, rs, GroupsIn(View(dao), c), GroupsIn(View(dao), fr[Len(fr)].hash)))
    /\ dao' = IF try THEN Append(dao, NoCache(tbl)) ELSE dao

IReturn ==
    /\ Return
    /\ fr' = SubSeq(fr, 1, Len(stack'))
    /\ dao' = IF Top(stack).snap.has THEN PersistTop(dao) ELSE dao

\* callDeployDeferrable -> contract.CallFromNative: the native's own context, then the contract's with the NEW manifest
CbFrames(f, c, g, cb) ==
    IF cb THEN f \o << IFrame(MgmtHash, f[Len(f)].hash, TRUE, {}, GroupsIn(View(dao), f[Len(f)].hash)),
                       IFrame(c, MgmtHash, TRUE, g, {}) >>
    ELSE f

IUpdate(c, g, cb) ==
    /\ UpdateGroups(c, g, cb)
    /\ dao' = Write(dao, c, LiveE(g, View(dao)[c].uc + 1))
    /\ fr' = CbFrames(fr, c, g, cb)

IDestroy(c) ==
    /\ Destroy(c)
    /\ dao' = Write(dao, c, IF Bug = "DestroyedStillGrouped" THEN [View(dao)[c] EXCEPT !.st = "dead"] ELSE DeadE)
    /\ UNCHANGED fr

IDeploy(c, g, cb) ==
    /\ Deploy(c, g, cb)
    /\ dao' = Write(dao, c, LiveE(g, 0))
    /\ fr' = CbFrames(fr, c, g, cb)

\* handleException unloads the contexts down to the catching one; every wrapped one discards its layer
IThrow ==
    /\ Throw
    /\ LET k   == CatchIndex(stack)
           cnt == Cardinality({i \in k..Len(stack) : stack[i].snap.has})
       IN /\ fr' = SubSeq(fr, 1, k - 1)
          /\ dao' = Fold(dao, Len(dao) - cnt, Bug = "StaleCacheAfterCatch")

IEndTx(how) ==
    /\ EndTx(how)
    /\ fr' = <<>>
    /\ dao' = IF how = "HALT" THEN PersistTop(dao)                               \* only the transaction's layer is left
              ELSE Fold(dao, 2, Bug = "StaleCacheAfterFault")

INextBlock ==
    /\ NextBlock
    /\ dao' = PersistTop(dao)
    /\ UNCHANGED fr

INext == \/ IBeginTx \/ IReturn \/ IThrow \/ INextBlock
         \/ \E how \in {"HALT", "FAULT"} : IEndTx(how)
         \/ \E c \in Contracts : \/ \E rs \in BOOLEAN, try \in BOOLEAN : ICall(c, rs, try)
                                 \/ IDestroy(c)
                                 \/ \E g \in SUBSET Groups, cb \in BOOLEAN : IUpdate(c, g, cb) \/ IDeploy(c, g, cb)

ISpec == IInit /\ [][INext]_vars

----------------------------------------------------------------------------
(* what the code-shaped witness check is given *)
IStack(f) == [i \in DOMAIN f |-> [hash |-> f[i].hash, calling |-> f[i].calling, parent |-> i - 1, rs |-> f[i].rs]]

\* the contract table as the group lookup sees it: hash -> groups, only for contracts it finds
TblView(d, f) ==
    LET v    == View(d)
        top  == f[Len(f)]
        seen == {c \in DOMAIN v : v[c].st = "live" \/ (Bug = "DestroyedStillGrouped" /\ v[c].st = "dead")}
                \cup (IF Bug = "GroupsFromFrameSnapshot" /\ top.hash \in DOMAIN v THEN {top.hash} ELSE {})
                \cup (IF Bug = "CallerGroupsAtCallTime" /\ top.calling \in DOMAIN v THEN {top.calling} ELSE {})
    IN [c \in seen |-> SetToSeq(
            IF Bug = "GroupsFromFrameSnapshot" /\ c = top.hash THEN top.mg
            ELSE IF Bug = "CallerGroupsAtCallTime" /\ c = top.calling THEN top.cg
            ELSE v[c].groups)]

ImplAnswer(signers, acct, d, f, st) == M!ImplCheckSt(signers, ResolveAcct(acct, st), IStack(f), TblView(d, f))

\* the contract cache the code reads is the abstract table (holds for Bug = "none" only)
CacheCoherent == View(dao) = tbl
LayersShape == /\ Len(dao) >= 1 /\ dao[1].has
               /\ Len(fr) = Len(stack)
               /\ Running => Len(dao) = 3 + Cardinality({i \in DOMAIN stack : stack[i].snap.has})
               /\ ~Running => Len(dao) = IF pend > 0 THEN 2 ELSE 1
=============================================================================
