\* thorough: TWO transactions with try blocks and _deploy callbacks, depth <= 1, <= 2 changes per transaction
SPECIFICATION ISpec
CONSTANTS
  Universe = "quick"
  Bug = "none"
  Contracts <- MCContracts
  Groups <- MCGroups
  InitTables <- MCInitTables
  MaxDepth = 1
  MaxChanges = 2
  MaxTx = 2
  WithTry = TRUE
  WithNoRS = TRUE
  WithCb = TRUE
INVARIANTS ImplAgrees Coherent

CHECK_DEADLOCK FALSE
