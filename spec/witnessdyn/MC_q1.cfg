\* quick: ONE transaction, 3 contracts, 2 groups, stack depth <= 3, <= 2 table changes, no try blocks
SPECIFICATION ISpec
CONSTANTS
  Universe = "quick"
  Bug = "none"
  Contracts <- MCContracts
  Groups <- MCGroups
  InitTables <- MCInitTables
  MaxDepth = 3
  MaxChanges = 2
  MaxTx = 1
  WithTry = FALSE
  WithNoRS = TRUE
  WithCb = FALSE
INVARIANTS ImplAgrees Coherent

CHECK_DEADLOCK FALSE
