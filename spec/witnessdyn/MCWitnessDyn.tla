----------------------------- MODULE MCWitnessDyn -----------------------------
(* C15, dynamic contract table - model-checking wrapper: the universe (contracts, groups, initial tables), the
   family of signer lists every state is checked with, and the invariant
        ImplAgrees : in every reachable state with a running invocation, for every signer list of the family and
                     every account, the implementation-shaped model grants exactly where the abstract rule over
                     the CURRENT table lets / makes it grant (codes of Witness!CodeX: 1 must grant, 0 / 2 must
                     refuse, 3 may do either).
   The witness check is a pure read, so it is an invariant over all accounts and signer lists instead of an
   action (the generator WitnessDynSim makes it an action again: its answers become part of the histories). *)
EXTENDS WitnessDynImpl, TLC

CONSTANT Universe       \* selects contracts / initial tables / bounds (the cfg files only set names)

MCContracts == IF Universe = "two" THEN {"A", "B"} ELSE {"A", "B", "C"}
MCGroups == {"G1", "G2"}

T3(a, b, c) == [A |-> a, B |-> b, C |-> c]
T2(a, b) == [A |-> a, B |-> b]
MCInitTables ==
    CASE Universe = "two"   -> { T2(LiveE({"G1"}, 0), LiveE({}, 0)) }
      [] Universe = "quick" -> { T3(LiveE({"G1"}, 0), LiveE({}, 0), AbsentE) }
      [] Universe = "sim"   -> { T3(LiveE({"G1"}, 0), LiveE({}, 0), AbsentE),
                                 T3(LiveE({"G1", "G2"}, 0), LiveE({"G2"}, 0), LiveE({}, 0)),
                                 T3(LiveE({}, 0), AbsentE, AbsentE),
                                 T3(LiveE({"G2"}, 0), LiveE({"G1"}, 0), LiveE({"G1", "G2"}, 0)) }
      [] Universe = "full"  -> { T3(LiveE({"G1"}, 0), LiveE({}, 0), AbsentE),
                                 T3(LiveE({"G1", "G2"}, 0), LiveE({"G2"}, 0), LiveE({}, 0)) }

----------------------------------------------------------------------------
(* the signer lists: the sender P (scope None) and the subject S with one of these configurations *)
Sg(acct, scopes, contracts, groups, rules) ==
    [account |-> acct, scopes |-> scopes, contracts |-> contracts, groups |-> groups, rules |-> rules]
RulesOnly(rl) == Sg("S", <<"Rules">>, <<>>, <<>>, rl)
Subjects == <<
    Sg("S", <<"CustomGroups">>, <<>>, <<"G1">>, <<>>),
    Sg("S", <<"CalledByEntry", "CustomGroups">>, <<>>, <<"G2">>, <<>>),
    RulesOnly(<< W!Rule("Allow", W!CGroup("G1")) >>),
    RulesOnly(<< W!Rule("Allow", W!CCallerG("G1")) >>),
    RulesOnly(<< W!Rule("Deny", W!CGroup("G2")), W!Rule("Allow", W!CBool(TRUE)) >>),
    RulesOnly(<< W!Rule("Deny", W!CCallerG("G2")), W!Rule("Allow", W!CNot(W!CEntry)) >>),
    RulesOnly(<< W!Rule("Allow", W!CAnd(<< W!CGroup("G2"), W!CNot(W!CCallerG("G1")) >>)) >>),
    RulesOnly(<< W!Rule("Allow", W!COr(<< W!CCallerG("G2"), W!CHash("B") >>)) >>),
    Sg("S", <<"CustomContracts">>, <<"A">>, <<>>, <<>>),
    Sg("S", <<"CustomContracts", "CustomGroups">>, <<"B">>, <<"G1", "G2">>, <<>>),
    RulesOnly(<< W!Rule("Deny", W!CCaller("A")), W!Rule("Allow", W!CGroup("G1")) >>),
    Sg("S", <<"CalledByEntry">>, <<>>, <<>>, <<>>),
    Sg("S", <<"Global">>, <<>>, <<>>, <<>>) >>
Payer == Sg("P", <<>>, <<>>, <<>>, <<>>)
SignersOf(i) == << Payer, Subjects[i] >>

Accts == << "S", "caller", "X" >>

Agree(code, imp) == (code = 1 => imp = 1) /\ (imp = 1 => code \in {1, 3})

SignerLists == [i \in DOMAIN Subjects |-> SignersOf(i)]

\* (the bound quantifiers only make TLC evaluate the context / invocation stack / table view once per state)
ImplAgrees ==
    Running => \A x \in {CtxOf(stack, tbl)} : \A ist \in {IStack(fr)} : \A tv \in {TblView(dao, fr)} :
        \A k \in DOMAIN Accts : \A a \in {ResolveAcct(Accts[k], stack)} : \A i \in DOMAIN SignerLists :
            Agree(W!CodeX(SignerLists[i], a, x), W!Code(M!ImplCheckSt(SignerLists[i], a, ist, tv)))

\* for Bug = "none": the coherence invariants of the Impl model
Coherent == CacheCoherent /\ LayersShape /\ TypeOK
=============================================================================
