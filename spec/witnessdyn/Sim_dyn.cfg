SPECIFICATION SimSpec
CONSTANTS
  Universe = "sim"
  Bug = "none"
  Contracts <- MCContracts
  Groups <- MCGroups
  InitTables <- MCInitTables
  MaxDepth = 3
  MaxChanges = 3
  MaxTx = 3
  WithTry = TRUE
  WithNoRS = TRUE
  WithCb = TRUE
  TxSteps = 14
INVARIANT Emit
CHECK_DEADLOCK FALSE
