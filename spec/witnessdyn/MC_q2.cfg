\* quick: ONE transaction, depth <= 2, <= 2 changes, with calls from try blocks / caught exceptions
SPECIFICATION ISpec
CONSTANTS
  Universe = "quick"
  Bug = "none"
  Contracts <- MCContracts
  Groups <- MCGroups
  InitTables <- MCInitTables
  MaxDepth = 2
  MaxChanges = 2
  MaxTx = 1
  WithTry = TRUE
  WithNoRS = TRUE
  WithCb = TRUE
INVARIANTS ImplAgrees Coherent
PROPERTY DeadForEver
CHECK_DEADLOCK FALSE
