\* thorough: TWO transactions with try blocks, depth <= 2, <= 2 changes per transaction
SPECIFICATION ISpec
CONSTANTS
  Universe = "quick"
  Bug = "none"
  Contracts <- MCContracts
  Groups <- MCGroups
  InitTables <- MCInitTables
  MaxDepth = 2
  MaxChanges = 2
  MaxTx = 2
  WithTry = TRUE
  WithNoRS = TRUE
INVARIANTS ImplAgrees Coherent

CHECK_DEADLOCK FALSE
