------------------------------ MODULE WitnessDyn ------------------------------
(* C15, dynamic contract table - ABSTRACT specification: a chain on which transactions run invocations while
   the contract table changes under them.  (The rule itself - Witness!CheckX - and the transition functions
   are in WitnessDynOps; see its header for the clause of the property statement this rests on.)

   state   tbl    the contract table of the transaction that is running (between transactions: of the chain)
           base   the table the running transaction started from - what a FAULT restores
           stack  the invocation stack (<<>>: no transaction is running)
           nchg, ntx, pend   bounds / bookkeeping: table changes of the running transaction, transactions
                  started, transactions in the open block
   actions BeginTx, Call(c, rs, try), Return, UpdateGroups(c, g, cb), Destroy(c), Deploy(c, g, cb), Throw,
           EndTx(HALT | FAULT), NextBlock;   CheckWitness(account) is a pure read: its answer is
           Answer(signers, account) == Witness!CheckX over CtxOf(stack, tbl) - the CURRENT table.

   ContractManagement.update / destroy act on the contract that CALLS them: UpdateGroups(c, .) and Destroy(c)
   are steps of the executing frame of c.  A contract whose frame is deeper in the stack is changed by being
   called again (re-entered) and changing itself; when control is back in the older frames, they - and the
   frames of its callers/callees that ask about the calling contract's groups - must see the new table. *)
EXTENDS WitnessDynOps

CONSTANTS Contracts,      \* names (hashes) of the contracts of the universe
          Groups,         \* group names
          InitTables,     \* the contract tables the chain may start with
          MaxDepth,       \* contract frames above the entry script
          MaxChanges,     \* table changes per transaction
          MaxTx,          \* transactions
          WithTry,        \* calls from inside try blocks / caught exceptions are part of the universe
          WithNoRS,       \* leaf frames without the ReadStates call flag are part of the universe
          WithCb          \* update / deploy running the contract's _deploy method are part of the universe

VARIABLES tbl, base, stack, nchg, ntx, pend
avars == <<tbl, base, stack, nchg, ntx, pend>>

AInit == /\ tbl \in InitTables /\ base = tbl /\ stack = <<>> /\ nchg = 0 /\ ntx = 0 /\ pend = 0

Running == stack # <<>>
\* the executing frame may call / deploy / change itself only with the full set of call flags
Full == Running /\ Top(stack).rs
Exec == Top(stack).hash

BeginTx == /\ ~Running /\ ntx < MaxTx
           /\ stack' = << EntryFrame(tbl) >> /\ base' = tbl /\ nchg' = 0 /\ ntx' = ntx + 1 /\ pend' = pend + 1
           /\ UNCHANGED tbl

Call(c, rs, try) ==
    /\ Full /\ Depth(stack) < MaxDepth /\ IsLive(tbl, c)
    /\ (try => WithTry) /\ (~rs => WithNoRS)
    /\ stack' = PushCall(stack, tbl, c, rs, try)
    /\ UNCHANGED <<tbl, base, nchg, ntx, pend>>

Return == /\ Running /\ Len(stack) > 1
          /\ Top(stack).hash # MgmtHash
          /\ stack' = PopRet(stack)
          /\ UNCHANGED <<tbl, base, nchg, ntx, pend>>

\* cb: the new manifest's _deploy method runs before update / deploy returns
CbOK(cb) == cb => WithCb /\ Depth(stack) < MaxDepth

UpdateGroups(c, g, cb) ==
    /\ Full /\ Len(stack) > 1 /\ Exec = c /\ IsLive(tbl, c) /\ nchg < MaxChanges /\ g # tbl[c].groups /\ CbOK(cb)
    /\ tbl' = Updated(tbl, c, g) /\ nchg' = nchg + 1
    /\ stack' = IF cb THEN PushDeployCb(stack, tbl', c) ELSE stack
    /\ UNCHANGED <<base, ntx, pend>>

Destroy(c) ==
    /\ Full /\ Len(stack) > 1 /\ Exec = c /\ IsLive(tbl, c) /\ nchg < MaxChanges
    /\ tbl' = Destroyed(tbl, c) /\ nchg' = nchg + 1
    /\ UNCHANGED <<base, stack, ntx, pend>>

Deploy(c, g, cb) ==
    /\ Full /\ tbl[c].st = "absent" /\ nchg < MaxChanges /\ CbOK(cb)
    /\ tbl' = Deployed(tbl, c, g) /\ nchg' = nchg + 1
    /\ stack' = IF cb THEN PushDeployCb(stack, tbl', c) ELSE stack
    /\ UNCHANGED <<base, ntx, pend>>

Throw == /\ Running /\ WithTry /\ CatchIndex(stack) # 0
         /\ stack' = AfterThrowStack(stack) /\ tbl' = AfterThrowTable(stack)
         /\ UNCHANGED <<base, nchg, ntx, pend>>

EndTx(how) ==
    /\ Running
    /\ \/ how = "HALT" /\ Len(stack) = 1 /\ tbl' = tbl /\ base' = tbl
       \/ how = "FAULT" /\ tbl' = base /\ base' = base          \* at any depth: everything the transaction did is discarded
    /\ stack' = <<>>
    /\ UNCHANGED <<nchg, ntx, pend>>

NextBlock == /\ ~Running /\ pend > 0 /\ pend' = 0
             /\ UNCHANGED <<tbl, base, stack, nchg, ntx>>

ANext == \/ BeginTx \/ Return \/ Throw \/ NextBlock
         \/ \E how \in {"HALT", "FAULT"} : EndTx(how)
         \/ \E c \in Contracts : \/ \E rs \in BOOLEAN, try \in BOOLEAN : Call(c, rs, try)
                                 \/ Destroy(c)
                                 \/ \E g \in SUBSET Groups, cb \in BOOLEAN : UpdateGroups(c, g, cb) \/ Deploy(c, g, cb)

ASpec == AInit /\ [][ANext]_avars

(* sanity of the abstract level itself *)
TypeOK ==
    /\ \A c \in Contracts : /\ tbl[c].st \in {"absent", "live", "dead"} /\ tbl[c].groups \subseteq Groups
                            /\ (tbl[c].st # "live" => tbl[c].groups = {} /\ tbl[c].uc = 0)
    /\ Running => stack[1].hash = EntryHash /\ \A i \in 2..Len(stack) : stack[i].hash \in Contracts \cup {MgmtHash}
    /\ Running => Top(stack).hash # MgmtHash
    /\ ~Running => tbl = base
\* a destroyed contract comes back only by a rollback (action property)
DeadForEver == [][\A c \in Contracts : tbl[c].st = "dead" /\ tbl'[c].st # "dead"
                      => \/ tbl' = base
                         \/ CatchIndex(stack) # 0 /\ tbl' = AfterThrowTable(stack)]_avars
=============================================================================
