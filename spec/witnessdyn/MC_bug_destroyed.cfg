SPECIFICATION ISpec
CONSTANTS
  Universe = "two"
  Bug = "DestroyedStillGrouped"
  Contracts <- MCContracts
  Groups <- MCGroups
  InitTables <- MCInitTables
  MaxDepth = 2
  MaxChanges = 1
  MaxTx = 1
  WithTry = FALSE
  WithNoRS = FALSE
  WithCb = FALSE
INVARIANTS ImplAgrees
CHECK_DEADLOCK FALSE
