------------------------------- MODULE Witness -------------------------------
(* C15 - ABSTRACT specification (the judge) of witness checking.

   "A contract's check of a signer's witness succeeds only where the signer's scope allows it ...
    An account that did not sign never passes, except that a contract always witnesses calls it makes
    itself."

   The specification is written from the property statement and the NEO protocol's definition of
   signer scopes, not from neo-go's code.  It is a total function

        Check(signers, account, chain)  \in  {"T", "F", "X"}

   of  (a) the transaction's signer list, (b) the account whose witness is asked for and (c) the call
   chain: the sequence of script frames from the entry script (chain[1]) to the frame that performs the
   check (the last one).  Nothing else may influence the answer.

   Frame     [name, groups, rs, kind]     name   identity of the script (its hash)
                                          groups groups of the deployed contract with that hash (<<>> for
                                                 scripts that are not deployed contracts)
                                          rs     the frame's call flags contain ReadStates
                                          kind   how it was reached (not used by the abstract level)
   Signer    [account, scopes, contracts, groups, rules]       scopes \subseteq {CalledByEntry,
                                                 CustomContracts, CustomGroups, Rules, Global}
   Rule      [action \in {"Allow","Deny"}, cond]
   Condition [t, v, h, g, cs]  t \in Bool(v) | Not(cs[1]) | And(cs) | Or(cs) | ScriptHash(h) | Group(g) |
                                     CalledByEntry | CalledByContract(h) | CalledByGroup(g)
   All collections are sequences (that is how they are carried on the wire and in the JSON traces).

   "T" the check succeeds; "F" it answers false; "X" it cannot be answered because a group membership
   had to be looked up while the checking frame has no ReadStates permission (the protocol faults the
   execution).  The PROPERTY only distinguishes success ("T") from everything else, and it is one-directional
   where call flags interfere:
        MayGrant   the check is allowed to succeed          (observed success => MayGrant : always judged)
        MustGrant  the check has to succeed                 (observed refusal => ~MustGrant)
   MustGrant is MayGrant except in a frame WITHOUT ReadStates for a signer whose scope has the CustomGroups
   bit and that is not already admitted by the clauses in front of it: there an implementation may refuse
   (neo-go looks the current contract's groups up - and fails - even when no group is listed). *)
EXTENDS Integers, Sequences

InSeq(e, s) == \E i \in DOMAIN s : s[i] = e

NoCaller == "-"     \* the entry script has no calling contract

(* The context the statement speaks about: the REAL current and calling contracts, their groups and
   the entry relation ("the entry script or a contract it calls directly"). *)
Ctx(chain) ==
    LET n == Len(chain) IN
    [cur          |-> chain[n].name,
     curGroups    |-> chain[n].groups,
     caller       |-> IF n > 1 THEN chain[n - 1].name ELSE NoCaller,
     callerGroups |-> IF n > 1 THEN chain[n - 1].groups ELSE <<>>,
     byEntry      |-> n <= 2,
     rs           |-> chain[n].rs]

B(b) == IF b THEN "T" ELSE "F"

(* Three-valued, left-to-right, short-circuit evaluation of a condition tree. *)
RECURSIVE Eval(_, _), EvalAll(_, _, _), EvalAny(_, _, _)
Eval(c, x) ==
    CASE c.t = "Bool"             -> B(c.v)
      [] c.t = "Not"              -> LET r == Eval(c.cs[1], x) IN
                                     IF r = "X" THEN "X" ELSE B(r = "F")
      [] c.t = "And"              -> EvalAll(c.cs, 1, x)
      [] c.t = "Or"               -> EvalAny(c.cs, 1, x)
      [] c.t = "ScriptHash"       -> B(c.h = x.cur)
      [] c.t = "Group"            -> IF ~x.rs THEN "X" ELSE B(InSeq(c.g, x.curGroups))
      [] c.t = "CalledByEntry"    -> B(x.byEntry)
      [] c.t = "CalledByContract" -> B(x.caller # NoCaller /\ c.h = x.caller)
      [] c.t = "CalledByGroup"    -> IF ~x.rs THEN "X" ELSE B(InSeq(c.g, x.callerGroups))
EvalAll(cs, i, x) ==
    IF i > Len(cs) THEN "T"
    ELSE LET r == Eval(cs[i], x) IN IF r = "T" THEN EvalAll(cs, i + 1, x) ELSE r
EvalAny(cs, i, x) ==
    IF i > Len(cs) THEN "F"
    ELSE LET r == Eval(cs[i], x) IN IF r = "F" THEN EvalAny(cs, i + 1, x) ELSE r

(* condition constructors (uniform record shape) *)
Cnd(t, v, h, g, cs) == [t |-> t, v |-> v, h |-> h, g |-> g, cs |-> cs]
CBool(v)     == Cnd("Bool", v, "", "", <<>>)
CNot(c)      == Cnd("Not", FALSE, "", "", <<c>>)
CAnd(cs)     == Cnd("And", FALSE, "", "", cs)
COr(cs)      == Cnd("Or", FALSE, "", "", cs)
CHash(h)     == Cnd("ScriptHash", FALSE, h, "", <<>>)
CGroup(g)    == Cnd("Group", FALSE, "", g, <<>>)
CEntry       == Cnd("CalledByEntry", FALSE, "", "", <<>>)
CCaller(h)   == Cnd("CalledByContract", FALSE, h, "", <<>>)
CCallerG(g)  == Cnd("CalledByGroup", FALSE, "", g, <<>>)
Rule(a, c)   == [action |-> a, cond |-> c]

(* Every scope is a shorthand for rules; the signer's meaning is the ordered list of all of them:
   global = allow everywhere; called-by-entry; one allow rule per listed contract ("only inside listed
   contracts"); one per listed group ("contracts of listed groups", i.e. groups of the CURRENT contract);
   then the explicit rules. *)
AllRules(s) ==
    IF InSeq("Global", s.scopes) THEN << Rule("Allow", CBool(TRUE)) >>
    ELSE (IF InSeq("CalledByEntry", s.scopes) THEN << Rule("Allow", CEntry) >> ELSE <<>>)
      \o (IF InSeq("CustomContracts", s.scopes)
          THEN [i \in DOMAIN s.contracts |-> Rule("Allow", CHash(s.contracts[i]))] ELSE <<>>)
      \o (IF InSeq("CustomGroups", s.scopes)
          THEN [i \in DOMAIN s.groups |-> Rule("Allow", CGroup(s.groups[i]))] ELSE <<>>)
      \o (IF InSeq("Rules", s.scopes) THEN s.rules ELSE <<>>)

(* "according to the first rule whose condition matches" *)
RECURSIVE Decide(_, _, _)
Decide(rules, i, x) ==
    IF i > Len(rules) THEN "F"
    ELSE LET r == Eval(rules[i].cond, x) IN
         IF r = "X" THEN "X"
         ELSE IF r = "T" THEN B(rules[i].action = "Allow")
         ELSE Decide(rules, i + 1, x)

FirstSigner(signers, acct) ==
    LET I == {i \in DOMAIN signers : signers[i].account = acct} IN
    IF I = {} THEN 0 ELSE CHOOSE i \in I : \A j \in I : i <= j

CheckX(signers, acct, x) ==
    IF x.caller # NoCaller /\ acct = x.caller THEN "T"     \* a contract witnesses the calls it makes itself
    ELSE LET i == FirstSigner(signers, acct) IN
         IF i = 0 THEN "F"                                  \* an account that did not sign never passes
         ELSE Decide(AllRules(signers[i]), 1, x)

Check(signers, acct, chain) == CheckX(signers, acct, Ctx(chain))

(* the clauses evaluated before any group membership is needed *)
PreGroupRules(s) ==
    IF InSeq("Global", s.scopes) THEN << Rule("Allow", CBool(TRUE)) >>
    ELSE (IF InSeq("CalledByEntry", s.scopes) THEN << Rule("Allow", CEntry) >> ELSE <<>>)
      \o (IF InSeq("CustomContracts", s.scopes)
          THEN [i \in DOMAIN s.contracts |-> Rule("Allow", CHash(s.contracts[i]))] ELSE <<>>)

RefusalTolerated(signers, acct, x) ==
    LET i == FirstSigner(signers, acct) IN
    /\ ~x.rs
    /\ ~(x.caller # NoCaller /\ acct = x.caller)
    /\ i # 0
    /\ InSeq("CustomGroups", signers[i].scopes)
    /\ Decide(PreGroupRules(signers[i]), 1, x) # "T"

MayGrantX(signers, acct, x)  == CheckX(signers, acct, x) = "T"
MustGrantX(signers, acct, x) == CheckX(signers, acct, x) = "T" /\ ~RefusalTolerated(signers, acct, x)
MayGrant(signers, acct, chain)  == MayGrantX(signers, acct, Ctx(chain))
MustGrant(signers, acct, chain) == MustGrantX(signers, acct, Ctx(chain))

\* 0 must refuse (false), 1 must grant, 2 must refuse (fault specified), 3 may grant or refuse
Code(r) == CASE r = "F" -> 0 [] r = "T" -> 1 [] r = "X" -> 2
CodeX(signers, acct, x) ==
    LET r == CheckX(signers, acct, x) IN
    IF r = "T" /\ RefusalTolerated(signers, acct, x) THEN 3 ELSE Code(r)
=============================================================================
