----------------------------- MODULE WitnessImpl -----------------------------
(* C15 - IMPLEMENTATION-SHAPED model of neo-go's witness check
   (pkg/core/interop/runtime/witness.go, pkg/core/transaction/witness_condition.go, pkg/vm/vm.go
   loadScriptWithCallingHash, pkg/vm/context.go IsCalledByEntry).

   Unlike the abstract level it does not see "the call chain": it sees what the code sees -
   an invocation stack of script contexts, each with ITS OWN RECORD of the calling script hash and a
   pointer to the calling script context, a table of deployed contracts that is consulted BY HASH, and
   the signer's scope bits walked by an if-chain.  WitnessEnum checks, for every enumerated cell, that
   this model grants exactly where Witness (the judge) grants.

   Quirks of the code that are modelled as they are (named):
     ZeroCaller     the entry context's calling hash is the all-zero hash "Z", not "none"; the shortcut and
                    (since the fix: commit b421037) CalledByContract guard against it explicitly.  The
                    unguarded comparison is kept as the named deviation "zero-caller-matches".
     EmptyGroupList CustomGroups looks the current contract's groups up (and needs ReadStates) even when
                    the signer lists no group.
   Deviation names a deliberately wrong variant used by the non-vacuity self-tests. *)
EXTENDS Integers, Sequences

CONSTANT Deviation      \* "none" | "groups-of-caller" | "deny-ignored" | "entry-only" | "caller-from-stack" |
                        \* "zero-caller-matches"

InSeq(e, s) == \E i \in DOMAIN s : s[i] = e
Zero == "Z"
B(b) == IF b THEN "T" ELSE "F"

(* vm.loadScriptWithCallingHash: every loader passes v.GetCurrentScriptHash() as the caller (the zero hash
   when the invocation stack is empty), contract.CallFromNative passes the native contract's own hash -
   which is the hash of the context that is current at that moment as well. *)
RECURSIVE Build(_, _, _)
Build(chain, i, istack) ==
    IF i > Len(chain) THEN istack
    ELSE LET n == Len(istack)
             c == [hash    |-> chain[i].name,
                   calling |-> IF n = 0 THEN Zero ELSE istack[n].hash,
                   parent  |-> n,                   \* callingContext (0 = nil)
                   rs      |-> chain[i].rs]
         IN Build(chain, i + 1, Append(istack, c))

IStack(chain) == Build(chain, 1, <<>>)

Top(st) == st[Len(st)]

\* vm.Context.IsCalledByEntry
IsCalledByEntry(st) ==
    LET c == Top(st) IN
    IF Deviation = "entry-only" THEN c.parent = 0
    ELSE c.parent = 0 \/ st[c.parent].parent = 0

CallingHash(st) ==
    IF Deviation = "caller-from-stack"
    THEN (IF Len(st) >= 3 THEN st[Len(st) - 2].hash ELSE Zero)     \* off-by-one walk of the stack
    ELSE Top(st).calling

\* runtime.getContractGroups: "X" stands for the error, a missing contract has no groups
Groups(st, tbl, h) ==
    IF ~Top(st).rs THEN [err |-> TRUE, gs |-> <<>>]
    ELSE [err |-> FALSE, gs |-> IF h \in DOMAIN tbl THEN tbl[h] ELSE <<>>]

HasGroup(st, tbl, h, g) ==
    LET r == Groups(st, tbl, h) IN IF r.err THEN "X" ELSE B(InSeq(g, r.gs))

RECURSIVE Match(_, _, _), MatchAll(_, _, _, _), MatchAny(_, _, _, _)
Match(c, st, tbl) ==
    CASE c.t = "Bool"             -> B(c.v)
      [] c.t = "Not"              -> LET r == Match(c.cs[1], st, tbl) IN IF r = "X" THEN "X" ELSE B(r = "F")
      [] c.t = "And"              -> MatchAll(c.cs, 1, st, tbl)
      [] c.t = "Or"               -> MatchAny(c.cs, 1, st, tbl)
      [] c.t = "ScriptHash"       -> B(c.h = Top(st).hash)
      [] c.t = "Group"            -> HasGroup(st, tbl, Top(st).hash, c.g)
      [] c.t = "CalledByEntry"    -> B(IsCalledByEntry(st))
      [] c.t = "CalledByContract" -> B((Deviation = "zero-caller-matches" \/ CallingHash(st) # Zero)
                                       /\ c.h = CallingHash(st))               \* quirk ZeroCaller
      [] c.t = "CalledByGroup"    -> HasGroup(st, tbl, CallingHash(st), c.g)
MatchAll(cs, i, st, tbl) ==
    IF i > Len(cs) THEN "T"
    ELSE LET r == Match(cs[i], st, tbl) IN IF r = "T" THEN MatchAll(cs, i + 1, st, tbl) ELSE r
MatchAny(cs, i, st, tbl) ==
    IF i > Len(cs) THEN "F"
    ELSE LET r == Match(cs[i], st, tbl) IN IF r = "F" THEN MatchAny(cs, i + 1, st, tbl) ELSE r

RECURSIVE RulesLoop(_, _, _, _)
RulesLoop(rules, i, st, tbl) ==
    IF i > Len(rules) THEN "F"
    ELSE LET r == Match(rules[i].cond, st, tbl) IN
         IF r = "X" THEN "X"
         ELSE IF r = "T" THEN (IF Deviation = "deny-ignored" THEN "T" ELSE B(rules[i].action = "Allow"))
         ELSE RulesLoop(rules, i + 1, st, tbl)

\* runtime.checkScope for the matching signer c
ScopeOf(c, st, tbl) ==
    IF c.scopes = <<"Global">> THEN "T"
    ELSE IF InSeq("CalledByEntry", c.scopes) /\ IsCalledByEntry(st) THEN "T"
    ELSE IF InSeq("CustomContracts", c.scopes) /\ InSeq(Top(st).hash, c.contracts) THEN "T"
    ELSE LET g == IF InSeq("CustomGroups", c.scopes)
                  THEN LET r == Groups(st, tbl, IF Deviation = "groups-of-caller" THEN CallingHash(st) ELSE Top(st).hash)
                       IN IF r.err THEN "X"                                      \* quirk EmptyGroupList
                          ELSE B(\E i \in DOMAIN c.groups : InSeq(c.groups[i], r.gs))
                  ELSE "F"
         IN IF g # "F" THEN g
            ELSE IF InSeq("Rules", c.scopes) THEN RulesLoop(c.rules, 1, st, tbl) ELSE "F"

RECURSIVE SignerLoop(_, _, _, _, _)
SignerLoop(signers, i, acct, st, tbl) ==
    IF i > Len(signers) THEN "F"
    ELSE IF signers[i].account = acct THEN ScopeOf(signers[i], st, tbl)
    ELSE SignerLoop(signers, i + 1, acct, st, tbl)

\* runtime.CheckHashedWitness
ImplCheckSt(signers, acct, st, tbl) ==
    LET callingSH == Top(st).calling IN
    IF callingSH # Zero /\ acct = callingSH THEN "T"
    ELSE IF Len(signers) = 0 THEN "X"
    ELSE SignerLoop(signers, 1, acct, st, tbl)

ImplCheck(signers, acct, chain, tbl) == ImplCheckSt(signers, acct, IStack(chain), tbl)
=============================================================================
