----------------------------- MODULE WitnessDynSim -----------------------------
(* C15, dynamic contract table - behaviour generator (tlc -simulate): the implementation-shaped model plus a
   history variable.  A history is what harness/c15dyn replays on a real chain: real transactions (one entry
   script per BeginTx .. EndTx, nested probe-contract calls for Call / Return, ContractManagement.update /
   destroy / deploy for the table changes, THROW / ABORT) in real blocks (NextBlock).  After every step of a
   running transaction the history carries, for every account of Accts, the answer the abstract rule demands
   (code) and the answer the Impl model predicts (imp): the harness asks System.Runtime.CheckWitness for each
   of them at that very point (all those whose predicted answer is not a fault), "checkfault" is a witness check
   that is predicted to FAULT the transaction (group lookup in a frame without ReadStates). *)
EXTENDS MCWitnessDyn, Json

CONSTANT TxSteps        \* after that many steps a transaction only unwinds

VARIABLES hist, sgi, steps
svars == <<tbl, base, stack, nchg, ntx, pend, dao, fr, hist, sgi, steps>>

JT(t) == [c \in DOMAIN t |-> t[c]]

PredOf(i, st, t, d, f) ==
    IF st = <<>> THEN <<>>
    ELSE [k \in DOMAIN Accts |-> [acct |-> Accts[k],
                                  code |-> AnswerCode(SignersOf(i), Accts[k], st, t),
                                  imp  |-> ImplAnswer(SignersOf(i), Accts[k], d, f, st)]]

Log(i, step) == hist' = Append(hist, step @@ [pred |-> PredOf(i, stack', tbl', dao', fr'), tbl |-> JT(tbl')])

SimInit == /\ IInit /\ sgi = 0 /\ steps = 0
           /\ hist = << [op |-> "init", tbl |-> JT(tbl), contracts |-> Contracts, groups |-> Groups] >>

Busy == Running /\ steps < TxSteps
Tick == steps' = steps + 1 /\ UNCHANGED sgi

SBegin == \E i \in DOMAIN Subjects :
             /\ IBeginTx /\ sgi' = i /\ steps' = 0
             /\ Log(i, [op |-> "begintx", sg |-> i, signers |-> SignersOf(i)])
SCall == /\ Busy /\ Tick
         /\ \E c \in Contracts, rs \in BOOLEAN, try \in BOOLEAN :
               ICall(c, rs, try) /\ Log(sgi, [op |-> "call", c |-> c, rs |-> rs, try |-> try])
SReturn == IReturn /\ Tick /\ Log(sgi, [op |-> "ret"])
SUpdate == /\ Busy /\ Tick
           /\ \E c \in Contracts, g \in SUBSET Groups, cb \in BOOLEAN :
                 IUpdate(c, g, cb) /\ Log(sgi, [op |-> "upd", c |-> c, groups |-> g, cb |-> cb])
SDestroy == /\ Busy /\ Tick
            /\ \E c \in Contracts : IDestroy(c) /\ Log(sgi, [op |-> "destroy", c |-> c])
SDeploy == /\ Busy /\ Tick
           /\ \E c \in Contracts, g \in SUBSET Groups, cb \in BOOLEAN :
                 IDeploy(c, g, cb) /\ Log(sgi, [op |-> "deploy", c |-> c, groups |-> g, cb |-> cb])
SThrow == /\ Busy /\ Tick /\ IThrow /\ Log(sgi, [op |-> "throw"])
SHalt == steps >= 4 /\ IEndTx("HALT") /\ Tick /\ Log(sgi, [op |-> "endtx", how |-> "HALT"])
\* ABORT of the executing frame, or an exception nobody catches
SFault == /\ Busy /\ steps >= 5 /\ Tick
          /\ \E thrown \in (IF CatchIndex(stack) = 0 THEN BOOLEAN ELSE {FALSE}) :
                IEndTx("FAULT") /\ Log(sgi, [op |-> "endtx", how |-> "FAULT", thrown |-> thrown])
SCheckFault == /\ Busy /\ steps >= 3 /\ Tick
               /\ \E k \in DOMAIN Accts :
                    /\ ImplAnswer(SignersOf(sgi), Accts[k], dao, fr, stack) = "X"
                    /\ IEndTx("FAULT") /\ Log(sgi, [op |-> "checkfault", acct |-> Accts[k]])
SBlock == INextBlock /\ UNCHANGED <<sgi, steps>> /\ Log(sgi, [op |-> "block"])

\* mix: TLC picks one of the disjuncts uniformly, then one of its successors
SimNext == \/ SBegin \/ SBlock
           \/ SCall \/ SCall \/ SCall
           \/ SReturn \/ SReturn
           \/ SUpdate \/ SUpdate \/ SUpdate \/ SUpdate
           \/ SDestroy \/ SDeploy
           \/ SThrow
           \/ SHalt \/ SHalt
           \/ SFault
           \/ SCheckFault
SimSpec == SimInit /\ [][SimNext]_svars

Done == ntx = MaxTx /\ ~Running /\ pend = 0
Emit == ~Done \/ PrintT(<<"@@HIST@@", ToJson(hist)>>)
=============================================================================
