SPECIFICATION ISpec
CONSTANTS
  Universe = "two"
  Bug = "StaleCacheAfterFault"
  Contracts <- MCContracts
  Groups <- MCGroups
  InitTables <- MCInitTables
  MaxDepth = 1
  MaxChanges = 1
  MaxTx = 2
  WithTry = FALSE
  WithNoRS = FALSE
  WithCb = FALSE
INVARIANTS ImplAgrees
CHECK_DEADLOCK FALSE
