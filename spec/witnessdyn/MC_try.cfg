\* thorough: ONE transaction with try blocks, depth <= 3, <= 2 changes, two initial tables
SPECIFICATION ISpec
CONSTANTS
  Universe = "full"
  Bug = "none"
  Contracts <- MCContracts
  Groups <- MCGroups
  InitTables <- MCInitTables
  MaxDepth = 3
  MaxChanges = 2
  MaxTx = 1
  WithTry = TRUE
  WithNoRS = TRUE
  WithCb = TRUE
INVARIANTS ImplAgrees Coherent

CHECK_DEADLOCK FALSE
