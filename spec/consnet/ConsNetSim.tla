----------------------------- MODULE ConsNetSim -----------------------------
(* Behaviour generator: ConsNetImpl over EVERY universe of a family (who holds which named transaction, who never answers,
   what every peer sends in which order: all scripts of at most SLen messages per connection) plus a history of the order in
   which the node's readers took the messages (= the order in which the fake peers will send them) and of whether the node was
   idle at that moment (= where the harness places a quiescent point).  Printed as JSON when the behaviour is complete
   (tlc -simulate).  tools/checks/c19_net.py turns a behaviour into really signed payloads and real transactions.
   The same family is also checked EXHAUSTIVELY (MC_all*.cfg: Impl => Abstract over all universes). *)
EXTENDS MCConsNet, Json

CONSTANTS SLen, Garbage, WithInv
VARIABLE hist

Msgs(p) == {XM(x) : x \in {x \in X : Cls[x] # "bad" \/ p \in Garbage}} \cup {TM(t) : t \in Named} \cup {GM(Req)}
           \cup (IF WithInv THEN {IM(Req)} ELSE {})
Seqs(p) == UNION {[1..k -> Msgs(p)] : k \in 0..SLen}
HoldSets == {h \in [Peers -> SUBSET Named] : \A t \in Named : \E p \in Peers : t \in h[p]}
MuteSets == {{}} \cup {{p} : p \in Peers \ Garbage}
Scripts == {sc \in [Peers -> UNION {Seqs(p) : p \in Peers}] :
               /\ \A p \in Peers : sc[p] \in Seqs(p)
               /\ \E p \in Peers : \E i \in DOMAIN sc[p] : sc[p][i] \in {XM(Req), IM(Req)}}
AllUniverses == {[holds |-> h, mute |-> mu, script |-> sc] : h \in HoldSets, mu \in MuteSets, sc \in Scripts}

Idle == svcq = <<>> /\ txin = {} /\ pc # "looked"

SimInit == Init /\ hist = <<>>
SimNext ==
    \/ /\ Start /\ UNCHANGED uni /\ hist' = Append(hist, [op |-> "start"])
    \/ \E p \in Peers : /\ Handle(p) /\ UNCHANGED uni
                        /\ hist' = Append(hist, [op |-> "h", p |-> p, m |-> Head(inq[p]), idle |-> Idle])
    \/ /\ (Env \/ (\E e \in txin : TxLoop(e)) \/ SvcTake \/ SvcRequest) /\ UNCHANGED uni /\ hist' = hist
SimSpec == SimInit /\ [][SimNext]_<<vars, hist>>
\* the exhaustive run over the whole family (no history)
AllSpec == SimInit /\ [][Next /\ UNCHANGED hist]_<<vars, hist>>

Terminal == /\ started /\ \A p \in Live : inq[p] = <<>>
            /\ Idle /\ \A p \in Live : p \in Mute \/ todo[p] \cap Holds[p] = {}

Emit == ~Terminal \/ PrintT(<<"@@HIST@@", ToJson([steps |-> hist, holds |-> uni.holds, mute |-> uni.mute, peers |-> Peers,
                                                   cls |-> Cls, named |-> Named, bad |-> BadCopy, pc |-> pc, closed |-> closed])>>)
=============================================================================
