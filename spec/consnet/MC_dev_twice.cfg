SPECIFICATION Spec
CONSTANTS
  Peers <- P3
  X <- X3
  Cls <- Cls3
  Req = "r"
  Named <- T2
  BadCopy <- None
  MaxH = 1
  Universes <- U1
  BugDeliverTwice = TRUE
  BugRelaySenderOnly = FALSE
  BugTruncate = FALSE
  BugDropUnsolicited = FALSE
  BugStartBeforeSync = FALSE
  SplitLookup = FALSE
INVARIANTS TypeOK Safe AtRest
CHECK_DEADLOCK FALSE
