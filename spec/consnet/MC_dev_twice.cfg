SPECIFICATION Spec
CONSTANTS
  Peers <- P3
  GarbagePeers <- G1
  X <- X3
  Cls <- Cls3
  Req = "r"
  Named <- T2
  T <- T2
  BadCopy <- None
  Holds <- Holds1
  Mute <- None
  MaxH = 1
  MaxSend = 4
  MaxPush = 1
  BugDeliverTwice = TRUE
  BugRelaySenderOnly = FALSE
  BugTruncate = FALSE
  BugDropUnsolicited = FALSE
  BugStartBeforeSync = FALSE
  SplitLookup = FALSE
INVARIANTS TypeOK Safe AtRest
CONSTRAINT Constr
CHECK_DEADLOCK FALSE
