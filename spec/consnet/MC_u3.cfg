SPECIFICATION Spec
CONSTANTS
  Peers <- P2
  GarbagePeers <- None
  X <- X2
  Cls <- Cls2
  Req = "r"
  Named <- T2
  T <- T2
  BadCopy <- Bad2
  Holds <- HoldsAll
  Mute <- None
  MaxH = 2
  MaxSend = 3
  MaxPush = 1
  BugDeliverTwice = FALSE
  BugRelaySenderOnly = FALSE
  BugTruncate = FALSE
  BugDropUnsolicited = FALSE
  BugStartBeforeSync = FALSE
  SplitLookup = FALSE
INVARIANTS TypeOK Safe AtRest
CONSTRAINT Constr
CHECK_DEADLOCK FALSE
