SPECIFICATION Spec
CONSTANTS
  Peers <- P2
  GarbagePeers <- None
  X <- X2
  Cls <- Cls2
  Req = "r"
  Named <- T2
  T <- T2
  BadCopy <- None
  Holds <- HoldsAll
  Mute <- MuteA
  MaxH = 2
  MaxSend = 3
  MaxPush = 2
  BugDeliverTwice = FALSE
  BugRelaySenderOnly = FALSE
  BugTruncate = FALSE
  BugDropUnsolicited = TRUE
  BugStartBeforeSync = FALSE
  SplitLookup = FALSE
INVARIANTS TypeOK Safe AtRest
CONSTRAINT Constr
CHECK_DEADLOCK FALSE
