----------------------------- MODULE MCConsNet -----------------------------
(* Universes of the exhaustive runs of ConsNetImpl. *)
EXTENDS ConsNetImpl

\* U1: two honest relays holding one named transaction each, a garbage sender; the proposal, another valid payload, a forged one
P3 == {"a", "b", "g"}
G1 == {"g"}
X3 == {"r", "y", "z"}
Cls3 == [r |-> "ok", y |-> "ok", z |-> "bad"]
T2 == {"t1", "t2"}
Holds1 == [a |-> {"t1"}, b |-> {"t2"}, g |-> {}]
None == {}

\* U2: one peer holds everything but never answers (it may push), the other holds everything; a payload of another category
P2 == {"a", "b"}
X2 == {"r", "c"}
Cls2 == [r |-> "ok", c |-> "cat"]
HoldsAll == [a |-> {"t1", "t2"}, b |-> {"t1", "t2"}]
MuteA == {"a"}

\* U3: a named transaction exists only in a copy that fails verification
Bad2 == {"t2"}

\* U4: three named transactions (two getdata messages with MaxH = 2)
T3 == {"t1", "t2", "t3"}
Holds3 == [a |-> {"t1", "t3"}, b |-> {"t2", "t3"}]
=============================================================================
