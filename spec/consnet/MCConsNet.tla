----------------------------- MODULE MCConsNet -----------------------------
(* Universes of the exhaustive runs of ConsNetImpl: who sends what on which connection (Script), who holds which named
   transaction, who never answers. *)
EXTENDS ConsNetImpl

None == {}
T2 == {"t1", "t2"}
T3 == {"t1", "t2", "t3"}

\* U1: two honest relays holding one named transaction each, a garbage sender; the proposal r, another valid payload y (sent
\*     by both relays: duplicate), a forged one z followed by a valid one on the same connection
P3 == {"a", "b", "g"}
X3 == {"r", "y", "z"}
Cls3 == [r |-> "ok", y |-> "ok", z |-> "bad"]
Holds1 == [a |-> {"t1"}, b |-> {"t2"}, g |-> {}]
Script1 == [a |-> <<XM("r"), XM("y")>>, b |-> <<IM("y"), XM("r"), GM("y")>>, g |-> <<XM("z"), XM("y")>>]

\* U2: a holds everything but never answers (it pushes one transaction nobody asked for), b holds everything and answers;
\*     a payload of another category
P2 == {"a", "b"}
X2 == {"r", "c"}
Cls2 == [r |-> "ok", c |-> "cat"]
HoldsAll == [a |-> {"t1", "t2"}, b |-> {"t1", "t2"}]
MuteA == {"a"}
Script2 == [a |-> <<TM("t1"), XM("r")>>, b |-> <<XM("c"), GM("c"), GM("r")>>]
\* ... and the variant in which ONLY the mute peer has the pushed transaction
HoldsA1 == [a |-> {"t1", "t2"}, b |-> {"t2"}]

\* U3: a named transaction exists only in a copy that fails verification
Bad2 == {"t2"}
Script3 == [a |-> <<IM("r")>>, b |-> <<XM("r"), TM("t2")>>]

\* U4: three named transactions, two per getdata message; the transactions arrive pushed and as answers, duplicated
Holds3 == [a |-> {"t1", "t3"}, b |-> {"t2", "t3"}]
Script4 == [a |-> <<TM("t3"), XM("r")>>, b |-> <<XM("r"), TM("t3")>>]
\* ... nobody pushes: everything has to be asked for
Script4b == [a |-> <<XM("r")>>, b |-> <<>>]

\* families of ConsNetSim
Gg == {"g"}
X2b == {"r", "y"}
Cls2b == [r |-> "ok", y |-> "ok"]
T1 == {"t1"}
Bad1 == {"t1"}

U(h, mu, sc) == {[holds |-> h, mute |-> mu, script |-> sc]}
U1 == U(Holds1, None, Script1)
U2 == U(HoldsAll, MuteA, Script2)
U2b == U(HoldsA1, MuteA, Script2)
U3 == U(HoldsAll, None, Script3)
U4 == U(Holds3, None, Script4)
U4b == U(Holds3, None, Script4b)
=============================================================================
