SPECIFICATION SimSpec
CONSTANTS
  Peers <- P2
  X <- X2b
  Cls <- Cls2b
  Req = "r"
  Named <- T2
  BadCopy <- None
  MaxH = 1
  Universes <- AllUniverses
  SLen = 2
  Garbage <- None
  WithInv = FALSE
  BugDeliverTwice = FALSE
  BugRelaySenderOnly = FALSE
  BugTruncate = FALSE
  BugDropUnsolicited = FALSE
  BugStartBeforeSync = FALSE
  SplitLookup = FALSE
INVARIANTS Emit
CHECK_DEADLOCK FALSE
