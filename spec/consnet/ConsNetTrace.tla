---------------------------- MODULE ConsNetTrace ----------------------------
(* Judges runs recorded from REAL network.Server instances with their REAL consensus.Service attached (harness/c19net)
   against the ABSTRACT module ConsNet.  One scenario = init ... end.  Every event carries n = the node it concerns
   (its validator index); events of a fake peer carry p = the connection's id.

     init      nodes [{n, minp, h0, obs}], nv (validators), slow (settling mode); obs = all peers of the node are fake peers
     xdef      a payload the fake validators crafted: x (id = hash prefix), cls ok | bad | cat, start, end, from, type, h, view, txs
     conn      handshake of connection p with node n completed (adv = height the peer advertises)
     close     connection ended (by = node | peer)
     s         peer -> node:  m = extensible {x, via} | tx {t, ok} | inv | getdata {typ, hs} | getblockbyindex {start, count} | block
     r         node -> peer, exactly as read from the socket, in order:  m = inv {typ, hs} | getdata {typ, hs} | extensible {x} |
               block {i, b} | tx | notfound | ...
     deliver   the server called the consensus handler (Service.OnPayload) with payload x          (tap in the node's wiring)
     ontx      the server called the consensus transaction callback with transaction t            (tap)
     own       the service broadcast its own payload x (type, h, view, txs)                        (tap before Server.BroadcastExtensible)
     reqtx     the service asked the server for transactions txs                                   (tap before Server.RequestTx)
     queued    the service put block b of index i into the server's block queue                    (tap)
     acc       the ledger of n accepted block b at index i (ledger's own notification order)
     feed      block b (as served by n over the wire) was offered to the reference ledger: ok
     svcstart  the server started the consensus service; h = the ledger's height at that moment
     timeout   the harness fired n's (virtual) dBFT timer at dBFT height h
     sync      quiescent point of node n: h = ledger height, pool = its memory pool, read from the real objects
     epoch     all nodes have been observed at the quiescent point: a new epoch begins
     decide    the height h of node n was played to the end with every non-silent validator honest: decided, view, via
     round     (mesh) one synchronous round: earliest timer fired, everything delivered; minh = lowest ledger height
     end

   Names "i:..." are informational (established behaviour / Impl level: drift), "x:..." an inconsistency of the harness
   (inconclusive); everything else is a verdict of the abstract level, written Kind:detail.  Verdicts that say something is
   MISSING at a quiescent point (LATE below) are confirmed by the runner on a replay with slow settling before they count. *)
EXTENDS TraceIO, FiniteSets, SequencesExt, ConsNet

VARIABLES l, ep, nv, ND, ST, XD, SN, DC, IV, CN, DIRTY, OF, RQ, AK, OW, QB, AB, BI, TO, FQ, GX, RX, GB, LR, PG
vars == <<l, ep, nv, ND, ST, XD, SN, DC, IV, CN, DIRTY, OF, RQ, AK, OW, QB, AB, BI, TO, FQ, GX, RX, GB, LR, PG>>

Init == /\ l = 1 /\ ep = 1 /\ nv = 4 /\ ND = <<>> /\ ST = <<>> /\ XD = <<>> /\ SN = {} /\ DC = <<>> /\ IV = {} /\ CN = <<>>
        /\ DIRTY = {} /\ OF = {} /\ RQ = {} /\ AK = {} /\ OW = {} /\ QB = {} /\ AB = <<>> /\ BI = {} /\ TO = {} /\ FQ = {}
        /\ GX = {} /\ RX = {} /\ GB = {} /\ LR = <<>> /\ PG = [base |-> 0, rounds |-> 0]

Put(f, k, v) == (k :> v) @@ f
Has(f, k) == k \in DOMAIN f
Def(x) == IF Has(XD, x) THEN XD[x] ELSE [cls |-> "unknown", start |-> 0, end |-> 0, type |-> "", h |-> 0, view |-> 0, from |-> -1, txs |-> {}, own |-> FALSE, hx |-> x]
\* a payload's identity on the wire is its hash hx (inv / getdata / the pool); two COPIES x of one hash may differ in their witness
Copies(hx) == {x \in DOMAIN XD : XD[x].hx = hx}
RelayableHash(hx) == \E x \in Copies(hx) : ~MustNotRelay(XD[x])
Cnt(n, x) == IF Has(DC, <<n, Def(x).hx>>) THEN DC[<<n, Def(x).hx>>].c ELSE 0

Open(n)          == {k[2] : k \in {k \in DOMAIN CN : k[1] = n /\ CN[k].open}}
Ever(n)          == {k[2] : k \in {k \in DOMAIN CN : k[1] = n}}
Steady(n, e)     == {p \in Open(n) : CN[<<n, p>>].e < e}      \* connected since before epoch e began, still connected
Senders(n, x)    == {s.p : s \in {s \in SN : s.n = n /\ Def(s.x).hx = Def(x).hx}}
Told(n)          == {<<k[2], k[3]>> : k \in {k \in IV : k[1] = n}}
BTold(n)         == {<<k[2], k[3]>> : k \in {k \in BI : k[1] = n}}
Good(n)          == {o.t : o \in {o \in OF : o.n = n /\ o.ok}}
Bad(n)           == {o.t : o \in {o \in OF : o.n = n /\ ~o.ok}}
BadAfter(n, k)   == {o.t : o \in {o \in OF : o.n = n /\ ~o.ok /\ o.l > k}}
Own(n, ty, h, v) == {o \in OW : o.n = n /\ o.type = ty /\ o.h = h /\ o.view = v}
OwnAt(n, ty, h)  == {o \in OW : o.n = n /\ o.type = ty /\ o.h = h}
BlocksAt(i)      == {AB[k] : k \in {k \in DOMAIN AB : k[2] = i}} \cup {q.b : q \in {q \in QB : q.i = i}}

Unch(S) == UNCHANGED S
AllBut_ST == <<ep, nv, ND, XD, SN, DC, IV, CN, DIRTY, OF, RQ, AK, OW, QB, AB, BI, TO, FQ, GX, RX, GB, LR, PG>>

(* ------------------------------------------------------------------ the obligations of a quiescent point *)
SyncChecks(e) ==
    LET n  == e.n
        s  == ST[n]
        hq == s.hq
        hn == e.h
        E  == ep
        ran == s.started /\ s.se < E                      \* the service was running when the epoch began
        \* payloads received in this epoch on connections that are still there
        rcv == {r \in SN : r.n = n /\ r.e = E /\ r.p \in Open(n)}
        must == {r.x : r \in {r \in rcv : ran /\ MustDeliver(Def(r.x), hq, hn)}}
        ownE == {o.x : o \in {o \in OW : o.n = n /\ o.e = E}}
        dlvE == {DC[k].x : k \in {k \in DOMAIN DC : k[1] = n /\ DC[k].e = E}}
        lostD == {x \in must : Cnt(n, x) = 0}
        futD  == {x \in dlvE : Def(x).start > hn}
        notRelayed == {x \in (must \cup ownE) : ~Relayed(Def(x).hx, Steady(n, E) \ Senders(n, x), Told(n))}
        senderOnly == {x \in notRelayed : ~NotOnlyBackToSender(Def(x).hx, Senders(n, x), Steady(n, E) \ Senders(n, x), Told(n))}
        \* getdata for payloads the node surely holds
        \* getdata for payloads the node surely holds: handed to the service / broadcast in an EARLIER epoch, window still open
        heldX == {DC[k].x : k \in {k \in DOMAIN DC : k[1] = n /\ DC[k].e < E}} \cup {o.x : o \in {o \in OW : o.n = n /\ o.e < E}}
        held == {Def(x).hx : x \in {x \in heldX : Def(x).cls = "ok" /\ hn < Def(x).end}}
        unansw == {g \in GX : g.n = n /\ g.e = E /\ g.p \in Open(n) /\ g.x \in held /\ <<n, g.p, g.x>> \notin RX}
        \* a peer that completed its handshake in this epoch without being ahead of the node is told what the pool holds
        newp == {p \in Open(n) : CN[<<n, p>>].e = E /\ CN[<<n, p>>].adv <= hq}
        notAdv == IF ran THEN {<<p, x>> \in newp \X held : <<p, x>> \notin Told(n)} ELSE {}
        \* ---- the proposal the node is working on
        hasR == Has(LR, n)
        R    == IF hasR THEN LR[n] ELSE [x |-> "", pb |-> {}, e |-> 0, first |-> FALSE]
        d    == Def(R.x)
        cur  == /\ hasR /\ R.first /\ d.h = hn + 1 /\ d.view = 0 /\ d.from = Primary(d.h, 0, nv) /\ ND[n].id # d.from
                /\ <<n, d.h>> \notin TO /\ s.started /\ s.se < R.e
                /\ ~\E r \in SN : r.n = n /\ Def(r.x).type \in {"ChangeView", "RecoveryMessage", "RecoveryRequest"} /\ Def(r.x).h = d.h
                /\ Cardinality({r.x : r \in {r \in SN : r.n = n /\ Def(r.x).type = "PrepareRequest" /\ Def(r.x).h = d.h}}) = 1
        resp == Own(n, "PrepareResponse", d.h, d.view) # {}
        cv   == OwnAt(n, "ChangeView", d.h) # {}
        allgood == cur /\ AllGood(d.txs, R.pb, Good(n), Bad(n))
        \* the service's request for this proposal (bad copies count once they arrive in answer to it)
        rqR  == {q \in RQ : q.n = n /\ q.e >= R.e}
        rql  == IF rqR = {} THEN 1000000000 ELSE CHOOSE m \in {q.l : q \in rqR} : \A q \in rqR : m <= q.l
        onlybad == cur /\ SomeOnlyBad(d.txs, R.pb, Good(n), BadAfter(n, rql))
        \* ---- what the server made of the service's requests of this epoch
        rq   == {q \in RQ : q.n = n /\ q.e = E}
        want == UNION {q.txs : q \in rq}
        lo   == IF rq = {} THEN 0 ELSE CHOOSE m \in {q.l : q \in rq} : \A q \in rq : m <= q.l
        got(p) == {a.t : a \in {a \in AK : a.n = n /\ a.p = p /\ a.l > lo}}
        notAsked == {p \in Steady(n, E) : rq # {} /\ ~(want \subseteq got(p))}
        askedOther == {p \in Steady(n, E) : rq # {} /\ ~(got(p) \subseteq want)}
        \* ---- blocks
        qE   == {q \in QB : q.n = n /\ q.e = E}
        \* a block the node itself signed (its Commit) and its service assembled is in its ledger
        notLedger == {q \in qE : OwnAt(n, "Commit", q.i) # {} /\ ~(Has(AB, <<n, q.i>>) /\ AB[<<n, q.i>>] = q.b)}
        accE == {k \in DOMAIN AB : k[1] = n /\ k[2] > hq /\ k[2] <= hn}
        notAnn == {k \in accE : ~Announced(AB[k], {p \in Steady(n, E) : CN[<<n, p>>].adv < k[2]}, BTold(n))}
        wrongB == {g \in GB : g.n = n /\ Has(AB, <<n, g.i>>) /\ AB[<<n, g.i>>] # g.b}
        haveB == {AB[k] : k \in {k \in DOMAIN AB : k[1] = n}}
        unfetched == {f \in FQ : f.n = n /\ f.e = E /\ f.p \in Open(n) /\ f.b \in haveB /\ ~\E g \in GB : g.n = n /\ g.p = f.p /\ g.b = f.b}
        \* ---- service start
        advs == {CN[<<n, p>>].adv : p \in Steady(n, E)}
        mustRun == Steady(n, E) # {} /\ Synchronised(hn, advs, Cardinality(Steady(n, E)), ND[n].minp)
    IN  Report(l,
               NameIf(lostD = {}, "Delivery:missing") \cup NameIf(futD = {}, "InvalidAccepted:future-delivered")
               \cup NameIf(notRelayed = {}, "Relay:missing") \cup NameIf(senderOnly = {}, "i:Relay:sender-only")
               \cup NameIf(unansw = {}, "Relay:getdata-unanswered") \cup NameIf(notAdv = {}, "Relay:not-advertised")
               \* a missing / refused answer to ONE proposal only delays the height (the timer and the next view resolve it): these are
               \* informational; what is judged is that the height gets decided (event decide) and that nothing unverified is accepted
               \cup NameIf(~allgood \/ resp, "i:ProposalTxs:no-response") \cup NameIf(~allgood \/ ~cv, "i:ProposalTxs:refused-good")
               \cup NameIf(~onlybad \/ cv, "i:ProposalTxs:bad-not-refused") \cup NameIf(~onlybad \/ ~resp, "ProposalTxs:accepted-bad")
               \cup NameIf(notAsked = {}, "i:ProposalTxs:peer-not-asked") \cup NameIf(askedOther = {}, "i:ProposalTxs:peer-asked-other")
               \cup NameIf(notLedger = {}, "BlockOut:not-in-ledger") \cup NameIf(notAnn = {}, "BlockOut:not-announced")
               \cup NameIf(wrongB = {}, "BlockOut:wrong-block") \cup NameIf(unfetched = {}, "BlockOut:getdata-unanswered")
               \cup NameIf(~mustRun \/ s.started, "ServiceStart:not-started")
               \cup NameIf(e.h = s.ht, "x:LedgerCount"),
               [ev |-> [n |-> n, h |-> hn, epoch |-> E], lost |-> lostD, future |-> futD, notRelayed |-> notRelayed,
                unanswered |-> unansw, notAdvertised |-> notAdv, proposal |-> R.x, current |-> cur, allgood |-> allgood, onlybad |-> onlybad,
                named |-> IF cur THEN d.txs ELSE {}, good |-> IF cur THEN Good(n) \cap d.txs ELSE {}, bad |-> IF cur THEN Bad(n) \cap d.txs ELSE {},
                want |-> want, notAsked |-> notAsked, askedOther |-> askedOther,
                notLedger |-> notLedger, notAnnounced |-> {<<k[2], AB[k]>> : k \in notAnn}, wrongBlock |-> wrongB, unfetched |-> unfetched,
                steady |-> Steady(n, E)])

Step ==
    /\ l <= Len(TLog)
    /\ l' = l + 1
    /\ LET e == TLog[l] IN
       CASE e.event = "init" ->
              /\ ep' = 1 /\ nv' = e.nv
              /\ ND' = [n \in {q.n : q \in ToSet(e.nodes)} |-> CHOOSE q \in ToSet(e.nodes) : q.n = n]
              /\ ST' = [n \in {q.n : q \in ToSet(e.nodes)} |->
                          LET q == CHOOSE q \in ToSet(e.nodes) : q.n = n IN
                          [started |-> FALSE, se |-> -1, ht |-> q.h0, hq |-> q.h0, pool |-> {}, pever |-> {}]]
              /\ XD' = <<>> /\ SN' = {} /\ DC' = <<>> /\ IV' = {} /\ CN' = <<>> /\ DIRTY' = {} /\ OF' = {} /\ RQ' = {} /\ AK' = {}
              /\ OW' = {} /\ QB' = {} /\ AB' = <<>> /\ BI' = {} /\ TO' = {} /\ FQ' = {} /\ GX' = {} /\ RX' = {} /\ GB' = {} /\ LR' = <<>>
              /\ PG' = [base |-> 0, rounds |-> 0]
         [] e.event = "xdef" ->
              /\ XD' = Put(XD, e.x, [cls |-> e.cls, start |-> e.start, end |-> e.end, type |-> e.type, h |-> e.h, view |-> e.view,
                                     from |-> e.from, txs |-> ToSet(e.txs), own |-> FALSE, hx |-> e.hx])
              /\ Unch(<<ep, nv, ND, ST, SN, DC, IV, CN, DIRTY, OF, RQ, AK, OW, QB, AB, BI, TO, FQ, GX, RX, GB, LR, PG>>)
         [] e.event = "conn" ->
              /\ CN' = Put(CN, <<e.n, e.p>>, [adv |-> e.adv, e |-> ep, open |-> TRUE])
              /\ Unch(<<ep, nv, ND, ST, XD, SN, DC, IV, DIRTY, OF, RQ, AK, OW, QB, AB, BI, TO, FQ, GX, RX, GB, LR, PG>>)
         [] e.event = "close" ->
              /\ CN' = IF Has(CN, <<e.n, e.p>>) THEN [CN EXCEPT ![<<e.n, e.p>>].open = FALSE] ELSE CN
              /\ Report(l, NameIf(e.by # "node" \/ JustClose(<<e.n, e.p>> \in DIRTY), "Delivery:unjust-close")
                           \cup NameIf(~(e.by = "node" /\ <<e.n, e.p>> \in DIRTY), "i:GarbageSenderClosed"), [ev |-> e])
              /\ Unch(<<ep, nv, ND, ST, XD, SN, DC, IV, DIRTY, OF, RQ, AK, OW, QB, AB, BI, TO, FQ, GX, RX, GB, LR, PG>>)
         [] e.event = "s" ->
              /\ CASE e.m = "extensible" ->
                        /\ SN' = SN \cup {[n |-> e.n, x |-> e.x, p |-> e.p, e |-> ep]}
                        /\ DIRTY' = IF Def(e.x).cls = "bad" THEN DIRTY \cup {<<e.n, e.p>>} ELSE DIRTY
                        /\ Report(l, NameIf(Has(XD, e.x), "x:UnknownPayload"), [ev |-> e])
                        /\ Unch(<<OF, FQ, GX>>)
                   [] e.m = "raw" ->       \* bytes that are no protocol message: the connection is not an honest one any more
                        /\ DIRTY' = DIRTY \cup {<<e.n, e.p>>}
                        /\ Unch(<<SN, OF, FQ, GX>>)
                   [] e.m = "tx" ->
                        /\ OF' = OF \cup {[n |-> e.n, t |-> e.t, ok |-> e.ok, e |-> ep, l |-> l]}
                        /\ Unch(<<SN, DIRTY, FQ, GX>>)
                   [] e.m \in {"getdata", "getblockbyindex"} /\ e.typ = "block" ->
                        /\ FQ' = FQ \cup {[n |-> e.n, p |-> e.p, b |-> b, e |-> ep] : b \in ToSet(e.hs)}
                        /\ Unch(<<SN, DIRTY, OF, GX>>)
                   [] e.m = "getdata" /\ e.typ = "ext" ->
                        /\ GX' = GX \cup {[n |-> e.n, p |-> e.p, x |-> x, e |-> ep] : x \in ToSet(e.hs)}
                        /\ Unch(<<SN, DIRTY, OF, FQ>>)
                   [] OTHER -> Unch(<<SN, DIRTY, OF, FQ, GX>>)
              /\ Unch(<<ep, nv, ND, ST, XD, DC, IV, CN, RQ, AK, OW, QB, AB, BI, TO, RX, GB, LR, PG>>)
         [] e.event = "r" ->
              /\ CASE e.m = "inv" /\ e.typ = "ext" ->
                        /\ IV' = IV \cup {<<e.n, e.p, x>> : x \in ToSet(e.hs)}
                        /\ Report(l, NameIf(\A x \in ToSet(e.hs) : Copies(x) = {} \/ RelayableHash(x), "InvalidAccepted:relayed")
                                     \cup NameIf(\A x \in ToSet(e.hs) : Copies(x) # {}, "x:UnknownInv")
                                     \cup NameIf(\A x \in ToSet(e.hs) : <<e.n, e.p, x>> \notin IV, "i:RelayRepeated")
                                     \cup NameIf(\A x \in ToSet(e.hs) : \A c \in Copies(x) : XD[c].cls # "cat", "i:OtherCategoryRelayed"), [ev |-> e])
                        /\ Unch(<<BI, AK, RX, GB>>)
                   [] e.m = "inv" /\ e.typ = "block" ->
                        /\ BI' = BI \cup {<<e.n, e.p, b>> : b \in ToSet(e.hs)}
                        /\ Unch(<<IV, AK, RX, GB>>)
                   [] e.m = "getdata" /\ e.typ = "tx" ->
                        /\ AK' = AK \cup {[n |-> e.n, p |-> e.p, t |-> t, l |-> l] : t \in ToSet(e.hs)}
                        /\ Report(l, NameIf(Len(e.hs) <= 500, "i:GetDataOverMaxHashes"), [n |-> Len(e.hs)])
                        /\ Unch(<<IV, BI, RX, GB>>)
                   [] e.m = "extensible" ->
                        /\ RX' = RX \cup {<<e.n, e.p, e.hx>>}
                        /\ Report(l, NameIf(~MustNotRelay(Def(e.x)), "InvalidAccepted:served")
                                     \cup NameIf(\E g \in GX : g.n = e.n /\ g.p = e.p /\ g.x = e.hx, "i:UnsolicitedExtensible"), [ev |-> e])
                        /\ Unch(<<IV, BI, AK, GB>>)
                   [] e.m = "block" ->
                        /\ GB' = GB \cup {[n |-> e.n, p |-> e.p, i |-> e.i, b |-> e.b]}
                        /\ Report(l, NameIf(\E f \in FQ : f.n = e.n /\ f.p = e.p /\ f.b = e.b, "BlockOut:wrong-block"), [ev |-> e])
                        /\ Unch(<<IV, BI, AK, RX>>)
                   [] OTHER -> Unch(<<IV, BI, AK, RX, GB>>)
              /\ Unch(<<ep, nv, ND, ST, XD, SN, DC, CN, DIRTY, OF, RQ, OW, QB, AB, TO, FQ, GX, LR, PG>>)
         [] e.event = "deliver" ->
              /\ DC' = IF Has(DC, <<e.n, e.hx>>) THEN [DC EXCEPT ![<<e.n, e.hx>>].c = @ + 1] ELSE Put(DC, <<e.n, e.hx>>, [c |-> 1, e |-> ep, l |-> l, x |-> e.x])
              /\ LR' = IF Def(e.x).type = "PrepareRequest" /\ Def(e.x).cls = "ok" /\ ~Has(DC, <<e.n, e.hx>>)
                       THEN Put(LR, e.n, [x |-> e.x, pb |-> ST[e.n].pool, e |-> ep,
                                          first |-> ~\E k \in DOMAIN DC : k[1] = e.n /\ Def(DC[k].x).type = "PrepareRequest" /\ Def(DC[k].x).h = Def(e.x).h /\ Def(DC[k].x).view = Def(e.x).view])
                       ELSE LR
              /\ Report(l, NameIf(Has(XD, e.x), "x:UnknownPayload")
                           \cup NameIf(~Has(XD, e.x) \/ Def(e.x).cls = "ok", "InvalidAccepted:delivered")
                           \cup NameIf(~Has(XD, e.x) \/ Def(e.x).cls # "ok" \/ Def(e.x).end > ST[e.n].hq, "InvalidAccepted:stale-delivered")
                           \cup NameIf(AtMostOnce(Cnt(e.n, e.x) + 1), "Delivery:twice"),
                        [ev |-> e, def |-> Def(e.x), hq |-> ST[e.n].hq, before |-> Cnt(e.n, e.x)])
              /\ Unch(<<ep, nv, ND, ST, XD, SN, IV, CN, DIRTY, OF, RQ, AK, OW, QB, AB, BI, TO, FQ, GX, RX, GB, PG>>)
         [] e.event = "own" ->
              /\ XD' = Put(XD, e.x, [cls |-> "ok", start |-> 0, end |-> e.end, type |-> e.type, h |-> e.h, view |-> e.view,
                                     from |-> e.vi, txs |-> ToSet(e.txs), own |-> TRUE, hx |-> e.x])
              /\ OW' = OW \cup {[n |-> e.n, x |-> e.x, type |-> e.type, h |-> e.h, view |-> e.view, e |-> ep]}
              /\ LET R == IF Has(LR, e.n) THEN LR[e.n] ELSE [x |-> "", pb |-> {}, e |-> 0, first |-> FALSE]
                     d == Def(R.x)
                     vouch == e.type \in {"PrepareResponse", "Commit"} /\ Has(LR, e.n) /\ d.h = e.h /\ d.view = e.view
                              /\ ND[e.n].id # d.from /\ ND[e.n].obs     \* (obs: every source of transactions of this node is a fake peer)
                 IN Report(l, NameIf(~vouch \/ ResponseJustified(d.txs, ST[e.n].pever \cup R.pb, Good(e.n)), "ProposalTxs:accepted-unverified")
                              \* signing for block e.h means standing at e.h - 1: not while every connected peer is ahead of that
                              \cup NameIf(~(ND[e.n].obs /\ ND[e.n].minp > 0 /\ FarBehind(e.h - 1, {CN[<<e.n, p>>].adv : p \in Open(e.n)})), "ServiceStart:signed-behind")
                              \cup NameIf(~(e.type = "PrepareRequest" /\ e.view = 0) \/ ST[e.n].pool \subseteq ToSet(e.txs), "ProposalTxs:pending-left-out")
                              \cup NameIf(Own(e.n, e.type, e.h, e.view) = {} \/ e.type \in {"RecoveryMessage", "RecoveryRequest", "ChangeView"}, "i:OwnRepeated"),
                           [ev |-> e, proposal |-> R.x, named |-> d.txs, pool |-> ST[e.n].pool])
              /\ Unch(<<ep, nv, ND, ST, SN, DC, IV, CN, DIRTY, OF, RQ, AK, QB, AB, BI, TO, FQ, GX, RX, GB, LR, PG>>)
         [] e.event = "reqtx" ->
              /\ RQ' = RQ \cup {[n |-> e.n, l |-> l, txs |-> ToSet(e.txs), e |-> ep]}
              /\ LET R == IF Has(LR, e.n) THEN LR[e.n] ELSE [x |-> "", pb |-> {}, e |-> 0, first |-> FALSE]
                     d == Def(R.x)
                     maybe == {o.t : o \in {o \in OF : o.n = e.n /\ (o.e = ep \/ o.ok)}}
                 IN Report(l, NameIf(Has(LR, e.n), "i:RequestWithoutProposal")
                              \cup NameIf(~Has(LR, e.n) \/ AsksOnlyMissing(ToSet(e.txs), d.txs, ST[e.n].pool), "i:ProposalTxs:asked-for-held")
                              \cup NameIf(~Has(LR, e.n) \/ AsksAllMissing(ToSet(e.txs), d.txs, ST[e.n].pool, maybe), "i:ProposalTxs:missing-not-asked"),
                           [ev |-> [n |-> e.n, asked |-> Len(e.txs)], proposal |-> R.x, named |-> Cardinality(d.txs)])
              /\ Unch(<<ep, nv, ND, ST, XD, SN, DC, IV, CN, DIRTY, OF, AK, OW, QB, AB, BI, TO, FQ, GX, RX, GB, LR, PG>>)
         [] e.event = "queued" ->
              /\ QB' = QB \cup {[n |-> e.n, i |-> e.i, b |-> e.b, e |-> ep]}
              /\ Report(l, NameIf(BlocksAt(e.i) \subseteq {e.b}, "Agreement"), [ev |-> e, known |-> BlocksAt(e.i)])
              /\ Unch(<<ep, nv, ND, ST, XD, SN, DC, IV, CN, DIRTY, OF, RQ, AK, OW, AB, BI, TO, FQ, GX, RX, GB, LR, PG>>)
         [] e.event = "acc" ->
              /\ AB' = Put(AB, <<e.n, e.i>>, e.b)
              /\ ST' = [ST EXCEPT ![e.n].ht = e.i]
              /\ Report(l, NameIf(BlocksAt(e.i) \subseteq {e.b}, "Agreement") \cup NameIf(InOrder(ST[e.n].ht, e.i), "BlockOut:out-of-order"),
                        [ev |-> e, known |-> BlocksAt(e.i), height |-> ST[e.n].ht])
              /\ Unch(<<ep, nv, ND, XD, SN, DC, IV, CN, DIRTY, OF, RQ, AK, OW, QB, BI, TO, FQ, GX, RX, GB, LR, PG>>)
         [] e.event = "feed" ->
              /\ Report(l, NameIf(Acceptable(e.ok), "Acceptable") \cup NameIf(BlocksAt(e.i) \subseteq {e.b}, "Agreement"), [ev |-> e])
              /\ Unch(<<ep, nv, ND, ST, XD, SN, DC, IV, CN, DIRTY, OF, RQ, AK, OW, QB, AB, BI, TO, FQ, GX, RX, GB, LR, PG>>)
         [] e.event = "svcstart" ->
              /\ ST' = [ST EXCEPT ![e.n].started = TRUE, ![e.n].se = ep]
              /\ Report(l, NameIf(~(ND[e.n].minp > 0 /\ FarBehind(e.h, {CN[<<e.n, p>>].adv : p \in Ever(e.n)})), "ServiceStart:started-behind")
                           \* (the handshakes the server has seen are among the logged ones: fewer logged than MinPeers = started too early)
                           \cup NameIf(~ND[e.n].obs \/ Cardinality(Ever(e.n)) >= ND[e.n].minp, "ServiceStart:started-without-peers"),
                        [ev |-> e, peers |-> {CN[<<e.n, p>>].adv : p \in Ever(e.n)}])
              /\ Unch(AllBut_ST)
         [] e.event = "timeout" ->
              /\ TO' = TO \cup {<<e.n, e.h>>}
              /\ Unch(<<ep, nv, ND, ST, XD, SN, DC, IV, CN, DIRTY, OF, RQ, AK, OW, QB, AB, BI, FQ, GX, RX, GB, LR, PG>>)
         [] e.event = "sync" ->
              /\ SyncChecks(e)
              /\ ST' = [ST EXCEPT ![e.n].hq = e.h, ![e.n].pool = ToSet(e.pool), ![e.n].pever = @ \cup ToSet(e.pool)]
              /\ Unch(AllBut_ST)
         [] e.event = "epoch" ->
              /\ ep' = ep + 1
              /\ Unch(<<nv, ND, ST, XD, SN, DC, IV, CN, DIRTY, OF, RQ, AK, OW, QB, AB, BI, TO, FQ, GX, RX, GB, LR, PG>>)
         [] e.event = "round" ->
              \* synchronous phase of a mesh of honest servers: the lowest height grows within `bound` rounds
              /\ PG' = IF e.first \/ e.minh > PG.base THEN [base |-> e.minh, rounds |-> 0] ELSE [PG EXCEPT !.rounds = @ + 1]
              /\ Report(l, NameIf(e.first \/ e.minh > PG.base \/ PG.rounds + 1 <= e.bound, "Stalled"), [ev |-> e, base |-> PG.base, rounds |-> PG.rounds])
              /\ Unch(<<ep, nv, ND, ST, XD, SN, DC, IV, CN, DIRTY, OF, RQ, AK, OW, QB, AB, BI, TO, FQ, GX, RX, GB, LR>>)
         [] e.event = "decide" ->
              \* everybody who is not silent is honest and serves the named transactions: the height is decided in SOME view
              \* (views 0..2 were played to the end: proposal, responses, commits, timers, change views)
              /\ Report(l, NameIf(e.decided, "Stalled:undecided") \cup NameIf(~e.decided \/ (e.view = 0 /\ e.via = "consensus"), "i:DecidedLater"), [ev |-> e])
              /\ Unch(<<ep, nv, ND, ST, XD, SN, DC, IV, CN, DIRTY, OF, RQ, AK, OW, QB, AB, BI, TO, FQ, GX, RX, GB, LR, PG>>)
         [] e.event = "included" ->
              \* end of a synchronous phase: transactions pooled by every node at its start are in blocks (pending = not yet)
              /\ Report(l, NameIf(e.pending = <<>>, "ProposalTxs:pending-never-included"), [ev |-> e])
              /\ Unch(<<ep, nv, ND, ST, XD, SN, DC, IV, CN, DIRTY, OF, RQ, AK, OW, QB, AB, BI, TO, FQ, GX, RX, GB, LR, PG>>)
         [] OTHER -> Unch(<<ep, nv, ND, ST, XD, SN, DC, IV, CN, DIRTY, OF, RQ, AK, OW, QB, AB, BI, TO, FQ, GX, RX, GB, LR, PG>>)

TraceSpec == Init /\ [][Step]_vars
=============================================================================
