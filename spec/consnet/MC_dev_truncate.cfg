SPECIFICATION Spec
CONSTANTS
  Peers <- P2
  X <- X2
  Cls <- Cls2
  Req = "r"
  Named <- T3
  BadCopy <- None
  MaxH = 2
  Universes <- U4b
  BugDeliverTwice = FALSE
  BugRelaySenderOnly = FALSE
  BugTruncate = TRUE
  BugDropUnsolicited = FALSE
  BugStartBeforeSync = FALSE
  SplitLookup = FALSE
INVARIANTS TypeOK Safe AtRest
CHECK_DEADLOCK FALSE
