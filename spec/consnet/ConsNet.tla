------------------------------- MODULE ConsNet -------------------------------
(* ABSTRACT level (the judge) of what the NETWORK LAYER adds to property C19:

     "With the validators running this node's consensus service on top of real ledgers, no two validators ever accept
      different blocks at the same height and every block a validator commits is accepted by every other node's ledger,
      under arbitrary message delay, reordering, duplication and loss and with up to f validators silent.  When all
      validators are honest and messages are delivered, blocks keep being produced and carry the pending valid
      transactions."

   read for a node whose consensus service sits INSIDE its P2P server (pkg/network/server.go): consensus payloads travel
   as Extensible payloads through the server, proposals' transactions are fetched from peers, the accepted block leaves
   through the block queue and is announced.  The module is a set of predicates over what an observer of the node sees - the
   messages on each peer connection, the calls reaching the service, the ledger - and says nothing about HOW the server does
   it (that is ConsNetImpl).  It is instantiated by ConsNetImpl (TLC checks Impl => Abstract) and by ConsNetTrace (TLC judges
   recorded runs of the real network.Server + consensus.Service).

   Vocabulary
     payload x    def = [cls, start, end, ...]: cls "ok" = correctly signed by a validator, category dBFT; "bad" = witness does
                  not verify for this network / sender is no validator (whatever the rest says); "cat" = correctly signed by a
                  validator but of another category.  [start, end) is the ValidBlockStart / ValidBlockEnd window.
     quiescent point ("sync")  every peer has completed a ping round trip after its last message and nothing moves in the node.
     epoch        the interval between two quiescent points.  hq = the ledger's height at the quiescent point that opens the
                  epoch, hn = its height at the point that closes it (heights only grow).
*)
EXTENDS Integers, FiniteSets, Sequences

(* ---------------------------------------------------------------- (i) Delivery / Relay *)

\* the window surely contains every height the node had during the epoch / surely contains none of them
WindowSurelyIn(d, hq, hn)  == d.start <= hq /\ hn < d.end
WindowSurelyOut(d, hq, hn) == d.end <= hq \/ hn < d.start

\* a payload received from a peer during an epoch in which the service was running from the start ...
MustDeliver(d, hq, hn)    == d.cls = "ok" /\ WindowSurelyIn(d, hq, hn)     \* ... reaches the service (and is relayed)
MustNotDeliver(d, hq, hn) == d.cls # "ok" \/ WindowSurelyOut(d, hq, hn)    \* ... never does
MustNotRelay(d)           == d.cls = "bad"                                 \* is neither announced nor served

\* exactly once: count of hand-overs of one payload to the service
DeliveredOnce(cnt)   == cnt = 1
AtMostOnce(cnt)      == cnt <= 1

\* relay: every OTHER peer that was connected throughout is told (inv) about a delivered / own payload; a peer asking for
\* it (getdata) gets exactly it
Relayed(x, others, told)   == \A q \in others : <<q, x>> \in told
NotOnlyBackToSender(x, senders, others, told) == (others # {}) => \E q \in others : <<q, x>> \in told

\* an honest connection (nothing "bad" sent on it) is never closed by the node
JustClose(dirty) == dirty

(* ---------------------------------------------------------------- (ii) ProposalTxs *)

\* what the service asks for: nothing it had since before the proposal, everything that was surely not there
AsksOnlyMissing(asked, named, pooledBefore)            == asked \subseteq (named \ pooledBefore)
AsksAllMissing(asked, named, pooledBefore, offeredSoFar) == (named \ (pooledBefore \cup offeredSoFar)) \subseteq asked
\* the server turns the service's request into getdata to EVERY connected peer naming exactly those hashes
PeerAskedExactly(gotByPeer, asked) == gotByPeer = asked

\* a transaction of the proposal is available in a good copy / only in copies that fail verification (badOffered of
\* SomeOnlyBad: copies that arrived AFTER the node asked for them - what arrives unasked and fails is simply dropped)
AllGood(named, pooledBefore, goodOffered, badOffered) ==
    /\ \A t \in named : t \in pooledBefore \/ t \in goodOffered
    /\ \A t \in named : t \notin badOffered
SomeOnlyBad(named, pooledBefore, goodOffered, badOffered) ==
    /\ \A t \in named : t \in pooledBefore \/ t \in goodOffered \/ t \in badOffered
    /\ \E t \in named : t \notin pooledBefore /\ t \notin goodOffered /\ t \in badOffered
\* a response vouches for the proposal: every named transaction was available in a good copy
ResponseJustified(named, pooledEver, goodOffered) == \A t \in named : t \in pooledEver \/ t \in goodOffered

(* ---------------------------------------------------------------- (iii) BlockOut / Agreement / Acceptable *)

InOrder(h, i)            == i = h + 1
Agreement(known, i, b)   == (i \in DOMAIN known) => known[i] = b      \* one block per height, whoever holds it
Acceptable(ok)           == ok                                        \* another ledger accepts the committed block
Announced(b, lower, told) == \A q \in lower : <<q, b>> \in told        \* inv to every peer that is behind
ExactlyThatBlock(asked, got) == got = asked

(* ---------------------------------------------------------------- (iv) service start *)

\* far behind: there are peers and every one of them advertises a height above the node's
FarBehind(h, advs)             == advs # {} /\ \A a \in advs : a > h
\* synchronised for sure: enough peers, none of them above the node
Synchronised(h, advs, n, minp) == n >= minp /\ \A a \in advs : a <= h

Primary(h, view, nv) == (h - view) % nv
=============================================================================
