----------------------------- MODULE ConsNetImpl -----------------------------
(* CODE-SHAPED model of the server's consensus paths (pkg/network/server.go, extpool/pool.go, in_map.go) around one
   proposal, one action per critical section of the real code:

     Handle(p)      Server.handleMessage for the next message of connection p (one reader goroutine per connection):
                      extensible -> handleExtensibleCmd: !syncReached -> ignored; extpool.Add (verify: witness / sender ->
                                    error = the connection is closed; already pooled -> ignored); handler (Service.OnPayload
                                    puts it on the service's channel); advertiseExtensible = inv to every handshaked peer
                      tx         -> handleTxCmd: txIn.Add drops what is in flight or pooled, else hands it to the tx loops
                      getdata    -> handleGetDataCmd(extensible): served from the pool
     TxLoop(e)      one iteration of txHandlerLoop: consensus callback if the hash is in the callback list, verifyAndPoolTX,
                    txIn.Remove
     SvcTake        the service's event loop takes one event (payload / transaction): dbft onPrepareRequest ->
                    processMissingTx LOOKS UP the named transactions (memory pool) ...
     SvcRequest     ... and then calls RequestTx: Server.RequestTx stores the callback list and sends getdata in batches of
                    MaxH hashes to every peer.  (SplitLookup = TRUE keeps these two critical sections apart, as in the code.)
     Start          tryStartServices: IsInSync -> the services are started (once)
   plus the environment: peers send payloads (any order, duplicates), push transactions nobody asked for, answer getdata
   with the transactions they hold (unless mute).

   Named deviations (TLC must refute each against the abstract predicates of ConsNet):
     BugDeliverTwice     the duplicate check in front of the handler is skipped
     BugRelaySenderOnly  the inv goes back to the connection the payload came from only
     BugTruncate         only the first MaxH hashes are requested, no second getdata
     BugDropUnsolicited  a transaction that is not in the callback list is dropped instead of pooled
     BugStartBeforeSync  the service is started although the node is not synchronised
   and one switch that describes the tree as it is:
     SplitLookup         TRUE: look-up and request are two critical sections (the code); FALSE: atomic (the design the
                         statement asks for) *)
EXTENDS Integers, FiniteSets, Sequences, TLC, ConsNet

CONSTANTS Peers, X, Cls, Req, Named, T, BadCopy, Holds, Mute, MaxH, MaxSend, MaxPush, GarbagePeers,
          BugDeliverTwice, BugRelaySenderOnly, BugTruncate, BugDropUnsolicited, BugStartBeforeSync, SplitLookup

VARIABLES synced, started, closed, inq, pool, dcnt, told, svcq, mem, txin, cb, have, pc, miss, want, asked, todo,
          rcv, offered, nsend, npush, served, reqd
vars == <<synced, started, closed, inq, pool, dcnt, told, svcq, mem, txin, cb, have, pc, miss, want, asked, todo,
          rcv, offered, nsend, npush, served, reqd>>

Init == /\ synced = FALSE /\ started = FALSE /\ closed = {} /\ inq = [p \in Peers |-> <<>>] /\ pool = {}
        /\ dcnt = [x \in X |-> 0] /\ told = {} /\ svcq = <<>> /\ mem = {} /\ txin = {} /\ cb = {} /\ have = {}
        /\ pc = "idle" /\ miss = {} /\ want = {} /\ asked = [p \in Peers |-> {}] /\ todo = [p \in Peers |-> {}]
        /\ rcv = {} /\ offered = {} /\ nsend = 0 /\ npush = 0 /\ served = {} /\ reqd = {}

Live == Peers \ closed

(* ------------------------------------------------------------------ environment *)
SendX(p, x) == /\ p \in Live /\ nsend < MaxSend
               /\ (Cls[x] = "bad") => p \in GarbagePeers       \* honest connections relay verified payloads only
               /\ inq' = [inq EXCEPT ![p] = Append(@, [k |-> "x", x |-> x])]
               /\ nsend' = nsend + 1
               /\ UNCHANGED <<synced, started, closed, pool, dcnt, told, svcq, mem, txin, cb, have, pc, miss, want, asked, todo, rcv, offered, npush, served, reqd>>

PushTx(p, t) == /\ p \in Live /\ t \in Holds[p] /\ npush < MaxPush
                /\ inq' = [inq EXCEPT ![p] = Append(@, [k |-> "t", t |-> t, ok |-> t \notin BadCopy])]
                /\ npush' = npush + 1
                /\ UNCHANGED <<synced, started, closed, pool, dcnt, told, svcq, mem, txin, cb, have, pc, miss, want, asked, todo, rcv, offered, nsend, served, reqd>>

Answer(p, t) == /\ p \in Live /\ p \notin Mute /\ t \in todo[p] /\ t \in Holds[p]
                /\ inq' = [inq EXCEPT ![p] = Append(@, [k |-> "t", t |-> t, ok |-> t \notin BadCopy])]
                /\ todo' = [todo EXCEPT ![p] = @ \ {t}]
                /\ UNCHANGED <<synced, started, closed, pool, dcnt, told, svcq, mem, txin, cb, have, pc, miss, want, asked, rcv, offered, nsend, npush, served, reqd>>

AskX(p, x) == /\ p \in Live /\ <<p, x>> \notin reqd /\ <<p, x>> \in told
              /\ inq' = [inq EXCEPT ![p] = Append(@, [k |-> "g", x |-> x])]
              /\ reqd' = reqd \cup {<<p, x>>}
              /\ UNCHANGED <<synced, started, closed, pool, dcnt, told, svcq, mem, txin, cb, have, pc, miss, want, asked, todo, rcv, offered, nsend, npush, served>>

(* ------------------------------------------------------------------ the node *)
Start == /\ ~started
         /\ \/ /\ ~synced /\ synced' = TRUE /\ started' = TRUE                    \* IsInSync became true: tryStartServices
            \/ /\ ~synced /\ BugStartBeforeSync /\ synced' = FALSE /\ started' = TRUE
         /\ UNCHANGED <<closed, inq, pool, dcnt, told, svcq, mem, txin, cb, have, pc, miss, want, asked, todo, rcv, offered, nsend, npush, served, reqd>>

HandleX(p, m) ==
    LET x == m.x IN
    IF ~synced THEN UNCHANGED <<closed, pool, dcnt, told, svcq, rcv>> /\ inq' = [inq EXCEPT ![p] = Tail(@)]
    ELSE IF Cls[x] = "bad"
    THEN /\ closed' = closed \cup {p} /\ inq' = [inq EXCEPT ![p] = <<>>]          \* extpool.Add error -> the peer is dropped
         /\ UNCHANGED <<pool, dcnt, told, svcq, rcv>>
    ELSE /\ inq' = [inq EXCEPT ![p] = Tail(@)]
         /\ rcv' = rcv \cup {<<p, x>>}
         /\ IF x \in pool /\ ~BugDeliverTwice
            THEN UNCHANGED <<closed, pool, dcnt, told, svcq>>
            ELSE /\ pool' = pool \cup {x}
                 /\ IF Cls[x] = "ok"
                    THEN /\ dcnt' = [dcnt EXCEPT ![x] = @ + 1]
                         /\ svcq' = IF started THEN Append(svcq, [k |-> "x", x |-> x]) ELSE svcq
                    ELSE UNCHANGED <<dcnt, svcq>>
                 /\ told' = told \cup (IF BugRelaySenderOnly THEN {<<p, x>>} ELSE {<<q, x>> : q \in Live})
                 /\ UNCHANGED closed

HandleT(p, m) ==
    /\ inq' = [inq EXCEPT ![p] = Tail(@)]
    /\ offered' = offered \cup {[t |-> m.t, ok |-> m.ok]}
    /\ IF m.t \in mem \/ \E e \in txin : e.t = m.t
       THEN UNCHANGED txin
       ELSE txin' = txin \cup {[t |-> m.t, ok |-> m.ok]}

HandleG(p, m) ==
    /\ inq' = [inq EXCEPT ![p] = Tail(@)]
    /\ served' = IF m.x \in pool THEN served \cup {<<p, m.x>>} ELSE served

Handle(p) ==
    /\ p \in Live /\ inq[p] # <<>>
    /\ LET m == Head(inq[p]) IN
       CASE m.k = "x" -> HandleX(p, m) /\ UNCHANGED <<synced, started, mem, txin, cb, have, pc, miss, want, asked, todo, offered, nsend, npush, served, reqd>>
         [] m.k = "t" -> HandleT(p, m) /\ UNCHANGED <<synced, started, closed, pool, dcnt, told, svcq, mem, cb, have, pc, miss, want, asked, todo, rcv, nsend, npush, served, reqd>>
         [] m.k = "g" -> HandleG(p, m) /\ UNCHANGED <<synced, started, closed, pool, dcnt, told, svcq, mem, txin, cb, have, pc, miss, want, asked, todo, rcv, offered, nsend, npush, reqd>>

TxLoop(e) ==
    /\ e \in txin
    /\ svcq' = IF e.t \in cb /\ started THEN Append(svcq, [k |-> "t", t |-> e.t, ok |-> e.ok]) ELSE svcq
    /\ mem' = IF e.ok /\ ~(BugDropUnsolicited /\ e.t \notin cb) THEN mem \cup {e.t} ELSE mem
    /\ txin' = txin \ {e}
    /\ UNCHANGED <<synced, started, closed, inq, pool, dcnt, told, cb, have, pc, miss, want, asked, todo, rcv, offered, nsend, npush, served, reqd>>

\* Server.RequestTx: callback list = everything asked for; getdata to every peer, MaxH hashes per message
Request(ms) ==
    LET first == IF BugTruncate /\ Cardinality(ms) > MaxH THEN CHOOSE s \in SUBSET ms : Cardinality(s) = MaxH ELSE ms IN
    /\ cb' = ms
    /\ want' = ms
    /\ asked' = [p \in Peers |-> IF p \in Live THEN asked[p] \cup first ELSE asked[p]]
    /\ todo' = [p \in Peers |-> IF p \in Live THEN todo[p] \cup first ELSE todo[p]]

Decide(hv) == IF \E e \in hv : ~e.ok THEN "refused" ELSE "resp"

SvcTake ==
    /\ svcq # <<>> /\ pc # "looked"
    /\ svcq' = Tail(svcq)
    /\ LET ev == Head(svcq) IN
       CASE ev.k = "x" /\ ev.x = Req /\ pc = "idle" ->
              LET ms == Named \ mem IN
              IF ms = {} THEN /\ pc' = "resp" /\ have' = {[t |-> t, ok |-> TRUE] : t \in Named} /\ miss' = {}
                              /\ UNCHANGED <<cb, want, asked, todo>>
              ELSE /\ have' = {[t |-> t, ok |-> TRUE] : t \in Named \cap mem} /\ miss' = ms
                   /\ IF SplitLookup THEN pc' = "looked" /\ UNCHANGED <<cb, want, asked, todo>>
                      ELSE pc' = "wait" /\ Request(ms)
         [] ev.k = "t" /\ pc = "wait" /\ ev.t \in miss ->
              /\ have' = have \cup {[t |-> ev.t, ok |-> ev.ok]}
              /\ miss' = miss \ {ev.t}
              /\ IF miss \ {ev.t} = {} THEN pc' = Decide(have \cup {[t |-> ev.t, ok |-> ev.ok]}) /\ cb' = {}    \* StopTxFlow
                 ELSE UNCHANGED <<pc, cb>>
              /\ UNCHANGED <<want, asked, todo>>
         [] OTHER -> UNCHANGED <<pc, have, miss, cb, want, asked, todo>>
    /\ UNCHANGED <<synced, started, closed, inq, pool, dcnt, told, mem, txin, rcv, offered, nsend, npush, served, reqd>>

SvcRequest ==
    /\ pc = "looked"
    /\ pc' = "wait" /\ Request(miss)
    /\ UNCHANGED <<synced, started, closed, inq, pool, dcnt, told, svcq, mem, txin, have, miss, rcv, offered, nsend, npush, served, reqd>>

Env == \/ \E p \in Peers, x \in X : SendX(p, x)
       \/ \E p \in Peers, t \in T : PushTx(p, t)
       \/ \E p \in Peers, t \in T : Answer(p, t)
       \/ \E p \in Peers, x \in X : AskX(p, x)
Node == Start \/ (\E p \in Peers : Handle(p)) \/ (\E e \in txin : TxLoop(e)) \/ SvcTake \/ SvcRequest
Next == Env \/ Node
Spec == Init /\ [][Next]_vars

(* ------------------------------------------------------------------ Impl => Abstract *)
TypeOK == /\ pc \in {"idle", "looked", "wait", "resp", "refused"} /\ pool \subseteq X /\ mem \subseteq T

\* nothing is in flight and nobody owes an answer
Quiescent == /\ \A p \in Live : inq[p] = <<>>
             /\ svcq = <<>> /\ txin = {} /\ pc # "looked"
             /\ \A p \in Live : p \in Mute \/ todo[p] \cap Holds[p] = {}
             /\ \A p \in Live, x \in X : <<p, x>> \in reqd => TRUE

Def(x) == [cls |-> Cls[x], start |-> 0, end |-> 1]
GoodOff == {e.t : e \in {e \in offered : e.ok}}
BadOff  == {e.t : e \in {e \in offered : ~e.ok}}
\* payloads that arrived on a connection while the node was synchronised (rcv is only filled then)
Arrived == {r[2] : r \in rcv}
SendersOf(x) == {r[1] : r \in {r \in rcv : r[2] = x}}

Safe == /\ \A x \in X : AtMostOnce(dcnt[x])
        /\ \A x \in X : dcnt[x] > 0 => ~MustNotDeliver(Def(x), 0, 0)
        /\ \A k \in told : ~MustNotRelay(Def(k[2]))
        /\ \A k \in served : ~MustNotRelay(Def(k[2]))
        /\ started => synced                                                      \* (iv) never started while behind
        /\ pc \in {"resp", "refused"} => started
        /\ pc = "resp" => ResponseJustified(Named, {}, GoodOff)

AtRest == Quiescent =>
        /\ \A x \in Arrived : MustDeliver(Def(x), 0, 0) => DeliveredOnce(dcnt[x])
        /\ \A x \in Arrived : Cls[x] # "bad" => Relayed(x, Live \ SendersOf(x), told)
        /\ (pc \in {"wait", "resp", "refused"} /\ want # {}) => \A p \in Live : PeerAskedExactly(asked[p], want)
        /\ (dcnt[Req] > 0 /\ started /\ AllGood(Named, {}, GoodOff, BadOff)) => pc = "resp"
        /\ (dcnt[Req] > 0 /\ started /\ SomeOnlyBad(Named, {}, GoodOff, BadOff)) => pc = "refused"
        /\ \A k \in reqd : (k[1] \in Live /\ k[2] \in pool) => k \in served

Constr == nsend <= MaxSend
=============================================================================
