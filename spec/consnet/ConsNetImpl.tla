----------------------------- MODULE ConsNetImpl -----------------------------
(* CODE-SHAPED model of the server's consensus paths (pkg/network/server.go, extpool/pool.go, in_map.go) around one
   proposal, one action per critical section of the real code:

     Handle(p)      Server.handleMessage for the next message of connection p (one reader goroutine per connection):
                      extensible -> handleExtensibleCmd: !syncReached -> ignored; extpool.Add (verify: witness / sender ->
                                    error = the connection is closed; already pooled -> ignored); handler (Service.OnPayload
                                    puts it on the service's channel); advertiseExtensible = inv to every handshaked peer
                      inv        -> handleInvCmd: a payload the pool does not hold is requested from that peer (getdata)
                      tx         -> handleTxCmd: txIn.Add drops what is in flight or pooled, else hands it to the tx loops
                      getdata    -> handleGetDataCmd(extensible): served from the pool
     TxLoop(e)      one iteration of txHandlerLoop: consensus callback if the hash is in the callback list, verifyAndPoolTX,
                    txIn.Remove
     SvcTake        the service's event loop takes one event (payload / transaction): dbft onPrepareRequest ->
                    processMissingTx LOOKS UP the named transactions (memory pool) ...
     SvcRequest     ... and then calls RequestTx: Server.RequestTx stores the callback list and sends getdata in batches of
                    MaxH hashes to every peer.  (SplitLookup = TRUE keeps these two critical sections apart, as in the code.)
     Start          tryStartServices: IsInSync -> the services are started (once)
   plus the peers: uni.script[p] is what peer p sends on its connection, in order ("x" a payload, "t" a transaction nobody asked
   for, "g" a getdata for a payload); everything is on its way from the start, so that the interleaving of the node's reader
   goroutines (one per connection), its transaction loops and the service's event loop is what TLC explores.  Answers to the
   node's getdata are appended behind the script of the peer that answers (unless it is mute).

   Named deviations (TLC must refute each against the abstract predicates of ConsNet):
     BugDeliverTwice     the duplicate check in front of the handler is skipped
     BugRelaySenderOnly  the inv goes back to the connection the payload came from only
     BugTruncate         only the first MaxH hashes are requested, no second getdata
     BugDropUnsolicited  a transaction that is not in the callback list is dropped instead of pooled
     BugStartBeforeSync  the service is started although the node is not synchronised
   and one switch that describes the tree as it is:
     SplitLookup         TRUE: look-up and request are two critical sections (the code); FALSE: atomic (the design the
                         statement asks for) *)
EXTENDS Integers, FiniteSets, Sequences, TLC, ConsNet

CONSTANTS Peers, X, Cls, Req, Named, BadCopy, MaxH, Universes,
          BugDeliverTwice, BugRelaySenderOnly, BugTruncate, BugDropUnsolicited, BugStartBeforeSync, SplitLookup

VARIABLES synced, started, closed, inq, pool, dcnt, told, svcq, mem, txin, cb, have, pc, miss, want, asked, todo,
          rcv, offered, served, uni
vars == <<synced, started, closed, inq, pool, dcnt, told, svcq, mem, txin, cb, have, pc, miss, want, asked, todo,
          rcv, offered, served, uni>>

\* the universe of a behaviour never changes: uni = [holds, mute, script] chosen from the constant set Universes
Holds == uni.holds
Mute == uni.mute

XM(x) == [k |-> "x", x |-> x]
TM(t) == [k |-> "t", t |-> t, ok |-> t \notin BadCopy]
GM(x) == [k |-> "g", x |-> x]
IM(x) == [k |-> "i", x |-> x]      \* inv: the peer announces payload x and serves it when the node asks

Init == /\ uni \in Universes
        /\ synced = FALSE /\ started = FALSE /\ closed = {} /\ inq = [p \in Peers |-> uni.script[p]] /\ pool = {}
        /\ dcnt = [x \in X |-> 0] /\ told = {} /\ svcq = <<>> /\ mem = {} /\ txin = {} /\ cb = {} /\ have = {}
        /\ pc = "idle" /\ miss = {} /\ want = {} /\ asked = [p \in Peers |-> {}] /\ todo = [p \in Peers |-> {}]
        /\ rcv = {} /\ offered = {} /\ served = {}

Live == Peers \ closed

(* ------------------------------------------------------------------ the peers answer the node's getdata *)
Answer(p, t) == /\ p \in Live /\ p \notin Mute /\ t \in todo[p] /\ t \in Holds[p]
                /\ inq' = [inq EXCEPT ![p] = Append(@, TM(t))]
                /\ todo' = [todo EXCEPT ![p] = @ \ {t}]
                /\ UNCHANGED <<synced, started, closed, pool, dcnt, told, svcq, mem, txin, cb, have, pc, miss, want, asked, rcv, offered, served>>

(* ------------------------------------------------------------------ the node *)
Start == /\ ~started /\ ~synced
         /\ \/ synced' = TRUE /\ started' = TRUE                            \* IsInSync became true: tryStartServices
            \/ BugStartBeforeSync /\ synced' = FALSE /\ started' = TRUE
         /\ UNCHANGED <<closed, inq, pool, dcnt, told, svcq, mem, txin, cb, have, pc, miss, want, asked, todo, rcv, offered, served>>

HandleX(p, m) ==
    LET x == m.x IN
    IF ~synced THEN UNCHANGED <<closed, pool, dcnt, told, svcq, rcv>> /\ inq' = [inq EXCEPT ![p] = Tail(@)]
    ELSE IF Cls[x] = "bad"
    THEN /\ closed' = closed \cup {p} /\ inq' = [inq EXCEPT ![p] = <<>>]          \* extpool.Add error -> the peer is dropped
         /\ UNCHANGED <<pool, dcnt, told, svcq, rcv>>
    ELSE /\ inq' = [inq EXCEPT ![p] = Tail(@)]
         /\ rcv' = rcv \cup {<<p, x>>}
         /\ IF x \in pool /\ ~BugDeliverTwice
            THEN UNCHANGED <<closed, pool, dcnt, told, svcq>>
            ELSE /\ pool' = pool \cup {x}
                 /\ IF Cls[x] = "ok"
                    THEN /\ dcnt' = [dcnt EXCEPT ![x] = @ + 1]
                         /\ svcq' = IF started THEN Append(svcq, XM(x)) ELSE svcq
                    ELSE UNCHANGED <<dcnt, svcq>>
                 /\ told' = told \cup (IF BugRelaySenderOnly THEN {<<p, x>>} ELSE {<<q, x>> : q \in Live})
                 /\ UNCHANGED closed

HandleT(p, m) ==
    /\ inq' = [inq EXCEPT ![p] = Tail(@)]
    /\ offered' = offered \cup {[t |-> m.t, ok |-> m.ok, aft |-> (pc = "wait")]}
    /\ IF m.t \in mem \/ \E e \in txin : e.t = m.t
       THEN UNCHANGED txin
       ELSE txin' = txin \cup {[t |-> m.t, ok |-> m.ok]}

\* handleInvCmd(extensible): what the pool does not hold is requested (getdata); the peer answers on the same connection
HandleI(p, m) ==
    /\ inq' = [inq EXCEPT ![p] = IF m.x \in pool THEN Tail(@) ELSE Append(Tail(@), XM(m.x))]

HandleG(p, m) ==
    /\ inq' = [inq EXCEPT ![p] = Tail(@)]
    /\ served' = IF m.x \in pool THEN served \cup {<<p, m.x>>} ELSE served

Handle(p) ==
    /\ p \in Live /\ inq[p] # <<>>
    /\ LET m == Head(inq[p]) IN
       CASE m.k = "x" -> HandleX(p, m) /\ UNCHANGED <<synced, started, mem, txin, cb, have, pc, miss, want, asked, todo, offered, served>>
         [] m.k = "t" -> HandleT(p, m) /\ UNCHANGED <<synced, started, closed, pool, dcnt, told, svcq, mem, cb, have, pc, miss, want, asked, todo, rcv, served>>
         [] m.k = "g" -> HandleG(p, m) /\ UNCHANGED <<synced, started, closed, pool, dcnt, told, svcq, mem, txin, cb, have, pc, miss, want, asked, todo, rcv, offered>>
         [] m.k = "i" -> HandleI(p, m) /\ UNCHANGED <<synced, started, closed, pool, dcnt, told, svcq, mem, txin, cb, have, pc, miss, want, asked, todo, rcv, offered, served>>

TxLoop(e) ==
    /\ e \in txin
    /\ svcq' = IF e.t \in cb /\ started THEN Append(svcq, [k |-> "t", t |-> e.t, ok |-> e.ok]) ELSE svcq
    /\ mem' = IF e.ok /\ ~(BugDropUnsolicited /\ e.t \notin cb) THEN mem \cup {e.t} ELSE mem
    /\ txin' = txin \ {e}
    /\ UNCHANGED <<synced, started, closed, inq, pool, dcnt, told, cb, have, pc, miss, want, asked, todo, rcv, offered, served>>

\* Server.RequestTx: callback list = everything asked for; getdata to every peer, MaxH hashes per message
Request(ms) ==
    LET first == IF BugTruncate /\ Cardinality(ms) > MaxH THEN CHOOSE s \in SUBSET ms : Cardinality(s) = MaxH ELSE ms IN
    /\ cb' = ms
    /\ want' = ms
    /\ asked' = [p \in Peers |-> IF p \in Live THEN asked[p] \cup first ELSE asked[p]]
    /\ todo' = [p \in Peers |-> IF p \in Live THEN todo[p] \cup first ELSE todo[p]]

Decide(hv) == IF \E e \in hv : ~e.ok THEN "refused" ELSE "resp"

SvcTake ==
    /\ svcq # <<>> /\ pc # "looked"
    /\ svcq' = Tail(svcq)
    /\ LET ev == Head(svcq) IN
       CASE ev.k = "x" /\ ev.x = Req /\ pc = "idle" ->
              LET ms == Named \ mem IN
              IF ms = {} THEN /\ pc' = "resp" /\ have' = {[t |-> t, ok |-> TRUE] : t \in Named} /\ miss' = {}
                              /\ UNCHANGED <<cb, want, asked, todo>>
              ELSE /\ have' = {[t |-> t, ok |-> TRUE] : t \in Named \cap mem} /\ miss' = ms
                   /\ IF SplitLookup THEN pc' = "looked" /\ UNCHANGED <<cb, want, asked, todo>>
                      ELSE pc' = "wait" /\ Request(ms)
         [] ev.k = "t" /\ pc = "wait" /\ ev.t \in miss ->
              /\ have' = have \cup {[t |-> ev.t, ok |-> ev.ok]}
              /\ miss' = miss \ {ev.t}
              /\ IF miss \ {ev.t} = {} THEN pc' = Decide(have \cup {[t |-> ev.t, ok |-> ev.ok]}) /\ cb' = {}    \* StopTxFlow
                 ELSE UNCHANGED <<pc, cb>>
              /\ UNCHANGED <<want, asked, todo>>
         [] OTHER -> UNCHANGED <<pc, have, miss, cb, want, asked, todo>>
    /\ UNCHANGED <<synced, started, closed, inq, pool, dcnt, told, mem, txin, rcv, offered, served>>

SvcRequest ==
    /\ pc = "looked"
    /\ pc' = "wait" /\ Request(miss)
    /\ UNCHANGED <<synced, started, closed, inq, pool, dcnt, told, svcq, mem, txin, have, miss, rcv, offered, served>>

Env == \E p \in Peers, t \in Named : Answer(p, t)
Node == Start \/ (\E p \in Peers : Handle(p)) \/ (\E e \in txin : TxLoop(e)) \/ SvcTake \/ SvcRequest
Next == (Env \/ Node) /\ UNCHANGED uni
Spec == Init /\ [][Next]_vars

(* ------------------------------------------------------------------ Impl => Abstract *)
TypeOK == /\ pc \in {"idle", "looked", "wait", "resp", "refused"} /\ pool \subseteq X /\ mem \subseteq Named

\* nothing is in flight and nobody owes an answer
Quiescent == /\ started
             /\ \A p \in Live : inq[p] = <<>>
             /\ svcq = <<>> /\ txin = {} /\ pc # "looked"
             /\ \A p \in Live : p \in Mute \/ todo[p] \cap Holds[p] = {}

Def(x) == [cls |-> Cls[x], start |-> 0, end |-> 1]
GoodOff == {e.t : e \in {e \in offered : e.ok}}
BadOff  == {e.t : e \in {e \in offered : ~e.ok}}
BadAft  == {e.t : e \in {e \in offered : ~e.ok /\ e.aft}}       \* bad copies that arrived while the node was waiting for them
\* payloads that arrived on a connection while the node was synchronised (rcv is only filled then)
Arrived == {r[2] : r \in rcv}
SendersOf(x) == {r[1] : r \in {r \in rcv : r[2] = x}}

Safe == /\ \A x \in X : AtMostOnce(dcnt[x])
        /\ \A x \in X : dcnt[x] > 0 => ~MustNotDeliver(Def(x), 0, 0)
        /\ \A k \in told : ~MustNotRelay(Def(k[2]))
        /\ \A k \in served : ~MustNotRelay(Def(k[2]))
        /\ started => synced                                                      \* (iv) never started while behind
        /\ pc \in {"resp", "refused"} => started
        /\ pc = "resp" => ResponseJustified(Named, {}, GoodOff)

AtRest == Quiescent =>
        /\ \A x \in Arrived : MustDeliver(Def(x), 0, 0) => DeliveredOnce(dcnt[x])
        /\ \A x \in Arrived : Cls[x] # "bad" => Relayed(x, Live \ SendersOf(x), told)
        /\ (pc \in {"wait", "resp", "refused"} /\ want # {}) => \A p \in Live : PeerAskedExactly(asked[p], want)
        /\ (dcnt[Req] > 0 /\ AllGood(Named, {}, GoodOff, BadOff)) => pc = "resp"
        /\ (dcnt[Req] > 0 /\ SomeOnlyBad(Named, {}, GoodOff, BadAft)) => pc = "refused"
=============================================================================
