SPECIFICATION AllSpec
CONSTANTS
  Peers <- P2
  X <- X2
  Cls <- Cls2
  Req = "r"
  Named <- T2
  BadCopy <- Bad2
  MaxH = 2
  Universes <- AllUniverses
  SLen = 2
  Garbage <- None
  WithInv = FALSE
  BugDeliverTwice = FALSE
  BugRelaySenderOnly = FALSE
  BugTruncate = FALSE
  BugDropUnsolicited = FALSE
  BugStartBeforeSync = FALSE
  SplitLookup = FALSE
INVARIANTS TypeOK Safe AtRest
CHECK_DEADLOCK FALSE
