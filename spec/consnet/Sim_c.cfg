SPECIFICATION SimSpec
CONSTANTS
  Peers <- P3
  X <- X3
  Cls <- Cls3
  Req = "r"
  Named <- T1
  BadCopy <- None
  MaxH = 1
  Universes <- AllUniverses
  SLen = 1
  Garbage <- Gg
  WithInv = TRUE
  BugDeliverTwice = FALSE
  BugRelaySenderOnly = FALSE
  BugTruncate = FALSE
  BugDropUnsolicited = FALSE
  BugStartBeforeSync = FALSE
  SplitLookup = FALSE
INVARIANTS Emit
CHECK_DEADLOCK FALSE
