SPECIFICATION Spec
CONSTANTS
  N = 3
  Inc = 2
  MaxH = 2
  MaxReq = 1
  DesigSets <- DesigAll3
  FeeSet <- FeesOne
  MaxNet = 5
  AllowFast = FALSE
  AllowForge = FALSE
  AllowRestart = FALSE
  AllowAlt = TRUE
  AllowTick = TRUE
  BugVubCurrent = FALSE
  BugNonceLocal = FALSE
  BugFeeLocal = FALSE
  BugSigTwice = FALSE
  BugNonDesig = FALSE
  BugNoSigCheck = FALSE
  BugNoReverify = FALSE
  BugPoolTwo = FALSE
  BugBothSent = FALSE
  BugBackupWindow = FALSE
  RealResendMain = FALSE
  RealStaleBuild = FALSE
  RealIntakeRace = FALSE
  RealAttrFee = FALSE
INVARIANTS AbsInv InfoInv
CONSTRAINT Bound
VIEW View
CHECK_DEADLOCK FALSE
