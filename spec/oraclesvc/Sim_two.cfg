SPECIFICATION SimSpec
CONSTANTS
  N = 2
  Inc = 3
  MaxH = 6
  MaxReq = 2
  DesigSets <- DesigTwo2
  FeeSet <- FeesAttr
  MaxNet = 10
  AllowFast = FALSE
  AllowForge = TRUE
  AllowRestart = TRUE
  AllowAlt = TRUE
  AllowTick = TRUE
  BugVubCurrent = FALSE
  BugNonceLocal = FALSE
  BugFeeLocal = FALSE
  BugSigTwice = FALSE
  BugNonDesig = FALSE
  BugNoSigCheck = FALSE
  BugNoReverify = FALSE
  BugPoolTwo = FALSE
  BugBothSent = FALSE
  BugBackupWindow = FALSE
  RealResendMain = FALSE
  RealStaleBuild = FALSE
  RealIntakeRace = FALSE
  RealAttrFee = FALSE
  Depth = 34
INVARIANT Emit
CHECK_DEADLOCK FALSE
