------------------------------ MODULE OracleSvc ------------------------------
(***************************************************************************)
(* Abstract (property level) specification of the ORACLE SERVICE of a      *)
(* node (pkg/services/oracle) together with the native Oracle contract:    *)
(* designated oracle nodes answer the requests recorded on chain with a    *)
(* response transaction that M of them sign.                               *)
(*                                                                         *)
(* This module is an EXTENSION of the check of property C01 ("any two      *)
(* nodes fed the same sequence of blocks reach the same ledger state at    *)
(* every height ... whichever node-local options are on ... whether or not *)
(* the node was stopped and restarted").  Section JUDGED states what that  *)
(* statement literally demands of a network whose blocks carry the         *)
(* requests and the response transactions the services themselves made:    *)
(*                                                                         *)
(*   LedgersAgree   a node (whatever its node-local ledger and service     *)
(*                  options, with a service attached, restarted or not)    *)
(*                  that stored block h has the digest of the producer     *)
(*                  (a node without service) at h: state root, storage,    *)
(*                  execution results of the block - i.e. a response       *)
(*                  transaction executes the same way everywhere           *)
(*   BlockAccepted  a block the producer made and stored is stored by      *)
(*                  every node                                             *)
(*   FinishOnce     `finish` is applied at most once per request on chain  *)
(*                  (at most one response transaction per request in all   *)
(*                  blocks, at most one OracleResponse notification and    *)
(*                  one callback execution in it)                          *)
(*                                                                         *)
(* Section BEYOND states the behaviour of the service itself.  The         *)
(* statement of C01 does not imply it (a service that builds different     *)
(* transactions on different nodes only fails to answer; the ledgers still *)
(* agree), so a falsified predicate of that section is a named             *)
(* OBSERVATION ("beyond:<name>"), never a violation.                       *)
(*                                                                         *)
(* Records                                                                 *)
(*   facts f   [h, fpb, eff, attr, desig, inc]: what a ledger answers after*)
(*             block h: fee per byte, base execution fee, fee of the       *)
(*             OracleResponse attribute, designated oracle keys (set),     *)
(*             MaxValidUntilBlockIncrement                                 *)
(*   request r [id, h, gas, cls, filter, throw, fast]: h = block of the    *)
(*             requesting transaction, gas = GasForResponse, cls = what    *)
(*             the web server answers, fast = no fetch needed              *)
(*   tx t      [hash, nonce, vub, sys, net, code, res, rlen, keys, m,      *)
(*             shape]: hash of the SIGNED part, fees, response code,       *)
(*             result (short ones literally), keys of the multisignature   *)
(*             account that signs (set), its threshold, shape = script,    *)
(*             signers, scopes, attribute and witness layout as the        *)
(*             protocol prescribes                                         *)
(***************************************************************************)
EXTENDS Integers, Sequences, FiniteSets

Quorum(n) == n - ((n - 1) \div 3)

----------------------------------------------------------------------------
\* JUDGED (the statement of C01)
LedgersAgree(nodeDigest, producerDigest) == nodeDigest = producerDigest
FinishOnce(count, resp, cb) == count <= 1 /\ resp <= 1 /\ cb <= 1

----------------------------------------------------------------------------
\* BEYOND: the protocol table of answers (HTTP side of the service)
\* what a fetch of the URL class yields, before the filter
FetchCode(ans) ==
    CASE ans \in {"ok", "big", "maxsize", "redirok"}      -> "Success"
      [] ans = "notfound"                                  -> "NotFound"
      [] ans \in {"forbidden", "redirloop", "redirhttp"}   -> "Forbidden"   \* 403; more than 2 redirections; https -> http
      [] ans = "timeout"                                   -> "Timeout"     \* 408
      [] ans = "toolarge"                                  -> "ResponseTooLarge"
      [] ans \in {"badct", "noct"}                         -> "ContentTypeNotSupported"
      [] ans \in {"ftp", "malformed"}                      -> "ProtocolNotSupported"
      [] OTHER                                             -> "Error"       \* 500, transport error, invalid UTF-8

\* the JSON document the classes "ok" / "redirok" serve:  {"f":1,"g":[1,2],"s":"x"}
\* JSONPath results are the array of matches, compactly serialised (hex below)
Doc == "hex:7b2266223a312c2267223a5b312c325d2c2273223a2278227d"
Filtered(filter) ==
    CASE filter = ""        -> Doc
      [] filter = "$.f"     -> "s:[1]"
      [] filter = "$..f"    -> "s:[1]"
      [] filter = "$.g"     -> "s:[[1,2]]"
      [] filter = "$.g[1]"  -> "s:[2]"
      [] filter = "$.x"     -> "s:[]"
      [] filter = "$.s"     -> "hex:5b2278225d"                                               \* ["x"]
      [] filter = "$"       -> "hex:5b7b2266223a312c2267223a5b312c325d2c2273223a2278227d5d"   \* [doc]
      [] OTHER              -> "invalid"
FilteredLen(filter) ==
    CASE filter = "" -> 25 [] filter \in {"$.f", "$..f", "$.g[1]"} -> 3 [] filter = "$.g" -> 7 [] filter = "$.x" -> 2
      [] filter = "$.s" -> 5 [] filter = "$" -> 27 [] OTHER -> 0

\* code and result of the answer after the filter (long documents are requested without filter)
AnswerCode(ans, filter) ==
    IF FetchCode(ans) # "Success" THEN FetchCode(ans)
    ELSE IF ans \in {"ok", "redirok"} /\ Filtered(filter) = "invalid" THEN "Error" ELSE "Success"
AnswerLen(ans, filter) ==
    IF AnswerCode(ans, filter) # "Success" THEN 0
    ELSE CASE ans = "big" -> 3008 [] ans = "maxsize" -> 65535 [] OTHER -> FilteredLen(filter)
AnswerRes(ans, filter) ==      \* "long" = only the length is stated
    IF AnswerCode(ans, filter) # "Success" THEN "s:"
    ELSE IF ans \in {"big", "maxsize"} THEN "long" ELSE Filtered(filter)

\* fees: the network fee covers the size and the verification of both witnesses; bounds, not a formula
VerifyBound(f) == (f.eff \div 10000) * 40000 * (Cardinality(f.desig) + 2)
MustAfford(r, f, len)      == (len + 700) * f.fpb + VerifyBound(f) <= r.gas
MustInsufficient(r, f, len) == len * f.fpb > r.gas

----------------------------------------------------------------------------
\* BEYOND: the response transaction as a function of (request, answer, chain facts where it is built)
Shape(t)        == t.shape
Nonce(t, r)     == t.nonce = r.id
MainVub(t, r, f) == t.vub = r.h + f.inc
\* the backup must be valid where it is built: the first window end beyond the builder's height
BackupVubOf(r, f, hb) == LET d == IF hb > r.h THEN hb - r.h ELSE 0 IN r.h + f.inc * ((d \div f.inc) + 1)
BackupVub(t, r, f, hb) == t.vub = BackupVubOf(r, f, hb)
FeeSum(t, r, f) == t.sys + t.net = r.gas /\ (MustAfford(r, f, 0) => t.sys >= 0)
Signers(t, f)   == t.keys = f.desig /\ t.m = Quorum(Cardinality(f.desig))
MainCode(t, r, ans, f) ==
    LET c == AnswerCode(ans, r.filter) len == AnswerLen(ans, r.filter) IN
    \/ t.code = c /\ ~MustInsufficient(r, f, len)
    \/ t.code = "InsufficientFunds" /\ ~MustAfford(r, f, len)
MainRes(t, r, ans) ==
    IF t.code = "Success"
    THEN /\ t.rlen = AnswerLen(ans, r.filter)
         /\ AnswerRes(ans, r.filter) # "long" => t.res = AnswerRes(ans, r.filter)
    ELSE t.rlen = 0
BackupCode(t)   == t.code = "ConsensusUnreachable" /\ t.rlen = 0

\* names of the falsified predicates of one build b = [main, backup, ans, h] of request r under facts f
BuildFails(b, r, f) ==
    LET N(c, n) == IF c THEN {} ELSE {n} IN
    N(Shape(b.main) /\ Shape(b.backup), "TxShape")
    \cup N(Nonce(b.main, r) /\ Nonce(b.backup, r), "Nonce")
    \cup N(MainVub(b.main, r, f), "MainVub")
    \cup N(BackupVub(b.backup, r, f, b.h), "BackupVub")
    \cup N(FeeSum(b.main, r, f) /\ FeeSum(b.backup, r, f), "FeeSum")
    \cup N(Signers(b.main, f) /\ Signers(b.backup, f), "Signers")
    \cup N(MainCode(b.main, r, b.ans, f), "ResponseCode")
    \cup N(MainRes(b.main, r, b.ans), "Result")
    \cup N(BackupCode(b.backup), "BackupCode")

\* determinism: the context of a build and what two builds with the same context must share
Ctx(b, r, f) == <<r.id, b.ans, f.fpb, f.eff, f.attr, f.desig, f.inc>>
Agree(s1, s2) == s1.ctx = s2.ctx => (s1.main = s2.main /\ (s1.bvub = s2.bvub => s1.backup = s2.backup))

----------------------------------------------------------------------------
\* BEYOND: sending.  s = [which, wit (sequence of key ids whose signature is in the witness), pushes, junk, h, vub,
\*                       ok, pending, conflict, samefees (the fee policy of the ledger that judges it is the one it was built under)]
SentIsBuilt(s)   == s.which \in {"main", "backup"}
SentQuorum(s, f) ==
    LET W == {s.wit[i] : i \in DOMAIN s.wit} IN
    /\ ~s.junk /\ s.pushes = Len(s.wit) /\ Cardinality(W) = Len(s.wit)
    /\ W \subseteq f.desig /\ Cardinality(W) = Quorum(Cardinality(f.desig))
\* the ledger takes a response to a pending request that is not expired and does not compete with a pooled one ...
Acceptable(s)    == s.pending /\ ~s.conflict /\ s.vub > s.h /\ s.samefees
SentAccepted(s)  == Acceptable(s) => s.ok
\* ... and nothing for a request that is unknown or finished
UnknownRefused(s) == s.ok => s.pending

\* the first node that holds M signatures of designated keys for a transaction it built sends it
\* got = set of <<key, hash>> the node received (see OracleSvcTrace for what "received" means before the own build)
HasQuorum(n, hash, keys, got, f) ==
    keys = f.desig /\ Cardinality({k \in keys : k = n \/ <<k, hash>> \in got}) >= Quorum(Cardinality(f.desig))
SendsWhenQuorum(n, b, got, f, sentFlag) ==
    (HasQuorum(n, b.main.hash, b.main.keys, got, f) \/ HasQuorum(n, b.backup.hash, b.backup.keys, got, f)) => sentFlag
\* ... and only then
SendsOnlyWithQuorum(n, b, got, f, sentFlag) ==
    sentFlag => (HasQuorum(n, b.main.hash, b.main.keys, got, f) \/ HasQuorum(n, b.backup.hash, b.backup.keys, got, f))

\* what is included was sent by somebody; a request finished on chain leaves the pending set
IncludedWasSent(hash, sentHashes) == hash \in sentHashes
FinishedGone(req, pend)           == req \notin pend
\* ... and the node that stores that block forgets what its service held for the request (held = keys <<node, req>>)
FinishedForgotten(k, held)        == k \notin held
\* a plain request (callback does not throw, system fee plenty for a short result) is finished by a HALTed transaction
\* that notifies and calls back exactly once
\* i = [code, state, resp, cb, sys, rlen] of the included transaction
FinishRuns(i, r) == (~r.throw /\ i.sys >= 30000000 /\ i.rlen <= 30) => (i.state = "HALT" /\ i.resp = 1 /\ i.cb = 1)
=============================================================================
