---------------------------- MODULE OracleSvcImpl ----------------------------
(***************************************************************************)
(* Implementation-shaped model of the oracle service (pkg/services/oracle) *)
(* of N nodes, the native Oracle contract and the ledger's pool rule: one  *)
(* action per critical section of the real code.                           *)
(*                                                                         *)
(*   Mine        the producer makes a block: a new request                 *)
(*               (Oracle.request), a designation / fee change, and the     *)
(*               pooled responses (Oracle.finish; PostPersist removes the  *)
(*               request)                                                  *)
(*   Relay       a transaction a service sent reaches the producer's pool  *)
(*               (verifyAndPoolTx + the pool's one-response-per-request    *)
(*               rule)                                                     *)
(*   Deliver     a node stores its next block: PostPersist -> RemoveRequests*)
(*               for finished requests, AddRequests for new ones (request  *)
(*               intake: queued for a worker), UpdateOracleNodes           *)
(*   Fetch       a worker's processRequest: HTTP answer, CreateResponseTx  *)
(*               for main and backup (testVerify / fee computation), own   *)
(*               signatures, reverifyTx of signatures that came early,     *)
(*               finalize, SendResponse (main signature to the peers),     *)
(*               maybe OnTransaction                                       *)
(*   Recv        AddResponse: the incomplete-transaction map, signature    *)
(*               check if the own transactions exist, else kept unverified *)
(*               (one slot per key), finalize, maybe OnTransaction         *)
(*   Tick        the refresh timer's processFailedRequest: resend if sent, *)
(*               else finalize the backup only and broadcast the backup    *)
(*               signature                                                 *)
(*   Forge       a signature by a key that is not designated, or junk      *)
(*               under a designated key                                    *)
(*   Restart     the service (and ledger) starts again: SetOracle ->       *)
(*               AddRequests(all pending)                                  *)
(*                                                                         *)
(* The model is the REPAIRED / ideal service.  Named deviations (CONSTANT   *)
(* switches) must each be refuted by TLC through the abstract predicates   *)
(* of OracleSvc.  Switches named Real* are behaviours the unchanged tree   *)
(* actually has (found by this extension, reported as observations).       *)
(***************************************************************************)
EXTENDS Integers, Sequences, FiniteSets, TLC

CONSTANTS N, Inc, MaxH, MaxReq, DesigSets, FeeSet, MaxNet, AllowFast, AllowForge, AllowRestart, AllowAlt, AllowTick,
          BugVubCurrent,    \* main ValidUntilBlock from the node's current height
          BugNonceLocal,    \* nonce from a node-local counter
          BugFeeLocal,      \* network fee from a node-local setting
          BugSigTwice,      \* a repeated signature of one key counts again
          BugNonDesig,      \* signatures of keys that are not designated count
          BugNoSigCheck,    \* AddResponse does not verify the signature
          BugNoReverify,    \* early signatures are counted without verification once the own transaction exists
          BugPoolTwo,       \* the pool admits a second response to one request
          BugBothSent,      \* the sent flag does not stop a second (different) transaction
          BugBackupWindow,  \* backup ValidUntilBlock = main's (not valid where it is built)
          RealResendMain,   \* the refresh re-sends the MAIN transaction after the BACKUP was sent (witness incomplete)
          RealStaleBuild,   \* transactions built for an earlier designation are kept and finalized against the new one
          RealIntakeRace,   \* a request that needs no fetch is processed before its block is stored: height - 1
          RealAttrFee       \* the fee of the OracleResponse attribute is not added to the network fee

Nodes    == 0..(N - 1)
Outsider == 99
Gas      == 100000000
NoneH    == <<0, "none">>
JunkH    == <<0, "junk">>
NoTx     == [hash |-> NoneH, bh |-> 0]

M == INSTANCE OracleSvc

VARIABLES h, desigAt, feeAt, reqs, fin, pool, nh, ent, queue, net, sentlog, relaylog, builds, last
vars == <<h, desigAt, feeAt, reqs, fin, pool, nh, ent, queue, net, sentlog, relaylog, builds, last>>

Facts(hh) == [h |-> hh, fpb |-> feeAt[hh].fpb, eff |-> 300000, attr |-> feeAt[hh].attr, desig |-> desigAt[hh], inc |-> Inc]
ReqIds    == DOMAIN reqs
Rq(r)     == [id |-> r, h |-> reqs[r].h, gas |-> Gas, cls |-> "ok", filter |-> "", throw |-> FALSE, fast |-> reqs[r].fast]
PendingAt(hh) == {r \in ReqIds : reqs[r].h <= hh /\ (reqs[r].done = 0 \/ reqs[r].done > hh)}

\* what the ledger demands / what the service computes for the network fee (size taken as 200 bytes)
NeedNet(hh)     == feeAt[hh].fpb * 200 + feeAt[hh].attr
ServiceNet(n, hh) == feeAt[hh].fpb * 200 + (IF RealAttrFee THEN 0 ELSE feeAt[hh].attr) - (IF BugFeeLocal THEN n ELSE 0)

Tx(r, kind, ans, vub, nonce, netfee, keys, bh) ==
    [bh |-> bh, hash |-> <<r, kind, IF kind = "b" THEN "" ELSE ans, vub, nonce, netfee, keys>>, nonce |-> nonce, vub |-> vub, sys |-> Gas - netfee, net |-> netfee,
     code |-> IF kind = "b" THEN "ConsensusUnreachable" ELSE M!AnswerCode(ans, ""),
     res |-> IF kind = "b" THEN "s:" ELSE M!AnswerRes(ans, ""),
     rlen |-> IF kind = "b" THEN 0 ELSE M!AnswerLen(ans, ""),
     keys |-> keys, m |-> M!Quorum(Cardinality(keys)), shape |-> TRUE]

\* entry of the incomplete-transaction map
NewEntry == [main |-> NoTx, backup |-> NoTx, sigs |-> {}, bsigs |-> {}, junk |-> {}, slot |-> {}, dups |-> 0, sent |-> FALSE, sentH |-> NoneH]
Has(n, r) == r \in DOMAIN ent[n]
E(n, r)   == IF Has(n, r) THEN ent[n][r] ELSE NewEntry
SetE(n, r, e) == [ent EXCEPT ![n] = (r :> e) @@ @]
DropE(f, R) == [x \in (DOMAIN f) \ R |-> f[x]]

Min(S) == CHOOSE x \in S : \A y \in S : x <= y
RECURSIVE FirstK(_, _)
FirstK(S, k) == IF k = 0 \/ S = {} THEN <<>> ELSE <<Min(S)>> \o FirstK(S \ {Min(S)}, k - 1)

\* finalize: M signatures of designated keys (finalizeTx walks the designated keys in order)
Countable(sigs, nodes) == IF BugNonDesig THEN sigs ELSE sigs \cap nodes
Ready(sigs, dups, nodes) == Cardinality(Countable(sigs, nodes)) + dups >= M!Quorum(Cardinality(nodes))
WitOf(sigs, nodes)       == FirstK(Countable(sigs, nodes), M!Quorum(Cardinality(nodes)))

SentRec(n, tx, which, wit, junkkeys) ==
    [node |-> n, req |-> tx.hash[1], which |-> which, hash |-> tx.hash, wit |-> wit, pushes |-> Len(wit),
     junk |-> \E i \in DOMAIN wit : wit[i] \in junkkeys, h |-> nh'[n], vub |-> tx.vub, net |-> tx.net, keys |-> tx.keys, bh |-> tx.bh]

\* finalize + send decision of processRequest / AddResponse (backupOnly = FALSE) and processFailedRequest (TRUE)
\* returns <<entry', set of sent records>>
Finalize(n, r, e, backupOnly) ==
    LET nodes == desigAt[nh'[n]]
        mr == ~backupOnly /\ e.main # NoTx /\ Ready(e.sigs, e.dups, nodes)
        br == e.backup # NoTx /\ Ready(e.bsigs, 0, nodes)
        tx == IF mr THEN e.main ELSE e.backup
        which == IF mr THEN "main" ELSE "backup"
        wit == IF mr THEN WitOf(e.sigs, nodes) ELSE WitOf(e.bsigs, nodes)
    IN IF (mr \/ br) /\ (~e.sent \/ (BugBothSent /\ e.sentH # tx.hash))
       THEN <<[e EXCEPT !.sent = TRUE, !.sentH = tx.hash], {SentRec(n, tx, which, wit, e.junk)}>>
       ELSE <<e, {}>>

Init ==
    /\ h = 0 /\ desigAt = [x \in 0..MaxH |-> CHOOSE d \in DesigSets : \A d2 \in DesigSets : Cardinality(d2) <= Cardinality(d)]
    /\ feeAt = [x \in 0..MaxH |-> CHOOSE f \in FeeSet : \A f2 \in FeeSet : f.fpb <= f2.fpb /\ f.attr <= f2.attr]
    /\ reqs = <<>> /\ fin = [r \in 1..MaxReq |-> 0] /\ pool = {} /\ nh = [n \in Nodes |-> 0]
    /\ ent = [n \in Nodes |-> <<>>] /\ queue = [n \in Nodes |-> {}] /\ net = {} /\ sentlog = {} /\ relaylog = {} /\ builds = {}
    /\ last = [op |-> "init"]

\* ---------------------------------------------------------------- producer
\* new: 0/1 requests; d, f: facts after the block; the pool goes into the block
Mine(new, fastreq, d, f) ==
    /\ h < MaxH
    /\ new = 1 => Len(reqs) < MaxReq
    /\ h' = h + 1
    /\ desigAt' = [x \in 0..MaxH |-> IF x > h THEN d ELSE desigAt[x]]
    /\ feeAt' = [x \in 0..MaxH |-> IF x > h THEN f ELSE feeAt[x]]
    /\ LET incl == {t \in pool : reqs[t.hash[1]].done = 0 /\ t.vub >= h + 1}   \* block verification repeats the pool's checks
           R2 == [r \in DOMAIN reqs |-> IF \E t \in incl : t.hash[1] = r THEN [reqs[r] EXCEPT !.done = h + 1] ELSE reqs[r]]
       IN /\ reqs' = IF new = 1 THEN Append(R2, [h |-> h + 1, done |-> 0, fast |-> fastreq]) ELSE R2
          /\ fin' = [r \in 1..MaxReq |-> fin[r] + Cardinality({t \in incl : t.hash[1] = r})]
    /\ pool' = {}
    /\ last' = [op |-> "mine", new |-> new, fast |-> fastreq, desig |-> IF d = desigAt[h] THEN <<>> ELSE FirstK(d, N), fee |-> f.lvl]
    /\ UNCHANGED <<nh, ent, queue, net, sentlog, relaylog, builds>>

\* what the producer's ledger says to a transaction a service sent
WitnessOK(s, hh) == s.keys = desigAt[hh] /\ M!SentQuorum(s, Facts(hh))
Relay(s) ==
    /\ s \in sentlog
    /\ LET r == s.req
           pending == reqs[r].done = 0
           conflict == \E t \in pool : t.hash[1] = r /\ t.hash # s.hash
           ok == pending /\ s.vub > h /\ WitnessOK(s, h) /\ s.net >= NeedNet(h) /\ (~conflict \/ BugPoolTwo)
           tx == CHOOSE t \in {E(s.node, r).main, E(s.node, r).backup} \cup {b.main : b \in builds} \cup {b.backup : b \in builds} : t.hash = s.hash
       IN /\ pool' = IF ok THEN pool \cup {tx} ELSE pool
          /\ relaylog' = relaylog \cup {[pending |-> pending, conflict |-> conflict, vub |-> s.vub, h |-> h, ok |-> ok,
                                          wok |-> WitnessOK(s, h), samefees |-> feeAt[s.bh] = feeAt[h]]}
          /\ pool' # pool \/ relaylog' # relaylog
    /\ last' = [op |-> "relay"]
    /\ UNCHANGED <<h, desigAt, feeAt, reqs, fin, nh, ent, queue, net, sentlog, builds>>

\* ---------------------------------------------------------------- node: block intake
Build(n, r, ans, raced) ==
    LET rq == reqs[r]
        hb == nh'[n]
        f == Facts(hb)
        base == IF raced THEN rq.h - 1 ELSE rq.h
        mvub == IF BugVubCurrent THEN hb + Inc ELSE base + Inc
        bvub == IF BugBackupWindow THEN mvub ELSE M!BackupVubOf([h |-> base], f, hb)
        nonce == IF BugNonceLocal THEN r + n ELSE r
        nf == ServiceNet(n, hb)
    IN [main |-> Tx(r, "m", ans, mvub, nonce, nf, desigAt[hb], hb), backup |-> Tx(r, "b", ans, bvub, nonce, nf, desigAt[hb], hb)]

\* processRequest after the answer is known: e0 = entry before (may hold early signatures)
Process(n, r, ans, raced, base) ==
    LET b == Build(n, r, ans, raced)
        e0 == IF r \in DOMAIN base THEN base[r] ELSE NewEntry
        early(hash) == {p[1] : p \in {q \in e0.slot : q[2] = hash \/ (BugNoReverify /\ hash = b.main.hash)}}
        e1 == [e0 EXCEPT !.main = b.main, !.backup = b.backup,
                         !.sigs = {n} \cup early(b.main.hash), !.bsigs = {n} \cup (IF BugNoReverify THEN {} ELSE early(b.backup.hash)),
                         !.junk = IF BugNoReverify THEN {p[1] : p \in {q \in e0.slot : q[2] # b.main.hash}} ELSE {},
                         !.slot = {}]
        fz == Finalize(n, r, e1, FALSE)
    IN /\ ent' = [ent EXCEPT ![n] = (r :> fz[1]) @@ base]
       /\ sentlog' = sentlog \cup fz[2]
       /\ net' = net \cup {[from |-> n, req |-> r, hash |-> b.main.hash]}
       /\ builds' = builds \cup {[node |-> n, req |-> r, ans |-> ans, h |-> nh'[n], main |-> b.main, backup |-> b.backup]}

Deliver(n) ==
    /\ nh[n] < h
    /\ nh' = [nh EXCEPT ![n] = @ + 1]
    /\ LET b == nh[n] + 1
           finished == {r \in ReqIds : reqs[r].done = b}
           newreq == {r \in ReqIds : reqs[r].h = b}
           redesig == desigAt[b] # desigAt[b - 1]
           mine == n \in desigAt[b]
           kept == IF redesig /\ ~RealStaleBuild THEN <<>> ELSE DropE(ent[n], finished)
           pend == PendingAt(b) \ finished
           fastnew == {r \in newreq : reqs[r].fast}
       IN IF fastnew # {} /\ mine
          THEN \* no fetch: processed while the block is being stored
               \E raced \in (IF RealIntakeRace THEN BOOLEAN ELSE {FALSE}) :
                  LET r == CHOOSE x \in fastnew : TRUE IN
                  /\ Process(n, r, "ftp", raced, kept)
                  /\ queue' = [queue EXCEPT ![n] = @ \ finished]
          ELSE /\ ent' = [ent EXCEPT ![n] = kept]
               /\ queue' = [queue EXCEPT ![n] = IF ~mine THEN {} ELSE IF redesig /\ ~RealStaleBuild THEN pend ELSE (@ \ finished) \cup newreq]
               /\ UNCHANGED <<sentlog, net, builds>>
    /\ last' = [op |-> "deliver", node |-> n]
    /\ UNCHANGED <<h, desigAt, feeAt, reqs, fin, pool, relaylog>>

Fetch(n, r, alt) ==
    /\ r \in queue[n]
    /\ UNCHANGED nh
    /\ queue' = [queue EXCEPT ![n] = @ \ {r}]
    /\ Process(n, r, IF alt THEN "notfound" ELSE "ok", FALSE, ent[n])
    /\ last' = [op |-> "answer", node |-> n, req |-> r, alt |-> alt]
    /\ UNCHANGED <<h, desigAt, feeAt, reqs, fin, pool, relaylog>>

\* AddResponse
Recv(n, m) ==
    /\ m \in net /\ m.from # n
    /\ UNCHANGED nh
    /\ LET r == m.req
           e0 == E(n, r)
           known == e0.main # NoTx
           forMain == m.hash = e0.main.hash
           forBackup == m.hash = e0.backup.hash
           e1 == IF ~known
                 THEN [e0 EXCEPT !.slot = {p \in @ : p[1] # m.from} \cup {<<m.from, m.hash>>}]
                 ELSE IF forMain \/ (BugNoSigCheck /\ ~forBackup)
                      THEN [e0 EXCEPT !.sigs = @ \cup {m.from}, !.junk = IF forMain THEN @ ELSE @ \cup {m.from},
                                      !.dups = IF BugSigTwice /\ m.from \in e0.sigs /\ @ < 2 THEN @ + 1 ELSE @]
                      ELSE IF forBackup THEN [e0 EXCEPT !.bsigs = @ \cup {m.from}]
                      ELSE e0
           fz == Finalize(n, r, e1, FALSE)
       IN /\ ent' = SetE(n, r, fz[1])
          /\ sentlog' = sentlog \cup fz[2]
          /\ ent' # ent
    /\ last' = [op |-> "sig", from |-> m.from, to |-> n, req |-> m.req,
                which |-> IF \E b \in builds : b.backup.hash = m.hash THEN "backup" ELSE "main",
                mode |-> IF m.hash = JunkH THEN "junk" ELSE IF m.from = Outsider THEN "outsider" ELSE "ok"]
    /\ UNCHANGED <<h, desigAt, feeAt, reqs, fin, pool, queue, net, relaylog, builds>>

\* processFailedRequest
Tick(n, r) ==
    /\ Has(n, r) /\ ent[n][r].main # NoTx
    /\ UNCHANGED nh
    /\ LET e0 == ent[n][r] IN
       IF e0.sent
       THEN LET nodes == desigAt[nh'[n]]
                tx == IF RealResendMain \/ e0.sentH = e0.main.hash THEN e0.main ELSE e0.backup
                wit == IF tx = e0.main THEN WitOf(e0.sigs, nodes) ELSE WitOf(e0.bsigs, nodes)
            IN /\ sentlog' = sentlog \cup {SentRec(n, tx, IF tx = e0.main THEN "main" ELSE "backup", wit, e0.junk)}
               /\ sentlog' # sentlog
               /\ UNCHANGED <<ent, net>>
       ELSE LET fz == Finalize(n, r, e0, TRUE) IN
            /\ ent' = SetE(n, r, fz[1])
            /\ sentlog' = sentlog \cup fz[2]
            /\ net' = net \cup {[from |-> n, req |-> r, hash |-> e0.backup.hash]}
            /\ (ent' # ent \/ net' # net)
    /\ last' = [op |-> "tick", node |-> n, req |-> r]
    /\ UNCHANGED <<h, desigAt, feeAt, reqs, fin, pool, queue, relaylog, builds>>

\* a signature nobody designated made, or junk under a designated key
Forge(k, n, r) ==
    /\ AllowForge /\ Has(n, r) /\ ent[n][r].main # NoTx /\ k # n
    /\ net' = net \cup {[from |-> k, req |-> r, hash |-> IF k = Outsider THEN ent[n][r].main.hash ELSE JunkH]}
    /\ net' # net /\ Cardinality(net') <= MaxNet
    /\ last' = [op |-> "forge"]
    /\ UNCHANGED <<h, desigAt, feeAt, reqs, fin, pool, nh, ent, queue, sentlog, relaylog, builds>>

Restart(n) ==
    /\ AllowRestart /\ ent[n] # <<>>
    /\ ent' = [ent EXCEPT ![n] = <<>>]
    /\ queue' = [queue EXCEPT ![n] = IF n \in desigAt[nh[n]] THEN PendingAt(nh[n]) ELSE {}]
    /\ last' = [op |-> "restart", node |-> n, ledger |-> TRUE]
    /\ UNCHANGED <<h, desigAt, feeAt, reqs, fin, pool, nh, net, sentlog, relaylog, builds>>

Next ==
    \/ \E new \in {0, 1}, fastreq \in (IF AllowFast THEN BOOLEAN ELSE {FALSE}), d \in DesigSets, f \in FeeSet :
          (new = 0 => ~fastreq) /\ Mine(new, fastreq, d, f)
    \/ \E s \in sentlog : Relay(s)
    \/ \E n \in Nodes : Deliver(n) \/ Restart(n)
    \/ \E n \in Nodes, r \in ReqIds : Fetch(n, r, FALSE) \/ (AllowAlt /\ Fetch(n, r, TRUE)) \/ (AllowTick /\ Tick(n, r))
    \/ \E n \in Nodes, m \in net : Recv(n, m)
    \/ \E k \in Nodes \cup {Outsider}, n \in Nodes, r \in ReqIds : Forge(k, n, r)

Spec == Init /\ [][Next]_vars
\* exhaustive runs identify states that differ only in the label of the last action
View == <<h, desigAt, feeAt, reqs, fin, pool, nh, ent, queue, net, sentlog, relaylog, builds>>

\* ---------------------------------------------------------------- the abstract predicates on the model's history
Summary(b) == [ctx |-> M!Ctx(b, Rq(b.req), Facts(b.h)), main |-> b.main.hash, bvub |-> b.backup.vub, backup |-> b.backup.hash]
BuildsOK  == \A b \in builds : M!BuildFails(b, Rq(b.req), Facts(b.h)) = {}
Agreement == \A b1, b2 \in builds : M!Agree(Summary(b1), Summary(b2))
SentOK    == \A s \in sentlog : M!SentIsBuilt(s) /\ M!SentQuorum(s, Facts(s.h))
\* got = what the entry holds as verified (the model's receiver state IS the spec's "received" set)
GotOf(e)  == {<<k, e.main.hash>> : k \in e.sigs \ e.junk} \cup {<<k, e.backup.hash>> : k \in e.bsigs}
QuorumRule ==
    \A n \in Nodes : \A r \in DOMAIN ent[n] :
        LET e == ent[n][r] IN
        e.main # NoTx =>
            /\ M!SendsWhenQuorum(n, e, GotOf(e), Facts(nh[n]), e.sent)
            /\ M!SendsOnlyWithQuorum(n, e, GotOf(e), Facts(nh[n]), e.sent)
FinishOnce == \A r \in 1..MaxReq : M!FinishOnce(fin[r], 1, 1)
Accepted   == \A x \in relaylog : x.wok => (M!SentAccepted(x) /\ M!UnknownRefused(x))    \* x.samefees is part of Acceptable
SingleSend == \A s1, s2 \in sentlog : (s1.node = s2.node /\ s1.req = s2.req /\ s1.h = s2.h /\ s1.keys = s2.keys) => s1.hash = s2.hash

AbsInv == BuildsOK /\ Agreement /\ SentOK /\ QuorumRule /\ FinishOnce /\ Accepted
\* a restart forgets what was sent: the rule is per incarnation (the model keeps no incarnation number)
InfoInv == AllowRestart \/ SingleSend
=============================================================================
