SPECIFICATION Spec
CONSTANTS
  N = 2
  Inc = 2
  MaxH = 3
  MaxReq = 1
  DesigSets <- DesigAll2
  FeeSet <- FeesOne
  MaxNet = 4
  AllowFast = FALSE
  AllowForge = TRUE
  AllowRestart = FALSE
  AllowAlt = TRUE
  AllowTick = TRUE
  BugVubCurrent = FALSE
  BugNonceLocal = FALSE
  BugFeeLocal = FALSE
  BugSigTwice = FALSE
  BugNonDesig = FALSE
  BugNoSigCheck = FALSE
  BugNoReverify = FALSE
  BugPoolTwo = FALSE
  BugBothSent = FALSE
  BugBackupWindow = FALSE
  RealResendMain = FALSE
  RealStaleBuild = FALSE
  RealIntakeRace = FALSE
  RealAttrFee = FALSE
INVARIANTS AbsInv InfoInv
CONSTRAINT Bound
VIEW View
CHECK_DEADLOCK FALSE
