---------------------------- MODULE OracleSvcSim ----------------------------
(* Behaviour generator: OracleSvcImpl plus a history variable, printed as JSON when the depth bound is reached
   (tlc -simulate).  Every entry is the label of the action taken plus the model's prediction of the services' "sent"
   flags after it (the harness compares them with the real flags: a difference is drift, not a verdict). *)
EXTENDS MCOracleSvc, Json

CONSTANT Depth
VARIABLE hist

Flags == {<<n, r>> : n \in Nodes, r \in 1..MaxReq} \cap {p \in Nodes \X (1..MaxReq) : p[2] \in DOMAIN ent'[p[1]] /\ ent'[p[1]][p[2]].sent}
SimInit == Init /\ hist = << [op |-> "init", n |-> N, inc |-> Inc, desig |-> FirstK(desigAt[0], N)] >>
SimNext == /\ Next
           /\ hist' = Append(hist, [last' EXCEPT !.op = @] @@ [flags |-> Flags])
SimSpec == SimInit /\ [][SimNext]_<<vars, hist>>

Emit == Len(hist) # Depth \/ PrintT(<<"@@HIST@@", ToJson(hist)>>)
=============================================================================
