--------------------------- MODULE OracleSvcTrace ---------------------------
(* Judges traces recorded from N REAL oracle services on N real ledgers (harness/c01oraclesvc) against the ABSTRACT
   specification OracleSvc.  One event per schedule step; what the step made the real objects do is attached to it:
     built   transactions found in the incomplete-transaction map of a service (new or changed): node, req, h (height
             of that node's ledger), ans (answer class its fetch got), main, backup
     gone    entries that left the map (finished request, restart)
     st      entries whose "sent" flag changed: node, req, sent
     sent    OnTransaction calls: node, req, hash, which, wit, pushes, junk, h, vub, ok, pending, conflict
   Events: init (facts of the base height, digest), mine (producer block: facts, digest, made requests, relayed =
   service transactions offered to the producer's pool, included responses, pending set), deliver (node stores its next
   block: digest), answer, sig (a signature reaches a node: from, to, req, hash = signed part it is for, "" = junk),
   tick (refresh of one request), restart, final (nothing).
   FinishedForgotten: the block that finishes a request makes the node that stores it drop what it held for the request.
   Names of JUDGED predicates: LedgersAgree, BlockAccepted, FinishOnce.  Every other name is an observation beyond the
   statement of C01 (reported as "beyond:<name>" by the runner). *)
EXTENDS TraceIO, FiniteSets, SequencesExt, TLC

VARIABLES l,
          F,        \* facts per producer height (function)
          D,        \* producer digest per height
          R,        \* requests by id (function)
          nh,       \* ledger height per node
          B,        \* <<node, req>> -> current build
          seen,     \* summaries of all builds so far
          got,      \* <<node, req>> -> set of <<key, hash>> received since the node holds this build
          early,    \* <<node, req>> -> (key -> hash) last signature per key received BEFORE the node built
          flag,     \* <<node, req>> -> sent flag of the service
          sentH,    \* hashes (signed parts) any service sent
          sentBy,   \* <<node, req>> -> set of hashes this incarnation sent
          fin,      \* req -> number of response transactions on chain
          finH      \* req -> height of the block that finished it
vars == <<l, F, D, R, nh, B, seen, got, early, flag, sentH, sentBy, fin, finH>>

M == INSTANCE OracleSvc

\* names of predicates falsified by the i-th record of a list carry the index: "Name#i"
Tag(S, i) == {x \o "#" \o ToString(i) : x \in S}
Empty == [x \in {} |-> 0]
Get(f, k, d) == IF k \in DOMAIN f THEN f[k] ELSE d
Put(f, k, v) == (k :> v) @@ f
Drop(f, K)   == [x \in (DOMAIN f) \ K |-> f[x]]

NormF(f)  == [f EXCEPT !.desig = ToSet(@)]
NormT(t)  == [t EXCEPT !.keys = ToSet(@)]
NormB(b)  == [b EXCEPT !.main = NormT(@), !.backup = NormT(@)]
FactsAt(h) == F[h]
Rq(id)     == R[id]

Init == /\ l = 1 /\ F = Empty /\ D = Empty /\ R = Empty /\ nh = Empty /\ B = Empty /\ seen = {} /\ got = Empty
        /\ early = Empty /\ flag = Empty /\ sentH = {} /\ sentBy = Empty /\ fin = Empty /\ finH = Empty

\* ------------------------------------------------------------------ what every event may carry
BuiltOf(e) == IF "built" \in DOMAIN e THEN e.built ELSE <<>>
GoneOf(e)  == IF "gone" \in DOMAIN e THEN e.gone ELSE <<>>
StOf(e)    == IF "st" \in DOMAIN e THEN e.st ELSE <<>>
SentOf(e)  == IF "sent" \in DOMAIN e THEN e.sent ELSE <<>>

Summary(b, r, f) == [ctx |-> M!Ctx(b, r, f), main |-> b.main.hash, bvub |-> b.backup.vub, backup |-> b.backup.hash]

\* state after the service-side observations of event e (nh2 = node heights after the event)
GoneKeys(e)  == {<<GoneOf(e)[i].node, GoneOf(e)[i].req>> : i \in DOMAIN GoneOf(e)}
BuiltKeys(e) == {<<BuiltOf(e)[i].node, BuiltOf(e)[i].req>> : i \in DOMAIN BuiltOf(e)}
BuiltAt(e, k) == NormB(BuiltOf(e)[CHOOSE i \in DOMAIN BuiltOf(e) : <<BuiltOf(e)[i].node, BuiltOf(e)[i].req>> = k])

B2(e) == [k \in ((DOMAIN B) \ GoneKeys(e)) \cup BuiltKeys(e) |-> IF k \in BuiltKeys(e) THEN BuiltAt(e, k) ELSE B[k]]
\* a (re)build starts from what was received early (one slot per key) as far as it is for this build
EarlyFor(k, b) == LET ea == Get(early, k, Empty) IN
                  {<<x, ea[x]>> : x \in {y \in DOMAIN ea : ea[y] \in {b.main.hash, b.backup.hash}}}
Got1(e) == [k \in ((DOMAIN got) \ GoneKeys(e)) \cup BuiltKeys(e) |->
               IF k \in BuiltKeys(e)
               THEN IF k \in GoneKeys(e) THEN {}       \* a new incarnation starts with nothing
                    ELSE {p \in Get(got, k, {}) : p[2] \in {BuiltAt(e, k).main.hash, BuiltAt(e, k).backup.hash}}
                         \cup EarlyFor(k, BuiltAt(e, k))
               ELSE got[k]]
Early1(e) == Drop(early, GoneKeys(e) \cup BuiltKeys(e))
Flag2(e) == LET base == Drop(flag, GoneKeys(e)) IN
            [k \in (DOMAIN base) \cup {<<StOf(e)[i].node, StOf(e)[i].req>> : i \in DOMAIN StOf(e)} |->
                IF \E i \in DOMAIN StOf(e) : <<StOf(e)[i].node, StOf(e)[i].req>> = k
                THEN StOf(e)[CHOOSE i \in DOMAIN StOf(e) : <<StOf(e)[i].node, StOf(e)[i].req>> = k].sent
                ELSE base[k]]

\* ------------------------------------------------------------------ predicates on the observations
BuildChecks(e, nh2) ==
    UNION {LET b == NormB(BuiltOf(e)[i]) IN Tag(
           IF b.req \in DOMAIN R /\ b.h \in DOMAIN F
           THEN M!BuildFails(b, Rq(b.req), FactsAt(b.h))
                \cup NameIf(\A s \in seen : M!Agree(s, Summary(b, Rq(b.req), FactsAt(b.h))), "Agreement")
                \cup NameIf(\A j \in DOMAIN BuiltOf(e) : LET c == NormB(BuiltOf(e)[j]) IN
                               (c.req = b.req /\ c.h \in DOMAIN F) =>
                                   M!Agree(Summary(c, Rq(c.req), FactsAt(c.h)), Summary(b, Rq(b.req), FactsAt(b.h))), "Agreement")
           ELSE {"BuildOfUnknown"}, i) : i \in DOMAIN BuiltOf(e)}

\* the fee policy a transaction was built under is the one of the ledger that judges it
SameFees(bh, hh) == bh \in DOMAIN F /\ hh \in DOMAIN F /\ F[bh].fpb = F[hh].fpb /\ F[bh].eff = F[hh].eff /\ F[bh].attr = F[hh].attr
WithFees(s) == s @@ [samefees |-> SameFees(s.bh, s.h)]

SentChecks(e) ==
    UNION {LET s == WithFees(SentOf(e)[i]) IN Tag(
           NameIf(M!SentIsBuilt(s), "SentIsBuilt")
           \cup (IF s.h \in DOMAIN F THEN NameIf(M!SentQuorum(s, FactsAt(s.h)), "SentQuorum") ELSE {})
           \cup NameIf(M!SentAccepted(s), "SentAccepted")
           \cup NameIf(M!UnknownRefused(s), "UnknownRefused")
           \cup NameIf(Get(sentBy, <<s.node, s.req>>, {}) \subseteq {s.hash}, "SingleSend"), i)
           : i \in DOMAIN SentOf(e)}

\* quorum rule for every build a node holds, under the facts of that node's ledger
QuorumChecks(e, b2, g2, f2, nh2) ==
    LET turned == {<<StOf(e)[i].node, StOf(e)[i].req>> : i \in {j \in DOMAIN StOf(e) : StOf(e)[j].sent}} IN
    UNION {LET n == k[1] IN {x \o "#" \o ToString(n) \o "." \o ToString(k[2]) : x \in
           IF n \in DOMAIN nh2 /\ nh2[n] \in DOMAIN F /\ k[2] \in DOMAIN R
           THEN NameIf(M!SendsWhenQuorum(n, b2[k], Get(g2, k, {}), FactsAt(nh2[n]), Get(f2, k, FALSE)), "SendsWhenQuorum")
                \cup (IF k \in turned      \* judged where the flag turns: later designations do not undo a send
                      THEN NameIf(M!SendsOnlyWithQuorum(n, b2[k], Get(g2, k, {}), FactsAt(nh2[n]), TRUE), "SendsOnlyWithQuorum")
                      ELSE {})
           ELSE {}} : k \in DOMAIN b2}

SentBy2(e, base) ==
    LET ks == {<<SentOf(e)[i].node, SentOf(e)[i].req>> : i \in DOMAIN SentOf(e)} IN
    [k \in (DOMAIN base) \cup ks |->
        Get(base, k, {}) \cup {SentOf(e)[i].hash : i \in {j \in DOMAIN SentOf(e) : <<SentOf(e)[j].node, SentOf(e)[j].req>> = k}}]

\* the service-side part shared by all events; got2 = got after the event's own effect (a delivered signature)
Service(e, nh2, got2, early2, sentByBase, extra) ==
    LET b2 == B2(e) f2 == Flag2(e) IN
    /\ B' = b2 /\ flag' = f2 /\ got' = got2 /\ early' = early2
    /\ seen' = seen \cup {Summary(NormB(BuiltOf(e)[i]), Rq(BuiltOf(e)[i].req), FactsAt(BuiltOf(e)[i].h)) :
                              i \in {j \in DOMAIN BuiltOf(e) : BuiltOf(e)[j].req \in DOMAIN R /\ BuiltOf(e)[j].h \in DOMAIN F}}
    /\ sentH' = sentH \cup {SentOf(e)[i].hash : i \in DOMAIN SentOf(e)}
    /\ sentBy' = SentBy2(e, sentByBase)
    /\ Report(l, extra \cup BuildChecks(e, nh2) \cup SentChecks(e) \cup QuorumChecks(e, b2, got2, f2, nh2), [ev |-> e])

\* a signature that reaches node `to`: counted for the build it is for; before the build only the last one per key is kept
GotAfterSig(e) ==
    LET k == <<e.to, e.req>> g1 == Got1(e) b2 == B2(e) IN
    IF e.hash = "" THEN g1
    ELSE IF k \in DOMAIN b2 THEN (IF e.hash \in {b2[k].main.hash, b2[k].backup.hash} THEN Put(g1, k, Get(g1, k, {}) \cup {<<e.from, e.hash>>}) ELSE g1)
    ELSE g1
EarlyAfterSig(e) ==
    LET k == <<e.to, e.req>> e1 == Early1(e) IN
    IF k \notin DOMAIN B2(e) THEN Put(e1, k, Put(Get(e1, k, Empty), e.from, e.hash)) ELSE e1   \* junk ("") takes the slot too

IncludedChecks(e, fin2) ==
    UNION {LET i == e.included[x] IN Tag(
           NameIf(M!FinishOnce(fin2[i.req], i.resp, i.cb), "FinishOnce")
           \cup NameIf(M!IncludedWasSent(i.shash, sentH \cup {SentOf(e)[j].hash : j \in DOMAIN SentOf(e)}), "IncludedWasSent")
           \cup NameIf(M!FinishedGone(i.req, ToSet(e.pend)), "FinishedGone")
           \cup (IF i.req \in DOMAIN R THEN NameIf(M!FinishRuns(i, Rq(i.req)), "FinishRuns") ELSE {"ResponseToUnknown"}), x)
           : x \in DOMAIN e.included}
RelayChecks(e) ==
    UNION {LET s == WithFees(e.relayed[x]) IN
           Tag(NameIf(M!SentAccepted(s), "RelayAccepted") \cup NameIf(M!UnknownRefused(s), "RelayUnknownRefused"), x)
           : x \in DOMAIN e.relayed}
Fin2(e) == [r \in (DOMAIN fin) \cup {e.included[x].req : x \in DOMAIN e.included} |->
               Get(fin, r, 0) + Cardinality({x \in DOMAIN e.included : e.included[x].req = r})]

Step ==
    /\ l <= Len(TLog)
    /\ l' = l + 1
    /\ LET e == TLog[l] IN
       CASE e.event = "init" ->
              /\ F' = (e.facts.h :> NormF(e.facts)) /\ D' = (e.facts.h :> e.digest) /\ R' = Empty
              /\ nh' = [n \in 0..(e.n - 1) |-> e.facts.h]
              /\ B' = Empty /\ seen' = {} /\ got' = Empty /\ early' = Empty /\ flag' = Empty /\ sentH' = {} /\ sentBy' = Empty
              /\ fin' = Empty /\ finH' = Empty
         [] e.event = "mine" ->
              /\ F' = Put(F, e.facts.h, NormF(e.facts)) /\ D' = Put(D, e.facts.h, e.digest)
              /\ R' = [id \in (DOMAIN R) \cup {e.made[i].id : i \in DOMAIN e.made} |->
                          IF id \in DOMAIN R THEN R[id] ELSE e.made[CHOOSE i \in DOMAIN e.made : e.made[i].id = id]]
              /\ fin' = Fin2(e)
              /\ finH' = [r \in (DOMAIN finH) \cup {e.included[x].req : x \in DOMAIN e.included} |-> IF r \in DOMAIN finH THEN finH[r] ELSE e.facts.h]
              /\ UNCHANGED nh
              /\ Service(e, nh, Got1(e), Early1(e), sentBy, IncludedChecks(e, Fin2(e)) \cup RelayChecks(e))
         [] e.event = "deliver" ->
              /\ nh' = Put(nh, e.node, e.h)
              /\ UNCHANGED <<F, D, R, fin, finH>>
              /\ Service(e, Put(nh, e.node, e.h), Got1(e), Early1(e), sentBy,
                         NameIf(e.stored, "BlockAccepted")
                         \cup NameIf(\A r \in DOMAIN finH : finH[r] = e.h => M!FinishedForgotten(<<e.node, r>>, DOMAIN B2(e)), "FinishedForgotten")
                         \cup (IF e.stored /\ e.h \in DOMAIN D THEN NameIf(M!LedgersAgree(e.digest, D[e.h]), "LedgersAgree") ELSE {}))
         [] e.event = "sig" ->
              /\ UNCHANGED <<F, D, R, nh, fin, finH>>
              /\ Service(e, nh, GotAfterSig(e), EarlyAfterSig(e), sentBy, {})
         [] e.event = "restart" ->
              /\ UNCHANGED <<F, D, R, nh, fin, finH>>
              /\ Service(e, nh, Got1(e), Early1(e), Drop(sentBy, {k \in DOMAIN sentBy : k[1] = e.node}),
                         IF e.h \in DOMAIN D THEN NameIf(M!LedgersAgree(e.digest, D[e.h]), "LedgersAgree") ELSE {})
         [] OTHER ->      \* answer, tick, final
              /\ UNCHANGED <<F, D, R, nh, fin, finH>>
              /\ Service(e, nh, Got1(e), Early1(e), sentBy, {})

TraceSpec == Init /\ [][Step]_vars
=============================================================================
