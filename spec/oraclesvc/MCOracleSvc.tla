---------------------------- MODULE MCOracleSvc ----------------------------
(* Universes of the exhaustive runs of OracleSvcImpl. *)
EXTENDS OracleSvcImpl

Fee(l, fpb, attr) == [lvl |-> l, fpb |-> fpb, attr |-> attr]
\* one fee policy / two (fee per byte changes) / attribute fee appears
FeesOne  == {Fee(0, 1000, 0)}
FeesTwo  == {Fee(0, 1000, 0), Fee(1, 1500, 0)}
FeesAttr == {Fee(0, 1000, 0), Fee(4, 1000, 1000000)}
\* designations
DesigAll3 == {{0, 1, 2}}
DesigAll2 == {{0, 1}}
DesigTwo  == {{0, 1, 2}, {0, 1}}
DesigTwo2 == {{0, 1}, {0}}

\* bounds of the history sets keep the runs finite and small
Bound == Cardinality(net) <= MaxNet /\ Cardinality(sentlog) <= 6 /\ Cardinality(relaylog) <= 4
=============================================================================
