-------------------------------- MODULE GoSem --------------------------------
(* Big-step semantics of the subset in GoSubset.tla: what the Go specification says a function of such a program returns.
   TOTAL: RunEntry answers  <<"ok", value>> | <<"panic">> | <<"oos">>  ("out of scope": a bound of this model was passed -
   |integer| >= 2^30, fuel (loop iterations + calls), string / slice length - or the run touched one of the dynamically
   excluded behaviours U1, U5, U6 of the exclusion register in GoSubset.tla).

   State   st = [g : Seq(<<name, value>>)   package-level variables in declaration order
                 h : Seq(cell)              heap: [k |-> "ints"|"bytes", v |-> Seq] | [k |-> "map", ks, vs] (insertion order) | [k |-> "S", v |-> <<a, b>>]
                 fuel, pan (a panic is being propagated through a deferred call), dd (defers pending on the whole call stack),
                 tmp (range loops and switches being executed on the whole call stack: U13)]
   Frame   fr = [env : Seq(<<name, value>>)  a STACK: declarations push, leaving a block truncates, look-up finds the LAST
                                             entry of a name (shadowing), dfr : Seq(deferred bodies)]
   Expression results  [o |-> "ok" | "panic" | "rt" | "oos", v, st];  "rt" is a run-time error (a panic Go raises itself).
   Statement results   [c |-> "n" | "brk" | "cont" | "ret" | "panic" | "rt" | "oos", fr, st, lbl, rv].

   Bug (CONSTANT) selects a NAMED DEVIATION of this semantics ("none" = the semantics); GoLaws.tla states algebraic laws of
   Go that TLC must find violated for every deviation - the oracle is kept honest by a second, declarative statement. *)
EXTENDS GoSubset, TLC

CONSTANT Bug

B == 1073741824
MaxStr == 40
MaxLen == 24
Fuel == 400

Ok(v, st) == [o |-> "ok", v |-> v, st |-> st]
Er(o, st) == [o |-> o, v |-> 0, st |-> st]
Then(r, K(_, _)) == IF r.o = "ok" THEN K(r.v, r.st) ELSE r

Abs(x) == IF x < 0 THEN -x ELSE x
TruncQuot(a, b) == LET q == Abs(a) \div Abs(b) IN IF (a < 0) = (b < 0) THEN q ELSE -q
FloorQuot(a, b) == LET q == TruncQuot(a, b) IN IF q * b # a /\ ((a < 0) # (b < 0)) THEN q - 1 ELSE q
Quot(a, b) == IF Bug = "floordiv" THEN FloorQuot(a, b) ELSE TruncQuot(a, b)
Rem(a, b) == a - b * Quot(a, b)
Chk(x, st) == IF x > -B /\ x < B THEN Ok(x, st) ELSE Er("oos", st)

\* ---- environments
RECURSIVE FindFrom(_, _, _)
FindFrom(env, n, i) == IF i = 0 THEN 0 ELSE IF env[i][1] = n THEN i ELSE FindFrom(env, n, i - 1)
Find(env, n) == FindFrom(env, n, Len(env))
LookupVar(n, env, st) == LET i == Find(env, n) IN IF i > 0 THEN env[i][2] ELSE st.g[Find(st.g, n)][2]
\* returns <<fr, st>>
SetVar(n, v, fr, st) == LET i == Find(fr.env, n) IN
    IF i > 0 THEN <<[fr EXCEPT !.env[i] = <<n, v>>], st>>
    ELSE <<fr, [st EXCEPT !.g[Find(st.g, n)] = <<n, v>>]>>

Alloc(st, cell) == [st EXCEPT !.h = Append(@, cell)]
NewRef(st) == [r |-> Len(st.h) + 1]

RECURSIVE KeyIdxFrom(_, _, _)
KeyIdxFrom(ks, key, i) == IF i > Len(ks) THEN 0 ELSE IF ks[i] = key THEN i ELSE KeyIdxFrom(ks, key, i + 1)
KeyIdx(ks, key) == KeyIdxFrom(ks, key, 1)
DropAt(s, i) == SubSeq(s, 1, i - 1) \o SubSeq(s, i + 1, Len(s))

FuncOf(P, name) == P.funcs[CHOOSE i \in 1..Len(P.funcs) : P.funcs[i].n = name]

\* ---- binary operators on values
BinOp(op, t, a, b, st) ==
    CASE t = "int" ->
           (CASE op = "+" -> Chk(a + b, st)
              [] op = "-" -> Chk(a - b, st)
              [] op = "*" -> IF a = 0 \/ b = 0 THEN Ok(0, st)
                             ELSE IF Abs(a) <= (B - 1) \div Abs(b) THEN Ok(a * b, st) ELSE Er("oos", st)
              [] op = "/" -> IF b = 0 THEN Er("rt", st) ELSE Ok(Quot(a, b), st)
              [] op = "%" -> IF b = 0 THEN Er("rt", st) ELSE Ok(Rem(a, b), st)
              [] op = "==" -> Ok(a = b, st)
              [] op = "!=" -> Ok(a # b, st)
              [] op = "<" -> Ok(a < b, st)
              [] op = "<=" -> Ok(a <= b, st)
              [] op = ">" -> Ok(a > b, st)
              [] op = ">=" -> Ok(a >= b, st))
      [] t = "bool" -> (CASE op = "==" -> Ok(a = b, st) [] op = "!=" -> Ok(a # b, st)
                          [] op = "&&" -> Ok(a /\ b, st) [] op = "||" -> Ok(a \/ b, st))
      [] t = "str" -> (CASE op = "==" -> Ok(a = b, st) [] op = "!=" -> Ok(a # b, st)
                         [] op = "+" -> IF Len(a) + Len(b) > MaxStr THEN Er("oos", st) ELSE Ok(a \o b, st))

BytesOk(vs) == \A i \in 1..Len(vs) : vs[i] >= 0 /\ vs[i] <= 255

RECURSIVE EvalE(_, _, _, _), EvalL(_, _, _, _, _), EvalKV(_, _, _, _, _, _), Exec(_, _, _, _), ExecSeq(_, _, _, _, _),
          CallF(_, _, _, _), ForLoop(_, _, _, _), RangeLoop(_, _, _, _, _, _, _), RunClauses(_, _, _, _, _),
          FindClause(_, _, _, _, _, _, _), RunDefers(_, _, _, _), ResolveLs(_, _, _, _, _, _), StoreAll(_, _, _, _, _)

\* ---------------------------------------------------------------- expressions
EvalL(P, es, env, st, acc) ==
    IF Len(acc) = Len(es) THEN Ok(acc, st)
    ELSE Then(EvalE(P, es[Len(acc) + 1], env, st), LAMBDA v, s1 : EvalL(P, es, env, s1, Append(acc, v)))

\* map literal: key1, value1, key2, value2 ... in source order
EvalKV(P, es, env, st, ks, vs) ==
    IF Len(ks) = Len(es) THEN Ok([ks |-> ks, vs |-> vs], st)
    ELSE LET p == es[Len(ks) + 1] IN
         Then(EvalE(P, p[1], env, st), LAMBDA kv, s1 :
         Then(EvalE(P, p[2], env, s1), LAMBDA vv, s2 : EvalKV(P, es, env, s2, Append(ks, kv), Append(vs, vv))))

EvalE(P, e, env, st) ==
    CASE e.k = "lit" -> Ok(e.v, st)
      [] e.k = "var" -> Ok(LookupVar(e.n, env, st), st)
      [] e.k = "bin" ->
           IF e.op = "&&" THEN
               Then(EvalE(P, e.l, env, st), LAMBDA a, s1 :
                   IF ~a /\ Bug # "noshort" THEN Ok(FALSE, s1)
                   ELSE Then(EvalE(P, e.r, env, s1), LAMBDA b, s2 : Ok(a /\ b, s2)))
           ELSE IF e.op = "||" THEN
               Then(EvalE(P, e.l, env, st), LAMBDA a, s1 :
                   IF a /\ Bug # "noshort" THEN Ok(TRUE, s1)
                   ELSE Then(EvalE(P, e.r, env, s1), LAMBDA b, s2 : Ok(a \/ b, s2)))
           ELSE Then(EvalE(P, e.l, env, st), LAMBDA a, s1 :
                Then(EvalE(P, e.r, env, s1), LAMBDA b, s2 : BinOp(e.op, e.t, a, b, s2)))
      [] e.k = "un" -> Then(EvalE(P, e.e, env, st), LAMBDA a, s1 : IF e.op = "-" THEN Ok(-a, s1) ELSE Ok(~a, s1))
      [] e.k = "ix" ->
           Then(EvalE(P, e.b, env, st), LAMBDA bv, s1 :
           Then(EvalE(P, e.i, env, s1), LAMBDA iv, s2 :
               CASE e.t = "str" -> IF iv < 0 \/ iv >= Len(bv) THEN Er("rt", s2) ELSE Ok(bv[iv + 1], s2)
                 [] e.t \in {"ints", "bytes"} ->
                      IF bv.r = 0 THEN Er("rt", s2)
                      ELSE LET c == s2.h[bv.r] IN IF iv < 0 \/ iv >= Len(c.v) THEN Er("rt", s2) ELSE Ok(c.v[iv + 1], s2)
                 [] OTHER ->   \* maps, single-value form: U1
                      IF bv.r = 0 THEN Er("oos", s2)
                      ELSE LET c == s2.h[bv.r]  j == KeyIdx(c.ks, iv) IN IF j = 0 THEN Er("oos", s2) ELSE Ok(c.vs[j], s2)))
      [] e.k = "len" ->
           Then(EvalE(P, e.e, env, st), LAMBDA v, s1 :
               CASE e.t = "str" -> Ok(Len(v), s1)
                 [] e.t \in {"ints", "bytes"} -> Ok(IF v.r = 0 THEN 0 ELSE Len(s1.h[v.r].v), s1)
                 [] OTHER -> Ok(IF v.r = 0 THEN 0 ELSE Len(s1.h[v.r].ks), s1))
      [] e.k = "call" -> Then(EvalL(P, e.as, env, st, <<>>), LAMBDA vs, s1 : Then(CallF(P, e.f, vs, s1), LAMBDA rv, s2 : Ok(rv[1], s2)))
      [] e.k = "fld" ->
           Then(EvalE(P, e.e, env, st), LAMBDA v, s1 :
               IF e.t = "S" THEN Ok(v[e.f], s1)
               ELSE IF v.r = 0 THEN Er("rt", s1) ELSE Ok(s1.h[v.r].v[e.f], s1))
      [] e.k = "mk" ->
           IF e.t \in {"mii", "msi"} THEN
               Then(EvalKV(P, e.es, env, st, <<>>, <<>>), LAMBDA m, s1 : Ok(NewRef(s1), Alloc(s1, [k |-> "map", ks |-> m.ks, vs |-> m.vs])))
           ELSE Then(EvalL(P, e.es, env, st, <<>>), LAMBDA vs, s1 :
               CASE e.t = "S" -> Ok(vs, s1)
                 [] e.t = "pS" -> Ok(NewRef(s1), Alloc(s1, [k |-> "S", v |-> vs]))
                 [] e.t = "bytes" -> IF BytesOk(vs) THEN Ok(NewRef(s1), Alloc(s1, [k |-> "bytes", v |-> vs])) ELSE Er("oos", s1)
                 [] OTHER -> Ok(NewRef(s1), Alloc(s1, [k |-> "ints", v |-> vs])))
      [] e.k = "make" ->
           IF e.t \in {"mii", "msi"} THEN Ok(NewRef(st), Alloc(st, [k |-> "map", ks |-> <<>>, vs |-> <<>>]))
           ELSE Then(EvalE(P, e.e, env, st), LAMBDA n, s1 :
               IF n < 0 THEN Er("rt", s1) ELSE IF n > MaxLen THEN Er("oos", s1)
               ELSE Ok(NewRef(s1), Alloc(s1, [k |-> e.t, v |-> [i \in 1..n |-> 0]])))
      [] e.k = "conv" ->
           Then(EvalE(P, e.e, env, st), LAMBDA v, s1 :
               IF e.to = "bytes" THEN Ok(NewRef(s1), Alloc(s1, [k |-> "bytes", v |-> v]))
               ELSE Ok(IF v.r = 0 THEN <<>> ELSE s1.h[v.r].v, s1))
      [] e.k = "sub" ->
           Then(EvalE(P, e.e, env, st), LAMBDA s, s1 :
           Then(IF IsNone(e.lo) THEN Ok(0, s1) ELSE EvalE(P, e.lo, env, s1), LAMBDA lo, s2 :
           Then(IF IsNone(e.hi) THEN Ok(Len(s), s2) ELSE EvalE(P, e.hi, env, s2), LAMBDA hi, s3 :
               IF lo < 0 \/ hi < lo \/ hi > Len(s) THEN Er("rt", s3) ELSE Ok(SubSeq(s, lo + 1, hi), s3))))
      [] e.k = "isnil" -> Then(EvalE(P, e.e, env, st), LAMBDA v, s1 : Ok(v.r = 0, s1))

\* ---------------------------------------------------------------- statements
R(c, fr, st) == [c |-> c, fr |-> fr, st |-> st, lbl |-> "", rv |-> <<>>]
FromE(r, fr, K(_, _)) == IF r.o = "ok" THEN K(r.v, r.st) ELSE R(r.o, fr, r.st)
Push(fr, n, v) == IF n \in {"_", ""} THEN fr ELSE [fr EXCEPT !.env = Append(@, <<n, v>>)]
Cut(r, m) == [r EXCEPT !.fr.env = SubSeq(@, 1, m)]

\* an lvalue is resolved to a location first (operands of index expressions and pointer indirections are evaluated),
\* the store happens after the right-hand side was evaluated (Go spec, Assignment statements)
ResolveL(P, l, env, st) ==
    CASE l.k = "var" -> Ok([k |-> "var", n |-> l.n], st)
      [] l.k = "ix" ->
           Then(EvalE(P, l.b, env, st), LAMBDA bv, s1 :
           Then(EvalE(P, l.i, env, s1), LAMBDA iv, s2 :
               IF l.t \in {"ints", "bytes"} THEN Ok([k |-> "elem", t |-> l.t, r |-> bv.r, i |-> iv], s2)
               ELSE Ok([k |-> "mapk", r |-> bv.r, key |-> iv], s2)))
      [] l.k = "fld" ->
           IF l.t = "S" THEN Ok([k |-> "sfld", n |-> l.e.n, f |-> l.f], st)
           ELSE Then(EvalE(P, l.e, env, st), LAMBDA v, s1 : Ok([k |-> "pfld", r |-> v.r, f |-> l.f], s1))

LoadLoc(loc, env, st) ==
    CASE loc.k = "var" -> Ok(LookupVar(loc.n, env, st), st)
      [] loc.k = "elem" -> IF loc.r = 0 THEN Er("rt", st)
                           ELSE LET c == st.h[loc.r] IN IF loc.i < 0 \/ loc.i >= Len(c.v) THEN Er("rt", st) ELSE Ok(c.v[loc.i + 1], st)
      [] loc.k = "mapk" -> IF loc.r = 0 THEN Er("oos", st)
                           ELSE LET c == st.h[loc.r]  j == KeyIdx(c.ks, loc.key) IN IF j = 0 THEN Er("oos", st) ELSE Ok(c.vs[j], st)
      [] loc.k = "sfld" -> Ok(LookupVar(loc.n, env, st)[loc.f], st)
      [] loc.k = "pfld" -> IF loc.r = 0 THEN Er("rt", st) ELSE Ok(st.h[loc.r].v[loc.f], st)

\* returns a statement result
StoreLoc(loc, v, fr, st) ==
    CASE loc.k = "var" -> LET p == SetVar(loc.n, v, fr, st) IN R("n", p[1], p[2])
      [] loc.k = "elem" ->
           IF loc.r = 0 THEN R("rt", fr, st)
           ELSE IF loc.i < 0 \/ loc.i >= Len(st.h[loc.r].v) THEN R("rt", fr, st)
           ELSE IF loc.t = "bytes" /\ (v < 0 \/ v > 255) THEN R("oos", fr, st)
           ELSE R("n", fr, [st EXCEPT !.h[loc.r].v[loc.i + 1] = v])
      [] loc.k = "mapk" ->
           IF loc.r = 0 THEN R("rt", fr, st)
           ELSE LET c == st.h[loc.r]  j == KeyIdx(c.ks, loc.key) IN
                IF j = 0 THEN (IF Len(c.ks) >= MaxLen THEN R("oos", fr, st)
                               ELSE R("n", fr, [st EXCEPT !.h[loc.r] = [k |-> "map", ks |-> Append(c.ks, loc.key), vs |-> Append(c.vs, v)]]))
                ELSE R("n", fr, [st EXCEPT !.h[loc.r].vs[j] = v])
      [] loc.k = "sfld" -> LET old == LookupVar(loc.n, fr.env, st)  p == SetVar(loc.n, [old EXCEPT ![loc.f] = v], fr, st) IN R("n", p[1], p[2])
      [] loc.k = "pfld" -> IF loc.r = 0 THEN R("rt", fr, st) ELSE R("n", fr, [st EXCEPT !.h[loc.r].v[loc.f] = v])

ResolveLs(P, ls, env, st, acc, i) ==
    IF i > Len(ls) THEN Ok(acc, st)
    ELSE Then(ResolveL(P, ls[i], env, st), LAMBDA loc, s1 : ResolveLs(P, ls, env, s1, Append(acc, loc), i + 1))
StoreAll(locs, vs, fr, st, i) ==
    IF i > Len(locs) THEN R("n", fr, st)
    ELSE LET r == StoreLoc(locs[i], vs[i], fr, st) IN IF r.c = "n" THEN StoreAll(locs, vs, r.fr, r.st, i + 1) ELSE r

ExecSeq(P, ss, i, fr, st) ==
    IF i > Len(ss) THEN R("n", fr, st)
    ELSE LET r == Exec(P, ss[i], fr, st) IN IF r.c = "n" THEN ExecSeq(P, ss, i + 1, r.fr, r.st) ELSE r
ExecBlock(P, body, fr, st) == Cut(ExecSeq(P, body, 1, fr, st), Len(fr.env))

\* a deferred body runs in a frame of its own (no closures: it sees package-level variables only)
ExecDeferred(P, d, st) == ExecSeq(P, d, 1, [env |-> <<>>, dfr |-> <<>>], st)
\* pending defers of a frame, last registered first; "oos" unless each completes normally
RunDefers(P, dfr, i, st) ==
    IF i = 0 THEN Ok(0, st)
    ELSE LET r == ExecDeferred(P, dfr[i], st) IN
         IF r.c \in {"n", "ret"} THEN RunDefers(P, dfr, i - 1, r.st) ELSE Er("oos", r.st)

Mine(r, lbl) == r.lbl = "" \/ r.lbl = lbl
\* U13: a range loop / switch keeps temporaries on the evaluation stack while it runs; tmp counts them and is left
\* untouched while a panic propagates, so that the recovering frame can tell whether the panic was raised inside one
Leave(t0, r) == IF r.c = "panic" THEN r ELSE [r EXCEPT !.st.tmp = t0]

ForLoop(P, s, fr, st) ==
    IF st.fuel = 0 THEN R("oos", fr, st)
    ELSE FromE(IF IsNone(s.c) THEN Ok(TRUE, st) ELSE EvalE(P, s.c, fr.env, st), fr, LAMBDA cv, s1 :
        IF ~cv THEN R("n", fr, s1)
        ELSE LET rb == ExecBlock(P, s.body, fr, [s1 EXCEPT !.fuel = @ - 1]) IN
             IF rb.c = "n" \/ (rb.c = "cont" /\ Mine(rb, s.lbl)) THEN
                 IF IsNone(s.post) \/ (Bug = "postskip" /\ rb.c = "cont") THEN ForLoop(P, s, rb.fr, rb.st)
                 ELSE LET rp == Exec(P, s.post, rb.fr, rb.st) IN IF rp.c = "n" THEN ForLoop(P, s, rp.fr, rp.st) ELSE rp
             ELSE IF rb.c = "brk" /\ Mine(rb, s.lbl) THEN R("n", rb.fr, rb.st)
             ELSE rb)

\* items: for maps the snapshot <<keys, values>> taken when the loop starts; slices are read live (the length is fixed at the start)
RangeLoop(P, s, ref, items, i, fr, st) ==
    IF i >= items.n THEN R("n", fr, st)
    ELSE IF st.fuel = 0 THEN R("oos", fr, st)
    ELSE LET kv == IF s.t \in {"mii", "msi"} THEN items.ks[i + 1] ELSE i
             vv == CASE s.t \in {"mii", "msi"} -> items.vs[i + 1]
                     [] s.t = "ints" -> st.h[ref.r].v[i + 1]
                     [] OTHER -> 0
             fr1 == Push(Push(fr, s.kn, kv), s.vn, vv)
             rb == Cut(ExecBlock(P, s.body, fr1, [st EXCEPT !.fuel = @ - 1]), Len(fr.env))
         IN IF rb.c = "n" \/ (rb.c = "cont" /\ Mine(rb, s.lbl)) THEN RangeLoop(P, s, ref, items, i + 1, rb.fr, rb.st)
            ELSE IF rb.c = "brk" /\ Mine(rb, s.lbl) THEN R("n", rb.fr, rb.st)
            ELSE rb

\* first clause (source order, default skipped) one of whose expressions equals the tag (tagless: is true); 0 if none
FindClause(P, s, tagv, ci, ei, env, st) ==
    IF ci > Len(s.cls) THEN Ok(0, st)
    ELSE IF s.cls[ci].def \/ ei > Len(s.cls[ci].es) THEN FindClause(P, s, tagv, ci + 1, 1, env, st)
    ELSE Then(EvalE(P, s.cls[ci].es[ei], env, st), LAMBDA v, s1 :
             IF v = tagv THEN Ok(ci, s1) ELSE FindClause(P, s, tagv, ci, ei + 1, env, s1))
RunClauses(P, s, ci, fr, st) ==
    LET rb == ExecBlock(P, s.cls[ci].body, fr, st) IN
    IF rb.c = "n" /\ s.cls[ci].ft THEN
        (LET nx == IF Bug = "ftdrop" THEN ci + 2 ELSE ci + 1 IN IF nx > Len(s.cls) THEN rb ELSE RunClauses(P, s, nx, rb.fr, rb.st))
    ELSE IF rb.c = "brk" /\ rb.lbl = "" THEN R("n", rb.fr, rb.st)
    ELSE rb
DefaultIdx(s) == IF \E i \in 1..Len(s.cls) : s.cls[i].def THEN CHOOSE i \in 1..Len(s.cls) : s.cls[i].def ELSE 0

Exec(P, s, fr, st) ==
    CASE s.k = "decl" -> FromE(EvalE(P, s.e, fr.env, st), fr, LAMBDA v, s1 : R("n", Push(fr, s.n, v), s1))
      [] s.k = "declz" -> R("n", Push(fr, s.n, Zero(s.t)), st)
      [] s.k = "asg" ->
           FromE(ResolveL(P, s.l, fr.env, st), fr, LAMBDA loc, s1 :
           FromE(EvalE(P, s.e, fr.env, s1), fr, LAMBDA v, s2 : StoreLoc(loc, v, fr, s2)))
      [] s.k = "opasg" ->
           FromE(ResolveL(P, s.l, fr.env, st), fr, LAMBDA loc, s1 :
           FromE(EvalE(P, s.e, fr.env, s1), fr, LAMBDA y, s2 :
           FromE(LoadLoc(loc, fr.env, s2), fr, LAMBDA x, s3 :
           FromE(IF Bug = "subswap" /\ s.op = "-" THEN BinOp(s.op, s.t, y, x, s3) ELSE BinOp(s.op, s.t, x, y, s3), fr, LAMBDA z, s4 :
               StoreLoc(loc, z, fr, s4)))))
      [] s.k = "inc" ->
           FromE(ResolveL(P, s.l, fr.env, st), fr, LAMBDA loc, s1 :
           FromE(LoadLoc(loc, fr.env, s1), fr, LAMBDA x, s2 :
           FromE(Chk(x + s.d, s2), fr, LAMBDA z, s3 : StoreLoc(loc, z, fr, s3))))
      [] s.k = "tasg" ->
           FromE(ResolveLs(P, s.ls, fr.env, st, <<>>, 1), fr, LAMBDA locs, s1 :
           FromE(EvalL(P, s.es, fr.env, s1, <<>>), fr, LAMBDA vs, s2 : StoreAll(locs, vs, fr, s2, 1)))
      [] s.k = "if" ->
           LET m == Len(fr.env)
               r0 == IF IsNone(s.init) THEN R("n", fr, st) ELSE Exec(P, s.init, fr, st)
           IN IF r0.c # "n" THEN Cut(r0, m)
              ELSE Cut(FromE(EvalE(P, s.c, r0.fr.env, r0.st), r0.fr, LAMBDA cv, s1 :
                          ExecBlock(P, IF cv THEN s.th ELSE s.el, r0.fr, s1)), m)
      [] s.k = "for" ->
           LET m == Len(fr.env)
               r0 == IF IsNone(s.init) THEN R("n", fr, st) ELSE Exec(P, s.init, fr, st)
           IN IF r0.c # "n" THEN Cut(r0, m) ELSE Cut(ForLoop(P, s, r0.fr, r0.st), m)
      [] s.k = "range" ->
           Leave(st.tmp, FromE(EvalE(P, s.e, fr.env, [st EXCEPT !.tmp = @ + 1]), fr, LAMBDA cv, s1 :
               LET items == CASE s.t = "str" -> [n |-> Len(cv)]
                              [] s.t \in {"ints", "bytes"} -> [n |-> IF cv.r = 0 THEN 0 ELSE Len(s1.h[cv.r].v)]
                              [] OTHER -> IF cv.r = 0 THEN [n |-> 0] ELSE [n |-> Len(s1.h[cv.r].ks), ks |-> s1.h[cv.r].ks, vs |-> s1.h[cv.r].vs]
                   start == IF Bug = "rangefrom1" /\ items.n > 0 THEN 1 ELSE 0
               IN RangeLoop(P, s, cv, items, start, fr, s1)))
      [] s.k = "brk" -> [R("brk", fr, st) EXCEPT !.lbl = s.lbl]
      [] s.k = "cont" -> [R("cont", fr, st) EXCEPT !.lbl = s.lbl]
      [] s.k = "sw" ->
           LET m == Len(fr.env)
               r0 == IF IsNone(s.init) THEN R("n", fr, st) ELSE Exec(P, s.init, fr, st)
           IN IF r0.c # "n" THEN Cut(r0, m)
              ELSE Leave(st.tmp,
                   Cut(FromE(IF IsNone(s.tag) THEN Ok(TRUE, r0.st) ELSE EvalE(P, s.tag, r0.fr.env, r0.st), r0.fr, LAMBDA tv, s1 :
                       FromE(FindClause(P, s, tv, 1, 1, r0.fr.env, [s1 EXCEPT !.tmp = @ + 1]), r0.fr, LAMBDA ci, s2 :
                           LET cj == IF ci = 0 THEN DefaultIdx(s) ELSE ci IN
                           IF cj = 0 THEN R("n", r0.fr, s2) ELSE RunClauses(P, s, cj, r0.fr, s2))), m))
      [] s.k = "ret" ->
           IF Bug = "deferearly" /\ Len(fr.dfr) > 0 THEN
               \* the deviation: deferred calls run BEFORE the results are evaluated
               LET rd == RunDefers(P, fr.dfr, Len(fr.dfr), st) IN
               IF rd.o # "ok" THEN R("oos", fr, rd.st)
               ELSE FromE(EvalL(P, s.es, fr.env, rd.st, <<>>), fr, LAMBDA vs, s1 :
                        [R("ret", [fr EXCEPT !.dfr = <<>>], [s1 EXCEPT !.dd = @ - Len(fr.dfr)]) EXCEPT !.rv = vs])
           ELSE FromE(EvalL(P, s.es, fr.env, st, <<>>), fr, LAMBDA vs, s1 : [R("ret", fr, s1) EXCEPT !.rv = vs])
      [] s.k = "calls" ->
           FromE(EvalL(P, s.as, fr.env, st, <<>>), fr, LAMBDA vs, s1 : FromE(CallF(P, s.f, vs, s1), fr, LAMBDA rv, s2 : R("n", fr, s2)))
      [] s.k = "mret" ->
           FromE(EvalL(P, s.as, fr.env, st, <<>>), fr, LAMBDA vs, s1 :
           FromE(CallF(P, s.f, vs, s1), fr, LAMBDA rv, s2 :
               LET prs == SelectSeq([i \in 1..Len(s.ns) |-> <<s.ns[i], rv[i]>>], LAMBDA p : p[1] # "_") IN
               IF s.def THEN R("n", [fr EXCEPT !.env = @ \o prs], s2)
               ELSE StoreAll([i \in 1..Len(prs) |-> [k |-> "var", n |-> prs[i][1]]], [i \in 1..Len(prs) |-> prs[i][2]], fr, s2, 1)))
      [] s.k = "mok" ->
           FromE(EvalE(P, s.m, fr.env, st), fr, LAMBDA mv, s1 :
           FromE(EvalE(P, s.key, fr.env, s1), fr, LAMBDA kv, s2 :
               IF mv.r = 0 THEN R("oos", fr, s2)
               ELSE LET c == s2.h[mv.r]  j == KeyIdx(c.ks, kv)
                        v == IF j = 0 THEN 0 ELSE c.vs[j]
                    IN IF s.def THEN R("n", Push(Push(fr, s.vn, v), s.okn, j # 0), s2)
                       ELSE LET r1 == IF s.vn = "_" THEN R("n", fr, s2) ELSE StoreLoc([k |-> "var", n |-> s.vn], v, fr, s2)
                            IN IF s.okn = "_" THEN r1 ELSE StoreLoc([k |-> "var", n |-> s.okn], j # 0, r1.fr, r1.st)))
      [] s.k = "defer" -> R("n", [fr EXCEPT !.dfr = Append(@, s.body)], [st EXCEPT !.dd = @ + 1])
      [] s.k = "deferc" -> R("n", [fr EXCEPT !.dfr = Append(@, <<CallS(s.f, <<>>)>>)], [st EXCEPT !.dd = @ + 1])
      [] s.k = "panic" -> FromE(EvalE(P, s.e, fr.env, st), fr, LAMBDA v, s1 : R("panic", fr, s1))
      [] s.k = "del" ->
           FromE(EvalE(P, s.m, fr.env, st), fr, LAMBDA mv, s1 :
           FromE(EvalE(P, s.key, fr.env, s1), fr, LAMBDA kv, s2 :
               IF mv.r = 0 THEN R("oos", fr, s2)
               ELSE LET c == s2.h[mv.r]  j == KeyIdx(c.ks, kv) IN
                    IF j = 0 THEN R("n", fr, s2)
                    ELSE R("n", fr, [s2 EXCEPT !.h[mv.r] = [k |-> "map", ks |-> DropAt(c.ks, j), vs |-> DropAt(c.vs, j)]])))
      [] s.k = "app" ->
           FromE(EvalL(P, s.es, fr.env, st, <<>>), fr, LAMBDA vs, s1 :
               LET cur == LookupVar(s.n, fr.env, s1) IN
               IF cur.r = 0 THEN LET p == SetVar(s.n, NewRef(s1), fr, Alloc(s1, [k |-> "ints", v |-> vs])) IN R("n", p[1], p[2])
               ELSE IF Len(s1.h[cur.r].v) + Len(vs) > MaxLen THEN R("oos", fr, s1)
               ELSE R("n", fr, [s1 EXCEPT !.h[cur.r].v = @ \o vs]))
      [] s.k = "blk" -> ExecBlock(P, s.body, fr, st)
      [] s.k = "rec" -> R("n", fr, [st EXCEPT !.pan = FALSE])
      [] s.k = "ifrec" -> IF st.pan THEN ExecBlock(P, s.th, fr, [st EXCEPT !.pan = FALSE]) ELSE ExecBlock(P, s.el, fr, st)
      [] s.k = "use" -> R("n", fr, st)

\* ---------------------------------------------------------------- calls
CallF(P, fname, args, st) ==
    IF st.fuel = 0 THEN Er("oos", st)
    ELSE
    LET f == FuncOf(P, fname)
        np == Len(f.ps)
        env0 == [i \in 1..np |-> <<f.ps[i].n, args[i]>>]
                \o (IF f.named THEN [i \in 1..Len(f.rs) |-> <<f.rs[i].n, Zero(f.rs[i].t)>>] ELSE <<>>)
        r == ExecSeq(P, f.body, 1, [env |-> env0, dfr |-> <<>>], [st EXCEPT !.fuel = @ - 1])
        nd == Len(r.fr.dfr)
        s1 == [r.st EXCEPT !.dd = @ - nd]
        zeros == [i \in 1..Len(f.rs) |-> Zero(f.rs[i].t)]
    IN CASE r.c \in {"n", "ret"} ->
              LET rv == IF r.c = "ret" /\ Len(r.rv) > 0 THEN r.rv
                        ELSE IF f.named THEN [i \in 1..Len(f.rs) |-> r.fr.env[np + i][2]] ELSE <<>>
                  rd == RunDefers(P, r.fr.dfr, nd, s1)
              IN IF rd.o = "ok" THEN Ok(rv, rd.st) ELSE rd
         [] r.c = "panic" ->
              IF nd = 0 THEN Er("panic", s1)
              ELSE IF s1.tmp > st.tmp THEN Er("oos", [s1 EXCEPT !.tmp = st.tmp])                             \* U13
              ELSE IF nd = 1 /\ ~f.named THEN
                  LET rd == ExecDeferred(P, r.fr.dfr[1], [s1 EXCEPT !.pan = TRUE]) IN
                  IF rd.c \in {"n", "ret"} /\ ~rd.st.pan THEN Ok(zeros, rd.st) ELSE Er("oos", rd.st)       \* U5
              ELSE Er("oos", s1)                                                                           \* U5
         [] r.c = "rt" -> IF r.st.dd > 0 THEN Er("oos", s1) ELSE Er("rt", s1)                              \* U6
         [] OTHER -> Er("oos", s1)

\* ---------------------------------------------------------------- programs
RECURSIVE InitGlobals(_, _, _)
InitGlobals(P, i, st) ==
    IF i > Len(P.globals) THEN Ok(0, st)
    ELSE Then(EvalE(P, P.globals[i].e, <<>>, st), LAMBDA v, s1 :
             InitGlobals(P, i + 1, [s1 EXCEPT !.g = Append(@, <<P.globals[i].n, v>>)]))

\* argument values as written in the case: ints / bool / byte sequences (str) / sequences (ints, bytes)
RECURSIVE BindArgs(_, _, _, _, _)
BindArgs(ps, as, i, st, acc) ==
    IF i > Len(ps) THEN Ok(acc, st)
    ELSE IF ps[i].t \in {"ints", "bytes"} THEN BindArgs(ps, as, i + 1, Alloc(st, [k |-> ps[i].t, v |-> as[i]]), Append(acc, NewRef(st)))
    ELSE BindArgs(ps, as, i + 1, st, Append(acc, as[i]))

St0 == [g |-> <<>>, h |-> <<>>, fuel |-> Fuel, pan |-> FALSE, dd |-> 0, tmp |-> 0]

\* result value as JSON-able data: str / bytes / ints -> arrays, nil -> "nil", maps -> [keys, values], S -> [a, b], pS -> ["&", a, b]
OutV(t, v, h) ==
    CASE t \in {"int", "bool", "str", "S"} -> v
      [] t \in {"ints", "bytes"} -> IF v.r = 0 THEN "nil" ELSE h[v.r].v
      [] t \in {"mii", "msi"} -> IF v.r = 0 THEN "nil" ELSE <<h[v.r].ks, h[v.r].vs>>
      [] t = "pS" -> IF v.r = 0 THEN "nil" ELSE <<"&">> \o h[v.r].v

RunEntry(P, fname, as) ==
    LET f == FuncOf(P, fname)
        r == Then(InitGlobals(P, 1, St0), LAMBDA z, s1 :
             Then(BindArgs(f.ps, as, 1, s1, <<>>), LAMBDA vs, s2 : CallF(P, fname, vs, s2)))
    IN CASE r.o = "ok" -> IF Len(f.rs) = 0 THEN <<"ok", "void">> ELSE <<"ok", OutV(f.rs[1].t, r.v[1], r.st.h)>>
         [] r.o \in {"panic", "rt"} -> <<"panic">>
         [] OTHER -> <<"oos">>
=============================================================================
