\* quick tier: every 8th expression (phase = Seed), all statement skeletons; Seed is replaced per run
INIT Init
NEXT Next
CONSTANTS
  Bug = "none"
  Seed = 1
  Thin = 8
  Chunks = 32
  ExprPerProg = 40
CHECK_DEADLOCK FALSE
