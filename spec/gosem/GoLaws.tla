------------------------------- MODULE GoLaws -------------------------------
(* A second, DECLARATIVE statement of Go's semantics for a sample of the subset: algebraic laws that every conforming
   evaluator satisfies, checked by TLC for all small arguments against GoSem (MC_GoLaws.cfg: Bug = "none" must satisfy all
   of them; MC_GoLawsBug.cfg is run once per named deviation and TLC must report a violated law each time). *)
EXTENDS GoSem

CONSTANT RngN
VARIABLES a, b, on
Rng == (-RngN)..RngN

I == "int"
va == Var("a")  vb == Var("b")
Pa == <<Prm("a", I)>>  Pab == <<Prm("a", I), Prm("b", I)>>
R1(t) == <<Prm("", t)>>
F1(name, ps, body) == Func(name, ps, R1(I), FALSE, body, TRUE)
Run1(fs, gs, name, as) == RunEntry(Prog(gs, fs), name, as)
Is(r, v) == r = <<"ok", v>>

\* (a/b)*b + a%b = a ;  |a%b| < |b| ;  a%b has the sign of a ;  division by zero panics
DivMod == F1("F", Pab, <<Ret(<<Bin("+", I, Bin("*", I, Bin("/", I, va, vb), vb), Bin("%", I, va, vb))>>)>>)
ModOnly == F1("F", Pab, <<Ret(<<Bin("%", I, va, vb)>>)>>)
LawDivMod == IF b = 0 THEN Run1(<<DivMod>>, <<>>, "F", <<a, b>>) = <<"panic">>
             ELSE /\ Is(Run1(<<DivMod>>, <<>>, "F", <<a, b>>), a)
                  /\ LET r == Run1(<<ModOnly>>, <<>>, "F", <<a, b>>)[2] IN Abs(r) < Abs(b) /\ (r = 0 \/ (r < 0) = (a < 0))

\* short circuit: the right operand is not evaluated when the left one decides
Bump == Func("bump", <<>>, R1("bool"), FALSE, <<Inc(Var("cnt"), 1), Ret(<<BoolL(TRUE)>>)>>, FALSE)
Cnt == <<Glob("cnt", I, IntL(0))>>
ShortAnd == F1("F", Pa, <<If(Bin("&&", "bool", Bin(">", I, va, IntL(0)), CallE("bump", <<>>)), <<Inc(Var("cnt"), 1)>>, <<>>), Ret(<<Var("cnt")>>)>>)
ShortOr == F1("F", Pa, <<If(Bin("||", "bool", Bin(">", I, va, IntL(0)), CallE("bump", <<>>)), <<>>, <<Inc(Var("cnt"), 1)>>), Ret(<<Var("cnt")>>)>>)
LawShort == /\ Is(Run1(<<ShortAnd, Bump>>, Cnt, "F", <<a>>), IF a > 0 THEN 2 ELSE 0)
            /\ Is(Run1(<<ShortOr, Bump>>, Cnt, "F", <<a>>), IF a > 0 THEN 0 ELSE 1)

\* a struct argument is a copy; a pointer argument is not
ModV == Func("modv", <<Prm("s", "S")>>, <<>>, FALSE, <<Asg(Fld("S", Var("s"), 1), IntL(100))>>, FALSE)
ModP == Func("modp", <<Prm("p", "pS")>>, <<>>, FALSE, <<Asg(Fld("pS", Var("p"), 1), IntL(100))>>, FALSE)
CopyV == F1("F", Pab, <<Decl("s", "S", Mk("S", <<va, vb>>)), CallS("modv", <<Var("s")>>), Ret(<<Fld("S", Var("s"), 1)>>)>>)
CopyP == F1("F", Pab, <<Decl("p", "pS", Mk("pS", <<va, vb>>)), CallS("modp", <<Var("p")>>), Ret(<<Fld("pS", Var("p"), 1)>>)>>)
LawStruct == Is(Run1(<<CopyV, ModV>>, <<>>, "F", <<a, b>>), a) /\ Is(Run1(<<CopyP, ModP>>, <<>>, "F", <<a, b>>), 100)

\* range over a slice visits every index from 0; it equals the index loop
Xs == <<Prm("xs", "ints")>>
SumRange == F1("F", Xs, <<Decl("r", I, IntL(0)), Range("i", "v", "ints", Var("xs"), <<OpAsg("+", I, Var("r"), Bin("*", I, Bin("+", I, Var("i"), IntL(1)), Var("v")))>>, ""), Ret(<<Var("r")>>)>>)
SumIndex == F1("F", Xs, <<Decl("r", I, IntL(0)),
                         For(Decl("i", I, IntL(0)), Bin("<", I, Var("i"), LenE("ints", Var("xs"))), Inc(Var("i"), 1),
                             <<OpAsg("+", I, Var("r"), Bin("*", I, Bin("+", I, Var("i"), IntL(1)), Ix("ints", Var("xs"), Var("i"))))>>, ""),
                         Ret(<<Var("r")>>)>>)
RECURSIVE WSum(_, _)
WSum(s, i) == IF i > Len(s) THEN 0 ELSE i * s[i] + WSum(s, i + 1)
LawRange == \A s \in {<<>>, <<a>>, <<a, b>>, <<b, a, 3>>} :
               /\ Run1(<<SumRange>>, <<>>, "F", <<s>>) = Run1(<<SumIndex>>, <<>>, "F", <<s>>)
               /\ Is(Run1(<<SumRange>>, <<>>, "F", <<s>>), WSum(s, 1))

\* continue runs the post statement
Skip == F1("F", Pa, <<Decl("c", I, IntL(0)),
                     For(Decl("i", I, IntL(0)), Bin("<", I, Var("i"), va), Inc(Var("i"), 1),
                         <<If(Bin("==", I, Bin("%", I, Var("i"), IntL(2)), IntL(0)), <<Cont("")>>, <<>>), Inc(Var("c"), 1)>>, ""),
                     Ret(<<Var("c")>>)>>)
LawContinue == Is(Run1(<<Skip>>, <<>>, "F", <<a>>), IF a <= 0 THEN 0 ELSE a \div 2)

\* x op= y is x = x op y
SubAsg == F1("F", Pab, <<Decl("x", I, va), OpAsg("-", I, Var("x"), vb), Ret(<<Var("x")>>)>>)
LawOpAsg == Is(Run1(<<SubAsg>>, <<>>, "F", <<a, b>>), a - b)

\* fallthrough enters exactly the next clause
vs == Var("s")
Fall == F1("F", Pa, <<Decl("s", I, IntL(0)),
                     Sw(None, va, <<Clause(<<IntL(0)>>, <<OpAsg("+", I, vs, IntL(1))>>, TRUE), Clause(<<IntL(1)>>, <<OpAsg("+", I, vs, IntL(10))>>, FALSE),
                                    Clause(<<IntL(2), IntL(3)>>, <<OpAsg("+", I, vs, IntL(100))>>, FALSE), Default(<<OpAsg("+", I, vs, IntL(1000))>>, FALSE)>>),
                     Ret(<<vs>>)>>)
LawFall == Is(Run1(<<Fall>>, <<>>, "F", <<a>>), CASE a = 0 -> 11 [] a = 1 -> 10 [] a \in {2, 3} -> 100 [] OTHER -> 1000)

\* deferred calls run after the results were evaluated, and do run
G1 == <<Glob("g", I, IntL(1))>>
Dfr == Func("d", Pa, R1(I), FALSE, <<Defer(<<Asg(Var("g"), IntL(50))>>), Ret(<<Bin("+", I, Var("g"), va)>>)>>, FALSE)
DfrF == F1("F", Pa, <<Decl("r", I, CallE("d", <<va>>)), Ret(<<Bin("+", I, Bin("*", I, Var("r"), IntL(100)), Var("g"))>>)>>)
LawDefer == Is(Run1(<<DfrF, Dfr>>, G1, "F", <<a>>), (1 + a) * 100 + 50)

\* a recovered panic makes the function return zero values; without recover the panic propagates
RecF == Func("d", Pa, R1(I), FALSE, <<Defer(<<Rec>>), If(Bin("==", I, va, IntL(0)), <<Panic(StrL(<<122>>))>>, <<>>), Ret(<<Bin("+", I, va, IntL(1))>>)>>, FALSE)
RecMain == F1("F", Pa, <<Ret(<<CallE("d", <<va>>)>>)>>)
Plain == F1("F", Pa, <<If(Bin("==", I, va, IntL(0)), <<Panic(StrL(<<122>>))>>, <<>>), Ret(<<va>>)>>)
LawRecover == /\ Is(Run1(<<RecMain, RecF>>, <<>>, "F", <<a>>), IF a = 0 THEN 0 ELSE a + 1)
              /\ Run1(<<Plain>>, <<>>, "F", <<a>>) = (IF a = 0 THEN <<"panic">> ELSE <<"ok", a>>)

\* block scoping: an inner declaration shadows, the outer variable is untouched
Shadow == F1("F", Pa, <<Decl("x", I, va), If(Bin(">", I, va, IntL(0)), <<Decl("x", I, IntL(5)), Inc(Var("x"), 1), Use("x")>>, <<>>), Ret(<<Var("x")>>)>>)
LawShadow == Is(Run1(<<Shadow>>, <<>>, "F", <<a>>), a)

\* maps: comma-ok, delete, len ; slices alias, index out of range panics
MapF == F1("F", Pab, <<Decl("m", "mii", Mk("mii", <<<<IntL(1), IntL(10)>>, <<IntL(2), IntL(20)>>>>)), Asg(Ix("mii", Var("m"), va), vb),
                      Del("mii", Var("m"), IntL(2)), MOk("v", "ok", "mii", Var("m"), IntL(1), TRUE),
                      If(Var("ok"), <<Ret(<<Bin("+", I, Bin("*", I, Var("v"), IntL(10)), LenE("mii", Var("m")))>>)>>, <<>>), Ret(<<IntL(-1)>>)>>)
LawMap == Is(Run1(<<MapF>>, <<>>, "F", <<a, b>>), CASE a = 1 -> b * 10 + 1 [] a = 2 -> 101 [] OTHER -> 102)
SlF == F1("F", Pa, <<Decl("s", "ints", Mk("ints", <<IntL(1), IntL(2), IntL(3)>>)), Decl("t", "ints", Var("s")), Asg(Ix("ints", Var("t"), IntL(0)), IntL(9)),
                    Ret(<<Bin("+", I, Ix("ints", Var("s"), va), Ix("ints", Var("s"), IntL(0)))>>)>>)
LawSlice == Run1(<<SlF>>, <<>>, "F", <<a>>) = (IF a < 0 \/ a > 2 THEN <<"panic">> ELSE <<"ok", <<9, 2, 3>>[a + 1] + 9>>)

Laws == [divmod |-> LawDivMod, short |-> LawShort, struct |-> LawStruct, range |-> LawRange, continue |-> LawContinue, opasg |-> LawOpAsg,
         fall |-> LawFall, defer |-> LawDefer, recover |-> LawRecover, shadow |-> LawShadow, map |-> LawMap, slice |-> LawSlice]
AllLaws == on => \A n \in DOMAIN Laws : Laws[n] \/ ~PrintT(<<"@@LAW@@", n, a, b>>)

\* one initial state per value of a (the laws are evaluated in the successors, by all of TLC's workers)
Init == a \in Rng /\ b = 0 /\ on = FALSE
Next == on = FALSE /\ b' \in Rng /\ on' = TRUE /\ UNCHANGED a
=============================================================================
