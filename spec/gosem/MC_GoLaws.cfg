INIT Init
NEXT Next
CONSTANTS
  Bug = "none"
INVARIANT AllLaws
CHECK_DEADLOCK FALSE
