\* the evaluator satisfies every law (RngN is replaced per tier)
INIT Init
NEXT Next
CONSTANTS
  Bug = "none"
  RngN = 5
INVARIANT AllLaws
CHECK_DEADLOCK FALSE
