\* thorough tier: all expressions of the families, all statement skeletons
INIT Init
NEXT Next
CONSTANTS
  Bug = "none"
  Seed = 1
  Thin = 1
  Chunks = 64
  ExprPerProg = 40
CHECK_DEADLOCK FALSE
