\* a named deviation of the evaluator (Bug is replaced per run): TLC must report a violated law
INIT Init
NEXT Next
CONSTANTS
  Bug = "floordiv"
  RngN = 3
INVARIANT AllLaws
CHECK_DEADLOCK FALSE
