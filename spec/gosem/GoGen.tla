------------------------------- MODULE GoGen -------------------------------
(* SAMPLED part of the program space: programs are built by DERIVATION STEPS that TLC chooses (tlc -simulate).

   The state is the derivation so far: the sequence `ch` of production choices (numbers below K).  A step appends one choice;
   after Depth steps the derivation is complete, Build(ch) turns it into the program (leftmost derivation: the i-th hole of
   the syntax tree, in source order, is expanded by the production that the next unused choice selects among the productions
   that are WELL TYPED there - so every derivation yields a program that type checks; a derivation that runs out of choices
   is completed by production 0 of every non-terminal, which is a leaf), GoSem evaluates its entry function on the boundary
   argument vectors and the case is printed after @@HIST@@.

   Shape of a generated program (exclusion register in GoSubset.tla respected by construction):
     package-level variables  g0, g1 (g1's initialiser refers to g0), gs []int      - read by generated code only through
                              getg() / direct reads of gs; written by statements whose right side has no side effect (G1)
     fixed helpers with chosen constants: bump (side effect + bool: operands of && ||), getg, two (two results, optionally NAMED
                              with a bare return), rec (recursion), mods (modifies a slice argument), setA (pointer argument),
                              mkS / sumS (struct result / struct argument modified inside: value semantics), guard (defer +
                              recover + explicit panic), dfr (deferred call vs. returned value), tick (deferred by name),
                              the methods (p *S) addA / sum (pointer receivers; value receivers are excluded: U2)
     h(p, q)                  a helper with a GENERATED side-effect-free body
     F(a, b, xs)              the entry: optional defer, a GENERATED body (declarations of every type, assignments to variables /
                              elements / fields / map entries, op=, ++, swaps, if / else-if / init, the for forms, range over
                              slices / maps / strings, labelled break / continue, switch with fallthrough / default anywhere
                              (when harmless, U11) / tagless, early return, panic, calls with several results, comma-ok, append,
                              delete, nested blocks that shadow), and a final return that folds every integer variable in scope *)
EXTENDS GoSem, Json

CONSTANTS Depth, K

VARIABLES ch, phase

I == "int"

\* ---------------------------------------------------------------- the choice stream
G0(c) == [ch |-> c, k |-> 0]
Pick(g, n) == IF g.ch = <<>> THEN 0 ELSE Head(g.ch) % n
Adv(g) == IF g.ch = <<>> THEN g ELSE [g EXCEPT !.ch = Tail(@)]
Fresh(g) == [g EXCEPT !.k = @ + 1]
NameOf(g) == "x" \o ToString(g.k)
X(x, g) == [x |-> x, g |-> g]

\* ---------------------------------------------------------------- contexts
\* vars: [n, t, ro (never assigned by generated code: loop counters), bld (append-only builder slice)]
V(n, t, ro, bld) == [n |-> n, t |-> t, ro |-> ro, bld |-> bld]
Cx0(vars, eff, hasH) == [vars |-> vars, loop |-> FALSE, brk |-> FALSE, lbls |-> <<>>, eff |-> eff, hasH |-> hasH, frozen |-> "", glob |-> eff, top |-> TRUE]
VarsOf(cx, t) == SelectSeq(cx.vars, LAMBDA v : v.t = t)
Writable(cx, t) == SelectSeq(cx.vars, LAMBDA v : v.t = t /\ ~v.ro)
WithVar(cx, v) == [cx EXCEPT !.vars = Append(@, v)]
Pure(cx) == [cx EXCEPT !.eff = FALSE]

Lits == <<0, 1, 2, 3, 5, 7, -1>>
NzLits == <<1, 2, 3, -2, 7>>
StrLits == << <<>>, <<97>>, <<97, 98>>, <<98>>, <<97, 98, 99>> >>
AOps == <<"+", "-", "*", "/", "%">>
COps == <<"==", "!=", "<", "<=", ">", ">=">>

RECURSIVE GenInt(_, _, _), GenBool(_, _, _), GenStr(_, _, _), GenBlock(_, _, _), GenStmts(_, _, _, _, _), GenStmt(_, _, _)

LitInt(g) == X(IntL(Lits[Pick(g, Len(Lits)) + 1]), Adv(g))
\* an index: never a negative CONSTANT (Go rejects it at compile time); may well be out of range at run time
GenIdx(cx, g) ==
    LET ivs == VarsOf(cx, I)  c == Pick(g, 4)  g1 == Adv(g) IN
    IF c = 0 \/ ivs = <<>> THEN X(IntL(<<0, 0, 1, 0, 1, 2>>[Pick(g1, 6) + 1]), Adv(g1))
    ELSE LET v == Var(ivs[Pick(g1, Len(ivs)) + 1].n)  g2 == Adv(g1) IN
         IF c = 1 THEN X(v, g2) ELSE X(Bin(IF c = 2 THEN "+" ELSE "%", I, v, IntL(Pick(g2, 3) + 1)), Adv(g2))
\* a divisor: never a CONSTANT zero
GenDiv(cx, g) ==
    LET ivs == VarsOf(cx, I)  c == Pick(g, 3)  g1 == Adv(g) IN
    IF c = 0 \/ ivs = <<>> THEN X(IntL(NzLits[Pick(g1, Len(NzLits)) + 1]), Adv(g1))
    ELSE LET v == Var(ivs[Pick(g1, Len(ivs)) + 1].n)  g2 == Adv(g1) IN
         IF c = 1 THEN X(v, g2) ELSE X(Bin("-", I, v, IntL(Pick(g2, 3))), Adv(g2))

AnyOf(cx, ts) == SelectSeq(cx.vars, LAMBDA v : v.t \in ts)

GenInt(cx, d, g) ==
    LET c == Pick(g, IF d = 0 THEN 2 ELSE 14)  g1 == Adv(g)  ivs == VarsOf(cx, I) IN
    CASE c = 0 -> LitInt(g1)
      [] c \in {1, 12, 13} -> IF ivs = <<>> THEN LitInt(g1) ELSE X(Var(ivs[Pick(g1, Len(ivs)) + 1].n), Adv(g1))
      [] c \in {2, 3, 4} -> (
           LET op == AOps[Pick(g1, 5) + 1]
               l == GenInt(cx, d - 1, Adv(g1))
               r == IF op \in {"/", "%"} THEN GenDiv(cx, l.g) ELSE GenInt(cx, d - 1, l.g)
           IN X(Bin(op, I, l.x, r.x), r.g))
      [] c = 5 -> (LET e == GenInt(cx, d - 1, g1) IN X(Un("-", e.x), e.g))
      [] c = 6 -> (LET svs == VarsOf(cx, "ints") IN
                  IF svs = <<>> THEN LitInt(g1)
                  ELSE LET i == GenIdx(cx, Adv(g1)) IN X(Ix("ints", Var(svs[Pick(g1, Len(svs)) + 1].n), i.x), i.g))
      [] c = 7 -> (LET cs == AnyOf(cx, {"ints", "str", "mii", "msi", "bytes"}) IN
                  IF cs = <<>> THEN LitInt(g1)
                  ELSE LET v == cs[Pick(g1, Len(cs)) + 1] IN X(LenE(v.t, Var(v.n)), Adv(g1)))
      [] c = 8 -> (
           LET w == Pick(g1, 7)  g2 == Adv(g1) IN
           CASE w = 0 -> X(CallE("rec", <<IntL(Pick(g2, 5))>>), Adv(g2))
             [] w = 1 -> (IF cx.hasH THEN LET p == GenInt(cx, d - 1, g2)  q == GenInt(cx, 0, p.g) IN X(CallE("h", <<p.x, q.x>>), q.g)
                         ELSE X(CallE("getg", <<>>), g2))
             [] w = 2 -> X(CallE("getg", <<>>), g2)
             [] w = 3 -> (LET p == GenInt(cx, 0, g2) IN X(CallE("sumS", <<CallE("mkS", <<p.x>>)>>), p.g))
             [] w = 4 -> (LET ss == VarsOf(cx, "S") IN
                         IF ss = <<>> THEN X(CallE("getg", <<>>), g2) ELSE X(CallE("sumS", <<Var(ss[Pick(g2, Len(ss)) + 1].n)>>), Adv(g2)))
             [] w = 5 -> (IF cx.eff THEN LET p == GenInt(cx, 0, g2) IN X(CallE("dfr", <<p.x>>), p.g) ELSE X(CallE("rec", <<IntL(2)>>), g2))
             [] w = 6 -> (IF cx.eff THEN LET p == GenInt(cx, 0, g2) IN X(CallE("guard", <<p.x>>), p.g) ELSE X(CallE("rec", <<IntL(3)>>), g2)))
      [] c = 9 -> (LET ss == AnyOf(cx, {"S", "pS"}) IN
                  IF ss = <<>> THEN LitInt(g1)
                  ELSE LET v == ss[Pick(g1, Len(ss)) + 1]  w == Pick(Adv(g1), 4) IN
                       IF v.t = "pS" /\ w = 2 THEN X(CallE("S.sum", <<Var(v.n)>>), Adv(Adv(g1)))
                       ELSE X(Fld(v.t, Var(v.n), (w % 2) + 1), Adv(Adv(g1))))
      [] c = 10 -> (LET ms == AnyOf(cx, {"mii", "msi"}) IN
                   IF ms = <<>> THEN LitInt(g1)
                   ELSE LET v == ms[Pick(g1, Len(ms)) + 1]  g2 == Adv(g1) IN
                        IF v.t = "mii" THEN X(Ix("mii", Var(v.n), IntL(<<0, 1, 2, 3, 2, 0>>[Pick(g2, 6) + 1])), Adv(g2))
                        ELSE X(Ix("msi", Var(v.n), StrL(StrLits[Pick(g2, 3) + 1])), Adv(g2)))
      [] c = 11 -> (LET cs == AnyOf(cx, {"str", "bytes"}) IN
                   IF cs = <<>> THEN LitInt(g1)
                   ELSE LET v == cs[Pick(g1, Len(cs)) + 1]  i == GenIdx(cx, Adv(g1)) IN X(Ix(v.t, Var(v.n), i.x), i.g))

GenBool(cx, d, g) ==
    LET c == Pick(g, IF d = 0 THEN 2 ELSE 9)  g1 == Adv(g)  bvs == VarsOf(cx, "bool") IN
    CASE c \in {0, 2, 3} -> (
           LET l == GenInt(cx, IF d = 0 THEN 0 ELSE d - 1, Adv(g1))  r == GenInt(cx, 0, l.g)
           IN X(Bin(COps[Pick(g1, 6) + 1], I, l.x, r.x), r.g))
      [] c = 1 -> IF bvs = <<>> THEN X(BoolL(Pick(g1, 2) = 1), Adv(g1)) ELSE X(Var(bvs[Pick(g1, Len(bvs)) + 1].n), Adv(g1))
      [] c \in {4, 8} -> (LET l == GenBool(cx, d - 1, Adv(g1))  r == GenBool(cx, d - 1, l.g)
                         IN X(Bin(IF Pick(g1, 2) = 0 THEN "&&" ELSE "||", "bool", l.x, r.x), r.g))
      [] c = 5 -> (LET e == GenBool(cx, d - 1, g1) IN X(Un("!", e.x), e.g))
      [] c = 6 -> (IF cx.eff THEN LET p == GenInt(cx, 0, g1) IN X(CallE("bump", <<p.x>>), p.g)
                  ELSE LET l == GenInt(cx, 0, g1)  r == GenInt(cx, 0, l.g) IN X(Bin("<", I, l.x, r.x), r.g))
      [] c = 7 -> (
           LET rs == AnyOf(cx, {"ints", "pS", "mii"}) IN
           IF Pick(g1, 2) = 0 /\ rs # <<>> THEN LET v == rs[Pick(Adv(g1), Len(rs)) + 1] IN X(IsNil(v.t, Var(v.n)), Adv(Adv(g1)))
           ELSE LET l == GenStr(cx, 0, Adv(g1))  r == GenStr(cx, 0, l.g)
                IN X(Bin(IF Pick(l.g, 2) = 0 THEN "==" ELSE "!=", "str", l.x, r.x), Adv(r.g)))

GenStr(cx, d, g) ==
    LET c == Pick(g, IF d = 0 THEN 2 ELSE 5)  g1 == Adv(g)  svs == VarsOf(cx, "str") IN
    CASE c = 0 -> X(StrL(StrLits[Pick(g1, Len(StrLits)) + 1]), Adv(g1))
      [] c = 1 -> IF svs = <<>> THEN X(StrL(<<98>>), g1) ELSE X(Var(svs[Pick(g1, Len(svs)) + 1].n), Adv(g1))
      [] c = 2 -> (LET l == GenStr(cx, d - 1, g1)  r == GenStr(cx, d - 1, l.g) IN X(Bin("+", "str", l.x, r.x), r.g))
      [] c = 3 -> (IF svs = <<>> THEN X(StrL(<<97>>), g1)
                  ELSE LET v == Var(svs[Pick(g1, Len(svs)) + 1].n)  g2 == Adv(g1)  lo == Pick(g2, 2)  w == Pick(Adv(g2), 4) IN
                       X(SubE(v, IF w = 3 THEN None ELSE IntL(lo), IF w = 0 THEN None ELSE IntL(lo + w - 1)), Adv(Adv(g2))))
      [] c = 4 -> (LET bs == VarsOf(cx, "bytes") IN
                  IF bs = <<>> THEN X(StrL(<<97, 98>>), g1) ELSE X(Conv("str", Var(bs[Pick(g1, Len(bs)) + 1].n)), Adv(g1)))

GenOf(t, cx, d, g) == CASE t = I -> GenInt(cx, d, g) [] t = "bool" -> GenBool(cx, d, g) [] OTHER -> GenStr(cx, d, g)

\* ---------------------------------------------------------------- statements
\* a result of statement generation: ss (statements), cx (declarations visible to the following statements), g
S3(ss, cx, g) == [ss |-> ss, cx |-> cx, g |-> g]

\* a fresh declaration of a variable of a chosen type
GenDecl(cx, d, g) ==
    LET c == Pick(g, 12)  g1 == Fresh(Adv(g))  n == NameOf(g1) IN
    CASE c \in {0, 1, 2} -> (LET e == GenInt(cx, d, g1) IN S3(<<Decl(n, I, e.x)>>, WithVar(cx, V(n, I, FALSE, FALSE)), e.g))
      [] c = 3 -> (LET e == GenBool(cx, d, g1) IN S3(<<Decl(n, "bool", e.x)>>, WithVar(cx, V(n, "bool", FALSE, FALSE)), e.g))
      [] c = 4 -> (LET e == GenStr(cx, 1, g1) IN S3(<<Decl(n, "str", e.x)>>, WithVar(cx, V(n, "str", FALSE, FALSE)), e.g))
      [] c = 5 -> (LET e1 == GenInt(Pure(cx), 1, g1)  e2 == GenInt(Pure(cx), 0, e1.g)  w == Pick(e2.g, 3) IN     \* U14: elements without side effects
                  S3(<<Decl(n, "ints", Mk("ints", IF w = 0 THEN <<e1.x>> ELSE IF w = 1 THEN <<e1.x, e2.x>> ELSE <<e1.x, IntL(4), e2.x>>))>>,
                     WithVar(cx, V(n, "ints", FALSE, FALSE)), Adv(e2.g)))
      [] c = 6 -> ( \* a builder: only appended to, indexed, measured, ranged, passed on
                  LET w == Pick(g1, 3) IN
                  S3(<<IF w = 0 THEN DeclZ(n, "ints") ELSE Decl(n, "ints", Mk("ints", IF w = 1 THEN <<>> ELSE <<IntL(6)>>))>>,
                     WithVar(cx, V(n, "ints", FALSE, TRUE)), Adv(g1)))
      [] c = 7 -> (LET e == GenInt(cx, 0, g1)  w == Pick(e.g, 3) IN
                  S3(<<IF w = 0 THEN Decl(n, "mii", Make("mii", None))
                       ELSE Decl(n, "mii", Mk("mii", IF w = 1 THEN << <<IntL(1), e.x>> >> ELSE << <<IntL(2), IntL(20)>>, <<IntL(0), e.x>>, <<IntL(3), IntL(5)>> >>))>>,
                     WithVar(cx, V(n, "mii", FALSE, FALSE)), Adv(e.g)))
      [] c = 8 -> (LET e == GenInt(cx, 0, g1) IN
                  S3(<<Decl(n, "msi", Mk("msi", << <<StrL(<<97>>), e.x>>, <<StrL(<<97, 98>>), IntL(2)>> >>))>>, WithVar(cx, V(n, "msi", FALSE, FALSE)), e.g))
      [] c = 9 -> (LET e1 == GenInt(Pure(cx), 1, g1)  e2 == GenInt(Pure(cx), 0, e1.g) IN
                  IF Pick(e2.g, 2) = 0 THEN S3(<<Decl(n, "S", Mk("S", <<e1.x, e2.x>>))>>, WithVar(cx, V(n, "S", FALSE, FALSE)), Adv(e2.g))
                  ELSE S3(<<Decl(n, "S", CallE("mkS", <<e1.x>>))>>, WithVar(cx, V(n, "S", FALSE, FALSE)), Adv(e2.g)))
      [] c = 10 -> (LET e1 == GenInt(Pure(cx), 1, g1)  e2 == GenInt(Pure(cx), 0, e1.g) IN
                   IF Pick(e2.g, 4) = 0 THEN S3(<<DeclZ(n, "pS")>>, WithVar(cx, V(n, "pS", FALSE, FALSE)), Adv(e2.g))
                   ELSE S3(<<Decl(n, "pS", Mk("pS", <<e1.x, e2.x>>))>>, WithVar(cx, V(n, "pS", FALSE, FALSE)), Adv(e2.g)))
      [] c = 11 -> (LET w == Pick(g1, 3)  svs == VarsOf(cx, "str") IN
                   IF w = 0 /\ svs # <<>> THEN S3(<<Decl(n, "bytes", Conv("bytes", Var(svs[1].n)))>>, WithVar(cx, V(n, "bytes", FALSE, FALSE)), Adv(g1))
                   ELSE S3(<<Decl(n, "bytes", Mk("bytes", IF w = 1 THEN <<IntL(1), IntL(200)>> ELSE <<IntL(0), IntL(255), IntL(7)>>))>>,
                           WithVar(cx, V(n, "bytes", FALSE, FALSE)), Adv(g1)))

\* assignment to an existing integer variable (or a declaration when there is none): production 0, the leaf
GenAsg(cx, d, g) ==
    LET ws == Writable(cx, I) IN
    IF ws = <<>> THEN GenDecl(cx, d, [g EXCEPT !.ch = <<0>> \o @])
    ELSE LET v == Var(ws[Pick(g, Len(ws)) + 1].n)  g1 == Adv(g)  c == Pick(g1, 6)  g2 == Adv(g1) IN
         CASE c \in {0, 1} -> (LET e == GenInt(cx, d, g2) IN S3(<<Asg(v, e.x)>>, cx, e.g))
           [] c = 2 -> (LET op == AOps[Pick(g2, 3) + 1]  e == GenInt(cx, d, Adv(g2)) IN S3(<<OpAsg(op, I, v, e.x)>>, cx, e.g))
           [] c = 3 -> (LET op == AOps[Pick(g2, 2) + 4]  e == GenDiv(cx, Adv(g2)) IN S3(<<OpAsg(op, I, v, e.x)>>, cx, e.g))
           [] c = 4 -> S3(<<Inc(v, IF Pick(g2, 2) = 0 THEN 1 ELSE -1)>>, cx, Adv(g2))
           [] c = 5 -> (IF Len(ws) < 2 THEN S3(<<Inc(v, 1)>>, cx, g2)
                       ELSE LET u == Var(ws[((Pick(g, Len(ws)) + 1) % Len(ws)) + 1].n) IN S3(<<TAsg(<<v, u>>, <<u, v>>)>>, cx, g2))

\* stores through references: element, field, map entry, global
GenStore(cx, d, g) ==
    LET c == Pick(g, 7)  g1 == Adv(g) IN
    CASE c = 0 -> (LET svs == SelectSeq(VarsOf(cx, "ints"), LAMBDA v : TRUE) IN
                  IF svs = <<>> THEN GenAsg(cx, d, g1)
                  ELSE LET i == GenIdx(cx, Adv(g1))  e == GenInt(cx, d, i.g) IN S3(<<Asg(Ix("ints", Var(svs[Pick(g1, Len(svs)) + 1].n), i.x), e.x)>>, cx, e.g))
      [] c = 1 -> (LET ss == AnyOf(cx, {"S", "pS"}) IN
                  IF ss = <<>> THEN GenAsg(cx, d, g1)
                  ELSE LET v == ss[Pick(g1, Len(ss)) + 1]  g2 == Adv(g1)  e == GenInt(cx, d, Adv(g2))  l == Fld(v.t, Var(v.n), Pick(g2, 2) + 1) IN
                       IF Pick(e.g, 3) = 0 THEN S3(<<OpAsg("+", I, l, e.x)>>, cx, Adv(e.g)) ELSE S3(<<Asg(l, e.x)>>, cx, Adv(e.g)))
      [] c = 2 -> (LET ms == VarsOf(cx, "mii") IN
                  IF ms = <<>> THEN GenAsg(cx, d, g1)
                  ELSE LET m == Var(ms[Pick(g1, Len(ms)) + 1].n)  g2 == Adv(g1)  k == GenInt(cx, 0, Adv(g2))  e == GenInt(cx, d, k.g)  w == Pick(g2, 4) IN
                       CASE w \in {0, 1} -> S3(<<Asg(Ix("mii", m, k.x), e.x)>>, cx, e.g)
                         [] w = 2 -> S3(<<OpAsg("+", I, Ix("mii", m, k.x), e.x)>>, cx, e.g)
                         [] w = 3 -> S3(<<Del("mii", m, k.x)>>, cx, k.g))
      [] c = 3 -> (LET ms == VarsOf(cx, "msi") IN
                  IF ms = <<>> THEN GenAsg(cx, d, g1)
                  ELSE LET m == Var(ms[Pick(g1, Len(ms)) + 1].n)  k == GenStr(cx, 1, Adv(g1))  e == GenInt(cx, d, k.g) IN S3(<<Asg(Ix("msi", m, k.x), e.x)>>, cx, e.g))
      [] c = 4 -> ( \* package-level variables: the right side has no side effect (G1)
                  LET e == GenInt(Pure(cx), d, Adv(g1)) IN
                  IF ~cx.glob THEN GenAsg(cx, d, g1) ELSE
                  IF Pick(g1, 2) = 0 THEN S3(<<Asg(Var("g0"), e.x)>>, cx, e.g) ELSE S3(<<OpAsg("+", I, Var("g1"), e.x)>>, cx, e.g))
      [] c = 5 -> (LET i == GenIdx(cx, g1)  e == GenInt(Pure(cx), d, i.g) IN IF ~cx.glob THEN GenAsg(cx, d, g1) ELSE S3(<<Asg(Ix("ints", Var("gs"), i.x), e.x)>>, cx, e.g))
      [] c = 6 -> (LET bs == VarsOf(cx, "bytes") IN
                  IF bs = <<>> THEN GenAsg(cx, d, g1)
                  ELSE LET i == GenIdx(cx, Adv(g1)) IN
                       S3(<<Asg(Ix("bytes", Var(bs[Pick(g1, Len(bs)) + 1].n), i.x), IntL(<<0, 9, 255, 65>>[Pick(i.g, 4) + 1]))>>, cx, Adv(i.g)))

\* calls as statements, several results, comma-ok, append
GenCall(cx, d, g) ==
    LET c == Pick(g, 7)  g1 == Fresh(Adv(g))  n == NameOf(g1) IN
    CASE c = 0 -> (LET svs == VarsOf(cx, "ints")  e == GenInt(cx, 0, Adv(g1)) IN
                  IF svs = <<>> THEN GenAsg(cx, d, g1)
                  ELSE S3(<<CallS("mods", <<Var(svs[Pick(g1, Len(svs)) + 1].n), e.x>>)>>, cx, e.g))
      [] c = 1 -> (LET ps == VarsOf(cx, "pS")  e == GenInt(cx, 0, Adv(g1)) IN
                  IF ps = <<>> THEN GenAsg(cx, d, g1)
                  ELSE S3(<<CallS(IF Pick(e.g, 2) = 0 THEN "setA" ELSE "S.addA", <<Var(ps[Pick(g1, Len(ps)) + 1].n), e.x>>)>>, cx, Adv(e.g)))
      [] c = 2 -> (LET e == GenInt(cx, d, Adv(g1))  g2 == Fresh(e.g)  n2 == NameOf(g2)  w == Pick(g1, 3) IN
                  CASE w = 0 -> S3(<<MRet(<<n, n2>>, "two", <<e.x>>, TRUE)>>, WithVar(WithVar(cx, V(n, I, FALSE, FALSE)), V(n2, I, FALSE, FALSE)), g2)
                    [] w = 1 -> S3(<<MRet(<<"_", n>>, "two", <<e.x>>, TRUE)>>, WithVar(cx, V(n, I, FALSE, FALSE)), g2)
                    [] w = 2 -> (LET ws == Writable(cx, I) IN
                                IF Len(ws) < 2 THEN S3(<<MRet(<<n, "_">>, "two", <<e.x>>, TRUE)>>, WithVar(cx, V(n, I, FALSE, FALSE)), g2)
                                ELSE S3(<<MRet(<<ws[1].n, ws[Len(ws)].n>>, "two", <<e.x>>, FALSE)>>, cx, g2)))
      [] c = 3 -> (LET ms == AnyOf(cx, {"mii"})  g2 == Fresh(g1)  n2 == NameOf(g2) IN
                  IF ms = <<>> THEN GenAsg(cx, d, g1)
                  ELSE LET k == GenInt(cx, 0, Adv(g2)) IN
                       S3(<<MOk(n, n2, "mii", Var(ms[Pick(g2, Len(ms)) + 1].n), k.x, TRUE)>>,
                          WithVar(WithVar(cx, V(n, I, FALSE, FALSE)), V(n2, "bool", FALSE, FALSE)), k.g))
      [] c = 4 -> (LET bs == SelectSeq(cx.vars, LAMBDA v : v.bld /\ v.n # cx.frozen) IN
                  IF bs = <<>> THEN GenDecl(cx, d, [g1 EXCEPT !.ch = <<6>> \o @])
                  ELSE LET e1 == GenInt(cx, d, Adv(g1))  e2 == GenInt(cx, 0, e1.g) IN
                       S3(<<App(bs[Pick(g1, Len(bs)) + 1].n, IF Pick(e2.g, 2) = 0 THEN <<e1.x>> ELSE <<e1.x, e2.x>>)>>, cx, Adv(e2.g)))
      [] c = 5 -> (IF cx.eff THEN LET e == GenInt(cx, 0, g1) IN S3(<<CallS("bump", <<e.x>>)>>, cx, e.g) ELSE GenAsg(cx, d, g1))
      [] c = 6 -> (LET ms == AnyOf(cx, {"msi"})  g2 == Fresh(g1)  n2 == NameOf(g2) IN
                  IF ms = <<>> THEN GenAsg(cx, d, g1)
                  ELSE LET k == GenStr(cx, 1, Adv(g2)) IN
                       S3(<<MOk(n, n2, "msi", Var(ms[Pick(g2, Len(ms)) + 1].n), k.x, TRUE)>>,
                          WithVar(WithVar(cx, V(n, I, FALSE, FALSE)), V(n2, "bool", FALSE, FALSE)), k.g))

\* jumps, guarded so that the code after them stays reachable
GenJump(cx, d, g) ==
    LET cnd == GenBool(cx, 1, Adv(g))  c == Pick(g, 6)  g1 == cnd.g IN
    CASE c = 0 /\ cx.loop -> S3(<<If(cnd.x, <<Cont("")>>, <<>>)>>, cx, g1)
      [] c = 1 /\ cx.brk -> S3(<<If(cnd.x, <<Brk("")>>, <<>>)>>, cx, g1)
      [] c = 2 /\ cx.lbls # <<>> -> S3(<<If(cnd.x, <<Cont(cx.lbls[Pick(g1, Len(cx.lbls)) + 1])>>, <<>>)>>, cx, Adv(g1))
      [] c = 3 /\ cx.lbls # <<>> -> S3(<<If(cnd.x, <<Brk(cx.lbls[Pick(g1, Len(cx.lbls)) + 1])>>, <<>>)>>, cx, Adv(g1))
      [] c = 4 /\ ~cx.top -> (LET e == GenInt(cx, 1, g1) IN S3(<<If(cnd.x, <<Ret(<<e.x>>)>>, <<>>)>>, cx, e.g))
      [] cx.top /\ Pick(g1, 4) # 0 -> GenStore(cx, d, Adv(g1))
      [] OTHER -> (IF Pick(g1, 3) = 0 THEN S3(<<If(cnd.x, <<Panic(StrL(<<112>>))>>, <<>>)>>, cx, Adv(g1))
                  ELSE LET e == GenInt(cx, 1, Adv(g1)) IN S3(<<If(cnd.x, <<Ret(<<e.x>>)>>, <<>>)>>, cx, e.g))

GenBlock(cx, d, g) == LET r == GenStmts([cx EXCEPT !.top = FALSE], d, Pick(g, 3) + 1, Adv(g), <<>>) IN X(r.ss, r.g)
GenStmts(cx, d, n, g, acc) ==
    IF n = 0 THEN S3(acc, cx, g)
    ELSE LET r == GenStmt(cx, d, g) IN GenStmts(r.cx, d, n - 1, r.g, acc \o r.ss)

InLoop(cx, lbl) == [cx EXCEPT !.loop = TRUE, !.brk = TRUE, !.lbls = IF lbl = "" THEN @ ELSE Append(@, lbl)]

GenLoop(cx, d, g) ==
    LET c == Pick(g, 8)  g1 == Fresh(Adv(g))  n == NameOf(g1)  lbl == IF Pick(g1, 3) = 0 THEN "L" \o ToString(g1.k) ELSE ""  g2 == Adv(g1) IN
    CASE c \in {0, 1} -> ( \* for i := 0; i < bound; i++        (the counter is read-only for the generated body)
           LET svs == VarsOf(cx, "ints")  ivs == VarsOf(cx, I)
               bnd == CASE Pick(g2, 4) = 0 /\ svs # <<>> -> LenE("ints", Var(svs[1].n))
                        [] Pick(g2, 4) = 1 /\ ivs # <<>> -> Bin("%", I, Var(ivs[1].n), IntL(4))
                        [] OTHER -> IntL(Pick(g2, 4) + 1)
               b == GenBlock(InLoop(WithVar(cx, V(n, I, TRUE, FALSE)), lbl), d - 1, Adv(g2))
           IN S3(<<For(Decl(n, I, IntL(0)), Bin("<", I, Var(n), bnd), Inc(Var(n), 1), b.x, lbl)>>, cx, b.g))
      [] c = 2 -> ( \* for cond { n++ ; body }  /  for cond && <bool> { ... }
           LET cnd == GenBool(cx, 1, g2)
               b == GenBlock(InLoop(WithVar(cx, V(n, I, TRUE, FALSE)), lbl), d - 1, cnd.g)
           IN S3(<<Decl(n, I, IntL(0)), For(None, Bin("&&", "bool", Bin("<", I, Var(n), IntL(3)), cnd.x), None, <<Inc(Var(n), 1)>> \o b.x, lbl)>>,
                 WithVar(cx, V(n, I, TRUE, FALSE)), b.g))
      [] c = 3 -> ( \* for { n++; if n > k { break }; body }
           LET b == GenBlock(InLoop(WithVar(cx, V(n, I, TRUE, FALSE)), lbl), d - 1, Adv(g2))
           IN S3(<<Decl(n, I, IntL(0)), For(None, None, None, <<Inc(Var(n), 1), If(Bin(">", I, Var(n), IntL(Pick(g2, 3) + 1)), <<Brk("")>>, <<>>)>> \o b.x, lbl)>>,
                 WithVar(cx, V(n, I, TRUE, FALSE)), b.g))
      [] c \in {4, 5} -> ( \* range over a slice
           LET svs == VarsOf(cx, "ints")
               sv == svs[Pick(g2, Len(svs)) + 1]
               g3 == Fresh(Adv(g2))  vn == NameOf(g3)  w == Pick(g3, 4)
               cxb == [InLoop(cx, lbl) EXCEPT !.frozen = sv.n]
               cx1 == IF w \in {1, 3} THEN cxb ELSE WithVar(cxb, V(n, I, TRUE, FALSE))
               cx2 == IF w \in {0, 1} THEN WithVar(cx1, V(vn, I, FALSE, FALSE)) ELSE cx1
               b == GenBlock(cx2, d - 1, Adv(g3))
           IN IF svs = <<>> THEN GenAsg(cx, d, g2)
              ELSE S3(<<Range(IF w = 3 THEN "" ELSE IF w = 1 THEN "_" ELSE n, IF w \in {0, 1} THEN vn ELSE "", "ints", Var(sv.n), b.x, lbl)>>, cx, b.g))
      [] c = 6 -> ( \* range over a map: a commutative accumulation (G2)
           LET ms == VarsOf(cx, "mii")  g3 == Fresh(g2)  vn == NameOf(g3)  g4 == Fresh(g3)  acc == NameOf(g4)
               e == GenInt(Pure([cx EXCEPT !.vars = <<V(n, I, TRUE, FALSE), V(vn, I, TRUE, FALSE)>> \o SelectSeq(@, LAMBDA v : v.t = I /\ v.ro)]), 2, Adv(g4))
           IN IF ms = <<>> THEN GenAsg(cx, d, g2)
              ELSE S3(<<Decl(acc, I, IntL(0)), Range(n, vn, "mii", Var(ms[Pick(g4, Len(ms)) + 1].n), <<OpAsg("+", I, Var(acc), e.x)>>, "")>>,
                      WithVar(cx, V(acc, I, FALSE, FALSE)), e.g))
      [] c = 7 -> ( \* range over the indexes of a string / byte slice
           LET cs == AnyOf(cx, {"str", "bytes"})
               b == GenBlock(InLoop(WithVar(cx, V(n, I, TRUE, FALSE)), lbl), d - 1, Adv(g2))
           IN IF cs = <<>> THEN GenAsg(cx, d, g2)
              ELSE LET v == cs[Pick(g2, Len(cs)) + 1] IN S3(<<Range(n, "", v.t, Var(v.n), b.x, lbl)>>, cx, b.g))

\* switch: distinct constant cases; default anywhere only without fallthrough (U11), otherwise last or absent
GenSwitch(cx, d, g) ==
    LET c == Pick(g, 4)  g1 == Adv(g)
        cxs == [cx EXCEPT !.brk = TRUE]
    IN IF c = 3 THEN      \* tagless, first true clause wins; default last or absent
           LET c1 == GenBool(cx, 1, g1)  b1 == GenBlock(cxs, d - 1, c1.g)
               c2 == GenBool(cx, 1, b1.g)  b2 == GenBlock(cxs, d - 1, c2.g)
               b3 == GenBlock(cxs, d - 1, b2.g)
               w == Pick(b3.g, 2)
           IN S3(<<Sw(None, None, <<Clause(<<c1.x>>, b1.x, FALSE), Clause(<<c2.x>>, b2.x, FALSE)>> \o (IF w = 0 THEN <<>> ELSE <<Default(b3.x, FALSE)>>))>>, cx, Adv(b3.g))
       ELSE
           LET tag == GenInt(cx, 1, g1)
               b1 == GenBlock(cxs, d - 1, tag.g)  b2 == GenBlock(cxs, d - 1, b1.g)  b3 == GenBlock(cxs, d - 1, b2.g)
               w == Pick(b3.g, 6)  g2 == Adv(b3.g)
               ft1 == Pick(g2, 3) = 0  ft2 == Pick(g2, 5) = 0  g3 == Adv(g2)
               k1 == Clause(<<IntL(0)>>, b1.x, ft1)
               k2 == Clause(<<IntL(1), IntL(2)>>, b2.x, ft2)
               k3 == Clause(<<IntL(3)>>, IF cx.glob THEN <<Inc(Var("g1"), 1)>> ELSE <<>>, FALSE)
           IN CASE w = 0 -> S3(<<Sw(None, tag.x, <<k1, Clause(<<IntL(1), IntL(2)>>, b2.x, FALSE)>>)>>, cx, g3)                                                \* no default
                [] w \in {1, 2} -> S3(<<Sw(None, tag.x, <<k1, k2, k3, Default(b3.x, FALSE)>>)>>, cx, g3)               \* default last, fallthrough allowed
                [] w = 3 -> S3(<<Sw(None, tag.x, <<Default(b3.x, FALSE), Clause(<<IntL(0)>>, b1.x, FALSE), Clause(<<IntL(1), IntL(2)>>, b2.x, FALSE)>>)>>, cx, g3)
                [] w = 4 -> S3(<<Sw(None, tag.x, <<Clause(<<IntL(0)>>, b1.x, FALSE), Default(b3.x, FALSE), Clause(<<IntL(1), IntL(2)>>, b2.x, FALSE), k3>>)>>, cx, g3)
                [] w = 5 -> (LET g4 == Fresh(g3)  n == NameOf(g4) IN     \* init statement
                            S3(<<Sw(Decl(n, I, tag.x), Bin("%", I, Var(n), IntL(4)), <<k1, k2, Default(b3.x, FALSE)>>)>>, cx, g4))

GenIf(cx, d, g) ==
    LET c == Pick(g, 5)  cnd == GenBool(cx, 2, Adv(g))  th == GenBlock(cx, d - 1, cnd.g) IN
    CASE c \in {0, 1} -> S3(<<If(cnd.x, th.x, <<>>)>>, cx, th.g)
      [] c = 2 -> (LET el == GenBlock(cx, d - 1, th.g) IN S3(<<If(cnd.x, th.x, el.x)>>, cx, el.g))
      [] c = 3 -> (LET c2 == GenBool(cx, 1, th.g)  b2 == GenBlock(cx, d - 1, c2.g)  el == GenBlock(cx, d - 1, b2.g)
                  IN S3(<<If(cnd.x, th.x, <<If(c2.x, b2.x, el.x)>>)>>, cx, el.g))
      [] c = 4 -> (LET g1 == Fresh(th.g)  n == NameOf(g1)  e == GenInt(cx, 1, g1)
                      cxi == WithVar(cx, V(n, I, FALSE, FALSE))
                      b1 == GenBlock(cxi, d - 1, e.g)  b2 == GenBlock(cxi, d - 1, b1.g)
                  IN S3(<<IfI(Decl(n, I, e.x), Bin(COps[Pick(b2.g, 6) + 1], I, Var(n), IntL(Pick(b2.g, 3))), b1.x, b2.x)>>, cx, Adv(b2.g)))

\* a nested block that declares a variable with a name that is already in scope (shadowing), uses it, and ends
GenShadow(cx, d, g) ==
    LET ivs == Writable(cx, I) IN
    IF ivs = <<>> THEN GenAsg(cx, d, g)
    ELSE LET v == ivs[Pick(g, Len(ivs)) + 1]  e == GenInt(cx, 1, Adv(g))  b == GenBlock(cx, d - 1, e.g) IN
         S3(<<Blk(<<Decl(v.n, I, e.x), OpAsg("+", I, Var(v.n), IntL(1))>> \o b.x \o <<Use(v.n)>>)>>, cx, b.g)

GenStmt(cx, d, g) ==
    LET c == Pick(g, IF d = 0 THEN 6 ELSE 14)  g1 == Adv(g) IN
    CASE c \in {0, 1} -> GenAsg(cx, 1, g1)
      [] c \in {2, 3} -> GenDecl(cx, 2, g1)
      [] c = 4 -> GenStore(cx, 1, g1)
      [] c = 5 -> GenCall(cx, 1, g1)
      [] c \in {6, 7} -> GenIf(cx, d, g1)
      [] c \in {8, 9} -> GenLoop(cx, d, g1)
      [] c = 10 -> GenSwitch(cx, d, g1)
      [] c \in {11, 12} -> GenJump(cx, d, g1)
      [] c = 13 -> GenShadow(cx, d, g1)

\* ---------------------------------------------------------------- the program
\* fold every integer variable of the top-level scope, and the mutable state, into the result
RECURSIVE FoldVars(_, _, _)
FoldVars(vs, i, acc) == IF i > Len(vs) THEN acc ELSE FoldVars(vs, i + 1, Bin("+", I, acc, Bin("*", I, Var(vs[i].n), IntL((i % 3) + 1))))

Helpers(g) ==
    LET c1 == Lits[Pick(g, 6) + 1]  g1 == Adv(g)
        c2 == Pick(g1, 3) + 1       g2 == Adv(g1)
        named == Pick(g2, 2) = 1    g3 == Adv(g2)
        rop == <<"+", "*", "-">>[Pick(g3, 3) + 1]  g4 == Adv(g3)
        c3 == Pick(g4, 4)           g5 == Adv(g4)
        P1 == <<Prm("x", I)>>  R1 == <<Prm("", I)>>
    IN X(<<
        Func("bump", P1, <<Prm("", "bool")>>, FALSE, <<OpAsg("+", I, Var("g0"), Var("x")), Ret(<<Bin(">", I, Var("x"), IntL(c2))>>)>>, FALSE),
        Func("getg", <<>>, R1, FALSE, <<Ret(<<Bin("+", I, Bin("*", I, Var("g0"), IntL(3)), Var("g1"))>>)>>, FALSE),
        IF named THEN Func("two", P1, <<Prm("p", I), Prm("q", I)>>, TRUE,
                           <<Asg(Var("p"), Bin("+", I, Var("x"), IntL(c1))), Asg(Var("q"), Bin("*", I, Var("x"), IntL(c2))),
                             If(Bin(">", I, Var("x"), IntL(5)), <<Ret(<<IntL(c3), Var("p")>>)>>, <<>>), Ret(<<>>)>>, FALSE)
        ELSE Func("two", P1, <<Prm("", I), Prm("", I)>>, FALSE, <<Ret(<<Bin("+", I, Var("x"), IntL(c1)), Bin("*", I, Var("x"), IntL(c2))>>)>>, FALSE),
        Func("rec", <<Prm("n", I)>>, R1, FALSE,
             <<If(Bin("<=", I, Var("n"), IntL(0)), <<Ret(<<IntL(c2)>>)>>, <<>>), Ret(<<Bin(rop, I, Var("n"), CallE("rec", <<Bin("-", I, Var("n"), IntL(1))>>))>>)>>, FALSE),
        Func("mods", <<Prm("s", "ints"), Prm("v", I)>>, <<>>, FALSE,
             <<If(Bin(">", I, LenE("ints", Var("s")), IntL(c3 % 2)), <<Asg(Ix("ints", Var("s"), IntL(c3 % 2)), Var("v"))>>, <<>>)>>, FALSE),
        Func("setA", <<Prm("p", "pS"), Prm("v", I)>>, <<>>, FALSE, <<Asg(Fld("pS", Var("p"), 1), Var("v")), OpAsg("+", I, Fld("pS", Var("p"), 2), IntL(c2))>>, FALSE),
        Func("mkS", P1, <<Prm("", "S")>>, FALSE, <<Ret(<<Mk("S", <<Var("x"), IntL(c1)>>)>>)>>, FALSE),
        Func("sumS", <<Prm("s", "S")>>, R1, FALSE, <<OpAsg("+", I, Fld("S", Var("s"), 1), IntL(c2)), Ret(<<Bin("+", I, Fld("S", Var("s"), 1), Fld("S", Var("s"), 2))>>)>>, FALSE),
        Func("guard", P1, R1, FALSE,
             <<Defer(<<IfRec(<<Asg(Var("g1"), IntL(40 + c3))>>, <<OpAsg("+", I, Var("g1"), IntL(1))>>)>>),
               If(Bin("==", I, Var("x"), IntL(c2)), <<Panic(StrL(<<103>>))>>, <<>>), Ret(<<Bin("+", I, Var("x"), IntL(1))>>)>>, FALSE),
        Func("dfr", P1, R1, FALSE,
             <<IF c3 = 0 THEN DeferC("tick") ELSE Defer(<<Asg(Var("g0"), Bin("+", I, Bin("*", I, Var("g0"), IntL(2)), IntL(1)))>>),
               OpAsg("+", I, Var("g0"), Var("x")), Ret(<<Var("g0")>>)>>, FALSE),
        Func("tick", <<>>, <<>>, FALSE, <<OpAsg("+", I, Var("g1"), IntL(7))>>, FALSE),
        \* methods of *S (a function named "S.m" is printed as a method, its first parameter is the receiver)
        Func("S.addA", <<Prm("p", "pS"), Prm("v", I)>>, R1, FALSE, <<OpAsg("+", I, Fld("pS", Var("p"), 1), Var("v")), Ret(<<Fld("pS", Var("p"), 1)>>)>>, FALSE),
        Func("S.sum", <<Prm("p", "pS")>>, R1, FALSE, <<Ret(<<Bin("+", I, Fld("pS", Var("p"), 1), Bin("*", I, Fld("pS", Var("p"), 2), IntL(c2)))>>)>>, FALSE)
      >>, g5)

Params == <<Prm("a", I), Prm("b", I), Prm("xs", "ints")>>
ParamVars == <<V("a", I, FALSE, FALSE), V("b", I, FALSE, FALSE), V("xs", "ints", FALSE, FALSE)>>

Build(c) ==
    LET g0 == G0(c)
        gl == <<Glob("g0", I, IntL(Lits[Pick(g0, 6) + 1])), Glob("g1", I, Bin("+", I, Var("g0"), IntL(Pick(Adv(g0), 4)))),
                Glob("gs", "ints", Mk("ints", <<IntL(4), IntL(Pick(Adv(g0), 4)), IntL(9)>>))>>
        hs == Helpers(Adv(Adv(g0)))
        \* h: generated, side-effect free, two parameters
        hb == GenStmts(Cx0(<<V("p", I, FALSE, FALSE), V("q", I, FALSE, FALSE)>>, FALSE, FALSE), 2, 2, hs.g, <<>>)
        hr == GenInt(Pure(hb.cx), 2, hb.g)
        hf == Func("h", <<Prm("p", I), Prm("q", I)>>, <<Prm("", I)>>, FALSE, hb.ss \o <<Ret(<<hr.x>>)>>, FALSE)
        \* F: the entry
        w == Pick(hr.g, 5)  g1 == Adv(hr.g)
        pre == CASE w = 0 -> <<Defer(<<OpAsg("+", I, Var("g0"), IntL(5))>>)>>
                 [] w = 1 -> <<DeferC("tick")>>
                 [] OTHER -> <<>>
        fb == GenStmts(Cx0(ParamVars \o <<V("gs", "ints", TRUE, FALSE)>>, TRUE, TRUE), 3, 3 + Pick(g1, 3), Adv(g1), <<>>)
        ret == FoldVars(SelectSeq(fb.cx.vars, LAMBDA v : v.t = I), 1, CallE("getg", <<>>))
        ff == Func("F", Params, <<Prm("", I)>>, FALSE, pre \o fb.ss \o <<Ret(<<ret>>)>>, TRUE)
    IN [prog |-> Prog(gl, <<ff, hf>> \o hs.x), used |-> Len(c) - Len(fb.g.ch)]

ArgsF == << <<0, 0, <<>> >>, <<1, 2, <<1>> >>, <<-1, 3, <<1, 2>> >>, <<2, -1, <<3, 2, 1>> >>, <<5, 7, <<5, -1, 0, 7>> >>, <<3, 0, <<4, 4>> >>, <<7, 1, <<0>> >> >>

\* ---------------------------------------------------------------- derivation steps
Init == ch = <<>> /\ phase = "derive"
Step == /\ phase = "derive" /\ Len(ch) < Depth
        /\ \E c \in 0..(K - 1) : ch' = Append(ch, c)
        /\ UNCHANGED phase
Finish == /\ phase = "derive" /\ Len(ch) = Depth
          /\ phase' = "done" /\ UNCHANGED ch
Next == Step \/ Finish
Spec == Init /\ [][Next]_<<ch, phase>>

EmitProg == LET b == Build(ch) IN
            PrintT(<<"@@HIST@@", ToJson([id |-> "g", fam |-> "gen", used |-> b.used, prog |-> b.prog,
                                        runs |-> [j \in 1..Len(ArgsF) |-> [f |-> "F", args |-> ArgsF[j], res |-> RunEntry(b.prog, "F", ArgsF[j])]]])>>)
Emit == phase # "done" \/ EmitProg
=============================================================================
