------------------------------ MODULE GoSubset ------------------------------
(* Abstract syntax of the SUBSET of the neo-go compiler dialect (docs/compiler.md) that property C14 is claimed for.
   Programs are records / tuples; GoSem.tla gives them a big-step semantics (the Go specification's, restricted to
   this subset), GoGen.tla / GoEnum.tla build them, harness/c14compile renders them to Go source text.

   TYPES (strings):  "int" "bool" "str" (string) "bytes" ([]byte) "ints" ([]int) "mii" (map[int]int) "msi" (map[string]int)
                     "S" (struct S { A int; B int }, VALUE semantics)  "pS" (pointer to S, only from &S{...})

   EXPRESSIONS  [k |-> ...]
     lit(t, v) | var(n) | bin(op, t, l, r) | un(op, e) | ix(t, b, i) | len(t, e) | call(f, as) | fld(t, e, f) | mk(t, es)
     | make(t, e) | conv(to, e) | sub(e, lo, hi) | isnil(t, e)
       op of bin: + - * / %  (t = "int"),  == != < <= > >= (t = "int"), == != (t = "bool" | "str"), && || (t = "bool"),
                  + (t = "str");  t is the OPERAND type.   un: "-" | "!".
   LVALUES      var(n) | ix(t, b, i) | fld(t, e, f)
   STATEMENTS
     decl(n, t, e, form) | declz(n, t) | asg(l, e) | opasg(op, t, l, e) | inc(l, d) | tasg(ls, es)
     | if(init, c, th, el) | for(init, c, post, body, lbl) | range(kn, vn, t, e, body, lbl) | brk(lbl) | cont(lbl)
     | sw(init, tag, cls) with cls[i] = [es, body, ft, def] | ret(es) | calls(f, as) | mret(ns, f, as, def) | mok(vn, okn, t, m, key, def)
     | defer(body) | deferc(f) | panic(e) | del(t, m, key) | app(n, es) | blk(body) | rec | ifrec(th, el) | use(n)
   PROGRAM      [globals |-> Seq([n, t, e]), funcs |-> Seq([n, ps |-> Seq([n, t]), rs |-> Seq([n, t]), named, body, exp])]
                funcs[1..] ; entry functions are the exported ones (exp = TRUE; at most one result: compiler restriction).

   EXCLUSION REGISTER - constructs of Go that are NOT in the subset, with the reason.  "doc" = docs/compiler.md lists the
   deviation (quoted); "undoc" = observed on the unchanged tree, not documented: kept as a PROBE program by the check
   (tools/checks/c14.py DIALECT_PROBES) and reported; "go" = the Go specification itself leaves the behaviour open.
     X1  closures (a function literal using variables of the enclosing function, incl. named results in a deferred
         literal)                     doc: "lambdas are supported, but closures are not"
     X2  integer conversions that truncate (byte(x) for x outside 0..255 ...), unsigned wrap-around
                                      doc: "there is no real distinction between different integer types"
     X3  a panic inside a `return` statement of a function that recovers
                                      doc: "defer and recover are supported except for the cases where panic occurs in return statement"
     X4  new, make with capacity, copy on non-byte slices, &variable, goroutines, channels, two-value type assertion,
         generics, []rune, min/max on non-integers                                                             doc
     X5  per-iteration loop variables (unobservable without closures)                                           doc
     X6  map keys other than bool / integer / string of length <= 64                                            doc
     U1  m[k] (single-value form, also inside op=, ++) of a missing key or of a nil map: VM FAULTs, Go yields zero undoc
         -> dynamic: GoSem answers "oos" when such a read happens; `v, ok := m[k]` is in the subset
     U2  struct ASSIGNMENT from a variable / container element / field, range value of struct type, value receivers:
         the compiler aliases instead of copying (arguments and stores into containers do copy)                undoc
         -> struct variables are initialised only from composite literals and call results
     U3  package-level initialisers run in textual order (Go: dependency order)                                undoc
         -> initialisers only refer to earlier globals
     U4  `defer f(x)` evaluates x when the function returns; a defer inside a loop runs once                   undoc
         -> deferred calls have no arguments, defer is not generated inside loops
     U5  a pending defer that does not recover swallows a panic; several pending defers / named results while
         recovering give other results                                                                         undoc
         -> dynamic: "oos" unless exactly one defer is pending, it recovers, and the results are unnamed
     U6  run-time errors (division by zero, nil map write, nil dereference ...) are not recoverable in the VM  undoc
         -> dynamic: "oos" when a run-time error happens while any defer is pending on the call stack
     U7  t := append(s, x) modifies s (APPEND is in place); Go's result depends on the spare capacity          undoc / go
         -> only `s = append(s, ...)` on slice variables that are never copied ("builder" variables), not inside a
            range over the same variable
     U8  b[i:j] on []byte copies (Go aliases); sub-slices of other slices are refused by the compiler         undoc
         -> sub-slicing only on strings
     U9  string ordering (< <= > >=) compares the little-endian integer value                                  undoc
     U10 function values of named functions FAULT when called                                                  undoc
     U11 switch: an early `default` clause is swapped with the last clause (fallthrough / case order change,
         compiler panic for `default: ...; fallthrough`)                                                       undoc (defect)
         -> default may stand anywhere only in switches without fallthrough whose cases are distinct constants
     U12 goto is ignored                                                                                       undoc (defect)
     U13 a panic raised inside a range loop or a switch and recovered by a deferred call leaves the statement's temporaries
         on the evaluation stack (the function "returns" extra values)                                         undoc (defect)
         -> dynamic: "oos" when the recovered panic was raised while a range loop / switch was running
     U14 calls inside a composite literal ([]T{f(), g()}, S{f(), g()}, map[K]V{f(): g()}), inside a return statement with
         several results and on the two sides of an element assignment (s[f()] = g()) are evaluated right to left
         (Go: lexical left-to-right order)                                                                     undoc (defect)
         -> such positions hold expressions without side effects
     G1  order of evaluation between a variable read and a call that modifies the variable                     go
         -> an expression that contains a call with side effects reads no mutable global / heap object directly
     G2  map iteration order                                                                                   go
         -> range-over-map bodies are commutative accumulations
     G3  values beyond the 64-bit range: the statement excludes them; GoSem answers "oos" as soon as |v| >= 2^30 *)
EXTENDS Integers, Sequences

None == [k |-> "none"]
IsNone(x) == x.k = "none"

\* ---- expressions
Lit(t, v) == [k |-> "lit", t |-> t, v |-> v]
IntL(n) == Lit("int", n)
BoolL(b) == Lit("bool", b)
StrL(s) == Lit("str", s)
Var(n) == [k |-> "var", n |-> n]
Bin(op, t, l, r) == [k |-> "bin", op |-> op, t |-> t, l |-> l, r |-> r]
Un(op, e) == [k |-> "un", op |-> op, e |-> e]
Ix(t, b, i) == [k |-> "ix", t |-> t, b |-> b, i |-> i]
LenE(t, e) == [k |-> "len", t |-> t, e |-> e]
CallE(f, as) == [k |-> "call", f |-> f, as |-> as]
Fld(t, e, f) == [k |-> "fld", t |-> t, e |-> e, f |-> f]
Mk(t, es) == [k |-> "mk", t |-> t, es |-> es]
Make(t, e) == [k |-> "make", t |-> t, e |-> e]
Conv(to, e) == [k |-> "conv", to |-> to, e |-> e]
SubE(e, lo, hi) == [k |-> "sub", e |-> e, lo |-> lo, hi |-> hi]
IsNil(t, e) == [k |-> "isnil", t |-> t, e |-> e]

\* ---- statements
Decl(n, t, e) == [k |-> "decl", n |-> n, t |-> t, e |-> e, form |-> "short"]
DeclV(n, t, e) == [k |-> "decl", n |-> n, t |-> t, e |-> e, form |-> "var"]
DeclZ(n, t) == [k |-> "declz", n |-> n, t |-> t]
Asg(l, e) == [k |-> "asg", l |-> l, e |-> e]
OpAsg(op, t, l, e) == [k |-> "opasg", op |-> op, t |-> t, l |-> l, e |-> e]
Inc(l, d) == [k |-> "inc", l |-> l, d |-> d]
TAsg(ls, es) == [k |-> "tasg", ls |-> ls, es |-> es]
If(c, th, el) == [k |-> "if", init |-> None, c |-> c, th |-> th, el |-> el]
IfI(init, c, th, el) == [k |-> "if", init |-> init, c |-> c, th |-> th, el |-> el]
For(init, c, post, body, lbl) == [k |-> "for", init |-> init, c |-> c, post |-> post, body |-> body, lbl |-> lbl]
Range(kn, vn, t, e, body, lbl) == [k |-> "range", kn |-> kn, vn |-> vn, t |-> t, e |-> e, body |-> body, lbl |-> lbl]
Brk(lbl) == [k |-> "brk", lbl |-> lbl]
Cont(lbl) == [k |-> "cont", lbl |-> lbl]
Clause(es, body, ft) == [es |-> es, body |-> body, ft |-> ft, def |-> FALSE]
Default(body, ft) == [es |-> <<>>, body |-> body, ft |-> ft, def |-> TRUE]
Sw(init, tag, cls) == [k |-> "sw", init |-> init, tag |-> tag, cls |-> cls]
Ret(es) == [k |-> "ret", es |-> es]
CallS(f, as) == [k |-> "calls", f |-> f, as |-> as]
MRet(ns, f, as, def) == [k |-> "mret", ns |-> ns, f |-> f, as |-> as, def |-> def]
MOk(vn, okn, t, m, key, def) == [k |-> "mok", vn |-> vn, okn |-> okn, t |-> t, m |-> m, key |-> key, def |-> def]
Defer(body) == [k |-> "defer", body |-> body]
DeferC(f) == [k |-> "deferc", f |-> f]
Panic(e) == [k |-> "panic", e |-> e]
Del(t, m, key) == [k |-> "del", t |-> t, m |-> m, key |-> key]
App(n, es) == [k |-> "app", n |-> n, es |-> es]
Blk(body) == [k |-> "blk", body |-> body]
Rec == [k |-> "rec"]
IfRec(th, el) == [k |-> "ifrec", th |-> th, el |-> el]
Use(n) == [k |-> "use", n |-> n]

\* ---- programs
Prm(n, t) == [n |-> n, t |-> t]
Func(n, ps, rs, named, body, exp) == [n |-> n, ps |-> ps, rs |-> rs, named |-> named, body |-> body, exp |-> exp]
Glob(n, t, e) == [n |-> n, t |-> t, e |-> e]
Prog(globals, funcs) == [globals |-> globals, funcs |-> funcs]

\* ---- values: int -> Int, bool -> BOOLEAN, str -> Seq(0..255), S -> <<a, b>>, reference types -> [r |-> heap address], nil = [r |-> 0]
Nil == [r |-> 0]
IsRefT(t) == t \in {"bytes", "ints", "mii", "msi", "pS"}
Zero(t) == CASE t = "int" -> 0
             [] t = "bool" -> FALSE
             [] t = "str" -> <<>>
             [] t = "S" -> <<0, 0>>
             [] OTHER -> Nil
=============================================================================
