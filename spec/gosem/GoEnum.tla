------------------------------- MODULE GoEnum -------------------------------
(* EXHAUSTIVE part of the program space (DESIGN 3.4 c: an enumeration specification, one printed case per program):

   family "expr"  - ALL expressions over the two integer variables a, b and the literals 0 1 2 -3 with the operator set
                    + - * / %  == != < <= > >=  && || ! unary-minus of depth <= 2 in the one-sided shapes
                    op(depth1, leaf), op(leaf, depth1), cmp(depth1, leaf), !(depth1), -(depth1) and depth 1 itself
                    (about 18 000), the two-sided shapes op(depth1, depth1) and (cmp && / || cmp) thinned by a stride,
                    ALL && / || combinations of depth <= 2 over five operands WITH AND WITHOUT SIDE EFFECTS (short circuit:
                    the package-level counter shows which operands ran), and op= / ++ / -- with every operator on every kind of
                    lvalue (local, parameter, package-level variable, slice element, struct field, field through a pointer,
                    map entry).  Expressions whose constant sub-expressions divide by zero are left out (Go rejects them at
                    compile time).  Every expression is the body of one function; ExprPerProg functions make one program.
   family "skel"  - ALL statement skeletons of depth <= 2: 15 outer control structures (if / else-if / if with init, the three
                    for forms, range with and without value, expression / tagless / fallthrough / early-default switch,
                    labelled nested loops, switch inside a labelled loop) whose body slots hold every filler that is legal
                    there: marker assignments, break / continue (labelled where a label is in scope), early return, panic, and
                    every depth-1 skeleton with marker bodies; every third one with a NAMED result and a bare return; and each
                    outer structure once more under a deferred call (plain / recovering) whose effect must not be visible in
                    the returned value.  Markers s = (s*3 + k) % 1000003 make the executed path visible in the result.

   A case is printed after @@CASE@@ as [id, fam, prog, runs]: prog is the abstract syntax tree (GoSubset.tla), runs the
   argument vectors with GoSem's verdict.  Thin = n keeps every n-th expression (quick tier); Chunks spreads the work over
   TLC's workers. *)
EXTENDS GoSem, Json

CONSTANTS Thin, Chunks, ExprPerProg, Seed

I == "int"
va == Var("a")  vb == Var("b")
Leaves == <<va, vb, IntL(0), IntL(1), IntL(2), IntL(-3)>>
NL == Len(Leaves)
AOps == <<"+", "-", "*", "/", "%">>
COps == <<"==", "!=", "<", "<=", ">", ">=">>
NA == Len(AOps) * NL * NL
NC == Len(COps) * NL * NL

D1I(i) == Bin(AOps[i \div (NL * NL) + 1], I, Leaves[(i % (NL * NL)) \div NL + 1], Leaves[(i % NL) + 1])
D1B(i) == Bin(COps[i \div (NL * NL) + 1], I, Leaves[(i % (NL * NL)) \div NL + 1], Leaves[(i % NL) + 1])

\* value semantics of struct arguments / results, reference semantics of pointers, slices and maps (r: a right operand)
VsHelpers == <<
    Func("sv", <<Prm("s", "S"), Prm("x", I)>>, <<Prm("", I)>>, FALSE, <<OpAsg("+", I, Fld("S", Var("s"), 1), Var("x")), Asg(Fld("S", Var("s"), 2), IntL(9)), Ret(<<Bin("+", I, Fld("S", Var("s"), 1), Fld("S", Var("s"), 2))>>)>>, FALSE),
    Func("sp", <<Prm("p", "pS"), Prm("x", I)>>, <<Prm("", I)>>, FALSE, <<OpAsg("+", I, Fld("pS", Var("p"), 1), Var("x")), Ret(<<Fld("pS", Var("p"), 1)>>)>>, FALSE),
    Func("sl", <<Prm("l", "ints"), Prm("x", I)>>, <<>>, FALSE, <<Asg(Ix("ints", Var("l"), IntL(0)), Var("x"))>>, FALSE),
    Func("sm", <<Prm("m", "mii"), Prm("x", I)>>, <<>>, FALSE, <<Asg(Ix("mii", Var("m"), IntL(5)), Var("x"))>>, FALSE),
    Func("mk", <<Prm("x", I)>>, <<Prm("", "S")>>, FALSE, <<Ret(<<Mk("S", <<Var("x"), IntL(1)>>)>>)>>, FALSE),
    Func("two", <<Prm("s", "S"), Prm("t", "S")>>, <<Prm("", I)>>, FALSE, <<Asg(Fld("S", Var("s"), 1), IntL(50)), Ret(<<Bin("+", I, Fld("S", Var("s"), 1), Fld("S", Var("t"), 1))>>)>>, FALSE),
    Func("S.inc", <<Prm("p", "pS"), Prm("x", I)>>, <<>>, FALSE, <<OpAsg("+", I, Fld("pS", Var("p"), 2), Var("x"))>>, FALSE)>>
VA(v) == Fld("S", Var(v), 1)
Mix(x, y) == Bin("+", I, Bin("*", I, x, IntL(100)), y)
VsBody(kind, r) ==
    CASE kind = 1 -> <<Decl("v", "S", Mk("S", <<va, IntL(2)>>)), Decl("q", I, CallE("sv", <<Var("v"), r>>)), Ret(<<Mix(Var("q"), Bin("+", I, VA("v"), Fld("S", Var("v"), 2)))>>)>>
      [] kind = 2 -> <<Decl("v", "S", Mk("S", <<va, IntL(2)>>)), Decl("q", I, CallE("two", <<Var("v"), Var("v")>>)), Ret(<<Mix(Var("q"), VA("v"))>>)>>
      [] kind = 3 -> <<Decl("v", "S", CallE("mk", <<va>>)), Decl("w", "S", CallE("mk", <<va>>)), Asg(VA("v"), r), Ret(<<Mix(VA("v"), VA("w"))>>)>>
      [] kind = 4 -> <<Decl("p", "pS", Mk("pS", <<va, IntL(2)>>)), Decl("q", I, CallE("sp", <<Var("p"), r>>)), Ret(<<Mix(Var("q"), Fld("pS", Var("p"), 1))>>)>>
      [] kind = 5 -> <<Decl("l", "ints", Mk("ints", <<va, IntL(2)>>)), CallS("sl", <<Var("l"), r>>), Ret(<<Mix(Ix("ints", Var("l"), IntL(0)), LenE("ints", Var("l")))>>)>>
      [] kind = 6 -> <<Decl("m", "mii", Mk("mii", << <<IntL(1), va>> >>)), CallS("sm", <<Var("m"), r>>), Ret(<<Mix(Ix("mii", Var("m"), IntL(5)), LenE("mii", Var("m")))>>)>>
      [] kind = 7 -> <<Decl("p", "pS", Mk("pS", <<va, IntL(2)>>)), Decl("o", "pS", Var("p")), CallS("S.inc", <<Var("o"), r>>), Ret(<<Mix(Fld("pS", Var("p"), 2), Fld("pS", Var("o"), 1))>>)>>
      [] kind = 8 -> <<Decl("v", "S", Mk("S", <<va, IntL(2)>>)), Decl("q", I, Bin("+", I, CallE("sv", <<Var("v"), r>>), CallE("sv", <<Var("v"), IntL(1)>>))), Ret(<<Mix(Var("q"), VA("v"))>>)>>
      [] kind = 9 -> <<Decl("l", "ints", Mk("ints", <<va, IntL(2)>>)), Decl("k", "ints", Var("l")), Asg(Ix("ints", Var("k"), IntL(1)), r), Ret(<<Mix(Ix("ints", Var("l"), IntL(1)), Ix("ints", Var("k"), IntL(0)))>>)>>
      [] kind = 10 -> <<Decl("v", "S", Mk("S", <<va, IntL(2)>>)), Asg(Var("gv"), CallE("sv", <<Var("v"), r>>)), OpAsg("+", I, VA("v"), IntL(1)), Ret(<<Mix(Var("gv"), VA("v"))>>)>>

\* operands of && || with and without side effects: bump(x) adds x to the package-level cnt and answers x > 1
Atoms == <<Bin(">", I, va, IntL(0)), Bin(">", I, vb, IntL(0)), CallE("bump", <<IntL(1)>>), CallE("bump", <<IntL(2)>>), Un("!", CallE("bump", <<IntL(4)>>))>>
NAt == Len(Atoms)
LOp(x) == IF x = 0 THEN "&&" ELSE "||"
And2(o, x, y) == Bin(LOp(o), "bool", x, y)
\* statement bodies of the op= family: kind of lvalue (1..7), operator (1..5 = AOps, 6 = ++, 7 = --), right operand
OaRhs == <<vb, IntL(2), IntL(-3)>>
OaStmt(op, l, r) == IF op <= 5 THEN OpAsg(AOps[op], I, l, r) ELSE Inc(l, IF op = 6 THEN 1 ELSE -1)
OaBody(kind, op, r) ==
    CASE kind = 1 -> <<Decl("x", I, va), OaStmt(op, Var("x"), r), Ret(<<Var("x")>>)>>
      [] kind = 2 -> <<OaStmt(op, va, r), Ret(<<va>>)>>
      [] kind = 3 -> <<Asg(Var("gv"), va), OaStmt(op, Var("gv"), r), Ret(<<Var("gv")>>)>>
      [] kind = 4 -> <<Decl("l", "ints", Mk("ints", <<IntL(1), va, IntL(3)>>)), OaStmt(op, Ix("ints", Var("l"), IntL(1)), r), Ret(<<Ix("ints", Var("l"), IntL(1))>>)>>
      [] kind = 5 -> <<Decl("v", "S", Mk("S", <<va, IntL(2)>>)), OaStmt(op, Fld("S", Var("v"), 1), r), Ret(<<Fld("S", Var("v"), 1)>>)>>
      [] kind = 6 -> <<Decl("p", "pS", Mk("pS", <<IntL(2), va>>)), OaStmt(op, Fld("pS", Var("p"), 2), r), Ret(<<Fld("pS", Var("p"), 2)>>)>>
      [] kind = 7 -> <<Decl("m", "mii", Mk("mii", << <<IntL(1), va>> >>)), OaStmt(op, Ix("mii", Var("m"), IntL(1)), r), Ret(<<Ix("mii", Var("m"), IntL(1))>>)>>

\* families as (count, decoder, result type)
Fam == <<
  [n |-> NA, t |-> I],                          \* 1  depth 1 arithmetic
  [n |-> NC, t |-> "bool"],                     \* 2  depth 1 comparison
  [n |-> Len(AOps) * NA * NL, t |-> I],         \* 3  op(depth1, leaf)
  [n |-> Len(AOps) * NA * NL, t |-> I],         \* 4  op(leaf, depth1)
  [n |-> Len(COps) * NA * NL, t |-> "bool"],    \* 5  cmp(depth1, leaf)
  [n |-> NC, t |-> "bool"],                     \* 6  !(depth 1)
  [n |-> NA, t |-> I],                          \* 7  -(depth 1)
  [n |-> (2 * NC * NC) \div 13, t |-> "bool"],  \* 8  cmp && / || cmp   (stride 13)
  [n |-> (Len(AOps) * NA * NA) \div 41, t |-> I], \* 9 op(depth1, depth1) (stride 41)
  [n |-> 2 * NAt * NAt, t |-> "sc"],             \* 10 X op Y          operands with side effects: short circuit
  [n |-> 4 * NAt * NAt * NAt, t |-> "sc"],       \* 11 (X op Y) op Z
  [n |-> 4 * NAt * NAt * NAt, t |-> "sc"],       \* 12 X op (Y op Z)
  [n |-> 7 * 7 * 3, t |-> "oa"],                 \* 13 op= / ++ / -- on every kind of lvalue
  [n |-> 10 * 3, t |-> "vs"]                     \* 14 value / reference semantics of arguments and results
>>
ExprOf(f, i) ==
    CASE f = 1 -> D1I(i)
      [] f = 2 -> D1B(i)
      [] f = 3 -> Bin(AOps[i \div (NA * NL) + 1], I, D1I((i % (NA * NL)) \div NL), Leaves[(i % NL) + 1])
      [] f = 4 -> Bin(AOps[i \div (NA * NL) + 1], I, Leaves[(i % NL) + 1], D1I((i % (NA * NL)) \div NL))
      [] f = 5 -> Bin(COps[i \div (NA * NL) + 1], I, D1I((i % (NA * NL)) \div NL), Leaves[(i % NL) + 1])
      [] f = 6 -> Un("!", D1B(i))
      [] f = 7 -> Un("-", D1I(i))
      [] f = 8 -> LET j == i * 13 + (Seed % 13) IN
                  Bin(IF j \div (NC * NC) = 0 THEN "&&" ELSE "||", "bool", D1B((j % (NC * NC)) \div NC), D1B(j % NC))
      [] f = 9 -> LET j == i * 41 + (Seed % 41) IN Bin(AOps[j \div (NA * NA) + 1], I, D1I((j % (NA * NA)) \div NA), D1I(j % NA))
      [] f = 10 -> And2(i \div (NAt * NAt), Atoms[(i % (NAt * NAt)) \div NAt + 1], Atoms[(i % NAt) + 1])
      [] f = 11 -> LET o == i \div (NAt * NAt * NAt)  r == i % (NAt * NAt * NAt) IN
                   And2(o % 2, And2(o \div 2, Atoms[r \div (NAt * NAt) + 1], Atoms[(r % (NAt * NAt)) \div NAt + 1]), Atoms[(r % NAt) + 1])
      [] f = 12 -> LET o == i \div (NAt * NAt * NAt)  r == i % (NAt * NAt * NAt) IN
                   And2(o % 2, Atoms[r \div (NAt * NAt) + 1], And2(o \div 2, Atoms[(r % (NAt * NAt)) \div NAt + 1], Atoms[(r % NAt) + 1]))
      [] f = 13 -> [k |-> "oa", kind |-> i \div 21 + 1, op |-> (i % 21) \div 3 + 1, r |-> OaRhs[(i % 3) + 1]]
      [] f = 14 -> [k |-> "vs", kind |-> i \div 3 + 1, r |-> OaRhs[(i % 3) + 1]]

\* Go evaluates constant sub-expressions at compile time and rejects a constant division by zero
RECURSIVE HasVar(_), ConstOk(_)
HasVar(e) == CASE e.k = "var" -> TRUE [] e.k = "bin" -> HasVar(e.l) \/ HasVar(e.r) [] e.k = "un" -> HasVar(e.e) [] OTHER -> FALSE
ConstOk(e) == CASE e.k = "bin" -> /\ ConstOk(e.l) /\ ConstOk(e.r)
                                  /\ (e.op \in {"/", "%"} /\ ~HasVar(e.r)) => EvalE(<<>>, e.r, <<>>, St0).v # 0
                [] e.k = "un" -> ConstOk(e.e)
                [] e.k = "oa" -> ~(e.op \in {4, 5} /\ e.r.k = "lit" /\ e.r.v = 0)
                [] e.k = "vs" -> TRUE
                [] OTHER -> TRUE

ArgsAB == << <<0, 0>>, <<1, -1>>, <<-1, 1>>, <<2, 3>>, <<-7, 2>>, <<7, -2>>, <<5, 5>>, <<-7, -3>> >>
Pab == <<Prm("a", I), Prm("b", I)>>

\* global numbering of the expressions of all families: g in 0..TotalE-1
RECURSIVE FamOf(_, _)
FamOf(g, f) == IF g < Fam[f].n THEN <<f, g>> ELSE FamOf(g - Fam[f].n, f + 1)
RECURSIVE SumN(_)
SumN(f) == IF f = 0 THEN 0 ELSE Fam[f].n + SumN(f - 1)
TotalE == SumN(Len(Fam))
\* the kept expressions: every Thin-th, phase chosen by the seed
KeptE == (TotalE - (Seed % Thin) + Thin - 1) \div Thin
ExprNo(k) == k * Thin + (Seed % Thin)
NProgE == (KeptE + ExprPerProg - 1) \div ExprPerProg

FnName(j) == "E" \o ToString(j)
ExprProg(p) ==
    LET lo == p * ExprPerProg
        hi == IF lo + ExprPerProg > KeptE THEN KeptE ELSE lo + ExprPerProg
        items == [j \in 1..(hi - lo) |-> LET fi == FamOf(ExprNo(lo + j - 1), 1) IN [e |-> ExprOf(fi[1], fi[2]), t |-> Fam[fi[1]].t, no |-> ExprNo(lo + j - 1)]]
        ok == SelectSeq(items, LAMBDA it : ConstOk(it.e))
        \* the function around the expression: `return e`; for the side-effect family the condition of an if, cnt read afterwards
        BodyOf(it) == CASE it.t = "sc" -> <<Decl("t", I, IntL(0)), If(it.e, <<Asg(Var("t"), IntL(1))>>, <<>>),
                                           Ret(<<Bin("+", I, Var("t"), Bin("*", I, Var("cnt"), IntL(10)))>>)>>
                        [] it.t = "oa" -> OaBody(it.e.kind, it.e.op, it.e.r)
                        [] it.t = "vs" -> VsBody(it.e.kind, it.e.r)
                        [] OTHER -> <<Ret(<<it.e>>)>>
        ResOf(it) == IF it.t \in {"sc", "oa", "vs"} THEN I ELSE it.t
        state == \E j \in 1..Len(ok) : ok[j].t \in {"sc", "oa", "vs"}
    IN [prog |-> Prog(IF state THEN <<Glob("cnt", I, IntL(0)), Glob("gv", I, IntL(0))>> ELSE <<>>,
                      [j \in 1..Len(ok) |-> Func(FnName(ok[j].no), Pab, <<Prm("", ResOf(ok[j]))>>, FALSE, BodyOf(ok[j]), TRUE)]
                      \o (IF state THEN <<Func("bump", <<Prm("x", I)>>, <<Prm("", "bool")>>, FALSE,
                                               <<OpAsg("+", I, Var("cnt"), Var("x")), Ret(<<Bin(">", I, Var("x"), IntL(1))>>)>>, FALSE)>> \o VsHelpers ELSE <<>>)),
        fns |-> [j \in 1..Len(ok) |-> FnName(ok[j].no)]]

RunsOf(prog, fns, argvs) ==
    [j \in 1..(Len(fns) * Len(argvs)) |->
        LET f == fns[(j - 1) \div Len(argvs) + 1]  as == argvs[((j - 1) % Len(argvs)) + 1]
        IN [f |-> f, args |-> as, res |-> RunEntry(prog, f, as)]]

\* ---------------------------------------------------------------- statement skeletons
vs == Var("s")  vn == Var("n")  vi == Var("i")
Mark(k) == Asg(vs, Bin("%", I, Bin("+", I, Bin("*", I, vs, IntL(3)), k), IntL(1000003)))
M(k) == <<Mark(IntL(k))>>
Lt(x, y) == Bin("<", I, x, y)
Eq(x, y) == Bin("==", I, x, y)
For3(v, bound, body, lbl) == For(Decl(v, I, IntL(0)), Lt(Var(v), bound), Inc(Var(v), 1), body, lbl)

\* a skeleton: [mk(_,_) via index, slots: contexts].  Built by index because operators are not values.
\* context of a slot: loop (continue legal), brk (break legal), lbl (label in scope or "")
NSkel == 15
SlotsOf(k) ==
    CASE k = 1 -> <<[loop |-> FALSE, brk |-> FALSE, lbl |-> ""], [loop |-> FALSE, brk |-> FALSE, lbl |-> ""]>>   \* if / else
      [] k = 2 -> <<[loop |-> FALSE, brk |-> FALSE, lbl |-> ""], [loop |-> FALSE, brk |-> FALSE, lbl |-> ""]>>   \* if / else if / else
      [] k = 3 -> <<[loop |-> TRUE, brk |-> TRUE, lbl |-> ""]>>                                                   \* for i := 0; i < n; i++
      [] k = 4 -> <<[loop |-> TRUE, brk |-> TRUE, lbl |-> ""]>>                                                   \* for with continue before the slot
      [] k = 5 -> <<[loop |-> TRUE, brk |-> TRUE, lbl |-> ""]>>                                                   \* for cond
      [] k = 6 -> <<[loop |-> TRUE, brk |-> TRUE, lbl |-> ""]>>                                                   \* for { if .. break }
      [] k = 7 -> <<[loop |-> TRUE, brk |-> TRUE, lbl |-> ""]>>                                                   \* range i, v
      [] k = 8 -> <<[loop |-> TRUE, brk |-> TRUE, lbl |-> ""]>>                                                   \* range i
      [] k = 9 -> <<[loop |-> FALSE, brk |-> TRUE, lbl |-> ""], [loop |-> FALSE, brk |-> TRUE, lbl |-> ""]>>      \* switch tag
      [] k = 10 -> <<[loop |-> FALSE, brk |-> TRUE, lbl |-> ""], [loop |-> FALSE, brk |-> TRUE, lbl |-> ""]>>     \* switch with fallthrough
      [] k = 11 -> <<[loop |-> FALSE, brk |-> TRUE, lbl |-> ""], [loop |-> FALSE, brk |-> TRUE, lbl |-> ""]>>     \* tagless switch
      [] k = 12 -> <<[loop |-> FALSE, brk |-> TRUE, lbl |-> ""], [loop |-> FALSE, brk |-> TRUE, lbl |-> ""]>>     \* early default (no fallthrough, distinct constants)
      [] k = 13 -> <<[loop |-> TRUE, brk |-> TRUE, lbl |-> "L"]>>                                                 \* labelled nested loops
      [] k = 14 -> <<[loop |-> TRUE, brk |-> TRUE, lbl |-> "L"], [loop |-> TRUE, brk |-> TRUE, lbl |-> "L"]>>     \* switch inside a labelled loop
      [] k = 15 -> <<[loop |-> FALSE, brk |-> FALSE, lbl |-> ""], [loop |-> FALSE, brk |-> FALSE, lbl |-> ""]>>   \* if with init statement
\* the skeleton statement(s); c is a constant that keeps the markers of nested copies apart, sfx renames the loop variables
Skel(k, b1, b2, c, sfx) ==
    LET i == "i" \o sfx  j == "j" \o sfx  m == "m" \o sfx  lb == "L" \o sfx IN
    CASE k = 1 -> <<If(Bin(">", I, vn, IntL(2)), b1, b2)>>
      [] k = 2 -> <<If(Bin(">", I, vn, IntL(1)), b1, <<If(Eq(vn, IntL(1)), b2, M(c + 1))>>)>>
      [] k = 3 -> <<For3(i, vn, b1, "")>>
      [] k = 4 -> <<For3(i, vn, <<If(Eq(Var(i), IntL(1)), <<Cont("")>>, <<>>)>> \o b1 \o M(c + 2), "")>>
      [] k = 5 -> <<Decl(m, I, vn), For(None, Bin(">", I, Var(m), IntL(0)), None, <<Inc(Var(m), -1)>> \o b1 \o <<Mark(Var(m))>>, "")>>
      [] k = 6 -> <<Decl(m, I, IntL(0)), For(None, None, None, <<If(Bin(">=", I, Var(m), vn), <<Brk("")>>, <<>>), Inc(Var(m), 1)>> \o b1 \o M(c + 3), "")>>
      [] k = 7 -> <<Range(i, "v" \o sfx, "ints", Var("xs"), <<Mark(Bin("+", I, Var("v" \o sfx), Var(i)))>> \o b1, "")>>
      [] k = 8 -> <<Range(i, "", "ints", Var("xs"), b1 \o <<Mark(Var(i))>>, "")>>
      [] k = 9 -> <<Sw(None, vn, <<Clause(<<IntL(0)>>, b1, FALSE), Clause(<<IntL(1), IntL(2)>>, b2, FALSE), Default(M(c + 4), FALSE)>>)>>
      [] k = 10 -> <<Sw(None, vn, <<Clause(<<IntL(0)>>, b1, TRUE), Clause(<<IntL(1)>>, b2, TRUE), Clause(<<IntL(2)>>, M(c + 5), FALSE), Default(M(c + 6), FALSE)>>)>>
      [] k = 11 -> <<Sw(None, None, <<Clause(<<Lt(vn, IntL(1))>>, b1, FALSE), Clause(<<Lt(vn, IntL(3))>>, b2, FALSE)>>)>>
      [] k = 12 -> <<Sw(None, vn, <<Default(b1, FALSE), Clause(<<IntL(1)>>, b2, FALSE), Clause(<<IntL(3)>>, M(c + 7), FALSE)>>)>>
      [] k = 13 -> <<For3(i, vn, <<For3(j, IntL(3), <<If(Eq(Var(j), IntL(1)), b1, <<>>), Mark(Bin("+", I, Bin("*", I, Var(i), IntL(4)), Var(j)))>>, "")>> \o M(c + 8), lb)>>
      [] k = 14 -> <<For3(i, vn, <<Sw(None, Var(i), <<Clause(<<IntL(1)>>, b1, FALSE), Clause(<<IntL(2)>>, b2, FALSE), Default(M(c + 9), FALSE)>>), Mark(Var(i))>>, lb)>>
      [] k = 15 -> <<IfI(Decl("w" \o sfx, I, Bin("*", I, vn, IntL(2))), Bin(">", I, Var("w" \o sfx), IntL(3)), <<Mark(Var("w" \o sfx))>> \o b1, b2)>>

\* fillers of a slot: markers, jumps legal in the context, early return, panic, every depth-1 skeleton with marker bodies
NFill == 9 + NSkel
FillOk(f, cx) == CASE f = 2 -> cx.brk [] f = 3 -> cx.loop [] f = 4 -> cx.lbl # "" [] f = 5 -> cx.lbl # "" [] OTHER -> TRUE
Fill(f, cx) ==
    CASE f = 1 -> M(11)
      [] f = 2 -> M(12) \o <<Brk("")>>
      [] f = 3 -> M(13) \o <<Cont("")>>
      [] f = 4 -> M(14) \o <<Brk(cx.lbl)>>
      [] f = 5 -> M(15) \o <<Cont(cx.lbl)>>
      [] f = 6 -> <<Ret(<<Bin("+", I, vs, IntL(1))>>)>>
      [] f = 7 -> <<If(Eq(vn, IntL(3)), <<Panic(StrL(<<120>>))>>, M(16))>>
      \* a NEW s local to the slot's block / clause (what follows the slot goes on with the outer one)
      [] f = 8 -> <<Decl("s", I, Bin("+", I, vn, IntL(500))), Mark(IntL(17))>>
      \* a call whose (grouped, named) results are discarded, with whatever the enclosing statement keeps on the evaluation stack below it
      [] f = 9 -> <<CallS("two", <<vn>>)>> \o M(18)
      [] OTHER -> Skel(f - 9, M(21), M(22), 30, "2")
TwoFn == Func("two", <<Prm("x", I)>>, <<Prm("q", I), Prm("r", I)>>, TRUE,
              <<Asg(Var("q"), Bin("+", I, Var("x"), IntL(7))), Asg(Var("r"), Bin("*", I, Var("x"), IntL(3))), Ret(<<>>)>>, FALSE)

PSk == <<Prm("n", I), Prm("xs", "ints")>>
\* named = TRUE: the same function with a NAMED result s and a bare return
SkelFn(k, slot, f, named) ==
    LET sl == SlotsOf(k)
        b1 == IF slot = 1 THEN Fill(f, sl[1]) ELSE M(1)
        b2 == IF slot = 2 THEN Fill(f, sl[2]) ELSE M(2)
    IN IF named THEN Func("F", PSk, <<Prm("s", I)>>, TRUE, <<Asg(vs, IntL(1))>> \o Skel(k, b1, b2, 40, "") \o <<Ret(<<>>)>>, TRUE)
       ELSE Func("F", PSk, <<Prm("", I)>>, FALSE, <<Decl("s", I, IntL(1))>> \o Skel(k, b1, b2, 40, "") \o <<Ret(<<vs>>)>>, TRUE)
\* deferred variants: W runs the skeleton under a deferred call (dv = 0: plain, 1: recovering), its result reads g BEFORE the deferred
\* call changes it; the entry F reads g afterwards (in a statement of its own: G1)
DfrFill == <<1, 6, 7>>
SkelProgD(k, fi, dv) ==
    LET sl == SlotsOf(k)
        b1 == Fill(DfrFill[fi], sl[1])
        d == IF dv = 0 THEN Defer(<<Asg(Var("g"), Bin("+", I, Bin("*", I, Var("g"), IntL(2)), IntL(1)))>>)
             ELSE Defer(<<IfRec(<<Asg(Var("g"), IntL(100))>>, <<Inc(Var("g"), 1)>>)>>)
        w == Func("W", PSk, <<Prm("", I)>>, FALSE, <<d, Decl("s", I, IntL(1))>> \o Skel(k, b1, M(2), 40, "") \o <<Ret(<<Bin("+", I, vs, Var("g"))>>)>>, FALSE)
        f == Func("F", PSk, <<Prm("", I)>>, FALSE, <<Decl("r", I, CallE("W", <<vn, Var("xs")>>)), Ret(<<Bin("+", I, Bin("*", I, Var("r"), IntL(1000)), Var("g"))>>)>>, TRUE)
    IN Prog(<<Glob("g", I, IntL(3))>>, <<f, w>>)
\* all (skeleton, slot, filler) triples that are legal, numbered
SkelCases == LET all == [y \in 1..(NSkel * 2 * NFill) |-> LET x == y - 1 IN <<x \div (2 * NFill) + 1, (x % (2 * NFill)) \div NFill + 1, (x % NFill) + 1>>]
             IN SelectSeq(all, LAMBDA t : t[2] <= Len(SlotsOf(t[1])) /\ FillOk(t[3], SlotsOf(t[1])[t[2]]))
ArgsSk == << <<0, <<>> >>, <<1, <<4>> >>, <<2, <<1, 2, 3>> >>, <<3, <<5, 0>> >>, <<5, <<2, -1, 7, 3>> >> >>

\* ---------------------------------------------------------------- the enumeration
VARIABLES chunk, done
Init == chunk \in 1..Chunks /\ done = 0
Emit(id, fam, prog, fns, argvs) ==
    PrintT(<<"@@CASE@@", ToJson([id |-> id, fam |-> fam, prog |-> prog, runs |-> RunsOf(prog, fns, argvs)])>>)
Next == /\ done = 0
        /\ \/ \E p \in {q \in 0..(NProgE - 1) : q % Chunks = chunk - 1} :
                 LET ep == ExprProg(p) IN
                 /\ done' = p + 1
                 /\ (Len(ep.fns) = 0 \/ Emit("e" \o ToString(p), "expr", ep.prog, ep.fns, ArgsAB))
           \/ LET sc == SkelCases IN
              \E x \in {y \in 1..Len(sc) : y % Chunks = chunk - 1} :
                 LET fn == SkelFn(sc[x][1], sc[x][2], sc[x][3], x % 3 = 0) IN
                 /\ done' = 100000 + x
                 /\ Emit("k" \o ToString(sc[x][1]) \o "_" \o ToString(sc[x][2]) \o "_" \o ToString(sc[x][3]), "skel",
                         Prog(<<>>, <<fn>> \o (IF sc[x][3] = 9 THEN <<TwoFn>> ELSE <<>>)), <<"F">>, ArgsSk)
           \/ \E x \in {y \in 0..(NSkel * 3 * 2 - 1) : y % Chunks = chunk - 1} :
                 LET k == x \div 6 + 1  fi == (x % 6) \div 2 + 1  dv == x % 2 IN
                 /\ done' = 200000 + x
                 /\ Emit("d" \o ToString(k) \o "_" \o ToString(fi) \o "_" \o ToString(dv), "skel", SkelProgD(k, fi, dv), <<"F">>, ArgsSk)
        /\ UNCHANGED chunk
=============================================================================
