----------------------------- MODULE AbiMatches -----------------------------
(* Second clause of C14: "The emitted manifest and debug information name the same methods, offsets and parameter counts
   that the bytecode implements."  A predicate over the facts recorded for ONE compiled program (harness/c14compile/abi.go):

     manifest   Seq([name, offset, np, ptypes, rtype, safe])               the ABI the compiler emitted
     debug      Seq([id, name, start, end, np, exported, seq, nvars,        the debug information it emitted (a method with a
                     isfunc])                                                receiver takes it as one more argument)
     bounds, initslots <<offset, locals, args>>, initsslots <<offset, n>>,  a summary of the DECODED instruction stream
     rets, maxsfld, codelen
     src        [known, exported: Seq([name, np, ptypes, rtype]), hasdeploy] what the SOURCE declares (go/types; generated
                                                                            programs only, known = FALSE for the corpus)
     calls      Seq([name, np, halt, underflow, depth, nres])               what happened when the method was entered through
                                                                            its manifest offset with np arguments

   Judged in trace-validation style (spec/common/TraceIO.tla): one record per line of trace.ndjson, every falsified predicate
   is REPORTED by name; the whole file must be consumed (TraceAccepted). *)
EXTENDS TraceIO, FiniteSets

VARIABLE l

ToSet(s) == {s[i] : i \in 1..Len(s)}
Special == {"_initialize", "_deploy"}

\* ---- the manifest against the instruction stream and the debug information
EntryOk(e, m) ==
    LET B == ToSet(e.bounds)
        slot == {s \in ToSet(e.initslots) : s[1] = m.offset}
    IN /\ m.offset \in B
       /\ IF slot # {} THEN \A s \in slot : s[3] = m.np ELSE m.np = 0
DebugOf(e, m) == {d \in ToSet(e.debug) : d.name = m.name /\ d.np = m.np /\ d.exported /\ d.isfunc}
ManifestChecks(e) ==
    LET M == ToSet(e.manifest) IN
    NameIf(\A m \in M : m.offset \in ToSet(e.bounds), "OffsetIsInstructionBoundary")
    \cup NameIf(\A m \in M : EntryOk(e, m), "EntryInitslotArgsEqualParameterCount")
    \cup NameIf(\A m \in M : Cardinality(DebugOf(e, m)) = 1, "ManifestMethodHasOneDebugMethod")
    \cup NameIf(\A m \in M : \A d \in DebugOf(e, m) : d.start = m.offset /\ d.start <= d.end, "OffsetIsDebugRangeStart")
    \cup NameIf(\A m1, m2 \in M : (m1.name = m2.name /\ m1.np = m2.np) => m1 = m2, "ManifestMethodsDistinct")
    \cup NameIf(\A i \in 1..Len(e.manifest) : Len(e.manifest[i].ptypes) = e.manifest[i].np, "harness:ptypes")

\* ---- the debug information against the instruction stream
Inside(d, o) == o >= d.start /\ o <= d.end
DebugChecks(e) ==
    LET D == ToSet(e.debug)  B == ToSet(e.bounds) IN
    NameIf(\A d \in D : d.start \in B /\ d.end \in B /\ d.start <= d.end /\ d.end < e.codelen, "DebugRangeOnBoundaries")
    \cup NameIf(\A d \in D : d.end \in ToSet(e.rets), "DebugRangeEndsWithRet")
    \cup NameIf(\A i, j \in 1..Len(e.debug) : i # j => (e.debug[i].end < e.debug[j].start \/ e.debug[j].end < e.debug[i].start), "DebugRangesDisjoint")
    \cup NameIf(\A d \in D : \A o \in ToSet(d.seq) : o \in B /\ Inside(d, o), "SequencePointsInsideMethod")
    \cup NameIf(\A d \in D : \A s \in ToSet(e.initslots) : s[1] = d.start => s[3] = d.np + (IF d.isfunc THEN 0 ELSE 1), "DebugParameterCountIsInitslotArgs")
    \cup NameIf(\A s \in ToSet(e.initslots) : \E d \in D : Inside(d, s[1]), "InitslotInsideSomeMethod")

\* ---- _initialize / _deploy present exactly when needed
InitChecks(e) ==
    LET M == ToSet(e.manifest)
        hasInit == \E m \in M : m.name = "_initialize"
        usesStatics == e.maxsfld >= 0
    IN NameIf(hasInit <=> e.initsslots # <<>>, "InitializeIffStaticSlots")
       \cup NameIf(usesStatics => hasInit, "StaticsUsedNeedInitialize")
       \cup NameIf(\A s \in ToSet(e.initsslots) : s[1] = 0 /\ s[2] > e.maxsfld, "StaticSlotCountCoversUse")
       \cup NameIf(\A m \in M : m.name = "_initialize" => m.offset = 0 /\ m.np = 0 /\ m.rtype = "Void", "InitializeShape")
       \cup NameIf(\A m \in M : m.name = "_deploy" => m.np = 2 /\ m.rtype = "Void", "DeployShape")
       \cup NameIf(e.src.known => ((\E m \in M : m.name = "_deploy") <=> e.src.hasdeploy), "DeployIffDeclared")

\* ---- the manifest against the source (generated programs)
SourceChecks(e) ==
    IF ~e.src.known THEN {}
    ELSE LET M == ToSet(e.manifest)  X == ToSet(e.src.exported) IN
         NameIf(\A x \in X : \E m \in M : m.name = x.name /\ m.np = x.np, "ExportedFunctionInManifestWithParameterCount")
         \cup NameIf(\A x \in X : \A m \in M : (m.name = x.name /\ m.np = x.np) => m.rtype = x.rtype /\ m.ptypes = x.ptypes, "ManifestTypesMatchSource")
         \cup NameIf(\A m \in M : m.name \in Special \/ \E x \in X : x.name = m.name /\ x.np = m.np, "ManifestNamesOnlyExportedFunctions")

\* ---- entering through the manifest with np arguments
CallChecks(e) ==
    NameIf(\A c \in ToSet(e.calls) : ~c.underflow, "CallThroughManifestDoesNotUnderflow")
    \cup NameIf(\A c \in ToSet(e.calls) : c.halt => c.depth = c.nres, "ResultStackDepthIsResultCount")

AbiMatches(e) == ManifestChecks(e) \cup DebugChecks(e) \cup InitChecks(e) \cup SourceChecks(e) \cup CallChecks(e)
                 \cup NameIf(~e.manerr, "ManifestCreated")

Init == l = 1
Step == /\ l <= Len(TLog)
        /\ LET e == TLog[l] IN Report(l, AbiMatches(e), [prog |-> e.prog, kind |-> e.kind])
        /\ l' = l + 1
TraceSpec == Init /\ [][Step]_l
=============================================================================
