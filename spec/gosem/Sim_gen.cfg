\* generation by derivation steps (tlc -simulate): Depth choices below K per program; Seed selects nothing here (TLC's -seed does)
SPECIFICATION Spec
CONSTANTS
  Bug = "none"
  Depth = 260
  K = 60
INVARIANT Emit
CHECK_DEADLOCK FALSE
