----------------------------- MODULE ExecTrace -----------------------------
(* Judges what was read back from the REAL chain against the abstract specification Exec (nested transactions).
   Events (one JSON object per line):
     world  nset sink                       a fresh chain: the shared native state before the first block
     tx     id tree used fund obs           one scenario transaction, in block order; obs is what the chain shows
                                            after the block: halt, notes, store, bal, xferlog, delivered, dep
     block  nset nset_disk sink payer_delta fees      after the block: shared state read back
   The shared state (native setting, sink balance) is threaded through the transactions of a block in order, so
   the position of a transaction in its block matters.  A transaction whose tree is a corner (Exec.tla) is not
   judged and taints the rest of its block (its effect on the shared state is not specified). *)
EXTENDS TraceIO, FiniteSets, SequencesExt

CONSTANTS NC, Keys
VARIABLES l, G, tainted
vars == <<l, G, tainted>>

E == INSTANCE Exec

Init == l = 1 /\ G = [nset |-> 0, sink |-> 0, ndep |-> 0] /\ tainted = FALSE

Start(e) == [st |-> E!EmptyStore,
             bal |-> [c \in E!Contracts |-> IF e.used[c + 1] THEN e.fund ELSE 0],
             sink |-> G.sink, nset |-> G.nset, dep |-> {}, ndep |-> G.ndep, notes |-> <<>>, pend |-> FALSE, corner |-> FALSE]

IsTransfer(n) == n[1] = "gas"
NTransfers(notes) == Cardinality({i \in DOMAIN notes : IsTransfer(notes[i])})

TxChecks(e, x) ==
    LET o == e.obs IN
       NameIf(o.halt = x.halt, "VMState")
    \cup NameIf(\A c \in E!Contracts : e.used[c + 1] => ToSet(o.store[c + 1]) = E!StoreSet(x.S, c), "Storage")
    \cup NameIf(x.halt => o.notes = x.S.notes, "Notifications")
    \cup NameIf(\A c \in E!Contracts : e.used[c + 1] => o.bal[c + 1] = x.S.bal[c], "Balances")
    \cup NameIf(o.xferlog = (IF x.halt THEN NTransfers(x.S.notes) ELSE 0), "TransferLog")
    \cup NameIf(o.delivered = (IF x.halt THEN x.S.notes ELSE <<>>), "Delivered")
    \cup NameIf(ToSet(o.dep) = x.S.dep, "Deployments")

Step ==
    /\ l <= Len(TLog)
    /\ l' = l + 1
    /\ LET e == TLog[l] IN
       CASE e.event = "world" ->
              /\ G' = [nset |-> e.nset, sink |-> e.sink, ndep |-> 0] /\ tainted' = FALSE
         [] e.event = "tx" ->
              LET x == E!TxEffect(e.tree, Start(e)) IN
              /\ tainted' = (tainted \/ x.corner)
              /\ G' = [nset |-> x.S.nset, sink |-> x.S.sink, ndep |-> x.S.ndep]
              /\ IF x.corner THEN Report(l, {"Corner"}, [id |-> e.id])
                 ELSE \/ tainted
                      \/ Report(l, TxChecks(e, x),
                                [id |-> e.id, expected |-> [halt |-> x.halt, notes |-> x.S.notes, st |-> x.S.st, bal |-> x.S.bal]])
         [] e.event = "block" ->
              /\ G' = [nset |-> e.nset, sink |-> e.sink, ndep |-> 0] /\ tainted' = FALSE
              /\ \/ tainted
                 \/ Report(l, NameIf(e.nset = G.nset /\ e.nset_disk = G.nset, "NativeSetting")
                              \cup NameIf(e.sink = G.sink, "SinkBalance")
                              \cup NameIf(e.nextid_delta = G.ndep, "Deployments")
                              \cup NameIf(e.payer_delta = 0 - e.fees, "FeeOnly"),
                           [expected |-> G])

TraceSpec == Init /\ [][Step]_vars
=============================================================================
