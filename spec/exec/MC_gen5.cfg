\* thorough enumeration without VIEW: every tree of up to 5 statements incl. natives
SPECIFICATION GenSpec
CONSTANTS
  NC = 2
  Keys = {1}
  Vals = {1}
  NoteIds = {1}
  Flags = {15, 5}
  NVals = {1001}
  MaxDepth = 2
  MaxSteps = 5
  MaxTry = 1
  MaxSub = 1
  Fund = 5
  N0 = 1000
  AllowPending = FALSE
  Bug = "none"
INVARIANTS EmitCase SemInv FinalInv StepInv LayerInv
CHECK_DEADLOCK FALSE
