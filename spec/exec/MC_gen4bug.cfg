\* non-vacuity of SemInv: the deviation must disagree with the recursive semantics
SPECIFICATION GenSpec
CONSTANTS
  NC = 2
  Keys = {1}
  Vals = {1}
  NoteIds = {1}
  Flags = {15}
  NVals = {}
  MaxDepth = 2
  MaxSteps = 5
  MaxTry = 1
  MaxSub = 1
  Fund = 0
  N0 = 1000
  AllowPending = FALSE
  Bug = "toponly"
INVARIANTS SemInv
CHECK_DEADLOCK FALSE
