\* thorough, natives: 2 contracts, 6 statements, native setting + transfers + callbacks, flags {All, notify-only, read-only}
SPECIFICATION Spec
CONSTANTS
  NC = 2
  Keys = {1}
  Vals = {1, 2}
  NoteIds = {1}
  Flags = {15, 13, 5}
  NVals = {1001}
  MaxDepth = 3
  MaxSteps = 6
  MaxTry = 2
  MaxSub = 1
  Fund = 5
  N0 = 1000
  AllowPending = FALSE
  Bug = "none"
VIEW View
INVARIANTS FinalInv StepInv LayerInv
CHECK_DEADLOCK FALSE
