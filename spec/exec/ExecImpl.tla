------------------------------ MODULE ExecImpl ------------------------------
(* C04 - IMPLEMENTATION-SHAPED LEVEL.  A small-step machine that mirrors how neo-go executes a transaction:

     ist      the VM invocation stack (pkg/vm: Context; contexts created by CALL share the script context "sc",
              named here by the stack position of its first context)
              every context has its own stack of exception handlers (TRY entries: state try / catch / fin)
     layers   the stack of private DAO layers (dao.Simple.GetPrivate): an overlay of written storage slots and a
              lazily made copy of the native contract cache (dao.go getCache / persistNativeCache)
     notes    interop.Context.Notifications
     pend     vm.uncaughtException # nil

   and, in the same state, the REFERENCE machine of the abstract level (nested transactions): the visible state
   "ref" and one snapshot per contract invocation "rsnap"; entering a contract takes a snapshot, leaving it by an
   exception restores it.  Both machines share the control flow (which handler receives an exception is the VM's
   business, not this property's); they differ in how state is protected:

     impl:  callExFromNative (pkg/core/interop/contract/call.go:157-190) pushes a layer ONLY IF the calling
            contract currently has a TRY block in state "try" in one of the contexts of its script context
            (vm.ContractHasTryBlock) and the effective flags allow writes or notifications; the unload callback
            commits the layer (RET, no pending exception) or drops it and truncates the notifications
            (handleException, pkg/vm/vm.go:1974-2003 + unloadContext 1883-1912).
     ref:   always snapshots; an invocation is committed iff no exception is pending when its context is unloaded
            (the VM's rule, identical to the C# reference; it differs from "returned normally" only for calls made
            while an exception is pending - AllowPending, the corner the abstract level leaves unjudged).

   The program is not fixed in advance: the next statement ("label") is chosen nondeterministically at every step,
   so every path of the machine is the execution of one tree of Exec.tla and every tree within the bounds is some
   path.  The tree is accumulated in m.tree (hidden from the VIEW) so that the recursive semantics Sem of Exec.tla
   can be compared with the machine (SemInv) and so that the simulator can print it for the harness.

   TLC checks (MC_*.cfg):  FinalInv  - the optimised layering ends in the state of the nested-transaction reference
                           StepInv   - ... and shows it at every step that is not doomed to fail
                           SemInv    - the recursive definition Sem(tree) is what the reference machine computes. *)
EXTENDS Integers, Sequences, FiniteSets, TLC, SequencesExt

CONSTANTS NC, Keys,
          Vals,          \* values written by put
          NoteIds,       \* arguments of notify
          Flags,         \* call flags offered to call statements
          NVals,         \* values of the native setting
          MaxDepth,      \* contract invocations on the stack (call + native callbacks)
          MaxSteps,      \* labels per transaction ("end" labels are free once the budget is used up)
          MaxTry,        \* open TRY entries per context
          MaxSub,        \* contexts per script context created by CALL
          Fund, N0,      \* initial GAS of every contract, initial native setting
          AllowPending,  \* generate call-like statements while an exception is pending (the unjudged corner)
          Bug            \* "none" or a named deviation (non-vacuity self-tests)

E == INSTANCE Exec

\* ---------------------------------------------------------------- storage slots (integers)
SlotKey(c, k) == c * 10 + k
SlotBal(c)    == 100 + c
SlotSink      == 110
SlotNset      == 120
AllSlots == {SlotKey(c, k) : c \in E!Contracts, k \in Keys} \cup {SlotBal(c) : c \in E!Contracts} \cup {SlotSink, SlotNset}

BaseStore == [s \in AllSlots |-> IF s \in {SlotBal(c) : c \in E!Contracts} THEN Fund ELSE IF s = SlotNset THEN N0 ELSE 0]
NoCopy == -1
EmptyLayer == [w |-> <<>>, nc |-> NoCopy]

RECURSIVE VisFrom(_, _, _, _), CacheFrom(_, _, _), RWCopy(_, _, _)
VisFrom(L, i, base, s) ==
    IF i = 0 THEN base.st[s] ELSE IF s \in DOMAIN L[i].w THEN L[i].w[s] ELSE VisFrom(L, i - 1, base, s)
CacheFrom(L, i, base) ==                       \* dao.getCache(ro = true)
    IF i = 0 THEN base.nc ELSE IF L[i].nc # NoCopy THEN L[i].nc ELSE CacheFrom(L, i - 1, base)
RWCopy(L, i, base) ==                          \* dao.getCache(ro = false): every layer down to the first copy gets one
    IF i = 0 \/ L[i].nc # NoCopy THEN L
    ELSE LET L1 == RWCopy(L, i - 1, base) IN [L1 EXCEPT ![i].nc = CacheFrom(L1, i - 1, base)]

Vis(M, s)  == VisFrom(M.layers, Len(M.layers), M.base, s)
Cache(M)   == CacheFrom(M.layers, Len(M.layers), M.base)
Write(M, s, v) == [M EXCEPT !.layers[Len(M.layers)].w = (s :> v) @@ @]
SetCache(M, v) == LET L == RWCopy(M.layers, Len(M.layers), M.base) IN
                  [M EXCEPT !.layers = [L EXCEPT ![Len(L)].nc = v]]
\* MemCachedStore.Persist of the top private layer + persistNativeCache
PersistTop(M) ==
    LET n == Len(M.layers) t == M.layers[n] IN
    [M EXCEPT !.layers = [i \in 1 .. n - 1 |-> IF i < n - 1 THEN M.layers[i]
                                                     ELSE [w |-> t.w @@ M.layers[i].w,
                                                           nc |-> IF t.nc # NoCopy THEN t.nc ELSE M.layers[i].nc]]]
DropTop(M) == [M EXCEPT !.layers = Front(@)]

\* ---------------------------------------------------------------- reference machine (nested transactions)
RefWrite(M, s, v) == [M EXCEPT !.ref.st[s] = v]

\* ---------------------------------------------------------------- the invocation stack
Top(M) == M.ist[Len(M.ist)]
NewCtx(sc, c, fl, kind, wrapped, baseN, cb, ret) ==
    [sc |-> sc, c |-> c, fl |-> fl, try |-> <<>>, kind |-> kind, wrapped |-> wrapped, baseN |-> baseN, cb |-> cb, ret |-> ret]

\* vm.ContractHasTryBlock: contexts of the executing script context, any handler in state "try"
HasTryBlock(ist) ==
    LET n == Len(ist) IN
    \E i \in 1 .. n :
       /\ \A j \in i .. n : ist[j].sc = ist[n].sc
       /\ (Bug = "toponly" => i = n)
       /\ \E e \in 1 .. Len(ist[i].try) : ist[i].try[e].st = "try"

Wrapped(ist, f) ==
    /\ HasTryBlock(ist)
    /\ IF Bug = "writeonly" THEN E!Bit(f, 2) ELSE E!Bit(f, 2) \/ E!Bit(f, 8)

Fault(M) == [M EXCEPT !.status = "fault"]

\* the unload callback of the context ctx that has just been popped (call.go onUnload + vm.unloadContext)
Unload(M, ctx, commit) ==
    IF ctx.kind \in {"sub", "entry"} THEN M               \* same script context below / no callback
    ELSE LET M1 == IF ~ctx.wrapped THEN M
                   ELSE IF commit /\ Bug # "nocommit" THEN PersistTop(M)
                   ELSE IF Bug = "keepnotes" \/ commit THEN DropTop(M)
                   ELSE [DropTop(M) EXCEPT !.notes = SubSeq(@, 1, ctx.baseN)]
             M2 == [M1 EXCEPT !.rsnap = Front(@),
                              !.ref = IF commit THEN @ ELSE Last(M1.rsnap)]
         IN  IF ctx.cb /\ ~commit THEN Fault(M2) ELSE M2

RECURSIVE UnloadN(_, _)
UnloadN(M, p) ==                                            \* handleException: "for range pop"
    IF p = 0 \/ M.status = "fault" THEN M
    ELSE LET ctx == Top(M)
             M1 == [M EXCEPT !.ist = Front(@)]
         IN  UnloadN(Unload(M1, ctx, FALSE), p - 1)

\* path of the block of the tree that execution continues in after landing in handler e (for the accumulated tree)
HandlerPath(e, br) == Append(e.tp[1], <<e.tp[2], br>>)

RECURSIVE Scan(_, _)
Scan(M, p) ==                                               \* vm.handleException
    LET i == Len(M.ist) - p IN
    IF i = 0 THEN Fault(M)                                  \* unhandled exception
    ELSE LET ctx == M.ist[i] n == Len(ctx.try) IN
         IF n = 0 THEN Scan(M, p + 1)
         ELSE LET e == ctx.try[n] IN
              IF e.st = "fin" \/ (e.st = "catch" /\ ~e.hf)
              THEN Scan([M EXCEPT !.ist[i].try = Front(@)], p)
              ELSE LET M1 == UnloadN(M, p) IN
                   IF M1.status = "fault" THEN M1
                   ELSE IF e.st = "try" /\ e.hc
                        THEN [M1 EXCEPT !.ist[i].try[n].st = "catch", !.pend = FALSE, !.cur = HandlerPath(e, "catch")]
                        ELSE [M1 EXCEPT !.ist[i].try[n].st = "fin", !.ist[i].try[n].exc = TRUE, !.cur = HandlerPath(e, "fin")]

Raise(M) == Scan([M EXCEPT !.pend = TRUE], 0)

\* ---------------------------------------------------------------- the tree under construction
RECURSIVE AppendAt(_, _, _), LenAt(_, _)
AppendAt(b, path, s) ==
    IF path = <<>> THEN Append(b, s)
    ELSE [b EXCEPT ![path[1][1]] = [@ EXCEPT ![path[1][2]] = AppendAt(@, Tail(path), s)]]
LenAt(b, path) == IF path = <<>> THEN Len(b) ELSE LenAt(b[path[1][1]][path[1][2]], Tail(path))
Emit(M, s) == [M EXCEPT !.tree = AppendAt(@, M.cur, s)]
Into(M, br) == [M EXCEPT !.cur = Append(@, <<LenAt(M.tree, M.cur), br>>)]     \* after Emit: enter a block of the last statement

\* ---------------------------------------------------------------- one label
Depth(M) == Cardinality({i \in 1 .. Len(M.ist) : M.ist[i].kind \in {"method", "cb"}})
SubDepth(M) == Cardinality({i \in 1 .. Len(M.ist) : M.ist[i].sc = Top(M).sc}) - 1

Leaf(M, lb) ==
    LET t == Top(M) me == t.c fl == t.fl
        M0 == Emit(M, lb)
    IN
    CASE lb.k = "put" ->
            IF me >= 0 /\ E!HasAll(fl, 3) THEN RefWrite(Write(M0, SlotKey(me, lb.key), lb.val), SlotKey(me, lb.key), lb.val) ELSE Fault(M0)
      [] lb.k = "del" ->
            IF me >= 0 /\ E!HasAll(fl, 3) THEN RefWrite(Write(M0, SlotKey(me, lb.key), 0), SlotKey(me, lb.key), 0) ELSE Fault(M0)
      [] lb.k = "notify" ->
            IF me >= 0 /\ E!HasAll(fl, 8)
            THEN [M0 EXCEPT !.notes = Append(@, E!Note(me, lb.n)), !.ref.notes = Append(@, E!Note(me, lb.n))] ELSE Fault(M0)
      [] lb.k = "nset" ->            \* Policy.setFeePerByte: storage item + RW cache of the current layer
            IF me >= 0 /\ E!HasAll(fl, 7)
            THEN [RefWrite(SetCache(Write(M0, SlotNset, lb.val), lb.val), SlotNset, lb.val) EXCEPT !.ref.nset = lb.val] ELSE Fault(M0)
      [] lb.k = "nget" ->            \* Policy.getFeePerByte answers from the (read-only) cache
            IF me >= 0 /\ E!HasAll(fl, 7)
            THEN RefWrite(Write(M0, SlotKey(me, lb.key), Cache(M0)), SlotKey(me, lb.key), M0.ref.nset) ELSE Fault(M0)
      [] lb.k = "xfer" ->
            IF me >= 0 /\ E!HasAll(fl, 15)
            THEN LET b == Vis(M0, SlotBal(me)) s == Vis(M0, SlotSink)
                     M1 == Write(Write(M0, SlotBal(me), b - lb.amt), SlotSink, s + lb.amt)
                     nt == E!TransferNote(E!CName(me), "sink", lb.amt)
                 IN  [M1 EXCEPT !.notes = Append(@, nt), !.ref.notes = Append(@, nt),
                                !.ref.st[SlotBal(me)] = @ - lb.amt, !.ref.st[SlotSink] = @ + lb.amt]
            ELSE Fault(M0)
      [] lb.k \in {"throw", "vmthrow"} -> Raise(M0)
      [] lb.k = "abort" -> Fault(M0)

\* RET of the context on top
Ret(M) ==
    LET ctx == Top(M)
        M1 == [M EXCEPT !.ist = Front(@), !.cur = ctx.ret]
    IN
    CASE ctx.kind = "entry"  -> [M1 EXCEPT !.status = "halt"]
      [] ctx.kind = "sub"    -> M1
      [] ctx.kind = "method" -> Unload(M1, ctx, ~M.pend)
      [] ctx.kind = "cb"     ->                                  \* onUnloaded continuation: the native method returns too
            LET M2 == Unload(M1, ctx, ~M.pend) IN
            IF M2.status = "fault" THEN M2
            ELSE LET nctx == Top(M2) IN Unload([M2 EXCEPT !.ist = Front(@)], nctx, ~M.pend)

End(M) ==
    LET i == Len(M.ist) ctx == Top(M) n == Len(ctx.try) IN
    IF n = 0 THEN Ret(M)
    ELSE LET e == ctx.try[n] parent == e.tp[1] IN
         IF e.st \in {"try", "catch"}                            \* ENDTRY
         THEN IF e.hf THEN [M EXCEPT !.ist[i].try[n].st = "fin", !.cur = HandlerPath(e, "fin")]
              ELSE [M EXCEPT !.ist[i].try = Front(@), !.cur = parent]
         ELSE IF M.pend THEN Scan(M, 0)                          \* ENDFINALLY re-raises
              ELSE IF e.exc THEN Fault(M)                        \* no end offset was recorded: the VM faults
              ELSE [M EXCEPT !.ist[i].try = Front(@), !.cur = parent]

Open(M, lb) ==
    LET t == Top(M) i == Len(M.ist) IN
    CASE lb.k = "try" ->
            LET M0 == Emit(M, [k |-> "try", hc |-> lb.hc, hf |-> lb.hf, body |-> <<>>, catch |-> <<>>, fin |-> <<>>])
                idx == LenAt(M0.tree, M.cur)
            IN  [Into(M0, "body") EXCEPT !.ist[i].try = Append(@, [st |-> "try", hc |-> lb.hc, hf |-> lb.hf, exc |-> FALSE,
                                                                      tp |-> <<M.cur, idx>>])]
      [] lb.k = "sub" ->
            LET M0 == Emit(M, [k |-> "sub", body |-> <<>>]) IN
            [Into(M0, "body") EXCEPT !.ist = Append(@, NewCtx(t.sc, t.c, t.fl, "sub", FALSE, 0, FALSE, M.cur))]
      [] lb.k = "call" ->
            LET M0 == Emit(M, [k |-> "call", c |-> lb.c, fl |-> lb.fl, body |-> <<>>]) IN
            IF ~E!HasAll(t.fl, 5) THEN Fault(M0)
            ELSE LET f == E!AndF(t.fl, lb.fl)
                     w == Wrapped(M.ist, f)
                 IN  [Into(M0, "body") EXCEPT
                        !.ist = Append(@, NewCtx(Len(M.ist) + 1, lb.c, f, "method", w, Len(M.notes), FALSE, M.cur)),
                        !.layers = IF w THEN Append(@, EmptyLayer) ELSE @,
                        !.rsnap = Append(@, M.ref)]
      [] lb.k = "pay" ->             \* GAS.transfer to a contract: native context, then its onNEP17Payment callback
            LET M0 == Emit(M, [k |-> "pay", c |-> lb.c, amt |-> lb.amt, body |-> <<>>])
                me == t.c
            IN
            IF ~(me >= 0 /\ E!HasAll(t.fl, 15)) THEN Fault(M0)
            ELSE LET w  == Wrapped(M.ist, 15)
                     M1 == [Into(M0, "body") EXCEPT
                              !.ist = Append(@, NewCtx(Len(M.ist) + 1, -2, 15, "native", w, Len(M.notes), FALSE, M.cur)),
                              !.layers = IF w THEN Append(@, EmptyLayer) ELSE @,
                              !.rsnap = Append(@, M.ref)]
                     b1 == Vis(M1, SlotBal(me))
                     M2 == Write(M1, SlotBal(me), b1 - lb.amt)
                     b2 == Vis(M2, SlotBal(lb.c))
                     M3 == Write(M2, SlotBal(lb.c), b2 + lb.amt)
                     nt == E!TransferNote(E!CName(me), E!CName(lb.c), lb.amt)
                     r1 == [M3.ref EXCEPT !.st[SlotBal(me)] = @ - lb.amt]
                     r2 == [r1 EXCEPT !.st[SlotBal(lb.c)] = @ + lb.amt, !.notes = Append(@, nt)]
                 IN  [M3 EXCEPT !.notes = Append(@, nt), !.ref = r2,
                                !.ist = Append(@, NewCtx(Len(M.ist) + 2, lb.c, 15, "cb", FALSE, Len(M.notes) + 1, TRUE, M.cur)),
                                !.rsnap = Append(@, r2)]

Step(M, lb) ==
    LET M1 == IF lb.k = "end" THEN End(M)
              ELSE IF lb.k \in {"try", "sub", "call", "pay"} THEN Open(M, lb)
              ELSE Leaf(M, lb)
    IN  [M1 EXCEPT !.steps = @ + 1]

\* ---------------------------------------------------------------- generation
CallLikeLabel(lb) == lb.k \in {"call", "pay", "nset", "nget", "xfer"}

Labels(M) ==
    LET t == Top(M)
        inC == t.c >= 0
        budget == M.steps < MaxSteps
        leafs == IF ~budget THEN {}
                 ELSE (IF inC THEN {[k |-> "put", key |-> k, val |-> v] : k \in Keys, v \in Vals}
                                   \cup {[k |-> "del", key |-> k] : k \in Keys}
                                   \cup {[k |-> "notify", n |-> n] : n \in NoteIds}
                                   \cup {[k |-> "nset", val |-> v] : v \in NVals}
                                   \cup (IF NVals = {} THEN {} ELSE {[k |-> "nget", key |-> k] : k \in Keys})
                                   \cup (IF Fund = 0 THEN {} ELSE {[k |-> "xfer", amt |-> 1]})
                       ELSE {})
                      \cup {[k |-> "throw"], [k |-> "abort"]}
        opens == IF ~budget THEN {}
                 ELSE (IF Len(t.try) < MaxTry
                       THEN {[k |-> "try", hc |-> TRUE, hf |-> FALSE], [k |-> "try", hc |-> FALSE, hf |-> TRUE],
                             [k |-> "try", hc |-> TRUE, hf |-> TRUE]} ELSE {})
                      \cup (IF SubDepth(M) < MaxSub THEN {[k |-> "sub"]} ELSE {})
                      \cup (IF Depth(M) < MaxDepth
                            THEN {[k |-> "call", c |-> c, fl |-> f] : c \in E!Contracts, f \in Flags}
                                 \cup (IF inC /\ Fund # 0 THEN {[k |-> "pay", c |-> c, amt |-> 1] : c \in E!Contracts} ELSE {})
                            ELSE {})
        all == leafs \cup opens \cup {[k |-> "end"]}
    IN  IF M.pend /\ ~AllowPending THEN {lb \in all : ~CallLikeLabel(lb)} ELSE all

\* ---------------------------------------------------------------- specification
VARIABLE m

M0 == [ist |-> << NewCtx(1, -1, 15, "entry", FALSE, 0, FALSE, <<>>) >>,
       layers |-> << EmptyLayer >>,
       base |-> [st |-> BaseStore, nc |-> N0],
       notes |-> <<>>, pend |-> FALSE, status |-> "run",
       ref |-> [st |-> BaseStore, nset |-> N0, notes |-> <<>>], rsnap |-> <<>>,
       steps |-> 0, tree |-> <<>>, cur |-> <<>>]

Init == m = M0
Next == /\ m.status = "run"
        /\ \E lb \in Labels(m) : m' = Step(m, lb)
Spec == Init /\ [][Next]_m

\* what TLC hashes: everything but the accumulated tree and the paths into it
StripCtx(c) == [sc |-> c.sc, c |-> c.c, fl |-> c.fl, kind |-> c.kind, wrapped |-> c.wrapped, baseN |-> c.baseN, cb |-> c.cb,
                try |-> [i \in DOMAIN c.try |-> [st |-> c.try[i].st, hc |-> c.try[i].hc, hf |-> c.try[i].hf, exc |-> c.try[i].exc]]]
View == [ist |-> [i \in DOMAIN m.ist |-> StripCtx(m.ist[i])], layers |-> m.layers, base |-> m.base, notes |-> m.notes,
         pend |-> m.pend, status |-> m.status, ref |-> m.ref, rsnap |-> m.rsnap, steps |-> m.steps]

\* ---------------------------------------------------------------- what is checked
\* the ledger after the transaction: the transaction layer is persisted only if the VM did not fault (blockchain.go:2050)
FinalStore(M) == IF M.status = "halt" THEN [s \in AllSlots |-> Vis(M, s)] ELSE M.base.st
FinalCache(M) == IF M.status = "halt" THEN Cache(M) ELSE M.base.nc
Doomed(M) == \E i \in 1 .. Len(M.ist) : \E e \in 1 .. Len(M.ist[i].try) : M.ist[i].try[e].st = "fin" /\ M.ist[i].try[e].exc

FinalInv ==
    /\ m.status = "halt" => /\ FinalStore(m) = m.ref.st
                            /\ FinalCache(m) = m.ref.nset /\ m.ref.st[SlotNset] = m.ref.nset
                            /\ m.notes = m.ref.notes
                            /\ Len(m.layers) = 1 /\ m.rsnap = <<>>
    /\ m.status = "fault" => FinalStore(m) = BaseStore /\ FinalCache(m) = N0
StepInv ==
    (m.status = "run" /\ ~Doomed(m)) =>
        /\ \A s \in AllSlots : Vis(m, s) = m.ref.st[s]
        /\ Cache(m) = m.ref.nset /\ Vis(m, SlotNset) = Cache(m)
        /\ m.notes = m.ref.notes
\* layer discipline: one layer per wrapped context, plus the transaction layer
LayerInv ==
    m.status = "run" => Len(m.layers) = 1 + Cardinality({i \in 1 .. Len(m.ist) : m.ist[i].wrapped})

\* link to the recursive definition of the abstract level
AbsStart == [st |-> E!EmptyStore, bal |-> [c \in E!Contracts |-> Fund], sink |-> 0, nset |-> N0, dep |-> {}, ndep |-> 0, notes |-> <<>>,
             pend |-> FALSE, corner |-> FALSE]
SemInv ==
    m.status \in {"halt", "fault"} =>
        LET x == E!TxEffect(m.tree, AbsStart)
            fs == FinalStore(m)
        IN  x.corner \/
            /\ x.halt = (m.status = "halt")
            /\ \A c \in E!Contracts : /\ \A k \in Keys : fs[SlotKey(c, k)] = x.S.st[c][k]
                                      /\ fs[SlotBal(c)] = x.S.bal[c]
            /\ fs[SlotSink] = x.S.sink /\ fs[SlotNset] = x.S.nset /\ FinalCache(m) = x.S.nset
            /\ (x.halt => m.notes = x.S.notes)
=============================================================================
