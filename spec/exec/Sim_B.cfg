\* walks over the storage shapes only: 2 contracts, depth 3, 10 statements, deeper TRY and subroutine nesting
SPECIFICATION SimSpec
CONSTANTS
  NC = 2
  Keys = {1}
  Vals = {1, 2}
  NoteIds = {1, 2}
  Flags = {15, 13, 7}
  NVals = {}
  MaxDepth = 3
  MaxSteps = 10
  MaxTry = 3
  MaxSub = 2
  Fund = 0
  N0 = 1000
  AllowPending = FALSE
  Bug = "none"
INVARIANT EmitHist
CHECK_DEADLOCK FALSE
