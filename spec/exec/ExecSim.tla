------------------------------ MODULE ExecSim ------------------------------
(* Behaviour generator and case enumerator on top of ExecImpl.
   - Simulation (Sim_*.cfg, tlc -simulate): random walks of the machine; the tree of every finished transaction is
     printed as JSON (@@HIST@@) together with the outcome the machine predicts (Impl-level prediction, used by the
     driver for drift detection only - the verdict comes from Exec.tla through ExecTrace.tla).
     TLC picks a successor uniformly among successor STATES; the variable coin multiplies the successors of the
     labels that should be frequent (end of block, throw, calls) so that finished, interesting shapes dominate.
   - Enumeration (MC_gen*.cfg, no VIEW): every state is a distinct tree prefix; every finished tree is printed
     (@@CASE@@) and SemInv is checked on it, so the harness replays ALL trees within the bound on the real code. *)
EXTENDS ExecImpl, Json

VARIABLE coin

Weight(lb) == CASE lb.k = "end" -> 6
                [] lb.k = "throw" -> 3
                [] lb.k = "call" -> IF lb.fl = 15 THEN 3 ELSE 1
                [] lb.k = "try" -> 2
                [] lb.k \in {"put", "notify"} -> 2
                [] OTHER -> 1
\* statements refused for lack of call flags end the transaction at once: rare in walks (the enumeration and the
\* seeded generator of the driver cover them)
Boring(M, lb) == lb.k = "abort" \/ (lb.k \notin {"throw", "end"} /\ Step(M, lb).status = "fault")

SimInit == Init /\ coin = 0
SimNext == \/ /\ m.status = "run"
              /\ \E lb \in {x \in Labels(m) : ~Boring(m, x)} : \E w \in 1 .. Weight(lb) : m' = Step(m, lb) /\ coin' = w
           \/ /\ m.status # "run" /\ coin # -1         \* the walk really ended here: print it
              /\ m' = m /\ coin' = -1
SimSpec == SimInit /\ [][SimNext]_<<m, coin>>

Predicted(M) == [halt |-> M.status = "halt", notes |-> IF M.status = "halt" THEN M.notes ELSE <<>>]
Case(M) == [tree |-> M.tree, pred |-> Predicted(M)]

EmitHist == coin # -1 \/ PrintT(<<"@@HIST@@", ToJson(Case(m))>>)
EmitCase == m.status = "run" \/ PrintT(<<"@@CASE@@", ToJson(Case(m))>>)

GenInit == Init /\ coin = 0
GenNext == Next /\ coin' = 0
GenSpec == GenInit /\ [][GenNext]_<<m, coin>>
=============================================================================
