-------------------------------- MODULE Exec --------------------------------
(* C04 - ABSTRACT LEVEL (the judge).

   A transaction is a TREE of statements.  The tree language (records, field k = kind):

     put key val | del key | notify n          storage write / delete / notification of the executing contract
     nset val | nget key                      a cached native setting: Policy.setFeePerByte(val) under the committee
                                              witness / store Policy.getFeePerByte() under key
     xfer amt                                 GAS.transfer(self -> plain account "sink", amt)
     deploy d                                 ContractManagement.deploy of the tiny child contract number d
     throw | vmthrow                          THROW / a VM-raised catchable exception (PICKITEM out of range)
     abort                                    ABORT (uncatchable)
     call c fl body                           System.Contract.Call of a method of contract c with call flags fl;
                                              body is what the method does
     pay c amt body                           GAS.transfer(self -> contract c, amt): the native token calls back
                                              c.onNEP17Payment, whose code is body (a call initiated by a native)
     try body catch fin hc hf                 TRY body [CATCH catch] [FINALLY fin]  (hc / hf: block present)
     sub body                                 CALL of an internal subroutine of the same contract

   Sem is the reference semantics of the property statement - NESTED TRANSACTIONS:
     * every call of a contract (call, and the callback of pay) is a nested transaction: if it ends by an exception
       everything it and anything it called did (storage, notifications, token movements, native settings) is
       undone, whoever handles the exception and wherever; if it returns, its effects belong to the caller;
     * a transaction whose script does not run to completion (uncaught exception, ABORT, failed syscall, exception
       escaping a native-initiated callback) has no effect at all except the fee;
     * a transaction that halts has exactly the accumulated effects.
   What CAN be caught (THROW, VM-raised range errors) and what cannot (ABORT, a syscall refused for lack of call
   flags, an exception leaving onNEP17Payment) was established on the unchanged tree and is part of the definition
   of the language, not of the property.

   S.pend mirrors the VM's pending-exception register, S.corner records that the tree executed a call-like statement
   while an exception was pending (a call from a FINALLY block entered by an exception).  The statement is silent
   about such calls (the VM - like the C# reference - refuses to commit a callee that returns while an exception is
   pending); trees with S.corner are NOT judged, only reported. *)
EXTENDS Integers, Sequences, FiniteSets, TLC

CONSTANTS NC,      \* number of scenario contracts: indices 0..NC-1; -1 is the entry script
          Keys     \* storage keys (small positive integers)

Contracts == 0 .. NC - 1
CName(c) == IF c = 0 THEN "c0" ELSE IF c = 1 THEN "c1" ELSE IF c = 2 THEN "c2" ELSE "c3"

\* ---- call flags (callflag.CallFlag): ReadStates 1, WriteStates 2, AllowCall 4, AllowNotify 8
Bits == {1, 2, 4, 8}
Bit(f, b) == (f \div b) % 2 = 1
HasAll(f, need) == \A b \in Bits : Bit(need, b) => Bit(f, b)
AndF(f, g) == LET t(b) == IF Bit(f, b) /\ Bit(g, b) THEN b ELSE 0 IN t(1) + t(2) + t(4) + t(8)
FAll == 15

\* ---- abstract ledger state touched by a transaction
\* st[c][k] = 0: key absent.  A note is <<who, number, from, to>> (strings except the number).
EmptyStore == [c \in Contracts |-> [k \in Keys |-> 0]]
Note(c, n) == <<CName(c), n, "", "">>
TransferNote(from, to, amt) == <<"gas", amt, from, to>>

Ok(S)    == [S |-> S, out |-> "ok"]
Abort(S) == [S |-> S, out |-> "abort"]
Throw(S) == [S |-> [S EXCEPT !.pend = TRUE], out |-> "throw"]

CallLike(s) == s.k \in {"call", "pay", "nset", "nget", "xfer", "deploy"}

RECURSIVE Block(_, _, _), Stmt(_, _, _), Fin(_, _, _, _)

Block(b, env, S) ==
    IF b = <<>> THEN Ok(S)
    ELSE LET r == Stmt(Head(b), env, S) IN
         IF r.out = "ok" THEN Block(Tail(b), env, r.S) ELSE r

\* FINALLY block of s; exc: entered by an exception
Fin(s, env, S, exc) ==
    LET r == Block(s.fin, env, S) IN
    IF r.out # "ok" THEN r                              \* a throw inside FINALLY replaces the pending exception
    ELSE IF r.S.pend THEN [S |-> r.S, out |-> "throw"]  \* ENDFINALLY re-raises
    ELSE IF exc THEN Abort(r.S)                         \* the pending exception vanished inside FINALLY: ENDFINALLY has nowhere to go, the VM faults
    ELSE r

Stmt(s0, env, S0) ==
    LET s == s0
        S == IF CallLike(s) /\ S0.pend THEN [S0 EXCEPT !.corner = TRUE] ELSE S0
        me == env.c
    IN
    CASE s.k = "put" ->
            IF me >= 0 /\ HasAll(env.fl, 3) THEN Ok([S EXCEPT !.st[me][s.key] = s.val]) ELSE Abort(S)
      [] s.k = "del" ->
            IF me >= 0 /\ HasAll(env.fl, 3) THEN Ok([S EXCEPT !.st[me][s.key] = 0]) ELSE Abort(S)
      [] s.k = "notify" ->
            IF me >= 0 /\ HasAll(env.fl, 8) THEN Ok([S EXCEPT !.notes = Append(@, Note(me, s.n))]) ELSE Abort(S)
      [] s.k = "nset" ->
            IF me >= 0 /\ HasAll(env.fl, 7) THEN Ok([S EXCEPT !.nset = s.val]) ELSE Abort(S)
      [] s.k = "nget" ->
            IF me >= 0 /\ HasAll(env.fl, 7) THEN Ok([S EXCEPT !.st[me][s.key] = S.nset]) ELSE Abort(S)
      [] s.k = "xfer" ->
            IF me >= 0 /\ HasAll(env.fl, 15)
            THEN Ok([S EXCEPT !.bal[me] = @ - s.amt, !.sink = @ + s.amt,
                              !.notes = Append(@, TransferNote(CName(me), "sink", s.amt))])
            ELSE Abort(S)
      [] s.k = "deploy" ->            \* "contract already exists" is a native panic: uncatchable
            IF me >= 0 /\ HasAll(env.fl, 15) /\ s.d \notin S.dep
            THEN Ok([S EXCEPT !.dep = @ \cup {s.d}, !.ndep = @ + 1, !.notes = Append(@, <<"mgmt", s.d, "", "">>)])
            ELSE Abort(S)
      [] s.k \in {"throw", "vmthrow"} -> Throw(S)
      [] s.k = "abort" -> Abort(S)
      [] s.k = "sub" -> Block(s.body, env, S)
      [] s.k = "call" ->
            IF ~HasAll(env.fl, 5) THEN Abort(S)
            ELSE LET rc == Block(s.body, [c |-> s.c, fl |-> AndF(env.fl, s.fl), cb |-> FALSE], S) IN
                 IF rc.out # "throw" THEN rc
                 ELSE Throw([S EXCEPT !.corner = @ \/ rc.S.corner])     \* the nested transaction is rolled back
      [] s.k = "pay" ->
            IF ~(me >= 0 /\ HasAll(env.fl, 15)) THEN Abort(S)
            ELSE LET S1 == [S EXCEPT !.bal = [[@ EXCEPT ![me] = @ - s.amt] EXCEPT ![s.c] = @ + s.amt],
                                     !.notes = Append(@, TransferNote(CName(me), CName(s.c), s.amt))]
                     rp == Block(s.body, [c |-> s.c, fl |-> env.fl, cb |-> TRUE], S1)
                 IN  IF rp.out = "ok" THEN rp
                     ELSE Abort([S EXCEPT !.corner = @ \/ rp.S.corner])   \* an exception leaving a native-initiated callback is uncatchable
      [] s.k = "try" ->
            LET r1 == Block(s.body, env, S) IN
            IF r1.out = "abort" THEN r1
            ELSE IF r1.out = "ok" THEN (IF s.hf THEN Fin(s, env, r1.S, FALSE) ELSE r1)
            ELSE IF s.hc
                 THEN LET r2 == Block(s.catch, env, [r1.S EXCEPT !.pend = FALSE]) IN
                      IF r2.out = "abort" THEN r2
                      ELSE IF r2.out = "ok" THEN (IF s.hf THEN Fin(s, env, r2.S, FALSE) ELSE r2)
                      ELSE (IF s.hf THEN Fin(s, env, r2.S, TRUE) ELSE r2)
                 ELSE Fin(s, env, r1.S, TRUE)

\* ---- the effect of a whole transaction whose entry script is the block root, started in state S0
EntryEnv == [c |-> -1, fl |-> FAll, cb |-> FALSE]
Clean(S) == [S EXCEPT !.pend = FALSE, !.corner = FALSE, !.notes = <<>>]

TxEffect(root, S0) ==
    LET r == Block(root, EntryEnv, Clean(S0)) IN
    [halt   |-> r.out = "ok",
     corner |-> r.S.corner,
     S      |-> IF r.out = "ok" THEN r.S ELSE Clean(S0)]   \* FAULT: nothing but the fee

\* projection used to compare with what is read back from the real chain
StoreSet(S, c) == {<<k, S.st[c][k]>> : k \in {x \in Keys : S.st[c][x] # 0}}
=============================================================================
