\* non-vacuity: named deviation "writeonly" (a layer is pushed only for WriteStates (AllowNotify ignored)) must violate the invariants
SPECIFICATION Spec
CONSTANTS
  NC = 2
  Keys = {1}
  Vals = {1, 2}
  NoteIds = {1}
  Flags = {15, 13}
  NVals = {}
  MaxDepth = 2
  MaxSteps = 6
  MaxTry = 1
  MaxSub = 1
  Fund = 0
  N0 = 1000
  AllowPending = FALSE
  Bug = "writeonly"
VIEW View
INVARIANTS FinalInv StepInv LayerInv
CHECK_DEADLOCK FALSE
