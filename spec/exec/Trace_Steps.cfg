SPECIFICATION TraceSpec
CONSTANTS
  NC = 3
  Keys = {1, 2, 3}
POSTCONDITION TraceAccepted
CHECK_DEADLOCK FALSE
