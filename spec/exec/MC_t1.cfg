\* thorough, depth: 3 contracts, call depth 3, 7 statements, 2 TRY levels
SPECIFICATION Spec
CONSTANTS
  NC = 3
  Keys = {1}
  Vals = {1}
  NoteIds = {1}
  Flags = {15}
  NVals = {}
  MaxDepth = 3
  MaxSteps = 7
  MaxTry = 2
  MaxSub = 1
  Fund = 0
  N0 = 1000
  AllowPending = FALSE
  Bug = "none"
VIEW View
INVARIANTS FinalInv StepInv LayerInv
CHECK_DEADLOCK FALSE
