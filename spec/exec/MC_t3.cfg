\* thorough, shapes: 2 contracts, 7 statements, 2 TRY levels, flags {All, notify-only, read-only}
SPECIFICATION Spec
CONSTANTS
  NC = 2
  Keys = {1}
  Vals = {1, 2}
  NoteIds = {1}
  Flags = {15, 13, 5}
  NVals = {}
  MaxDepth = 2
  MaxSteps = 7
  MaxTry = 2
  MaxSub = 1
  Fund = 0
  N0 = 1000
  AllowPending = FALSE
  Bug = "none"
VIEW View
INVARIANTS FinalInv StepInv LayerInv
CHECK_DEADLOCK FALSE
