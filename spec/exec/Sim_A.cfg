\* walks over the large universe: 3 contracts, depth 3, 14 statements, natives, flags All / notify-only / write-only
SPECIFICATION SimSpec
CONSTANTS
  NC = 3
  Keys = {1, 2}
  Vals = {1, 2}
  NoteIds = {1, 2}
  Flags = {15, 13, 7}
  NVals = {1010, 1020}
  MaxDepth = 3
  MaxSteps = 14
  MaxTry = 2
  MaxSub = 1
  Fund = 1000
  N0 = 1000
  AllowPending = FALSE
  Bug = "none"
INVARIANT EmitHist
CHECK_DEADLOCK FALSE
