\* quick, natives: cached native setting (copy-on-write cache per layer), GAS transfers and onNEP17Payment callbacks; 5 statements
SPECIFICATION Spec
CONSTANTS
  NC = 2
  Keys = {1}
  Vals = {1}
  NoteIds = {1}
  Flags = {15}
  NVals = {1001}
  MaxDepth = 2
  MaxSteps = 5
  MaxTry = 1
  MaxSub = 1
  Fund = 5
  N0 = 1000
  AllowPending = FALSE
  Bug = "none"
VIEW View
INVARIANTS FinalInv StepInv LayerInv
CHECK_DEADLOCK FALSE
