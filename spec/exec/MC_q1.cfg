\* quick, storage and notification shapes: 2 contracts, call depth 2, 6 statements, 1 TRY level, 1 subroutine level (VIEW hides the tree)
SPECIFICATION Spec
CONSTANTS
  NC = 2
  Keys = {1}
  Vals = {1, 2}
  NoteIds = {1}
  Flags = {15, 5}
  NVals = {}
  MaxDepth = 2
  MaxSteps = 6
  MaxTry = 1
  MaxSub = 1
  Fund = 0
  N0 = 1000
  AllowPending = FALSE
  Bug = "none"
VIEW View
INVARIANTS FinalInv StepInv LayerInv
CHECK_DEADLOCK FALSE
