\* thorough, the unjudged corner at model level: with call-like statements allowed while an exception is pending (FINALLY entered by an exception) the layered machine still equals the always-snapshot machine, whose rule there is the C# one: a callee returning while an exception is pending is not committed
SPECIFICATION Spec
CONSTANTS
  NC = 2
  Keys = {1}
  Vals = {1}
  NoteIds = {1}
  Flags = {15}
  NVals = {}
  MaxDepth = 2
  MaxSteps = 6
  MaxTry = 2
  MaxSub = 1
  Fund = 0
  N0 = 1000
  AllowPending = TRUE
  Bug = "none"
VIEW View
INVARIANTS FinalInv StepInv LayerInv
CHECK_DEADLOCK FALSE
