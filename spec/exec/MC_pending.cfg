\* information only: with calls allowed while an exception is pending (FINALLY entered by an exception) the machine and the nested-transaction reference DISAGREE - the unjudged corner
SPECIFICATION Spec
CONSTANTS
  NC = 2
  Keys = {1}
  Vals = {1}
  NoteIds = {1}
  Flags = {15}
  NVals = {}
  MaxDepth = 2
  MaxSteps = 6
  MaxTry = 1
  MaxSub = 1
  Fund = 0
  N0 = 1000
  AllowPending = TRUE
  Bug = "none"
VIEW View
INVARIANTS FinalInv StepInv LayerInv
CHECK_DEADLOCK FALSE
