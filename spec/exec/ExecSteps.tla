----------------------------- MODULE ExecSteps -----------------------------
(* code -> spec.  Replays the statement-level trace recorded by the VM instruction hook (harness/c04exec/trace.go)
   through the machine of ExecImpl.tla: every time the real VM reaches a statement of the tree (event step: the label
   lb is the statement, or "end" for ENDTRY / ENDFINALLY / RET) or the first instruction of a CATCH / FINALLY block
   (event at), the record carries what the real objects show at that moment.  Compared BEFORE the label is applied:

     ControlFlow      the machine is at the same place of the tree (drift when it fails: VM semantics, not C04)
     Depth            invocation stack depth                                         (Impl level -> drift)
     LayerDiscipline  number of private DAO layers = 1 + wrapped contexts            (Impl level -> drift)
     ImplState        storage visible through ic.DAO / cache / notification count as the layered machine predicts
                                                                                      (Impl level -> drift)
     VisibleState     ... as the nested-transaction REFERENCE says, whenever the execution is not doomed to fail
                      (abstract level -> violation: a rolled back callee is still visible, or kept effects are gone)
   A run that executes a call-like statement while an exception is pending (the unjudged corner), or that lost the
   control flow, is not compared further. *)
EXTENDS TraceIO, FiniteSets, SequencesExt

CONSTANTS NC, Keys
VARIABLES l, M, live
vars == <<l, M, live>>

I == INSTANCE ExecImpl WITH m <- M, Vals <- {}, NoteIds <- {}, Flags <- {}, NVals <- {}, MaxDepth <- 0, MaxSteps <- 0,
                            MaxTry <- 0, MaxSub <- 0, Fund <- 0, N0 <- 0, AllowPending <- TRUE, Bug <- "none"

ValOf(o, s) == o.vis[CHOOSE i \in DOMAIN o.vis : o.vis[i][1] = s][2]
Slots(o) == {o.vis[i][1] : i \in DOMAIN o.vis}

Start(e) ==
    LET st == [s \in I!AllSlots |-> IF s \in Slots(e.obs) THEN ValOf(e.obs, s) ELSE 0] IN
    [I!M0 EXCEPT !.base = [st |-> st, nc |-> e.obs.cache],
                 !.ref = [st |-> st, nset |-> e.obs.cache, notes |-> <<>>]]

Init == l = 1 /\ M = I!M0 /\ live = FALSE

AtPlace(e) ==
    /\ M.status = "run"
    /\ M.cur = e.path
    /\ e.idx > 0 => I!LenAt(M.tree, M.cur) + 1 = e.idx

StateChecks(e) ==
    LET o == e.obs IN
       NameIf(Len(M.ist) = o.depth, "Depth")
    \cup NameIf(Len(M.layers) = o.layers, "LayerDiscipline")
    \cup NameIf(/\ \A s \in Slots(o) : I!Vis(M, s) = ValOf(o, s)
                /\ I!Cache(M) = o.cache /\ Len(M.notes) = o.nnotes, "ImplState")
    \cup (IF I!Doomed(M) THEN {}
          ELSE NameIf(/\ \A s \in Slots(o) : M.ref.st[s] = ValOf(o, s)
                      /\ M.ref.nset = o.cache /\ Len(M.ref.notes) = o.nnotes, "VisibleState"))

Step ==
    /\ l <= Len(TLog)
    /\ l' = l + 1
    /\ LET e == TLog[l] IN
       CASE e.event = "begin" ->
              /\ M' = Start(e) /\ live' = TRUE
         [] e.event \in {"step", "at"} ->
              IF ~live THEN UNCHANGED <<M, live>>
              ELSE IF ~AtPlace(e)
                   THEN /\ Report(l, {"ControlFlow"}, [ev |-> e, cur |-> M.cur, status |-> M.status])
                        /\ live' = FALSE /\ M' = M
              ELSE IF e.event = "step" /\ e.lb.k = "deploy"           \* not modelled at the Impl level (judged by ExecTrace only)
                   THEN /\ Report(l, {"Unsupported"}, [lb |-> e.lb])
                        /\ live' = FALSE /\ M' = M
              ELSE IF e.event = "step" /\ I!CallLikeLabel(e.lb) /\ M.pend
                   THEN /\ Report(l, {"Corner"}, [lb |-> e.lb])
                        /\ live' = FALSE /\ M' = M
              ELSE /\ Report(l, StateChecks(e), [ev |-> e, pend |-> M.pend,
                                                 ref |-> [s \in Slots(e.obs) |-> M.ref.st[s]], nset |-> M.ref.nset,
                                                 nnotes |-> Len(M.ref.notes), layers |-> Len(M.layers)])
                   /\ live' = TRUE
                   /\ M' = IF e.event = "step" THEN I!Step(M, e.lb) ELSE M
         [] e.event = "finish" ->
              /\ M' = M /\ live' = FALSE
              /\ \/ ~live
                 \/ Report(l, NameIf(M.status = (IF e.halt THEN "halt" ELSE "fault"), "ControlFlow")
                              \cup (IF e.halt /\ M.status = "halt" THEN NameIf(Len(M.ref.notes) = e.nnotes, "VisibleState") ELSE {}),
                           [ev |-> e, status |-> M.status])

TraceSpec == Init /\ [][Step]_vars
=============================================================================
