\* enumeration without VIEW: every tree of up to 4 statements (printed as @@CASE@@), Sem(tree) = machine
SPECIFICATION GenSpec
CONSTANTS
  NC = 2
  Keys = {1}
  Vals = {1}
  NoteIds = {1}
  Flags = {15}
  NVals = {}
  MaxDepth = 2
  MaxSteps = 4
  MaxTry = 1
  MaxSub = 1
  Fund = 0
  N0 = 1000
  AllowPending = FALSE
  Bug = "none"
INVARIANTS EmitCase SemInv FinalInv StepInv LayerInv
CHECK_DEADLOCK FALSE
