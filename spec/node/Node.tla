-------------------------------- MODULE Node --------------------------------
(***************************************************************************)
(* Replicated ledger nodes: the single state-transition path (AddBlock),   *)
(* the write cache and its flush, clean stop / restart, crash / recovery.  *)
(* Properties C01 (determinism, restart transparency) and the ordinary-    *)
(* persistence part of C02 are stated here; NodeDisk.tla refines the disk  *)
(* into the atomic batches the real node issues.                           *)
(*                                                                         *)
(* The chain is the canonical sequence 1..MaxH of valid blocks.  Block     *)
(* content is abstracted to what matters for the caches a node rebuilds    *)
(* at start-up (native_neo.go InitializeCache): a block may change votes   *)
(* ("vote"), and every Epoch-th block refreshes the committee from the     *)
(* votes IF the in-memory flag votesChanged is set.  The ledger state is   *)
(*   led = [h, votes, committee]                                           *)
(* and is a function of the block sequence only: Ref(h).                   *)
(*                                                                         *)
(* Node-local things: when the node flushes (Flush), whether it was        *)
(* stopped (Stop: flush + down) or crashed (Crash: cache lost) and         *)
(* restarted (Restart: state := disk, caches rebuilt), mempool noise.      *)
(* Named deviation (for non-vacuity): BugStaleFlag - the rebuilt cache     *)
(* forgets that votes changed since the last committee refresh.            *)
(***************************************************************************)
EXTENDS Integers, Sequences, FiniteSets, TLC

CONSTANTS Replica, MaxH, Epoch, MaxRestarts, BugStaleFlag,
          KindChoices   \* set of chains to explore: subset of [1..MaxH -> {"plain","vote"}]

VARIABLES kinds,    \* the chain: kinds \in [1..MaxH -> {"plain","vote"}], fixed at Init
          up, led, vc, dirty, disk, restarts, pooln

vars == <<kinds, up, led, vc, dirty, disk, restarts, pooln>>

Led0 == [h |-> 0, votes |-> 0, committee |-> 0]

\* one block applied to a ledger state with the in-memory votesChanged flag f: returns <<led', f'>>
Apply(l, f) ==
    LET h  == l.h + 1
        v  == IF kinds[h] = "vote" THEN l.votes + 1 ELSE l.votes
        f1 == f \/ kinds[h] = "vote"
        refresh == (h % Epoch = 0) /\ f1
    IN  << [h |-> h, votes |-> v, committee |-> IF refresh THEN v ELSE l.committee],
           IF refresh THEN FALSE ELSE f1 >>

\* the reference: a node that never restarts
RECURSIVE RefPair(_)
RefPair(h) == IF h = 0 THEN <<Led0, FALSE>> ELSE Apply(RefPair(h - 1)[1], RefPair(h - 1)[2])
Ref(h) == RefPair(h)[1]

\* what InitializeCache recomputes from storage: "votes changed since the committee was computed"
RebuildFlag(l) == IF BugStaleFlag THEN FALSE ELSE l.votes # l.committee

Init ==
    /\ kinds \in KindChoices
    /\ up = [r \in Replica |-> TRUE]
    /\ led = [r \in Replica |-> Led0]
    /\ vc = [r \in Replica |-> FALSE]
    /\ dirty = [r \in Replica |-> 0]           \* number of accepted blocks not yet on disk
    /\ disk = [r \in Replica |-> Led0]
    /\ restarts = [r \in Replica |-> 0]
    /\ pooln = [r \in Replica |-> 0]

AddBlock(r) ==
    /\ up[r] /\ led[r].h < MaxH
    /\ LET p == Apply(led[r], vc[r]) IN
        /\ led' = [led EXCEPT ![r] = p[1]]
        /\ vc' = [vc EXCEPT ![r] = p[2]]
    /\ dirty' = [dirty EXCEPT ![r] = @ + 1]
    /\ UNCHANGED <<kinds, up, disk, restarts, pooln>>

Flush(r) ==
    /\ up[r] /\ dirty[r] > 0
    /\ disk' = [disk EXCEPT ![r] = led[r]]
    /\ dirty' = [dirty EXCEPT ![r] = 0]
    /\ UNCHANGED <<kinds, up, led, vc, restarts, pooln>>

\* clean stop: the node flushes, then goes down
Stop(r) ==
    /\ up[r] /\ restarts[r] < MaxRestarts
    /\ disk' = [disk EXCEPT ![r] = led[r]]
    /\ dirty' = [dirty EXCEPT ![r] = 0]
    /\ up' = [up EXCEPT ![r] = FALSE]
    /\ UNCHANGED <<kinds, led, vc, restarts, pooln>>

\* power loss: whatever was not flushed is gone
Crash(r) ==
    /\ up[r] /\ restarts[r] < MaxRestarts
    /\ up' = [up EXCEPT ![r] = FALSE]
    /\ dirty' = [dirty EXCEPT ![r] = 0]
    /\ UNCHANGED <<kinds, led, vc, disk, restarts, pooln>>

Restart(r) ==
    /\ ~up[r]
    /\ up' = [up EXCEPT ![r] = TRUE]
    /\ led' = [led EXCEPT ![r] = disk[r]]
    /\ vc' = [vc EXCEPT ![r] = RebuildFlag(disk[r])]
    /\ restarts' = [restarts EXCEPT ![r] = @ + 1]
    /\ UNCHANGED <<kinds, dirty, disk, pooln>>

\* mempool noise never touches the ledger
PoolNoise(r) ==
    /\ up[r] /\ pooln[r] < 1
    /\ pooln' = [pooln EXCEPT ![r] = @ + 1]
    /\ UNCHANGED <<kinds, up, led, vc, dirty, disk, restarts>>

NextC01 == \E r \in Replica : AddBlock(r) \/ Flush(r) \/ Stop(r) \/ Restart(r) \/ PoolNoise(r)
Next    == NextC01 \/ \E r \in Replica : Crash(r)

SpecC01 == Init /\ [][NextC01]_vars
Spec    == Init /\ [][Next]_vars

----------------------------------------------------------------------------
\* C01: equal height => equal ledger state (and equal to the never-restarted reference)
Agreement == \A a, b \in Replica : (up[a] /\ up[b] /\ led[a].h = led[b].h) => led[a] = led[b]
Reference == \A r \in Replica : up[r] => led[r] = Ref(led[r].h)
\* C02 (ordinary persistence): the disk always holds the state of a height not above the last accepted block
DiskIsPrefix == \A r \in Replica : disk[r] = Ref(disk[r].h) /\ disk[r].h <= led[r].h
=============================================================================
