SPECIFICATION Spec
CONSTANTS
  MaxH = 4
  Page = 2
  Ahead = 2
  MaxCrash = 2
  MaxReset = 1
  GCOn = FALSE
  MTB = 0
  GCP = 1
  JumpOn = FALSE
  Dev = {"R5NoRootInit"}
INVARIANTS NoDead HeightBound RecoverOK DiskCoherent ResetConfluence ResumeOK MarkersFollowData
CHECK_DEADLOCK FALSE
