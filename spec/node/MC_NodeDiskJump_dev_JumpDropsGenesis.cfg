SPECIFICATION Spec
CONSTANTS
  MaxH = 4
  Page = 8
  Ahead = 2
  MaxCrash = 2
  MaxReset = 0
  GCOn = FALSE
  MTB = 1
  GCP = 1
  JumpOn = TRUE
  Dev = {"JumpDropsGenesis"}
INVARIANTS NoDead HeightBound RecoverOK DiskCoherent ResetConfluence ResumeOK MarkersFollowData
CHECK_DEADLOCK FALSE
