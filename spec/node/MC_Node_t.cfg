SPECIFICATION Spec
CONSTANTS
  Replica = {r1, r2}
  MaxH = 5
  Epoch = 2
  MaxRestarts = 2
  BugStaleFlag = FALSE
  KindChoices <- AllKinds
INVARIANTS Agreement Reference DiskIsPrefix
CHECK_DEADLOCK FALSE
