SPECIFICATION Spec
CONSTANTS
  Replica = {r1, r2}
  MaxH = 4
  Epoch = 2
  MaxRestarts = 2
  BugStaleFlag = TRUE
  KindChoices <- AllKinds
INVARIANTS Agreement Reference DiskIsPrefix
CHECK_DEADLOCK FALSE
