SPECIFICATION Spec
CONSTANTS
  MaxH = 6
  Page = 2
  Ahead = 2
  MaxCrash = 2
  MaxReset = 0
  GCOn = FALSE
  MTB = 2
  GCP = 1
  JumpOn = TRUE
  Dev = {}
INVARIANTS NoDead HeightBound RecoverOK DiskCoherent ResetConfluence ResumeOK MarkersFollowData
CHECK_DEADLOCK FALSE
