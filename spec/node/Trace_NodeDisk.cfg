SPECIFICATION TraceSpec
CONSTANTS
  Page = 2000
POSTCONDITION TraceAccepted
CHECK_DEADLOCK FALSE
