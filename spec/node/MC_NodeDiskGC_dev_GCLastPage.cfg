SPECIFICATION Spec
CONSTANTS
  MaxH = 7
  Page = 2
  Ahead = 1
  MaxCrash = 1
  MaxReset = 0
  GCOn = TRUE
  MTB = 1
  GCP = 1
  JumpOn = FALSE
  Dev = {"GCLastPage"}
INVARIANTS NoDead HeightBound RecoverOK DiskCoherent ResetConfluence ResumeOK MarkersFollowData
CHECK_DEADLOCK FALSE
