SPECIFICATION Spec
CONSTANTS
  MaxH = 6
  Page = 2
  Ahead = 2
  MaxCrash = 3
  MaxReset = 2
  GCOn = FALSE
  MTB = 0
  GCP = 1
  JumpOn = FALSE
  Dev = {}
INVARIANTS NoDead HeightBound RecoverOK DiskCoherent ResetConfluence ResumeOK MarkersFollowData
CHECK_DEADLOCK FALSE
