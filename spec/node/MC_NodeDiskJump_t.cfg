SPECIFICATION Spec
CONSTANTS
  MaxH = 8
  Page = 3
  Ahead = 2
  MaxCrash = 3
  MaxReset = 0
  GCOn = FALSE
  MTB = 3
  GCP = 1
  JumpOn = TRUE
  Dev = {}
INVARIANTS NoDead HeightBound RecoverOK DiskCoherent ResetConfluence ResumeOK MarkersFollowData
CHECK_DEADLOCK FALSE
