SPECIFICATION Spec
CONSTANTS
  MaxH = 9
  Page = 3
  Ahead = 2
  MaxCrash = 2
  MaxReset = 0
  GCOn = TRUE
  MTB = 2
  GCP = 2
  Dev = {}
INVARIANTS NoDead HeightBound RecoverOK DiskCoherent ResetConfluence ResumeOK MarkersFollowData
CHECK_DEADLOCK FALSE
