SPECIFICATION SimSpec
CONSTANTS
  Replica = {"r1", "r2", "r3", "r4"}
  MaxH = 1000
  Epoch = 5
  MaxRestarts = 1000
  BugStaleFlag = FALSE
  KindChoices <- OneChain
  Depth = 160
INVARIANT Emit
CHECK_DEADLOCK FALSE
