------------------------------ MODULE StateTrace ------------------------------
(* C03: the state root of every (retained) height commits exactly to contract storage.
   The reference node logs, per height h, the flat contract storage after block h (ref.flat: records
   [id, k (byte sequence), v (hex)] in store order) and the results of a set of read-only scripts run live at h.
   Replicas log what they read THROUGH THE STATE ROOT of h at any later time:
     trie      full content under root(h) (range search per contract id)     -> RootCommits  (= flat[h], same order)
     get       point read of a present / absent key                          -> GetMatches
     find      bounded range search (prefix, start, max)                     -> FindMatches  (recomputed here)
     proof     GetStateProof + VerifyProof of a present / absent key         -> ProofComplete, ProofSound
     forged    a node list offered for another key, or tampered              -> ProofSound
     historic  the read-only scripts run against root(h)                     -> HistoricEqualsLive, HistoricAvailable *)
EXTENDS TraceIO, FiniteSets, SequencesExt, Bytes

VARIABLES l, flat, results
vars == <<l, flat, results>>

Init == l = 1 /\ flat = <<>> /\ results = <<>>

Of(h, id)        == SelectSeq(flat[h], LAMBDA it : it.id = id)
Match(h, id, k)  == SelectSeq(flat[h], LAMBDA it : it.id = id /\ it.k = k)
Present(h, id, k) == Match(h, id, k) # <<>>
Stored(h, id, k)  == Match(h, id, k)[1].v

\* documented semantics of the bounded range search: keys with the prefix whose suffix is strictly after `start`;
\* with no start at all the key equal to the prefix is included
FindRef(h, id, prefix, startnil, start, max) ==
    LET c == SelectSeq(flat[h], LAMBDA it : /\ it.id = id
                                            /\ HasPrefix(it.k, prefix)
                                            /\ (startnil \/ BLess(start, Drop(it.k, Len(prefix)))))
    IN  SubSeq(c, 1, IF max < Len(c) THEN max ELSE Len(c))

Sorted(s) == \A i \in 1..(Len(s) - 1) :
                \/ s[i].id < s[i + 1].id
                \/ (s[i].id = s[i + 1].id /\ BLess(s[i].k, s[i + 1].k))

Step ==
    /\ l <= Len(TLog)
    /\ l' = l + 1
    /\ LET e == TLog[l] IN
       CASE e.event = "init" -> flat' = <<>> /\ results' = <<>>
         [] e.event = "ref" ->
              /\ flat' = Append(flat, e.flat) /\ results' = Append(results, e.results)
              /\ Report(l, NameIf(Sorted(e.flat), "RefSorted"), [h |-> e.h])
         [] e.event = "trie" ->
              /\ UNCHANGED <<flat, results>>
              /\ Report(l, NameIf(e.items = flat[e.h], "RootCommits"),
                        [r |-> e.r, at |-> e.at, h |-> e.h, n_trie |-> Len(e.items), n_flat |-> Len(flat[e.h])])
         [] e.event = "get" ->
              /\ UNCHANGED <<flat, results>>
              /\ Report(l, NameIf(e.found = Present(e.h, e.id, e.k) /\ (e.found => e.v = Stored(e.h, e.id, e.k)), "GetMatches"), [ev |-> e])
         [] e.event = "find" ->
              /\ UNCHANGED <<flat, results>>
              /\ LET x == FindRef(e.h, e.id, e.prefix, e.startnil, e.start, e.max) IN
                 Report(l, NameIf(e.keys = [i \in DOMAIN x |-> x[i].k] /\ e.vals = [i \in DOMAIN x |-> x[i].v], "FindMatches"),
                        [ev |-> e, expected |-> [i \in DOMAIN x |-> x[i].k]])
         [] e.event = "proof" ->
              /\ UNCHANGED <<flat, results>>
              /\ Report(l, NameIf(Present(e.h, e.id, e.k) => (e.have /\ e.verified /\ e.v = Stored(e.h, e.id, e.k)), "ProofComplete")
                           \cup NameIf(~Present(e.h, e.id, e.k) => ~e.verified, "ProofSound"), [ev |-> e])
         [] e.event = "forged" ->
              /\ UNCHANGED <<flat, results>>
              /\ Report(l, NameIf(e.verified => (Present(e.h, e.id, e.k) /\ e.v = Stored(e.h, e.id, e.k)), "ProofSound"), [ev |-> e])
         [] e.event = "historic" ->
              /\ UNCHANGED <<flat, results>>
              /\ Report(l, NameIf(\A i \in DOMAIN e.results : e.results[i] # "UNAVAILABLE", "HistoricAvailable")
                           \cup NameIf(\A i \in DOMAIN e.results : e.results[i] = "UNAVAILABLE" \/ e.results[i] = results[e.h][i], "HistoricEqualsLive"),
                        [r |-> e.r, at |-> e.at, h |-> e.h,
                         diff |-> {i \in DOMAIN e.results : e.results[i] # results[e.h][i]}])
         [] OTHER -> UNCHANGED <<flat, results>>

TraceSpec == Init /\ [][Step]_vars
=============================================================================
