--------------------------- MODULE NodeDiskTrace ---------------------------
(* Judges traces of the real node recorded by harness/c02crash against NodeDisk.tla.

   A trace is: init | ref* (digest of the never-restarted reference node per height) | then, for every atomic
   batch the real node wrote (in the order the backend applied them), a batch event carrying the database
   before / after projected onto NodeDisk's disk record, followed by one recover event per crash point
   examined on the database that batch leaves (also: the other order of two batches issued concurrently; a
   second crash while a restart was resuming a reset) | fork events (a completed reset compared with a
   replica synchronised to the target only, on a continuation neither has seen).

   PROPERTY level (a falsified name is a violation of C02 by the real code):
     RestartOK        core.NewBlockchain on the materialised database returns a node (no error, no panic)
     HeightBound      the recovered height is not above the last accepted block
     StateAtHeight    its digest (13 components: tip, state root, full storage, execution results, committee,
                      validators, candidates, policy, natives, contracts, roles) equals the reference's at
                      that height, and the trie under its root holds exactly its flat storage
     Continuation     it accepts the remaining canonical blocks, every digest equal to the reference's
     ResumesReset     a database with a reset / jump marker comes back at the reset target / sync point
     ResetConfluence  ... with the same database content as the uninterrupted reset / jump
     ResetIndistinguishable  a completed reset equals a replica that only synchronised to the target, now
                      and on a different continuation
   MODEL level (reported as drift: the code is allowed to differ from the implementation-shaped model as long
   as the property holds):
     Coherent / MarkersFollowData on the database after every real batch (NodeDisk!Coherent, !StageInv),
     BatchKind (every real batch is an instance of a batch kind of the model),
     RecoverPrediction (the model's start-up function predicts whether and where the node comes back). *)
EXTENDS TraceIO, FiniteSets, SequencesExt

CONSTANT Page

D == INSTANCE NodeDisk WITH MaxH <- 0, Ahead <- 0, MaxCrash <- 0, MaxReset <- 0, GCOn <- FALSE, MTB <- 0, GCP <- 1, JumpOn <- FALSE,
        Dev <- {}, disk <- 0, view <- 0, up <- 0, dead <- 0, sr <- 0, gcLast <- 0, pc <- 0, op <- 0, pend <- 0,
        acc <- 0, rst <- 0, confl <- 0, crashes <- 0, resets <- 0, sync <- 0, jst <- 0

VARIABLES l, refd
vars == <<l, refd>>

Init == l = 1 /\ refd = <<>>

Ivs(s) == UNION {(iv[1])..(iv[2]) : iv \in ToSet(s)}

\* a projected database as a NodeDisk disk record (trie completeness is not projected: the recover events
\* carry the comparison of the real trie with the flat storage instead)
ToDisk(p) == [ver |-> p.ver, cur |-> p.cur, hdr |-> p.hdr, blk |-> Ivs(p.blk), hdo |-> Ivs(p.hdo),
              pages |-> ToSet(p.pages), roots |-> Ivs(p.roots), mpt |-> Ivs(p.roots) \cup {p.sp},
              flat |-> [x \in {"A", "B"} |-> IF x = "A" THEN p.flatA ELSE p.flatB], pfx |-> p.pfx,
              stage |-> p.stage, sp |-> p.sp, xfer |-> p.cur]

StageOrder == <<"none", "r1", "r2", "r3", "r4", "r5">>
StageIdx(s) == IF \E i \in 1..6 : StageOrder[i] = s THEN CHOOSE i \in 1..6 : StageOrder[i] = s ELSE 0

\* every real batch is an instance of one of the model's batch kinds
Has(e, c) == c \in ToSet(e.touch)
OnlyTouches(e, S) == ToSet(e.touch) \subseteq S
BatchKind(e) ==
    LET a == e.pre  b == e.post IN
    \/ /\ e.kind = "put" /\ a.stage = "none" /\ b.stage = "none" /\ e.phase \notin {"reset", "resume"}   \* flush of the write cache
       /\ b.cur >= a.cur /\ b.hdr >= a.hdr /\ b.pfx = a.pfx
    \/ /\ e.kind = "gc" /\ e.phase \notin {"reset", "resume"}                                                \* GC passes
       /\ b.cur = a.cur /\ b.hdr = a.hdr /\ b.stage = a.stage
       /\ (OnlyTouches(e, {"mpt-"}) \/ OnlyTouches(e, {"page-"}) \/ OnlyTouches(e, {"xfer-"}))
    \/ /\ e.kind = "put" /\ e.phase \in {"reset", "resume"}                                                  \* one or two reset stages
       /\ StageIdx(a.stage) > 0 /\ StageIdx(b.stage) > 0
       /\ \/ (b.stage # "none" /\ StageIdx(b.stage) - StageIdx(a.stage) \in {1, 2})
          \/ (b.stage = "none" /\ a.stage \in {"r4", "r5"})
    \/ /\ e.kind = "put" /\ e.phase \in {"jump", "resume"}                                                   \* one jump stage
       /\ <<a.stage, b.stage>> \in {<<"none", "j1">>, <<"j1", "j2">>, <<"j2", "j3">>, <<"j3", "none">>}
    \/ /\ e.kind = "gc" /\ e.phase \in {"reset", "resume"}                                                   \* stale prefix removal
       /\ (OnlyTouches(e, {"storA-"}) \/ OnlyTouches(e, {"storB-"}))
       /\ a.stage \in {"r4", "r5"} /\ b.stage = a.stage

\* the model's start-up function on a projected database: <<comes back, height>>
Predict(p) ==
    LET d == ToDisk(p) IN
    IF ~d.ver THEN <<TRUE, 0>>
    ELSE IF ~D!WalkOK(d) THEN <<FALSE, -1>>
    ELSE IF d.stage = "none" THEN <<d.cur \in d.roots, d.cur>>
    ELSE <<TRUE, d.sp>>

RefAt(h) == IF h >= 0 /\ h + 1 <= Len(refd) THEN refd[h + 1] ELSE [none |-> h]
DigestDiff(a, b) == IF DOMAIN a = DOMAIN b THEN {k \in DOMAIN a : a[k] # b[k]} ELSE {"domain"}
\* a state-synced node holds the blocks up to its sync point without execution results (retention, not state)
Retained(e) == IF e.node = "sink" /\ e.h = e.post.sp THEN {"aers"} ELSE {}

Step ==
    /\ l <= Len(TLog)
    /\ l' = l + 1
    /\ LET e == TLog[l] IN
       CASE e.event = "init" -> refd' = <<>>
         [] e.event = "ref" ->
              /\ refd' = Append(refd, e.digest)
              /\ Report(l, NameIf(e.h = Len(refd), "RefInOrder"), [h |-> e.h])
         [] e.event = "batch" ->
              /\ UNCHANGED refd
              /\ Report(l, NameIf(D!Coherent(ToDisk(e.post)), "drift:Coherent")
                           \cup NameIf(D!StageInv(ToDisk(e.post)), "drift:MarkersFollowData")
                           \cup NameIf(BatchKind(e), "drift:BatchKind"),
                        [i |-> e.i, phase |-> e.phase, kind |-> e.kind, touch |-> e.touch,
                         pre |-> [cur |-> e.pre.cur, hdr |-> e.pre.hdr, stage |-> e.pre.stage, pfx |-> e.pre.pfx, flatA |-> e.pre.flatA, flatB |-> e.pre.flatB],
                         post |-> [cur |-> e.post.cur, hdr |-> e.post.hdr, stage |-> e.post.stage, pfx |-> e.post.pfx, flatA |-> e.post.flatA, flatB |-> e.post.flatB]])
         [] e.event = "recover" ->
              /\ UNCHANGED refd
              /\ LET pr == Predict(e.pre)
                     inreset == e.stage \in {"r1", "r2", "r3", "r4", "r5", "j1", "j2", "j3"} IN
                 Report(l, NameIf(e.ok, "RestartOK")
                           \cup (IF e.ok THEN
                                   NameIf(e.h <= e.acc, "HeightBound")
                                   \cup NameIf(DigestDiff(e.digest, RefAt(e.h)) \subseteq Retained(e) /\ e.trie_ok, "StateAtHeight")
                                   \cup NameIf(e.cont_ok, "Continuation")
                                   \cup NameIf(inreset => e.h = e.pre.sp, "ResumesReset")
                                   \cup NameIf(e.dump_eq # 0, "ResetConfluence")
                                   \cup NameIf(pr[1] /\ pr[2] = e.h, "drift:RecoverPrediction")
                                 ELSE NameIf(~pr[1], "drift:RecoverPrediction")),
                        [label |-> e.label, phase |-> e.phase, stage |-> e.stage, acc |-> e.acc, h |-> e.h, depth |-> e.depth,
                         alt |-> e.alt, err |-> e.err, panic |-> e.panic, cont_at |-> e.cont_at, cont_err |-> e.cont_err,
                         cont_diff |-> e.cont_diff, trie_ok |-> e.trie_ok, dump_diff |-> e.dump_diff, node |-> e.node,
                         predicted |-> pr, differs |-> IF e.ok THEN DigestDiff(e.digest, RefAt(e.h)) ELSE {}])
         [] e.event = "fork" ->
              /\ UNCHANGED refd
              /\ Report(l, NameIf(e.equal0 /\ e.ok, "ResetIndistinguishable"),
                        [target |-> e.target, from |-> e.from, at |-> e.at, err |-> e.err, diff0 |-> e.diff0, diff |-> e.diff, node |-> e.node])
         [] OTHER -> UNCHANGED refd

TraceSpec == Init /\ [][Step]_vars
=============================================================================
