SPECIFICATION Spec
CONSTANTS
  MaxH = 8
  Page = 2
  Ahead = 2
  MaxCrash = 2
  MaxReset = 0
  GCOn = TRUE
  MTB = 1
  GCP = 1
  JumpOn = FALSE
  Dev = {}
INVARIANTS NoDead HeightBound RecoverOK DiskCoherent ResetConfluence ResumeOK MarkersFollowData
CHECK_DEADLOCK FALSE
