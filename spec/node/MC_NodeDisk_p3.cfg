SPECIFICATION Spec
CONSTANTS
  MaxH = 6
  Page = 3
  Ahead = 3
  MaxCrash = 2
  MaxReset = 2
  GCOn = FALSE
  MTB = 0
  GCP = 1
  JumpOn = FALSE
  Dev = {}
INVARIANTS NoDead HeightBound RecoverOK DiskCoherent ResetConfluence ResumeOK MarkersFollowData
CHECK_DEADLOCK FALSE
