SPECIFICATION SimSpec
CONSTANTS
  MaxH = 400
  Page = 2000
  Ahead = 3
  MaxCrash = 0
  MaxReset = 0
  GCOn = TRUE
  MTB = 24
  GCP = 3
  JumpOn = FALSE
  Dev = {}
  Depth = 90
INVARIANT Emit
CHECK_DEADLOCK FALSE
