---------------------------- MODULE NodeDiskSim ----------------------------
(* Schedule generator for the C02 driver (harness/c02crash): behaviours of NodeDisk at the granularity of
   the operations the harness can place on a real node - add a block, add a header ahead of the blocks,
   flush (VerifPersist = persist + GC), clean stop + restart, Reset to an earlier height (as the command
   line does it: clean stop, reopen, Reset, reopen).  The multi-batch operations are taken as macro steps
   here (their result is NodeDisk's ResetResult); WHERE power is lost is not chosen by the generator: the
   harness enumerates EVERY prefix of the batch sequence the real node issues.  Parameter-heavy steps are
   rationed by the position in the history so that block additions dominate. *)
EXTENDS NodeDisk, Json

CONSTANT Depth
VARIABLE hist

Tick(m, r) == Len(hist) % m = r

SimAdd == /\ AddBlock /\ sr
          /\ hist' = Append(hist, [op |-> "add", n |-> 0])

SimHdr == /\ Tick(4, 1) /\ AddHeader
          /\ hist' = Append(hist, [op |-> "hdr", n |-> 1])

SimFlush == /\ Idle /\ view # disk
            /\ disk' = view
            /\ hist' = Append(hist, [op |-> "flush", n |-> 0])
            /\ UNCHANGED <<view, up, dead, sr, gcLast, pc, op, pend, acc, rst, confl, crashes, resets, sync, jst>>

SimRestart == /\ Tick(9, 4) /\ Idle
              /\ disk' = view
              /\ hist' = Append(hist, [op |-> "restart", n |-> 0])
              /\ UNCHANGED <<view, up, dead, sr, gcLast, pc, op, pend, acc, rst, confl, crashes, resets, sync, jst>>

SimReset(d) == /\ Tick(11, 7) /\ Idle /\ ~GCOn /\ resets < MaxReset
               /\ view.cur - d >= 0
               /\ ~(d = 0 /\ view.hdr = view.cur)
               /\ LET r == ResetResult(view, view.cur - d) IN disk' = r /\ view' = r
               /\ acc' = view.cur - d
               /\ resets' = resets + 1
               /\ hist' = Append(hist, [op |-> "reset", n |-> d])
               /\ UNCHANGED <<up, dead, sr, gcLast, pc, op, pend, rst, confl, crashes, sync, jst>>

SimInit == Init /\ hist = <<>>
SimNext == SimAdd \/ SimAdd \/ SimHdr \/ SimFlush \/ SimRestart \/ (\E d \in {0, 1, 2, 3, 5, 8} : SimReset(d))
SimSpec == SimInit /\ [][SimNext]_<<vars, hist>>
Emit == Len(hist) # Depth \/ PrintT(<<"@@HIST@@", ToJson(hist)>>)
=============================================================================
