------------------------------- MODULE NodeSim -------------------------------
(* Schedule generator for the C01/C03 drivers: behaviours of Node (clean stops only) over one abstract chain,
   printed as JSON when the depth bound is reached.  Block CONTENT comes from the real history generator;
   the schedule decides where each replica adds, flushes, is stopped and restarted, and gets mempool noise. *)
EXTENDS Node, Json

CONSTANT Depth
VARIABLE hist

OneChain == {[i \in 1..MaxH |-> "plain"]}

Pick(r) == \/ AddBlock(r) /\ hist' = Append(hist, [op |-> "add", r |-> r])
           \/ AddBlock(r) /\ hist' = Append(hist, [op |-> "add", r |-> r])
           \/ Flush(r) /\ hist' = Append(hist, [op |-> "flush", r |-> r])
           \/ Stop(r) /\ hist' = Append(hist, [op |-> "stop", r |-> r])
           \/ Restart(r) /\ hist' = Append(hist, [op |-> "restart", r |-> r])
           \/ PoolNoise(r) /\ hist' = Append(hist, [op |-> "pool", r |-> r])

SimInit == Init /\ hist = <<>>
SimNext == \E r \in Replica : Pick(r)
SimSpec == SimInit /\ [][SimNext]_<<vars, hist>>
Emit == Len(hist) # Depth \/ PrintT(<<"@@HIST@@", ToJson(hist)>>)
=============================================================================
