SPECIFICATION SimSpec
CONSTANTS
  MaxH = 400
  Page = 2000
  Ahead = 3
  MaxCrash = 0
  MaxReset = 3
  GCOn = FALSE
  MTB = 0
  GCP = 1
  JumpOn = FALSE
  Dev = {}
  Depth = 60
INVARIANT Emit
CHECK_DEADLOCK FALSE
