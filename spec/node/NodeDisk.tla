------------------------------ MODULE NodeDisk ------------------------------
(***************************************************************************)
(* C02 - a crash at any flush boundary leaves a consistent, resumable      *)
(* chain prefix.                                                           *)
(*                                                                         *)
(* Node.tla treats the disk as one ledger value.  This module refines it   *)
(* into the persisted FACTS that start-up reads (pkg/core/blockchain.go     *)
(* init(), headerhashes.go init(), the resume logic of reset / jump) and   *)
(* lets the disk change ONLY by the atomic batches the node issues:        *)
(*   - the flush of the write cache (persist(): one batch with everything  *)
(*     dirty: headers, blocks, tip pointers, roots, trie, flat storage);   *)
(*   - the direct garbage-collection batches of tryRunGC (trie nodes,      *)
(*     header-hash pages; untraceable blocks are deleted in the CACHE and  *)
(*     travel with the next flush);                                        *)
(*   - the stage batches of Reset (resetStateInternal): each stage puts    *)
(*     its changes and the marker of the NEXT stage into the cache, an     *)
(*     asynchronous routine flushes the cache (so two consecutive stages   *)
(*     may land in one batch), and the removal of the stale storage        *)
(*     prefix goes directly to the backend, concurrently with the flush    *)
(*     of the previous stage.                                              *)
(* Crash = all RAM is lost between any two batches.  Restart = the         *)
(* recovery function transcribed from init().                              *)
(*                                                                         *)
(* Abstraction: the chain is 0..MaxH; what a block "is" does not matter,   *)
(* only WHICH height each persisted fact belongs to.  The state of a node  *)
(* at height h equals the reference state St(h) iff the active flat        *)
(* storage, the state root, the trie and the top block all belong to h and *)
(* the in-memory modules were initialised (ObsOK).                         *)
(*                                                                         *)
(* Named deviations (constant Dev; {} is the design that satisfies the     *)
(* property, each deviation is what a plausible / the present code does):  *)
(*   "R2DropsHeaders"  reset's block-removal stage deletes the header part *)
(*                     of the records too (DeleteBlock), although start-up *)
(*                     re-walks the headers BEFORE it looks at the marker  *)
(*   "R5NoRootInit"    resuming a reset from its last stage never          *)
(*                     initialises the state-root module                   *)
(*   "GCLastPage"      header-page GC may delete the newest complete page  *)
(*   "MarkerFirst"     a reset stage persists its marker before its data   *)
(*   "TipAlone"        the tip pointer is flushed in a batch of its own    *)
(*                     before the block it points to                       *)
(*   "JumpDropsGenesis" the state jump deletes the genesis record with its *)
(*                     header although a chain shorter than one page is    *)
(*                     re-walked down to genesis at start-up               *)
(*                                                                         *)
(* State-sync jump (JumpOn): the sink collects the sync point SP = MaxH-1, *)
(* headers up to MaxH, the trie of SP together with its flat storage under *)
(* the inactive prefix, and the last MTB blocks (any flushes in between),  *)
(* then jumpToStateInternal runs its stages, each flushed synchronously.   *)
(***************************************************************************)
EXTENDS Integers, Sequences, FiniteSets, TLC

CONSTANTS MaxH,      \* canonical chain 0..MaxH
          Page,      \* header hashes per stored page (headerBatchCount)
          Ahead,     \* headers run at most this far ahead of blocks
          MaxCrash,  \* crashes per behaviour
          MaxReset,  \* Reset calls per behaviour
          GCOn,      \* RemoveUntraceableBlocks
          MTB, GCP,  \* MaxTraceableBlocks, GarbageCollectionPeriod
          JumpOn,    \* the node is a state-sync sink: it collects headers / trie / blocks and jumps to MaxH - 1
          Dev        \* set of named deviations

VARIABLES disk,     \* the database
          view,     \* what the running node reads: disk overlaid with its write cache
          up,       \* process alive
          dead,     \* a restart failed (NewBlockchain returned an error) or the node panicked
          sr,       \* state-root module initialised (needed to add a block)
          gcLast,   \* RAM: gcLastUntraceableBlockHeight
          pc,       \* remaining main-thread steps of a multi-batch operation
          op,       \* its parameters
          pend,     \* an asynchronous flush was requested and has not happened yet
          acc,      \* ghost: last accepted block (a completed reset to T makes it T)
          rst,      \* ghost: [start: disk when Reset was called, target]
          confl,    \* ghost: every completed reset / jump ended in ResetResult / JumpResult of its start
          crashes, resets,
          sync,     \* RAM: progress of the state-sync collection ("idle", "c1" .. "c4")
          jst       \* ghost: database when the jump started

vars == <<disk, view, up, dead, sr, gcLast, pc, op, pend, acc, rst, confl, crashes, resets, sync, jst>>

Other(p) == IF p = "A" THEN "B" ELSE "A"
Max(a, b) == IF a > b THEN a ELSE b
MinSet(S) == CHOOSE x \in S : \A y \in S : x <= y

EmptyDisk == [ver |-> FALSE, cur |-> -1, hdr |-> -1, blk |-> {}, hdo |-> {}, pages |-> {}, roots |-> {},
              mpt |-> {}, flat |-> [p \in {"A", "B"} |-> -1], pfx |-> "A", stage |-> "none", sp |-> -1, xfer |-> -1]

Genesis == [EmptyDisk EXCEPT !.ver = TRUE, !.cur = 0, !.hdr = 0, !.blk = {0}, !.roots = {0}, !.mpt = {0},
                             !.flat = [p \in {"A", "B"} |-> IF p = "A" THEN 0 ELSE -1], !.xfer = 0]

NoOp == [kind |-> "none", T |-> -1, curH |-> -1, hdrH |-> -1, tgt |-> -1, newP |-> -1, resume |-> FALSE]

----------------------------------------------------------------------------
(* start-up: HeaderHashes.init re-walks the header records that are not covered by a stored page *)
Stored(d) == ((d.hdr + 1) \div Page) * Page
WalkOK(d) == /\ (Stored(d) >= Page => (Stored(d) - Page) \in d.pages)
             /\ \A h \in Stored(d)..d.hdr : h \in d.blk \cup d.hdo

\* the hash of height i is available to a node whose header list was initialised from d
HashKnown(d, i) == \/ i >= Stored(d) - Page
                   \/ ((i \div Page) * Page) \in d.pages

\* everything the node's answers at its current height depend on belongs to that height
ObsOK(d) == /\ d.ver /\ d.stage = "none"
            /\ d.cur \in d.blk /\ d.cur \in d.roots /\ d.cur \in d.mpt
            /\ d.flat[d.pfx] = d.cur
            /\ d.hdr >= d.cur

\* a stage marker on disk means the data of every earlier stage is on disk (markers travel WITH their data)
StageInv(d) ==
    LET above == {g \in d.blk \cup d.hdo : g > d.sp} IN
    /\ d.stage \in {"r2", "r3", "r4", "r5"} => {g \in d.blk : g > d.sp} = {}
    /\ d.stage = "r3" => d.flat[Other(d.pfx)] = d.sp
    /\ d.stage \in {"r4", "r5"} => (d.flat[d.pfx] = d.sp /\ d.cur = d.sp /\ d.hdr = d.sp /\ above = {})
    /\ d.stage = "r5" => \A g \in d.roots : g <= d.sp
    /\ d.stage # "none" => d.sp >= 0
    /\ d.stage \in {"j1", "j2", "j3"} => (d.sp < d.hdr /\ d.sp \in d.mpt /\ d.sp \in d.blk)
    /\ d.stage = "j1" => d.flat[Other(d.pfx)] = d.sp
    /\ d.stage = "j2" => d.flat[d.pfx] = d.sp
    /\ d.stage = "j3" => (d.flat[d.pfx] = d.sp /\ d.cur = d.sp)

\* DESIGN A.4: what must hold of the database between any two batches when no reset / jump is recorded
Coherent(d) == (d.ver /\ d.stage = "none") =>
                 (WalkOK(d) /\ (ObsOK(d) \/ (d.sp >= 0 /\ d.cur < d.sp /\ d.cur = 0)))

----------------------------------------------------------------------------
HdrAdd(v, h) == [v EXCEPT !.hdo = @ \cup {h}, !.hdr = h,
                          !.pages = IF (h + 1) % Page = 0 THEN @ \cup {h + 1 - Page} ELSE @]

BlkAdd(v, h) == LET v1 == IF v.hdr < h THEN HdrAdd(v, h) ELSE v IN
                [v1 EXCEPT !.blk = @ \cup {h}, !.hdo = @ \ {h}, !.cur = h, !.roots = @ \cup {h}, !.mpt = @ \cup {h},
                           !.flat = [@ EXCEPT ![v1.pfx] = h], !.xfer = h]

Idle == up /\ ~dead /\ pc = <<>>

\* a sink that has not jumped yet does not process blocks in the regular way
Collecting(d) == d.stage = "none" /\ d.sp >= 0 /\ d.cur < d.sp
Regular == ~JumpOn \/ (view.sp >= 0 /\ view.cur >= view.sp)

AddHeader == /\ Idle /\ Regular /\ view.hdr < MaxH /\ view.hdr < view.cur + Ahead
             /\ view' = HdrAdd(view, view.hdr + 1)
             /\ UNCHANGED <<disk, up, dead, sr, gcLast, pc, op, pend, acc, rst, confl, crashes, resets, sync, jst>>

\* the single state-transition path; a node whose state-root module was never initialised panics here
AddBlock == /\ Idle /\ Regular /\ view.cur < MaxH
            /\ IF sr
                 THEN /\ view' = BlkAdd(view, view.cur + 1)
                      /\ acc' = Max(acc, view.cur + 1)
                      /\ dead' = dead
                 ELSE /\ dead' = TRUE
                      /\ UNCHANGED <<view, acc>>
            /\ UNCHANGED <<disk, up, sr, gcLast, pc, op, pend, rst, confl, crashes, resets, sync, jst>>

----------------------------------------------------------------------------
(* persist() followed by tryRunGC(oldPersisted) - the timer branch of Run() *)
GCTarget(new) == ((new - MTB) \div GCP) * GCP
GCDue(old, new) == GCOn /\ new >= MTB /\ GCTarget(new) > GCP /\ (new \div GCP) # (old \div GCP)

Flush == /\ Idle /\ view # disk
         /\ IF "TipAlone" \in Dev /\ view.cur # disk.cur
              THEN /\ disk' = [disk EXCEPT !.cur = view.cur]          \* deviation: tip pointer first, rest later
                   /\ pc' = <<"rest">> /\ op' = [NoOp EXCEPT !.kind = "tip"]
              ELSE /\ disk' = view
                   /\ IF GCDue(Max(0, disk.cur), view.cur)
                        THEN /\ pc' = <<"gc_mpt", "gc_blocks", "gc_pages">>
                             /\ op' = [NoOp EXCEPT !.kind = "gc", !.tgt = GCTarget(view.cur), !.newP = view.cur \div GCP]
                        ELSE UNCHANGED <<pc, op>>
         /\ UNCHANGED <<view, up, dead, sr, gcLast, pend, acc, rst, confl, crashes, resets, sync, jst>>

Rest == /\ up /\ ~dead /\ pc # <<>> /\ Head(pc) = "rest"
        /\ disk' = view /\ pc' = <<>> /\ op' = NoOp
        /\ UNCHANGED <<view, up, dead, sr, gcLast, pend, acc, rst, confl, crashes, resets, sync, jst>>

\* stateRoot.GC(tgt): trie nodes that stopped being referenced at or below tgt go; roots >= tgt stay complete
GCMpt == /\ up /\ ~dead /\ pc # <<>> /\ Head(pc) = "gc_mpt"
         /\ disk' = [disk EXCEPT !.mpt = {g \in @ : g >= op.tgt}]
         /\ view' = [view EXCEPT !.mpt = {g \in @ : g >= op.tgt}]
         /\ pc' = Tail(pc)
         /\ UNCHANGED <<up, dead, sr, gcLast, op, pend, acc, rst, confl, crashes, resets, sync, jst>>

\* removeUntraceableBlocks: into the write cache only
RubLimit == LET t == op.tgt IN
            IF (op.newP * GCP) \div Page = t \div Page THEN Max(0, (t \div Page - 1) * Page) ELSE t
GCBlocks == /\ up /\ ~dead /\ pc # <<>> /\ Head(pc) = "gc_blocks"
            /\ LET t == RubLimit
                   gone == {i \in gcLast..(t - 1) : HashKnown(view, i)} IN
               IF t = 0 THEN UNCHANGED <<view, gcLast>>
               ELSE /\ view' = [view EXCEPT !.blk = @ \ gone, !.hdo = @ \ gone]
                    /\ gcLast' = t
            /\ pc' = Tail(pc)
            /\ UNCHANGED <<disk, up, dead, sr, op, pend, acc, rst, confl, crashes, resets, sync, jst>>

\* removeOldHeaderHashes(tgt): directly on the backend
PageTill == LET till == ((op.tgt + 1) \div Page - 1) * Page IN
            IF "GCLastPage" \in Dev THEN till
            ELSE IF till > Stored(view) - 2 * Page THEN Stored(view) - 2 * Page ELSE till
GCPages == /\ up /\ ~dead /\ pc # <<>> /\ Head(pc) = "gc_pages"
           /\ IF PageTill > 0
                THEN /\ disk' = [disk EXCEPT !.pages = {p \in @ : p > PageTill}]
                     /\ view' = [view EXCEPT !.pages = {p \in @ : p > PageTill}]
                ELSE UNCHANGED <<disk, view>>
           /\ pc' = Tail(pc) /\ op' = NoOp
           /\ UNCHANGED <<up, dead, sr, gcLast, pend, acc, rst, confl, crashes, resets, sync, jst>>

----------------------------------------------------------------------------
(* Reset(T): resetStateInternal.  Stage names follow the markers on disk:                                   *)
(* r1 stateJumpStarted, r2 staleBlocksRemoved, r3 newStorageItemsAdded, r4 headersReset, r5 transfersReset. *)
StepsFrom(stage) ==
    CASE stage = "none" -> <<"w_r1", "send", "w_r2", "send", "w_r3", "send", "w_r4", "send", "w_r5", "send", "gc", "w_fin", "send", "wait", "ram">>
      [] stage = "r1"   -> <<"w_r2", "send", "w_r3", "send", "w_r4", "send", "w_r5", "send", "gc", "w_fin", "send", "wait", "ram">>
      [] stage = "r2"   -> <<"w_r3", "send", "w_r4", "send", "w_r5", "send", "gc", "w_fin", "send", "wait", "ram">>
      [] stage = "r3"   -> <<"w_r4", "send", "w_r5", "send", "gc", "w_fin", "send", "wait", "ram">>
      [] stage = "r4"   -> <<"w_r5", "send", "gc", "w_fin", "send", "wait", "ram">>
      [] stage = "r5"   -> <<"gc", "w_fin", "send", "wait", "ram">>

Steps(stage) == StepsFrom(stage)

\* the work of each stage on the node's view (the marker of the stage just finished goes with its data)
W_r1(v, o) == [v EXCEPT !.stage = "r1"]
W_r2(v, o) == LET rng == (o.T + 1)..o.curH IN
              [v EXCEPT !.blk = @ \ rng,
                        !.hdo = IF "R2DropsHeaders" \in Dev THEN @ \ rng ELSE (@ \cup (v.blk \cap rng)),
                        !.stage = "r2"]
W_r3(v, o) == [v EXCEPT !.flat = [@ EXCEPT ![Other(v.pfx)] = o.T], !.stage = "r3"]
W_r4(v, o) == LET rng == (o.T + 1)..o.hdrH IN
              [v EXCEPT !.blk = @ \ rng, !.hdo = @ \ rng,
                        !.pages = {p \in @ : p < ((o.T + 1) \div Page) * Page},
                        !.cur = o.T, !.hdr = o.T, !.pfx = Other(v.pfx), !.stage = "r4"]
W_r5(v, o) == [v EXCEPT !.roots = {g \in @ : g <= o.T}, !.xfer = o.T, !.stage = "r5"]
W_gc(v)    == [v EXCEPT !.flat = [@ EXCEPT ![Other(v.pfx)] = -1]]
W_fin(v)   == [v EXCEPT !.stage = "none", !.sp = -1]

\* what an uninterrupted Reset(T) makes of database d0
ResetResult(d0, T) ==
    LET o  == [NoOp EXCEPT !.T = T, !.curH = d0.cur, !.hdrH = d0.hdr]
        d1 == W_r2(W_r1([d0 EXCEPT !.sp = T], o), o)
        d2 == W_r5(W_r4(W_r3(d1, o), o), o)
    IN  W_fin(W_gc(d2))

\* a replica that only ever synchronised to T (flushed)
RECURSIVE SyncTo(_)
SyncTo(T) == IF T = 0 THEN Genesis ELSE BlkAdd(SyncTo(T - 1), T)

\* comparison "on everything the protocol defines": the name of the active prefix and history above the
\* tip that the reset deliberately leaves behind (trie nodes) do not count
Norm(d) == [ver |-> d.ver, cur |-> d.cur, hdr |-> d.hdr, blk |-> d.blk, hdo |-> d.hdo, pages |-> d.pages, roots |-> d.roots,
            mpt |-> {g \in d.mpt : g <= d.cur}, act |-> d.flat[d.pfx], oth |-> d.flat[Other(d.pfx)],
            stage |-> d.stage, sp |-> d.sp, xfer |-> d.xfer]

Reset(T) ==
    /\ Idle /\ view = disk /\ disk.ver /\ resets < MaxReset /\ ~GCOn /\ ~JumpOn
    /\ T \in 0..disk.cur /\ ~(T = disk.cur /\ disk.hdr = disk.cur)
    /\ T \in disk.blk /\ T \in disk.roots /\ T \in disk.mpt
    /\ view' = [view EXCEPT !.sp = T]
    /\ op' = [NoOp EXCEPT !.kind = "reset", !.T = T, !.curH = disk.cur, !.hdrH = disk.hdr]
    /\ pc' = Steps("none")
    /\ rst' = [start |-> disk, target |-> T]
    /\ resets' = resets + 1
    /\ UNCHANGED <<disk, up, dead, sr, gcLast, pend, acc, confl, crashes, sync, jst>>

Work ==
    /\ up /\ ~dead /\ pc # <<>> /\ op.kind = "reset"
    /\ LET s == Head(pc) IN
       /\ s \in {"w_r1", "w_r2", "w_r3", "w_r4", "w_r5", "w_fin"}
       /\ view' = CASE s = "w_r1" -> W_r1(view, op) [] s = "w_r2" -> W_r2(view, op) [] s = "w_r3" -> W_r3(view, op)
                    [] s = "w_r4" -> W_r4(view, op) [] s = "w_r5" -> W_r5(view, op) [] s = "w_fin" -> W_fin(view)
       /\ sr' = IF s = "w_r5" THEN TRUE ELSE sr            \* stateRoot.ResetState initialises the module
       \* deviation MarkerFirst: the marker reaches the disk in a batch of its own, before the data
       /\ disk' = IF "MarkerFirst" \in Dev /\ s \in {"w_r2", "w_r3", "w_r4", "w_r5"} /\ ~pend
                    THEN [disk EXCEPT !.stage = view'.stage] ELSE disk
    /\ pc' = Tail(pc)
    /\ UNCHANGED <<up, dead, gcLast, op, pend, acc, rst, confl, crashes, resets, sync, jst>>

\* hand the cache to the persisting routine: blocks while the previous flush is still running
Send == /\ up /\ ~dead /\ pc # <<>> /\ Head(pc) = "send" /\ ~pend
        /\ pend' = TRUE /\ pc' = Tail(pc)
        /\ UNCHANGED <<disk, view, up, dead, sr, gcLast, op, acc, rst, confl, crashes, resets, sync, jst>>

\* the persisting routine: ONE batch with whatever the cache holds at that moment
DoPersist == /\ up /\ ~dead /\ pend
             /\ disk' = view /\ pend' = FALSE
             /\ UNCHANGED <<view, up, dead, sr, gcLast, pc, op, acc, rst, confl, crashes, resets, sync, jst>>

\* direct SeekGC of the stale storage prefix: runs while the previous stage's flush may still be pending
ResetGC == /\ up /\ ~dead /\ pc # <<>> /\ Head(pc) = "gc" /\ op.kind = "reset"
           /\ disk' = [disk EXCEPT !.flat = [@ EXCEPT ![Other(view.pfx)] = -1]]
           /\ view' = W_gc(view)
           /\ sr' = IF op.resume /\ "R5NoRootInit" \notin Dev THEN TRUE ELSE sr
           /\ pc' = Tail(pc)
           /\ UNCHANGED <<up, dead, gcLast, op, pend, acc, rst, confl, crashes, resets, sync, jst>>

Wait == /\ up /\ ~dead /\ pc # <<>> /\ Head(pc) = "wait" /\ ~pend
        /\ pc' = Tail(pc)
        /\ UNCHANGED <<disk, view, up, dead, sr, gcLast, op, pend, acc, rst, confl, crashes, resets, sync, jst>>

\* resetRAMState(T, true); a fresh Reset is a command-line process that exits, a resumed one goes on as a node
Ram == /\ up /\ ~dead /\ pc # <<>> /\ Head(pc) = "ram"
       /\ pc' = <<>> /\ op' = NoOp
       /\ dead' = ~WalkOK(view)
       /\ up' = op.resume
       /\ acc' = op.T
       /\ gcLast' = 0
       /\ confl' = (confl /\ disk = ResetResult(rst.start, rst.target) /\ Norm(disk) = Norm(SyncTo(op.T)))
       /\ UNCHANGED <<disk, view, sr, pend, rst, crashes, resets, sync, jst>>


----------------------------------------------------------------------------
(* State synchronisation and the jump (statesync.Module + jumpToStateInternal).  Markers: j1 stateJumpStarted, *)
(* j2 newStorageItemsAdded, j3 staleBlocksRemoved.                                                           *)
SP == MaxH - 1
SyncBlocks == Max(1, SP - MTB + 1)..SP

RECURSIVE HdrsTo(_, _)
HdrsTo(v, h) == IF v.hdr >= h THEN v ELSE HdrsTo(HdrAdd(v, v.hdr + 1), h)

\* one round of the (restartable, idempotent) collection; Flush may happen between any two rounds
Collect ==
    /\ JumpOn /\ Idle /\ view.ver /\ view.cur = 0 /\ view.stage = "none" /\ sync # "c4"
    /\ \/ /\ sync = "idle" /\ sync' = "c1"                         \* Init: sync point recorded, genesis trie removed
          /\ view' = [view EXCEPT !.sp = SP, !.mpt = @ \ {0}]
       \/ /\ sync = "c1" /\ sync' = "c2"                           \* headers beyond the sync point
          /\ view' = HdrsTo(view, MaxH)
       \/ /\ sync = "c2" /\ sync' = "c3"                           \* trie of SP, its items under the inactive prefix
          /\ view' = [view EXCEPT !.mpt = @ \cup {SP}, !.flat = [@ EXCEPT ![Other(view.pfx)] = SP]]
       \/ /\ sync = "c3" /\ sync' = "c4"                           \* the last MTB blocks (no execution)
          /\ view' = [view EXCEPT !.blk = @ \cup SyncBlocks, !.hdo = @ \ SyncBlocks]
    /\ acc' = IF sync = "c3" THEN Max(acc, SP) ELSE acc
    /\ UNCHANGED <<disk, up, dead, sr, gcLast, pc, op, pend, rst, confl, crashes, resets, jst>>

JumpSteps(stage) == CASE stage = "none" -> <<"j_mark", "j_switch", "j_clean", "j_fin">>
                      [] stage = "j1"   -> <<"j_switch", "j_clean", "j_fin">>
                      [] stage = "j2"   -> <<"j_clean", "j_fin">>
                      [] stage = "j3"   -> <<"j_fin">>

J_mark(v)      == [v EXCEPT !.stage = "j1"]
J_switch(v)    == [v EXCEPT !.pfx = Other(v.pfx), !.stage = "j2"]
J_clean(v, T)  == [v EXCEPT !.flat = [@ EXCEPT ![Other(v.pfx)] = -1], !.cur = T,
                            !.blk = IF T - MTB > 0 THEN @ \ {0} ELSE @,
                            !.hdo = IF T - MTB > 0 /\ "JumpDropsGenesis" \notin Dev THEN @ \cup {0} ELSE @,
                            !.stage = "j3"]
J_fin(v, T)    == [v EXCEPT !.roots = @ \cup {T}, !.xfer = T, !.stage = "none"]
JumpResult(d0) == J_fin(J_clean(J_switch(J_mark(d0)), d0.sp), d0.sp)

\* the last block of the collection is flushed synchronously, then the jump starts
JumpStart == /\ JumpOn /\ Idle /\ sync = "c4" /\ view = disk
             /\ pc' = JumpSteps("none") /\ op' = [NoOp EXCEPT !.kind = "jump", !.T = SP]
             /\ jst' = disk /\ sync' = "idle"
             /\ UNCHANGED <<disk, view, up, dead, sr, gcLast, pend, acc, rst, confl, crashes, resets>>

\* every jump stage is flushed synchronously: one batch per stage
JStep == /\ up /\ ~dead /\ pc # <<>> /\ op.kind = "jump"
         /\ LET s == Head(pc)
                v == CASE s = "j_mark" -> J_mark(view) [] s = "j_switch" -> J_switch(view)
                       [] s = "j_clean" -> J_clean(view, op.T) [] s = "j_fin" -> J_fin(view, op.T) IN
            /\ view' = v /\ disk' = v
            /\ IF s = "j_fin"
                 THEN /\ sr' = TRUE /\ op' = NoOp                       \* stateRoot.JumpToState, resetRAMState
                      /\ confl' = (confl /\ v = JumpResult(jst))
                 ELSE UNCHANGED <<sr, op, confl>>
         /\ pc' = Tail(pc)
         /\ UNCHANGED <<up, dead, gcLast, pend, acc, rst, crashes, resets, sync, jst>>

----------------------------------------------------------------------------
Crash == /\ up /\ ~dead /\ crashes < MaxCrash
         /\ up' = FALSE /\ pc' = <<>> /\ op' = NoOp /\ pend' = FALSE /\ sr' = FALSE /\ view' = disk /\ gcLast' = 0
         /\ crashes' = crashes + 1 /\ sync' = "idle"
         /\ UNCHANGED <<disk, dead, acc, rst, confl, resets, jst>>

\* clean stop: flush, then down (Close)
Stop == /\ Idle /\ ~pend
        /\ disk' = view /\ up' = FALSE /\ sr' = FALSE /\ gcLast' = 0 /\ sync' = "idle"
        /\ UNCHANGED <<view, dead, pc, op, pend, acc, rst, confl, crashes, resets, jst>>

\* init()
Restart ==
    /\ ~up /\ ~dead
    /\ view' = IF disk.ver THEN disk ELSE Genesis
    /\ IF ~disk.ver
         THEN /\ up' = TRUE /\ sr' = TRUE /\ dead' = FALSE /\ gcLast' = 0 /\ UNCHANGED <<pc, op>>
       ELSE IF ~WalkOK(disk)
         THEN /\ dead' = TRUE /\ UNCHANGED <<up, sr, gcLast, pc, op>>        \* "could not get header" / missing page
       ELSE IF disk.stage = "none"
         THEN /\ dead' = ~(disk.cur \in disk.roots)
              /\ up' = TRUE /\ sr' = TRUE
              /\ gcLast' = IF disk.pages = {} THEN 0 ELSE MinSet(disk.pages)
              /\ UNCHANGED <<pc, op>>
       ELSE IF disk.stage \in {"j1", "j2", "j3"}
         THEN /\ up' = TRUE /\ sr' = FALSE /\ gcLast' = 0
              /\ dead' = ~(disk.sp < disk.hdr)                                  \* "invalid state sync point"
              /\ pc' = JumpSteps(disk.stage)
              /\ op' = [NoOp EXCEPT !.kind = "jump", !.T = disk.sp, !.resume = TRUE]
       ELSE   /\ up' = TRUE /\ sr' = FALSE /\ dead' = FALSE /\ gcLast' = 0
              /\ pc' = Steps(disk.stage)
              /\ op' = [NoOp EXCEPT !.kind = "reset", !.T = disk.sp, !.curH = disk.cur, !.hdrH = disk.hdr, !.resume = TRUE]
    /\ UNCHANGED <<disk, pend, acc, rst, confl, crashes, resets, sync, jst>>

Init == /\ disk = EmptyDisk /\ view = Genesis /\ up = TRUE /\ dead = FALSE /\ sr = TRUE /\ gcLast = 0
        /\ pc = <<>> /\ op = NoOp /\ pend = FALSE /\ acc = 0
        /\ rst = [start |-> EmptyDisk, target |-> -1] /\ confl = TRUE /\ crashes = 0 /\ resets = 0
        /\ sync = "idle" /\ jst = EmptyDisk

Next == \/ AddHeader \/ AddBlock \/ Flush \/ Rest \/ GCMpt \/ GCBlocks \/ GCPages
        \/ (\E T \in 0..MaxH : Reset(T)) \/ Work \/ Send \/ DoPersist \/ ResetGC \/ Wait \/ Ram
        \/ Collect \/ JumpStart \/ JStep
        \/ Crash \/ Stop \/ Restart

Spec == Init /\ [][Next]_vars

----------------------------------------------------------------------------
(* The property.                                                                                      *)
\* every restart succeeds and no block addition panics
NoDead == ~dead
\* the database never holds a height above the last accepted block
HeightBound == disk.cur <= acc
\* a node that is up and not in the middle of resuming answers with the state of its height and can go on
RecoverOK == (Idle /\ ~Collecting(view)) => (ObsOK(view) /\ WalkOK(view) /\ sr)
\* between any two batches, with no reset recorded, the database is coherent
DiskCoherent == Coherent(disk)
\* interrupted or not, a reset ends in the same database, which is that of a node synchronised to T only
ResetConfluence == confl
\* while a reset is recorded on disk its target stays recoverable
ResumeOK == (disk.ver /\ disk.stage # "none") =>
                (disk.sp \in disk.blk /\ disk.sp \in disk.mpt /\ (disk.stage \in {"r1", "r2", "r3", "r4", "r5"} => disk.sp \in disk.roots))
MarkersFollowData == StageInv(disk)
=============================================================================
