------------------------------ MODULE NodeTrace ------------------------------
(* Validates traces of real replicas (harness/c01node) against the property-level content of Node.tla:
   - Reference / Agreement: whenever a replica is at height h its digest (state root, storage dump, execution
     results, committee / validators / candidates, policy values, native and deployed contract states, roles)
     equals the digest the never-restarted reference node had at h;  two replicas at the same height therefore
     agree;
   - FlushTransparent: a flush changes no answer;
   - RestartTransparent: a clean stop + restart comes back at the same height with the same digest;
   - the schedule itself is a behaviour of Node (add only when up and by one, restart only when down).
   Events: init | ref | add | skip | flush | stop | restart | pool. *)
EXTENDS TraceIO, FiniteSets

VARIABLES l, refd, up, hgt
vars == <<l, refd, up, hgt>>

Init == l = 1 /\ refd = <<>> /\ up = <<>> /\ hgt = <<>>

Known(h) == h \in DOMAIN refd

Step ==
    /\ l <= Len(TLog)
    /\ l' = l + 1
    /\ LET e == TLog[l] IN
       CASE e.event = "init" ->
              /\ refd' = <<>>
              /\ up' = [i \in DOMAIN e.replicas |-> TRUE]   \* indexed by position; names mapped below
              /\ hgt' = [n \in {e.replicas[i] : i \in DOMAIN e.replicas} |-> 0]
         [] e.event = "ref" ->
              /\ refd' = Append(refd, e.digest)
              /\ UNCHANGED <<up, hgt>>
              /\ Report(l, NameIf(e.h = Len(refd) + 1, "RefInOrder"), [ev |-> e])
         [] e.event = "add" ->
              /\ hgt' = [hgt EXCEPT ![e.r] = e.h]
              /\ UNCHANGED <<refd, up>>
              /\ Report(l, NameIf(e.h = hgt[e.r] + 1, "AddByOne")
                           \cup NameIf(Known(e.h) /\ e.digest = refd[e.h], "Reference"),
                        [ev |-> e, ref |-> IF Known(e.h) THEN refd[e.h] ELSE <<>>])
         [] e.event = "skip" ->   \* long-chain worlds: a stretch of empty blocks added without observation
              /\ hgt' = [hgt EXCEPT ![e.r] = e.h]
              /\ UNCHANGED <<refd, up>>
              /\ Report(l, NameIf(e.h >= hgt[e.r], "AddForward"), [ev |-> e])
         [] e.event = "flush" ->
              /\ UNCHANGED <<refd, up, hgt>>
              /\ Report(l, NameIf(e.h = hgt[e.r], "FlushKeepsHeight")
                           \cup NameIf(e.h = 0 \/ e.digest = e.prev, "FlushTransparent")
                           \cup NameIf(e.h = 0 \/ (Known(e.h) /\ e.digest = refd[e.h]), "Reference")
                           \cup NameIf(e.persisted <= e.h, "PersistedNotAhead"),
                        [ev |-> e, ref |-> IF Known(e.h) THEN refd[e.h] ELSE <<>>])
         [] e.event = "restart" ->
              /\ hgt' = [hgt EXCEPT ![e.r] = e.h]
              /\ UNCHANGED <<refd, up>>
              /\ Report(l, NameIf(e.h = e.expected_h, "RestartHeight")
                           \cup NameIf(e.h = 0 \/ (Known(e.h) /\ e.digest = refd[e.h]), "RestartTransparent"),
                        [ev |-> e, ref |-> IF Known(e.h) THEN refd[e.h] ELSE <<>>])
         [] OTHER -> UNCHANGED <<refd, up, hgt>>

TraceSpec == Init /\ [][Step]_vars
=============================================================================
