SPECIFICATION Spec
CONSTANTS
  MaxH = 10
  Page = 2
  Ahead = 2
  MaxCrash = 3
  MaxReset = 0
  GCOn = TRUE
  MTB = 3
  GCP = 1
  JumpOn = FALSE
  Dev = {}
INVARIANTS NoDead HeightBound RecoverOK DiskCoherent ResetConfluence ResumeOK MarkersFollowData
CHECK_DEADLOCK FALSE
