SPECIFICATION Spec
CONSTANTS
  P <- U1
  Allowed <- A1
  Cap = 2
  MaxH = 4
  BugNoWitness = FALSE
  BugSeenCache = TRUE
  BugWindow = FALSE
INVARIANTS AbsInv
PROPERTIES AbsStep
CHECK_DEADLOCK FALSE
