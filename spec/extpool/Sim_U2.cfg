SPECIFICATION SimSpec
CONSTANTS
  P <- U2
  Allowed <- A2
  Cap = 1
  MaxH = 4
  BugNoWitness = FALSE
  BugSeenCache = FALSE
  BugWindow = FALSE
  Depth = 22
  Boost = 4
INVARIANT Emit
CHECK_DEADLOCK FALSE
