---------------------------- MODULE ExtPoolImpl ----------------------------
(***************************************************************************)
(* Implementation-shaped model of pkg/network/extpool/pool.go together     *)
(* with the two places of pkg/network/server.go that drive it.             *)
(*                                                                         *)
(*   lists   <- Pool.senders   sender -> FIFO (container/list) of payloads *)
(*   ver     <- Pool.verified  hash -> list element (0 = absent)           *)
(*   height  <- Ledger.BlockHeight()                                       *)
(*   noted   <- index of the last block for which relayBlocksLoop called   *)
(*              RemoveStale: the ledger advances first, the notification   *)
(*              follows asynchronously, Add can run in between             *)
(*                                                                         *)
(* One action per critical section: Add (verify outside the lock reads the *)
(* height once; the rest under Pool.lock), Stale = RemoveStale(index),     *)
(* Advance = a block stored by the ledger, Get (read only).                *)
(*                                                                         *)
(* Named deviations (both FALSE = the code as it is):                      *)
(*   BugNoWitness - verify() skips Ledger.VerifyWitness                    *)
(*   BugSeenCache - a "seen hashes" cache in front of the pool that is not *)
(*                  cleaned when a payload is evicted / removed as stale   *)
(*                  (the way Server.txIn works for transactions): an       *)
(*                  evicted payload is answered "duplicate" for good       *)
(*   BugWindow    - the upper bound of the window is tested with < (a      *)
(*                  payload for the block just accepted still passes)      *)
(***************************************************************************)
EXTENDS Integers, Sequences, FiniteSets, SequencesExt, TLC

CONSTANTS P,         \* payload table, see ExtPool.tla
          Cap,       \* per-sender capacity
          Allowed,   \* senders Ledger.IsExtensibleAllowed accepts
          MaxH,      \* last height
          BugNoWitness, BugSeenCache, BugWindow

VARIABLES lists, ver, seen, height, noted, last
vars == <<lists, ver, seen, height, noted, last>>

Abs == INSTANCE ExtPool

Pids    == DOMAIN P
Hids    == {P[i].hid : i \in Pids}
Senders == {P[i].sender : i \in Pids}

Known  == {x \in Hids : ver[x] # 0}
Served == {<<x, ver[x]>> : x \in Known}

Fail(p, e) == /\ last' = [op |-> "add", p |-> p, acc |-> FALSE, err |-> e]
              /\ UNCHANGED <<lists, ver, seen, height, noted>>

Add(p) ==
    LET r == P[p] IN
    IF ~r.witok /\ ~BugNoWitness THEN Fail(p, "witness")
    ELSE IF height < r.start \/ (IF BugWindow THEN r.end < height ELSE r.end <= height) THEN
        Fail(p, IF r.end = height THEN "" ELSE "height")          \* (false, nil) for the block just accepted
    ELSE IF r.sender \notin Allowed THEN Fail(p, "sender")
    ELSE IF ver[r.hid] # 0 \/ (BugSeenCache /\ r.hid \in seen) THEN Fail(p, "")   \* duplicate: (false, nil)
    ELSE
    LET lst  == lists[r.sender]
        full == Len(lst) >= Cap
        kept == IF full THEN Tail(lst) ELSE lst
    IN  /\ lists' = [lists EXCEPT ![r.sender] = Append(kept, p)]
        /\ ver'   = [x \in Hids |-> IF x = r.hid THEN p
                                    ELSE IF full /\ x = P[Head(lst)].hid THEN 0 ELSE ver[x]]
        /\ seen'  = seen \cup {r.hid}
        /\ last'  = [op |-> "add", p |-> p, acc |-> TRUE, err |-> ""]
        /\ UNCHANGED <<height, noted>>

Advance ==
    /\ height < MaxH
    /\ height' = height + 1
    /\ last' = [op |-> "advance", p |-> 0, acc |-> FALSE, err |-> ""]
    /\ UNCHANGED <<lists, ver, seen, noted>>

\* RemoveStale(index)
Keeps(q, index) == ~(P[q].end <= index) /\ P[q].sender \in Allowed /\ P[q].witok
Stale ==
    /\ noted < height
    /\ noted' = noted + 1
    /\ lists' = [s \in Senders |-> SelectSeq(lists[s], LAMBDA q : Keeps(q, noted'))]
    /\ ver'   = [x \in Hids |-> IF ver[x] # 0 /\ ~Keeps(ver[x], noted') THEN 0 ELSE ver[x]]
    /\ last'  = [op |-> "stale", p |-> noted', acc |-> FALSE, err |-> ""]
    /\ UNCHANGED <<seen, height>>

Get(x) ==
    /\ last' = [op |-> "get", p |-> x, acc |-> ver[x] # 0, err |-> ""]
    /\ UNCHANGED <<lists, ver, seen, height, noted>>

Init ==
    /\ lists = [s \in Senders |-> <<>>]
    /\ ver = [x \in Hids |-> 0]
    /\ seen = {}
    /\ height = 0 /\ noted = 0
    /\ last = [op |-> "init", p |-> 0, acc |-> FALSE, err |-> ""]

Next ==
    \/ \E p \in Pids : Add(p)
    \/ Advance
    \/ Stale

\* Get changes nothing: it is part of the generator (ExtPoolSim) only; what it answers in every state is Served
Spec == Init /\ [][Next]_vars

----------------------------------------------------------------------------
\* Impl => Abstract
AbsInv == Abs!ServedVerified(P, Served)

AbsStep ==
    [][ /\ last'.op = "add" => Abs!AddCond(P, last'.p, height, Allowed, Known, Known', last'.acc)
        /\ last'.op \in {"advance", "stale"} => Abs!BlockAddsNothing(Known, Known')
        /\ last'.op = "get" => (last'.acc <=> last'.p \in Known) ]_vars

\* the two structures of the pool describe the same content, within capacity (facts of the code, not of the statement)
InLists == UNION {ToSet(lists[s]) : s \in Senders}
CacheExact ==
    /\ \A s \in Senders : Len(lists[s]) <= Cap /\ \A i \in DOMAIN lists[s] : P[lists[s][i]].sender = s
    /\ \A x \in Hids : ver[x] # 0 => (P[ver[x]].hid = x /\ ver[x] \in InLists)
    /\ \A q \in InLists : ver[P[q].hid] = q
    /\ \A s \in Senders : \A i, j \in DOMAIN lists[s] : i # j => lists[s][i] # lists[s][j]
    /\ noted <= height

\* after RemoveStale(noted) nothing that ends at or before noted is left
StaleGone == \A q \in InLists : last.op = "stale" => P[q].end > noted
=============================================================================
