SPECIFICATION SimSpec
CONSTANTS
  P <- U1
  Allowed <- A1
  Cap = 2
  MaxH = 4
  BugNoWitness = FALSE
  BugSeenCache = FALSE
  BugWindow = FALSE
  Depth = 22
  Boost = 4
INVARIANT Emit
CHECK_DEADLOCK FALSE
