SPECIFICATION Spec
CONSTANTS
  P <- U3
  Allowed <- A3
  Cap = 3
  MaxH = 3
  BugNoWitness = FALSE
  BugSeenCache = FALSE
  BugWindow = FALSE
INVARIANTS AbsInv CacheExact StaleGone
PROPERTIES AbsStep
CHECK_DEADLOCK FALSE
