SPECIFICATION Spec
CONSTANTS
  P <- U1
  Allowed <- A1
  Cap = 2
  MaxH = 4
  BugNoWitness = TRUE
  BugSeenCache = FALSE
  BugWindow = FALSE
INVARIANTS AbsInv
PROPERTIES AbsStep
CHECK_DEADLOCK FALSE
