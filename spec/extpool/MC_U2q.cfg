SPECIFICATION Spec
CONSTANTS
  P <- U2
  Allowed <- A2
  Cap = 1
  MaxH = 2
  BugNoWitness = FALSE
  BugSeenCache = FALSE
  BugWindow = FALSE
INVARIANTS AbsInv CacheExact StaleGone
PROPERTIES AbsStep
CHECK_DEADLOCK FALSE
