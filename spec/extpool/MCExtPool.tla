----------------------------- MODULE MCExtPool -----------------------------
(* Universes for the exhaustive runs of ExtPoolImpl.  Heights are relative to the height at which the
   history begins (the driver maps height 0 to the current height of its real ledger; start = 0 stays 0 as in
   dBFT payloads).  A dBFT payload for block b has the window [0, b): it is valid while the ledger is below b. *)
EXTENDS ExtPoolImpl

R(hid, sender, start, end, witok) == [hid |-> hid, sender |-> sender, start |-> start, end |-> end, witok |-> witok]

\* two validators and an outsider, capacity 2: overlapping windows, a window opening later, a bad-witness twin of a
\* good payload (same hash), a bad-witness payload of its own, a properly self-signed outsider
U1 == << R(1, "V0", 0, 2, TRUE),
         R(2, "V0", 0, 3, TRUE),
         R(3, "V0", 0, 5, TRUE),
         R(4, "V0", 1, 4, TRUE),
         R(2, "V0", 0, 3, FALSE),
         R(6, "V1", 0, 2, TRUE),
         R(7, "V1", 2, 5, TRUE),
         R(8, "V1", 0, 4, FALSE),
         R(9, "X0", 0, 5, TRUE) >>
A1 == {"V0", "V1"}

\* three allowed senders (validator, validators' multi-signature account, state validator), a former state validator,
\* capacity 1: every accepted payload displaces the previous one of its sender
U2 == << R(1, "V0", 0, 1, TRUE),
         R(2, "V0", 0, 2, TRUE),
         R(3, "V0", 0, 3, TRUE),
         R(4, "VM", 0, 4, TRUE),
         R(5, "VM", 1, 3, TRUE),
         R(5, "VM", 1, 3, TRUE),
         R(7, "S0", 0, 2, TRUE),
         R(8, "S0", 2, 4, TRUE),
         R(7, "S0", 0, 2, FALSE),
         R(10, "S1", 0, 4, TRUE) >>
A2 == {"V0", "VM", "S0"}

\* capacity 3, one busy validator (a round with several view changes: all payloads of one height share a window)
U3 == << R(1, "V0", 0, 1, TRUE),
         R(2, "V0", 0, 1, TRUE),
         R(3, "V0", 0, 2, TRUE),
         R(4, "V0", 0, 2, TRUE),
         R(5, "V0", 0, 2, TRUE),
         R(6, "V0", 0, 2, TRUE),
         R(7, "V0", 0, 3, TRUE),
         R(6, "V0", 0, 2, FALSE),
         R(9, "V1", 0, 2, TRUE),
         R(10, "C4", 0, 3, TRUE) >>
A3 == {"V0", "V1"}
=============================================================================
