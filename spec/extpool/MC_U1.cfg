SPECIFICATION Spec
CONSTANTS
  P <- U1
  Allowed <- A1
  Cap = 2
  MaxH = 4
  BugNoWitness = FALSE
  BugSeenCache = FALSE
  BugWindow = FALSE
INVARIANTS AbsInv CacheExact StaleGone
PROPERTIES AbsStep
CHECK_DEADLOCK FALSE
