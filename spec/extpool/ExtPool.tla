------------------------------ MODULE ExtPool ------------------------------
(***************************************************************************)
(* Abstract (property level) specification of the EXTENSIBLE PAYLOAD POOL  *)
(* (pkg/network/extpool/pool.go) - an extension of the check of C19.       *)
(*                                                                         *)
(* Every consensus payload a validator receives goes through Pool.Add      *)
(* (Server.handleExtensibleCmd) and reaches consensus.Service.OnPayload    *)
(* only when Add answers (true, nil); everything a node relays to its      *)
(* peers on getdata is what Pool.Get returns.  The statement of C19 is the *)
(* scope of this judge; the clauses relied on are:                         *)
(*                                                                         *)
(*  (S) "no two validators ever accept different blocks at the same height *)
(*      and every block a validator commits is accepted by every other     *)
(*      node's ledger ... with up to f validators silent"                  *)
(*      - dBFT's argument counts messages per VALIDATOR; the consensus     *)
(*      service checks only that the sender field names the validator at   *)
(*      the claimed index (validatePayload), the signature of the payload  *)
(*      is checked by nobody but this pool.  So (S) needs: a payload that  *)
(*      is not valid never passes Add and is never served by Get           *)
(*      (NoInvalidAccepted, OnlyAcceptedEnters, ServedVerified).           *)
(*  (D) "under arbitrary message delay, reordering, duplication and loss"  *)
(*      - the node's answer to duplication is this pool: a payload it      *)
(*      still holds is not handed to the service / re-advertised a second  *)
(*      time (DupFiltered).                                                *)
(*  (L) "When all validators are honest and messages are delivered, blocks *)
(*      keep being produced" - a delivered payload that is valid now and   *)
(*      that the pool does not hold MUST reach the service, whatever       *)
(*      happened to earlier copies of it (evicted at capacity, removed as  *)
(*      stale, rejected earlier when it was not yet valid or carried a bad *)
(*      witness), and must be retrievable for relaying right afterwards    *)
(*      (ValidNewAccepted); what the pool advertises it can serve          *)
(*      (ListedServed).  "Known to the pool" is therefore DEFINED by Get:  *)
(*      known => retrievable is the definition, not known => re-admitted   *)
(*      is ValidNewAccepted.                                               *)
(*                                                                         *)
(* NOT judged (the statement is silent; the implementation-shaped model    *)
(* ExtPoolImpl predicts them and a disagreement is recorded as drift):     *)
(* which payload is evicted at capacity, the capacity bound itself, that   *)
(* RemoveStale keeps every payload that is still valid and removes every   *)
(* stale one, which error a rejected payload gets.                         *)
(*                                                                         *)
(* All operators are parameterised by the payload table P (a sequence of   *)
(* records, index = payload id) so that the same definitions judge the     *)
(* model ExtPoolImpl and traces recorded from the real extpool.Pool:       *)
(*   hid    Nat      identity of the payload HASH (the hash covers         *)
(*                   category, window, sender, data - not the witness: two *)
(*                   payloads with different witnesses can share a hid)    *)
(*   sender STRING   name of the sender account                            *)
(*   start, end      ValidBlockStart, ValidBlockEnd                        *)
(*   witok  BOOLEAN  the witness verifies for the sender                   *)
(* h is the height of the node's ledger, allowed the set of senders that   *)
(* are a validator / the committee / a state validator at that moment,     *)
(* known the set of hids for which Get answers non-nil.                    *)
(***************************************************************************)
EXTENDS Integers, Sequences, FiniteSets

\* the protocol's validity rule for an extensible payload at ledger height h
InWindow(P, p, h) == P[p].start <= h /\ h < P[p].end
Valid(P, p, h, allowed) == P[p].witok /\ P[p].sender \in allowed /\ InWindow(P, p, h)

(***************************************************************************)
(* Add(p) at height h answered acc (= "new and no error": the payload is   *)
(* handed to the consensus service); known / known2 = before / after.      *)
(***************************************************************************)
NoInvalidAccepted(P, p, h, allowed, acc) == acc => Valid(P, p, h, allowed)

ValidNewAccepted(P, p, h, allowed, known, known2, acc) ==
    (Valid(P, p, h, allowed) /\ P[p].hid \notin known) => (acc /\ P[p].hid \in known2)

DupFiltered(P, p, known, acc) == P[p].hid \in known => ~acc

\* nothing becomes retrievable except the payload that has just been accepted
OnlyAcceptedEnters(P, p, known, known2, acc) ==
    (known2 \ known) \subseteq (IF acc THEN {P[p].hid} ELSE {})

AddCond(P, p, h, allowed, known, known2, acc) ==
    /\ NoInvalidAccepted(P, p, h, allowed, acc)
    /\ ValidNewAccepted(P, p, h, allowed, known, known2, acc)
    /\ DupFiltered(P, p, known, acc)
    /\ OnlyAcceptedEnters(P, p, known, known2, acc)

\* a new block (chain advance, RemoveStale) never makes anything retrievable
BlockAddsNothing(known, known2) == known2 \subseteq known

(***************************************************************************)
(* State predicates.  served = set of pairs <<hid, pid>>: Get(hash hid)    *)
(* returned the payload instance pid (0: an object that is none of the     *)
(* payloads ever offered); listed = hids reported by GetCategory.          *)
(***************************************************************************)
ServedVerified(P, served) ==
    \A s \in served : s[2] \in DOMAIN P /\ P[s[2]].hid = s[1] /\ P[s[2]].witok

ListedServed(listed, known) == listed \subseteq known
=============================================================================
