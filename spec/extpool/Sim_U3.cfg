SPECIFICATION SimSpec
CONSTANTS
  P <- U3
  Allowed <- A3
  Cap = 3
  MaxH = 4
  BugNoWitness = FALSE
  BugSeenCache = FALSE
  BugWindow = FALSE
  Depth = 22
  Boost = 4
INVARIANT Emit
CHECK_DEADLOCK FALSE
