----------------------------- MODULE ExtPoolSim -----------------------------
(* Behaviour generator: ExtPoolImpl plus a history variable, printed as JSON when the depth bound is reached
   (tlc -simulate).  The history starts with the universe so that the harness can realise it with real payloads;
   every step carries the prediction of the implementation-shaped model (answer of Add, retrievable hashes). *)
EXTENDS MCExtPool, Json

CONSTANTS Depth, Boost
VARIABLE hist

Tab == [i \in DOMAIN P |-> [id |-> i, hid |-> P[i].hid, sender |-> P[i].sender, start |-> P[i].start,
                            end |-> P[i].end, witok |-> P[i].witok]]

SimInit == Init /\ hist = << [op |-> "init", payloads |-> Tab, cap |-> Cap, allowed |-> Allowed] >>

\* generation mix: Add dominates (several disjuncts), reads are rare
GenNext == \/ \E p \in Pids : Add(p)
           \/ \E p \in Pids : Add(p)
           \/ \E p \in Pids : Add(p)
           \/ \E p \in {q \in Pids : ver[P[q].hid] = 0 /\ P[q].hid \in seen} : Add(p)   \* re-delivery of a dropped payload
           \/ \E k \in 1..Boost : Advance
           \/ \E k \in 1..Boost : Stale
           \/ \E x \in {y \in Hids : y % 3 = Len(hist) % 3} : Get(x)

SimNext == /\ GenNext
           /\ hist' = Append(hist, [op |-> last'.op, p |-> last'.p, acc |-> last'.acc, err |-> last'.err,
                                    known |-> Known', h |-> height'])
SimSpec == SimInit /\ [][SimNext]_<<vars, hist>>

Emit == Len(hist) # Depth \/ PrintT(<<"@@HIST@@", ToJson(hist)>>)
=============================================================================
