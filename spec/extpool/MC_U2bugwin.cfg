SPECIFICATION Spec
CONSTANTS
  P <- U2
  Allowed <- A2
  Cap = 1
  MaxH = 4
  BugNoWitness = FALSE
  BugSeenCache = FALSE
  BugWindow = TRUE
INVARIANTS AbsInv
PROPERTIES AbsStep
CHECK_DEADLOCK FALSE
