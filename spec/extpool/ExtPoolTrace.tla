---------------------------- MODULE ExtPoolTrace ----------------------------
(* Validates traces recorded from the real extpool.Pool (over a real ledger) against the ABSTRACT specification
   ExtPool.  Events:
     init    payloads (table read back from the real payload objects; witok from an independent signature check),
             cap, allowed (senders that are a validator / committee / state validator account by construction of the
             network - NOT the ledger's answer)
     add     p, h (ledger height, relative), acc (Add answered (true, nil)), isnew, err
     advance h        a block was added to the real ledger (RemoveStale not yet called)
     stale   idx      Pool.RemoveStale(idx)
     get     hid, pid one explicit Pool.Get
   Every event except init/get carries what the exported API shows afterwards: known (hids with Get # nil),
   served (<<hid, payload instance returned>>), listed (hids reported by GetCategory over all categories).
   Total, deterministic, reporting (TraceIO). *)
EXTENDS TraceIO, FiniteSets, SequencesExt

VARIABLES l, P, cap, allowed, known
vars == <<l, P, cap, allowed, known>>

A == INSTANCE ExtPool

Init == l = 1 /\ P = <<>> /\ cap = 0 /\ allowed = {} /\ known = {}

Pairs(s) == {<<s[i][1], s[i][2]>> : i \in DOMAIN s}

StateChecks(e) ==
    NameIf(A!ServedVerified(P, Pairs(e.served)), "ServedVerified")
    \cup NameIf(A!ListedServed(ToSet(e.listed), ToSet(e.known)), "ListedServed")
    \cup NameIf({s[1] : s \in Pairs(e.served)} = ToSet(e.known), "ObservationConsistent")

Step ==
    /\ l <= Len(TLog)
    /\ l' = l + 1
    /\ LET e == TLog[l] IN
       CASE e.event = "init" ->
              /\ P' = e.payloads /\ cap' = e.cap /\ allowed' = ToSet(e.allowed) /\ known' = {}
         [] e.event = "add" ->
              /\ known' = ToSet(e.known) /\ UNCHANGED <<P, cap, allowed>>
              /\ Report(l, StateChecks(e)
                           \cup NameIf(A!NoInvalidAccepted(P, e.p, e.h, allowed, e.acc), "NoInvalidAccepted")
                           \cup NameIf(A!ValidNewAccepted(P, e.p, e.h, allowed, known, ToSet(e.known), e.acc), "ValidNewAccepted")
                           \cup NameIf(A!DupFiltered(P, e.p, known, e.acc), "DupFiltered")
                           \cup NameIf(A!OnlyAcceptedEnters(P, e.p, known, ToSet(e.known), e.acc), "OnlyAcceptedEnters"),
                        [ev |-> e, before |-> known, payload |-> P[e.p]])
         [] e.event \in {"advance", "stale"} ->
              /\ known' = ToSet(e.known) /\ UNCHANGED <<P, cap, allowed>>
              /\ Report(l, StateChecks(e) \cup NameIf(A!BlockAddsNothing(known, ToSet(e.known)), "BlockAddsNothing"),
                        [ev |-> e, before |-> known])
         [] e.event = "get" ->
              /\ UNCHANGED <<P, cap, allowed, known>>
              /\ Report(l, NameIf((e.pid # 0) <=> (e.hid \in known), "GetStable")
                           \cup (IF e.pid = 0 THEN {} ELSE NameIf(A!ServedVerified(P, {<<e.hid, e.pid>>}), "ServedVerified")),
                        [ev |-> e, before |-> known])

TraceSpec == Init /\ [][Step]_vars
=============================================================================
