----------------------------- MODULE NotaryPool -----------------------------
(***************************************************************************)
(* Abstract (property level) specification of the node's SECOND memory     *)
(* pool: the pool of P2P notary requests kept by network.Server            *)
(* (notaryRequestPool).  It stores the FALLBACK transaction of every       *)
(* request with the request payload as data; the fee payer of a fallback   *)
(* is the Notary-sponsored depositor (sender = Notary contract, second     *)
(* signer = depositor) and its balance is the depositor's notary deposit.  *)
(*                                                                         *)
(* This module is an EXTENSION of the check of property C08 and judges     *)
(* only what the statement of C08 says, instantiated for this pool:        *)
(*                                                                         *)
(*  "After any sequence of additions, removals and block-driven refreshes  *)
(*   the pool lists each transaction at most once [NoDup, Listed], never   *)
(*   exceeds its capacity [Bounded], is ordered by priority (high-priority *)
(*   attribute, then fee per byte, then network fee) [Sorted] and evicts   *)
(*   only its lowest-priority entry [SubmitOKCond]; for every fee payer,   *)
(*   INCLUDING NOTARY DEPOSITORS, the system plus network fees of its      *)
(*   pooled transactions sum to no more than its balance [Solvent, with    *)
(*   balance = the depositor's deposit as the chain reports it after the   *)
(*   block]; no two pooled transactions conflict through a Conflicts       *)
(*   attribute [NoConflict] ... An addition that fails leaves the pool     *)
(*   unchanged [SubmitFailOK]."                                            *)
(*                                                                         *)
(* "Lists" is read through the whole read API of the pool the server       *)
(* uses: GetVerifiedTransactions, Count, ContainsKey and TryGetData (the   *)
(* payload served to peers on getdata) must describe the same content      *)
(* [Listed] - the same reading the registered C08 check applies to Count / *)
(* ContainsKey.                                                            *)
(*                                                                         *)
(* The second part (section INFORMATION) states the node's staleness rule  *)
(* for this pool (what a block-driven refresh must drop, what an admission *)
(* must have checked).  It is NOT implied by the statement of C08, so a    *)
(* falsified predicate of that part is reported as drift/information,      *)
(* never as a violation.  The exception is already covered above: a        *)
(* deposit that became too small (or was withdrawn) makes Solvent false.   *)
(*                                                                         *)
(* Request record (table T, T[i].id = i):                                  *)
(*   dep     string  the depositor paying for the fallback                 *)
(*   cost    Nat     system fee + network fee of the fallback              *)
(*   netfee  Nat     network fee of the fallback                           *)
(*   fpb     Nat     fee per byte of the fallback                          *)
(*   high    BOOLEAN HighPriority attribute                                *)
(*   conf    set of ids whose fallback is named by a Conflicts attribute   *)
(*   main    Nat     id of the main transaction (Conflicts(main) is in     *)
(*                   every fallback; several requests may share one main)  *)
(*   nvb,vub Nat     NotValidBefore / ValidUntilBlock of the fallback      *)
(*   mainsender      "Notary" when the main transaction is sent by the     *)
(*                   Notary contract (informational part only)             *)
(***************************************************************************)
EXTENDS Integers, Sequences, FiniteSets, SequencesExt, FiniteSetsExt

Ids(pool) == ToSet(pool)

\* a has strictly lower priority than b
PrioLess(a, b) ==
    \/ (~a.high /\ b.high)
    \/ (a.high = b.high /\ a.fpb < b.fpb)
    \/ (a.high = b.high /\ a.fpb = b.fpb /\ a.netfee < b.netfee)

----------------------------------------------------------------------------
\* JUDGED: the C08 invariants instantiated for the notary request pool
NoDup(pool)        == \A i, j \in DOMAIN pool : i # j => pool[i] # pool[j]
Bounded(pool, c)   == Len(pool) <= c
Sorted(T, pool)    == \A i \in 1..(Len(pool) - 1) : ~PrioLess(T[pool[i]], T[pool[i + 1]])
CostOf(T, S)       == FoldSet(LAMBDA id, acc : acc + T[id].cost, 0, S)
PayersIn(T, pool)  == {T[id].dep : id \in Ids(pool)}
PaidBy(T, pool, d) == {id \in Ids(pool) : T[id].dep = d}
\* bal[d] = the deposit of d (0 when there is none)
Solvent(T, pool, bal) == \A d \in PayersIn(T, pool) : CostOf(T, PaidBy(T, pool, d)) <= bal[d]
NoConflict(T, pool)   == \A a, b \in Ids(pool) : b \notin T[a].conf
\* the read API agrees with the listed content: Count, ContainsKey, TryGetData (payload of exactly that request)
Listed(pool, count, keys, data) == count = Len(pool) /\ keys = Ids(pool) /\ data = Ids(pool)

PoolInv(T, pool, bal, c) ==
    NoDup(pool) /\ Bounded(pool, c) /\ Sorted(T, pool) /\ Solvent(T, pool, bal) /\ NoConflict(T, pool)

ConflictingWith(T, t, pool) == {x \in Ids(pool) : x \in T[t].conf \/ t \in T[x].conf}
Lowest(T, pool)             == {x \in Ids(pool) : \A y \in Ids(pool) : ~PrioLess(T[y], T[x])}

\* "An addition that fails leaves the pool unchanged."
SubmitFailOK(pool, pool2) == pool2 = pool

\* A successful addition: t is in; whatever left was displaced through a Conflicts attribute or is - only at
\* capacity - one lowest-priority entry.
SubmitOKCond(T, t, pool, pool2, c) ==
    LET gone   == Ids(pool) \ Ids(pool2)
        reason == ConflictingWith(T, t, pool)
        evict  == gone \ reason
    IN  /\ t \notin Ids(pool)
        /\ t \in Ids(pool2)
        /\ Ids(pool2) \subseteq Ids(pool) \cup {t}
        /\ Cardinality(evict) <= 1
        /\ evict # {} => (Len(pool) = c /\ evict \subseteq Lowest(T, pool))

----------------------------------------------------------------------------
\* INFORMATION (not implied by the statement of C08; reported as drift only)
\* h: chain height, chF / chM: requests whose fallback / main transactions that are on chain, till[d]: height the
\* deposit of d is locked until (0 = no deposit), delta = MaxNotValidBeforeDelta.

\* the fallback of r can still be used at height h
Relevant(T, r, h, chF, chM) == T[r].vub > h /\ r \notin chF /\ T[r].main \notin chM

\* after a block every pooled request is still relevant, and a refresh adds nothing
StaleGone(T, pool2, h, chF, chM) == \A r \in Ids(pool2) : Relevant(T, r, h, chF, chM)
RefreshOnlyRemoves(pool, pool2)  == Ids(pool2) \subseteq Ids(pool)
\* the deposit of every pooled fallback stays locked for longer than the fallback is valid
DepositLocked(T, pool2, till)    == \A r \in Ids(pool2) : T[r].vub < till[T[r].dep]
\* what an admission must have checked
AdmitValid(T, r, h, chF, chM, till, delta) ==
    /\ Relevant(T, r, h, chF, chM)
    /\ T[r].nvb <= h + delta /\ T[r].vub <= T[r].nvb + delta
    /\ T[r].vub < till[T[r].dep]
    /\ T[r].mainsender # "Notary"
\* survivors keep their relative order
OrderKept(pool, pool2) ==
    \A i, j \in DOMAIN pool2 : (i < j /\ pool2[i] \in Ids(pool) /\ pool2[j] \in Ids(pool)) =>
        \E a, b \in DOMAIN pool : a < b /\ pool[a] = pool2[i] /\ pool[b] = pool2[j]
=============================================================================
