SPECIFICATION SimSpec
CONSTANTS
  Req <- U3
  Dep0 <- D3
  Cap = 3
  Delta = 3
  MaxH = 6
  TopAmt = 3
  MaxAmt = 12
  BugSharedPayer = FALSE
  BugNoRecheck = FALSE
  Depth = 16
INVARIANT Emit
CHECK_DEADLOCK FALSE
