---------------------------- MODULE NotaryPoolSim ----------------------------
(* Behaviour generator: NotaryPoolImpl plus a history variable, printed as JSON when the depth bound is reached
   (tlc -simulate).  The history starts with the universe so that the harness can realise it on a real chain. *)
EXTENDS MCNotaryPool, Json

CONSTANT Depth
VARIABLE hist

SimInit == Init /\ hist = << [op |-> "init", reqs |-> Req, deps |-> Dep0, cap |-> Cap, delta |-> Delta, top |-> TopAmt] >>
\* generation mix (TLC picks a disjunct uniformly, then one of its successors)
GenNext == \/ \E r \in RIds : Submit(r, FALSE)
           \/ \E r \in RIds : ~InPool(pool, r) /\ Req[r].vub > h /\ Submit(r, FALSE)
           \/ \E r \in RIds : ~InPool(pool, r) /\ Req[r].vub > h /\ Submit(r, FALSE)
           \/ \E r \in RIds : r = 1 + (h % N) /\ Submit(r, TRUE)
           \/ Empty
           \/ \E r \in RIds : FallbackOnChain(r)
           \/ \E m \in Mains : MainOnChain(m)
           \/ \E d \in Deps : TopUp(d) \/ Withdraw(d)
SimNext == /\ GenNext
           /\ hist' = Append(hist, IF last'.op = "submit"
                                   THEN [op |-> "submit", req |-> last'.req, bad |-> last'.bad, ok |-> last'.ok, err |-> last'.err,
                                         pool |-> pool']
                                   ELSE [op |-> "block", kind |-> last'.kind, arg |-> last'.arg, pool |-> pool',
                                         amt |-> amt', till |-> till', h |-> h'])
SimSpec == SimInit /\ [][SimNext]_<<vars, hist>>

Emit == Len(hist) # Depth \/ PrintT(<<"@@HIST@@", ToJson(hist)>>)
=============================================================================
