--------------------------- MODULE NotaryPoolTrace ---------------------------
(* Validates traces recorded from the REAL notary request pool of a real network.Server on a real chain against the
   ABSTRACT specification NotaryPool.  Events:
     init    the universe as read back from the real transactions (fees, heights relative to the base height),
             capacity, MaxNotValidBeforeDelta, deposits as the chain reports them
     submit  Server.RelayP2PNotaryRequest of request `req` (bad = payload witness damaged): ok/err
     block   one block stored (kind/arg say what it contained) and the registered post-block refresh has run
   Every step event carries the observed pool (GetVerifiedTransactions order), Count, the ids for which ContainsKey
   is true, the ids for which TryGetData returns the payload of exactly that request, and - read from the chain -
   deposits (amt), their lock heights (till), the height and which fallback / main transactions are on chain.
   Predicates named "i:..." belong to the informational part (not implied by the statement of C08). *)
EXTENDS TraceIO, FiniteSets, SequencesExt

VARIABLES l, T, cap, delta, pool
vars == <<l, T, cap, delta, pool>>

M == INSTANCE NotaryPool

Norm(reqs) == [i \in DOMAIN reqs |-> [reqs[i] EXCEPT !.conf = ToSet(@)]]

Init == l = 1 /\ T = <<>> /\ cap = 0 /\ delta = 0 /\ pool = <<>>

StateChecks(e) ==
    NameIf(M!NoDup(e.pool), "NoDup") \cup NameIf(M!Bounded(e.pool, cap), "Bounded") \cup NameIf(M!Sorted(T, e.pool), "Sorted")
    \cup NameIf(M!Solvent(T, e.pool, e.amt), "Solvent") \cup NameIf(M!NoConflict(T, e.pool), "NoConflict")
    \cup NameIf(M!Listed(e.pool, e.count, ToSet(e.keys), ToSet(e.data)), "Listed")

InfoChecks(e) ==
    NameIf(M!StaleGone(T, e.pool, e.h, ToSet(e.chf), ToSet(e.chm)), "i:StaleGone")
    \cup NameIf(M!DepositLocked(T, e.pool, e.till), "i:DepositLocked")
    \cup NameIf(M!OrderKept(pool, e.pool), "i:OrderKept")

Step ==
    /\ l <= Len(TLog)
    /\ l' = l + 1
    /\ LET e == TLog[l] IN
       CASE e.event = "init" ->
              /\ T' = Norm(e.reqs) /\ cap' = e.cap /\ delta' = e.delta /\ pool' = <<>>
         [] e.event = "submit" ->
              /\ pool' = e.pool /\ UNCHANGED <<T, cap, delta>>
              /\ Report(l, StateChecks(e) \cup InfoChecks(e)
                           \cup (IF e.ok THEN NameIf(M!SubmitOKCond(T, e.req, pool, e.pool, cap), "SubmitOK")
                                              \cup NameIf(M!AdmitValid(T, e.req, e.h, ToSet(e.chf), ToSet(e.chm), e.till, delta), "i:AdmitValid")
                                 ELSE NameIf(M!SubmitFailOK(pool, e.pool), "FailedSubmitUnchanged")),
                        [ev |-> e, before |-> pool])
         [] e.event = "block" ->
              /\ pool' = e.pool /\ UNCHANGED <<T, cap, delta>>
              /\ Report(l, StateChecks(e) \cup InfoChecks(e) \cup NameIf(M!RefreshOnlyRemoves(pool, e.pool), "i:RefreshOnlyRemoves"),
                        [ev |-> e, before |-> pool])

TraceSpec == Init /\ [][Step]_vars
=============================================================================
