SPECIFICATION SimSpec
CONSTANTS
  Req <- U2
  Dep0 <- D2
  Cap = 2
  Delta = 3
  MaxH = 7
  TopAmt = 4
  MaxAmt = 8
  BugSharedPayer = FALSE
  BugNoRecheck = FALSE
  Depth = 16
INVARIANT Emit
CHECK_DEADLOCK FALSE
