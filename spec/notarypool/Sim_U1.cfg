SPECIFICATION SimSpec
CONSTANTS
  Req <- U1
  Dep0 <- D1
  Cap = 3
  Delta = 3
  MaxH = 7
  TopAmt = 3
  MaxAmt = 9
  BugSharedPayer = FALSE
  BugNoRecheck = FALSE
  Depth = 16
INVARIANT Emit
CHECK_DEADLOCK FALSE
