SPECIFICATION Spec
CONSTANTS
  Req <- U3
  Dep0 <- D3
  Cap = 3
  Delta = 3
  MaxH = 4
  TopAmt = 3
  MaxAmt = 12
  BugSharedPayer = FALSE
  BugNoRecheck = FALSE
INVARIANTS AbsInv CacheExact InfoInv
PROPERTIES AbsStep
CHECK_DEADLOCK FALSE
