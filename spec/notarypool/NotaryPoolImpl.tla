--------------------------- MODULE NotaryPoolImpl ---------------------------
(***************************************************************************)
(* Implementation-shaped model of the notary request pool of the node:     *)
(*                                                                         *)
(*   Submit(r)  network.Server.RelayP2PNotaryRequest ->                    *)
(*              verifyAndPoolNotaryRequest -> bc.PoolTxWithData(fallback,  *)
(*              payload, notaryRequestPool, bc, verifyNotaryRequest):      *)
(*              verifyNotaryRequest (payload witness, main sender, deposit *)
(*              lock) ; verifyAndPoolTx with isPartialTx (expiry, on chain,*)
(*              NotValidBefore window, Conflicts(main) on chain) ;         *)
(*              mempool.Pool.Add (duplicate, deposit against the cached    *)
(*              fee sum of the depositor, sorted insertion, eviction).     *)
(*   Block(b)   a block is stored (its effects on deposits / chain) and    *)
(*              the callback the server registered with                    *)
(*              bc.RegisterPostBlock runs: notaryRequestPool.RemoveStale(  *)
(*              IsTxStillRelevant(t, blockPool, isPartialTx = true), bc)   *)
(*              - one pass in pool order with fresh deposits.              *)
(*                                                                         *)
(* Everything happens under bc.lock / mp.lock, so each is one action.      *)
(* The cache the pool trusts (mp.fees[Notary, depositor].feeSum) is an     *)
(* explicit variable.  TLC checks that every judged predicate of the       *)
(* abstract module NotaryPool, and the informational staleness rule, hold  *)
(* on this model.  Named deviations (non-vacuity of the model invariants): *)
(*   BugSharedPayer - the payer of a sponsored fallback is taken to be the *)
(*                    Notary contract alone (secondary signer ignored):    *)
(*                    one fee sum and one balance for all depositors       *)
(*   BugNoRecheck   - the post-block refresh does not re-check deposits    *)
(* With both FALSE the model follows the code.                             *)
(***************************************************************************)
EXTENDS Integers, Sequences, FiniteSets, SequencesExt, FiniteSetsExt, TLC

CONSTANTS Req,       \* sequence of request records [dep, main, cost, netfee, nvb, vub, kind]  (heights relative)
          Dep0,      \* depositor -> [amt, till] : the deposits made before the first step
          Cap,       \* P2PNotaryRequestPayloadPoolSize
          Delta,     \* MaxNotValidBeforeDelta
          MaxH,      \* blocks are produced while h < MaxH
          TopAmt,    \* amount of a top-up deposit
          MaxAmt,    \* top-ups are produced while the deposit is below MaxAmt
          BugSharedPayer, BugNoRecheck

VARIABLES h, amt, till, chF, chM, pool, feeSum, last
vars == <<h, amt, till, chF, chM, pool, feeSum, last>>

Abs == INSTANCE NotaryPool

N      == Len(Req)
RIds   == 1..N
Deps   == DOMAIN Dep0
Mains  == {Req[i].main : i \in RIds}
\* the table the abstract level talks about (all fallbacks have the same size: fee per byte ~ network fee)
T == [i \in RIds |-> [id |-> i, dep |-> Req[i].dep, cost |-> Req[i].cost, netfee |-> Req[i].netfee, fpb |-> Req[i].netfee,
                      high |-> FALSE, conf |-> {}, main |-> Req[i].main, nvb |-> Req[i].nvb, vub |-> Req[i].vub,
                      mainsender |-> IF Req[i].kind = "mainnotary" THEN "Notary" ELSE "X"]]
MainVub(m) == Req[CHOOSE i \in RIds : Req[i].main = m].vub

InPool(p, x) == x \in ToSet(p)
Cmp(a, b) == IF Abs!PrioLess(T[a], T[b]) THEN -1 ELSE IF Abs!PrioLess(T[b], T[a]) THEN 1 ELSE 0

\* 0-based insertion position (mem_pool.go: "equal to the last => append", else first strictly less prioritized)
InsPos(p, t) ==
    IF Len(p) = 0 THEN 0
    ELSE IF Cmp(t, p[Len(p)]) = 0 THEN Len(p)
    ELSE LET less == {i \in 1..Len(p) : Cmp(t, p[i]) > 0}
         IN  IF less = {} THEN Len(p) ELSE Min(less) - 1
InsAt(p, n, t) == SubSeq(p, 1, n) \o <<t>> \o SubSeq(p, n + 1, Len(p))

\* the payer key and what the Feer reports for it
Key(d)      == IF BugSharedPayer THEN "Notary" ELSE d
Keys        == IF BugSharedPayer THEN {"Notary"} ELSE Deps
SumAll(f)   == FoldSet(LAMBDA d, acc : acc + f[d], 0, Deps)
Bal(a, k)   == IF BugSharedPayer THEN SumAll(a) ELSE a[k]

Fail(r, e) == /\ last' = [op |-> "submit", req |-> r, bad |-> FALSE, ok |-> FALSE, err |-> e]
              /\ UNCHANGED <<h, amt, till, chF, chM, pool, feeSum>>

Submit(r, bad) ==
    LET q == Req[r]
        d == q.dep
        k == Key(d) IN
    IF bad THEN /\ last' = [op |-> "submit", req |-> r, bad |-> TRUE, ok |-> FALSE, err |-> "witness"]
                /\ UNCHANGED <<h, amt, till, chF, chM, pool, feeSum>>
    \* verifyNotaryRequest
    ELSE IF q.kind = "mainnotary" THEN Fail(r, "main-sender")
    ELSE IF q.vub >= till[d] THEN Fail(r, "deposit-unlocks")
    \* verifyAndPoolTx, isPartialTx
    ELSE IF q.vub <= h THEN Fail(r, "expired")
    ELSE IF r \in chF THEN Fail(r, "exists")
    ELSE IF h + Delta < q.nvb THEN Fail(r, "nvb-far")
    ELSE IF q.nvb + Delta < q.vub THEN Fail(r, "nvb-window")
    ELSE IF q.main \in chM THEN Fail(r, "main-onchain")
    \* Pool.Add
    ELSE IF InPool(pool, r) THEN Fail(r, "dup")
    ELSE IF Bal(amt, k) < q.cost THEN Fail(r, "insufficient")
    ELSE IF Bal(amt, k) < q.cost + feeSum[k] THEN Fail(r, "conflict-funds")
    ELSE
    LET n    == InsPos(pool, r)
        full == Len(pool) = Cap IN
    IF full /\ n = Len(pool) THEN Fail(r, "oom")
    ELSE
    LET unlucky == IF full THEN pool[Len(pool)] ELSE 0
        p1      == IF full THEN SubSeq(pool, 1, Len(pool) - 1) ELSE pool
        f1      == IF full THEN [feeSum EXCEPT ![Key(Req[unlucky].dep)] = @ - Req[unlucky].cost] ELSE feeSum IN
        /\ pool'   = InsAt(p1, n, r)
        /\ feeSum' = [f1 EXCEPT ![k] = @ + q.cost]
        /\ last'   = [op |-> "submit", req |-> r, bad |-> FALSE, ok |-> TRUE, err |-> ""]
        /\ UNCHANGED <<h, amt, till, chF, chM>>

\* RemoveStale: one pass in pool order, fee sums rebuilt against the deposits after the block
RECURSIVE Sweep(_, _, _, _, _, _, _)
Sweep(rest, nh, na, nF, nM, bF, acc) ==
    IF rest = <<>> THEN acc
    ELSE LET x  == Head(rest)
             k  == Key(Req[x].dep)
             ok == /\ Req[x].vub > nh                              \* IsTxStillRelevant: not expired
                   /\ x \notin bF /\ Req[x].main \notin nM         \* not in the block, Conflicts(main) not on chain
                   /\ (BugNoRecheck \/ (Bal(na, k) >= Req[x].cost /\ Bal(na, k) >= Req[x].cost + acc.sum[k]))
         IN  Sweep(Tail(rest), nh, na, nF, nM, bF,
                   IF ok THEN [pool |-> Append(acc.pool, x), sum |-> [acc.sum EXCEPT ![k] = @ + Req[x].cost]] ELSE acc)

Block(kind, arg, na, nt, nF, nM) ==
    LET r == Sweep(pool, h + 1, na, nF, nM, nF \ chF, [pool |-> <<>>, sum |-> [k \in Keys |-> 0]]) IN
    /\ h < MaxH
    /\ h' = h + 1 /\ amt' = na /\ till' = nt /\ chF' = nF /\ chM' = nM
    /\ pool' = r.pool /\ feeSum' = r.sum
    /\ last' = [op |-> "block", kind |-> kind, arg |-> arg]

Empty == Block("empty", 0, amt, till, chF, chM)

\* the completed fallback of request r (signed by the notary node) is included in the next block
FallbackOnChain(r) ==
    LET q == Req[r]
        d == q.dep
        left == amt[d] - q.cost IN
    /\ q.kind = "ok" /\ r \notin chF /\ q.vub > h /\ q.nvb <= h /\ q.main \notin chM /\ amt[d] >= q.cost
    /\ Block("fallback", r, [amt EXCEPT ![d] = left], [till EXCEPT ![d] = IF left = 0 THEN 0 ELSE @], chF \cup {r}, chM)

\* the completed main transaction m is included (refused by the chain once a fallback naming it is there)
MainOnChain(m) ==
    /\ m \notin chM /\ MainVub(m) > h
    /\ \A i \in RIds : Req[i].main = m => (i \notin chF /\ Req[i].kind = "ok")
    /\ Block("main", m, amt, till, chF, chM \cup {m})

TopUp(d) ==
    /\ amt[d] < MaxAmt
    /\ Block("topup", d, [amt EXCEPT ![d] = @ + TopAmt], [till EXCEPT ![d] = Max({@, h + 3})], chF, chM)

Withdraw(d) ==
    /\ amt[d] > 0 /\ h >= till[d]
    /\ Block("withdraw", d, [amt EXCEPT ![d] = 0], [till EXCEPT ![d] = 0], chF, chM)

Init ==
    /\ h = 0
    /\ amt = [d \in Deps |-> Dep0[d].amt]
    /\ till = [d \in Deps |-> IF Dep0[d].amt = 0 THEN 0 ELSE Dep0[d].till]
    /\ chF = {} /\ chM = {}
    /\ pool = <<>>
    /\ feeSum = [k \in Keys |-> 0]
    /\ last = [op |-> "init"]

Next ==
    \/ \E r \in RIds : Submit(r, FALSE)
    \/ Submit(1, TRUE)                      \* a damaged payload witness is refused before the request is looked at
    \/ Empty
    \/ \E r \in RIds : FallbackOnChain(r)
    \/ \E m \in Mains : MainOnChain(m)
    \/ \E d \in Deps : TopUp(d)
    \/ \E d \in Deps : Withdraw(d)

Spec == Init /\ [][Next]_vars

----------------------------------------------------------------------------
\* Impl => Abstract (judged part)
AbsInv == Abs!PoolInv(T, pool, amt, Cap)

\* the cache the code trusts is exact
CacheExact == BugSharedPayer \/ \A d \in Deps : feeSum[d] = Abs!CostOf(T, Abs!PaidBy(T, pool, d))

\* informational part of the abstract module holds on the model as well
InfoInv ==
    /\ Abs!StaleGone(T, pool, h, chF, chM)
    /\ Abs!DepositLocked(T, pool, till)

AbsStep ==
    [][ /\ (last'.op = "submit" /\ ~last'.ok) => Abs!SubmitFailOK(pool, pool')
        /\ (last'.op = "submit" /\ last'.ok)  => /\ Abs!SubmitOKCond(T, last'.req, pool, pool', Cap)
                                                 /\ Abs!AdmitValid(T, last'.req, h, chF, chM, till, Delta)
        /\ last'.op = "block" => Abs!RefreshOnlyRemoves(pool, pool')
        /\ Abs!OrderKept(pool, pool') ]_vars
=============================================================================
