SPECIFICATION Spec
CONSTANTS
  Req <- U1
  Dep0 <- D1
  Cap = 3
  Delta = 3
  MaxH = 4
  TopAmt = 3
  MaxAmt = 9
  BugSharedPayer = FALSE
  BugNoRecheck = FALSE
INVARIANTS AbsInv CacheExact InfoInv
PROPERTIES AbsStep
CHECK_DEADLOCK FALSE
