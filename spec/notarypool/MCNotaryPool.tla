---------------------------- MODULE MCNotaryPool ----------------------------
(* Universes for the exhaustive runs of NotaryPoolImpl.  Units: fees and deposits in model units (the harness
   realises one unit as 0.1 GAS); heights relative to the block that makes the initial deposits. *)
EXTENDS NotaryPoolImpl

R(dep, main, cost, netfee, nvb, vub, kind) ==
    [dep |-> dep, main |-> main, cost |-> cost, netfee |-> netfee, nvb |-> nvb, vub |-> vub, kind |-> kind]
D(a, t) == [amt |-> a, till |-> t]

\* (i) two depositors near their deposits, two requests sharing one main transaction, capacity 3
U1 == << R("A", 1, 4, 3, 1, 4, "ok"),
         R("A", 2, 5, 4, 1, 4, "ok"),
         R("B", 1, 3, 3, 1, 4, "ok"),
         R("B", 3, 4, 2, 2, 5, "ok"),
         R("A", 3, 3, 2, 2, 5, "ok") >>
D1 == [A |-> D(8, 6), B |-> D(6, 7)]

\* (ii) capacity 2 (eviction), a depositor without deposit, a NotValidBefore too far ahead, a main sent by Notary
U2 == << R("A", 1, 3, 2, 0, 3, "ok"),
         R("B", 2, 4, 3, 1, 3, "ok"),
         R("A", 3, 5, 4, 1, 4, "ok"),
         R("C", 4, 3, 3, 0, 3, "ok"),
         R("B", 5, 3, 3, 5, 6, "ok"),
         R("A", 6, 2, 2, 0, 2, "mainnotary") >>
D2 == [A |-> D(9, 5), B |-> D(7, 7), C |-> D(0, 0)]

\* (iii) one small and one large deposit (the shared-payer deviation needs it), expiry of the lock, withdrawal
U3 == << R("A", 1, 3, 3, 0, 2, "ok"),
         R("B", 2, 6, 4, 0, 3, "ok"),
         R("A", 3, 2, 2, 1, 2, "ok"),
         R("B", 4, 5, 3, 1, 4, "ok"),
         R("A", 5, 4, 4, 2, 4, "ok") >>
D3 == [A |-> D(4, 3), B |-> D(12, 5)]
=============================================================================
