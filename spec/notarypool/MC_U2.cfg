SPECIFICATION Spec
CONSTANTS
  Req <- U2
  Dep0 <- D2
  Cap = 2
  Delta = 3
  MaxH = 6
  TopAmt = 4
  MaxAmt = 8
  BugSharedPayer = FALSE
  BugNoRecheck = FALSE
INVARIANTS AbsInv CacheExact InfoInv
PROPERTIES AbsStep
CHECK_DEADLOCK FALSE
