SPECIFICATION Spec
CONSTANTS
  Signers = {1, 2}
  Hashes = {1, 2, 3}
  MaxAttrs = 2
  CandAttrs = 1
  MaxBlocks = 5
  MaxTxPerBlock = 2
  MaxTxTotal = 3
  Window = 2
  GCLag = 1
  CheckStay = TRUE
  Deviation = "none"
  GCMode = "trimmed"
INVARIANTS InvAnswers InvStay InvProp
CHECK_DEADLOCK FALSE
