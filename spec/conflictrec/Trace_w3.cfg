SPECIFICATION TraceSpec
CONSTANTS
  Window = 3
  Deviation = "none"
  GCMode = "trimmed"
POSTCONDITION TraceAccepted
CHECK_DEADLOCK FALSE
