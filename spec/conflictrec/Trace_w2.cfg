SPECIFICATION TraceSpec
CONSTANTS
  Window = 2
  Deviation = "none"
  GCMode = "trimmed"
POSTCONDITION TraceAccepted
CHECK_DEADLOCK FALSE
