-------------------------- MODULE ConflictRecImpl --------------------------
(***************************************************************************)
(* C07 extension "conflictrec" - IMPLEMENTATION-SHAPED level.              *)
(*                                                                         *)
(* The on-chain conflict record store as the code maintains it, one        *)
(* operator per critical section:                                          *)
(*   StoreTx / StoreBlock   dao.Simple.StoreAsTransaction (dao.go:949-993) *)
(*                          called by Blockchain.storeBlock per tx         *)
(*   HasTx                  dao.Simple.HasTransaction (dao.go:791-834)     *)
(*   Answer                 Blockchain.verifyAndPoolTx: HasTransaction on  *)
(*                          the hash with the signers, then the Conflicts  *)
(*                          attribute rule of verifyTxAttributes           *)
(*                          (HasTransaction(h, nil, 0, 0) = exists)        *)
(*   DeleteBlock            dao.Simple.DeleteBlock (dao.go:861-908) as     *)
(*                          run by removeUntraceableBlocks, INCLUDING its  *)
(*                          early return on a missing record (the rest of  *)
(*                          the block's records then stay behind); see     *)
(*                          GCMode below                                   *)
(*   Keeps                  mempool.Pool.HasConflicts as used by           *)
(*                          IsTxStillRelevant / RemoveStale after a block  *)
(* Store (record st):                                                      *)
(*   st.kv[h]      the cell under key ExecTransaction|h: none, a conflict  *)
(*                 stub [k |-> "stub", i |-> newest naming block] or a     *)
(*                 full transaction [k |-> "tx", i |-> its block]          *)
(*                 (ONE key: a stub and a transaction overwrite each other)*)
(*   st.rec[<<h, s>>]  block index of the newest 'h|signer' record, 0=none *)
(* TLC checks on this level, exhaustively within the constants of the      *)
(* MC_*.cfg files, that the answers of the record store satisfy the        *)
(* abstract predicates of ConflictRec in every reachable state and for     *)
(* EVERY candidate transaction (Admit is a read-only action, hence an      *)
(* invariant over all candidates), and that each NAMED DEVIATION breaks    *)
(* them (non-vacuity).  The same operators predict the answers and the     *)
(* records of the real node in ConflictRecTrace (drift only).              *)
(***************************************************************************)
EXTENDS ConflictRec, SequencesExt, TLC

CONSTANTS Deviation, GCMode
\* GCMode: what DeleteBlock knows about the transactions of the block it removes.
\*   "trimmed"  the code as it is: the block it iterates comes from dao.getBlock, which returns a TRIMMED block (hashes
\*              only: no attributes, no signers), so the transaction cells are removed and nothing else - conflict
\*              records stay behind for ever (confirmed on the real dao and node: zero drift against this reading)
\*   "strict"   the text of DeleteBlock taken literally (as if the transactions were complete): records of the removed
\*              block are removed, and the function RETURNS at the first record it does not find (two transactions of
\*              one block naming the same hash are enough), leaving the rest of the block's cells behind
\*   "lenient"  candidate repair: complete transactions, a record that is not there is skipped
\* All three are model checked against the same abstract invariants.
None == [k |-> "none", i |-> 0]

EmptyStore(hs, sgs) == [kv |-> [h \in hs |-> None], rec |-> [p \in hs \X sgs |-> 0]]

----------------------------------------------------------------------------
(* StoreAsTransaction *)
RECURSIVE PutSigners(_, _, _, _, _)
PutSigners(rec, x, sg, k, idx) ==
    IF k > Len(sg) THEN rec
    ELSE LET p == <<x, sg[k]>>
             keepOld == Deviation = "SignerRecordNotRefreshed" /\ rec[p] # 0
         IN PutSigners(IF keepOld THEN rec ELSE [rec EXCEPT ![p] = idx], x, sg, k + 1, idx)

RECURSIVE PutConf(_, _, _, _)
PutConf(st, t, j, idx) ==
    IF j > Len(t.conf) THEN st
    ELSE LET x == t.conf[j]
             withSigners == ~(Deviation = "SignerRecordsFirstAttrOnly" /\ j > 1)
         IN PutConf([kv  |-> [st.kv EXCEPT ![x] = [k |-> "stub", i |-> idx]],
                     rec |-> IF withSigners THEN PutSigners(st.rec, x, t.sg, 1, idx) ELSE st.rec],
                    t, j + 1, idx)

StoreTx(st, t, idx) == PutConf([st EXCEPT !.kv[t.id] = [k |-> "tx", i |-> idx]], t, 1, idx)

RECURSIVE StoreBlockFrom(_, _, _, _)
StoreBlockFrom(st, b, k, idx) == IF k > Len(b) THEN st ELSE StoreBlockFrom(StoreTx(st, b[k], idx), b, k + 1, idx)
StoreBlock(st, b, idx) == StoreBlockFrom(st, b, 1, idx)

----------------------------------------------------------------------------
(* HasTransaction(hash, signers, height, W): "ok" | "exists" | "conflicts" *)
HasTx(st, id, sgs, h) ==
    LET v == st.kv[id] IN
    IF v.k = "none" THEN "ok"
    ELSE IF v.k = "tx" THEN "exists"
    ELSE IF sgs = {} THEN "conflicts"
    ELSE IF ~Traceable(v.i, h) THEN "ok"
    ELSE IF Deviation = "StubWithoutSignerCheck" THEN "conflicts"
    ELSE IF \E s \in sgs : st.rec[<<id, s>>] # 0 /\ Traceable(st.rec[<<id, s>>], h) THEN "conflicts"
    ELSE "ok"

\* verifyAndPoolTx as far as the record store is concerned (everything else about c is valid)
Answer(st, c, h) ==
    LET a == HasTx(st, c.id, SgSet(c), h) IN
    IF a # "ok" THEN a
    ELSE IF \E x \in ConfSet(c) : st.kv[x].k = "tx" THEN "attr"
    ELSE "ok"

----------------------------------------------------------------------------
(* DeleteBlock: sequential, returns at the first missing record.  ds = [kv, rec, err] *)
RECURSIVE DelSigners(_, _, _, _, _)
DelSigners(ds, x, sg, k, i) ==
    IF ds.err \/ k > Len(sg) THEN ds
    ELSE LET p == <<x, sg[k]>> IN
         IF ds.rec[p] = 0 /\ GCMode = "strict" THEN [ds EXCEPT !.err = TRUE]
         ELSE DelSigners(IF ds.rec[p] # 0 /\ (ds.rec[p] = i \/ Deviation = "GCDropsNewerRecord") THEN [ds EXCEPT !.rec[p] = 0] ELSE ds,
                         x, sg, k + 1, i)

RECURSIVE DelConf(_, _, _, _)
DelConf(ds, t, j, i) ==
    IF ds.err \/ j > Len(t.conf) THEN ds
    ELSE LET x == t.conf[j]
             v == ds.kv[x]
         IN IF v.k = "none" /\ GCMode = "strict" THEN [ds EXCEPT !.err = TRUE]
            ELSE LET d1 == IF v.k # "none" /\ (GCMode = "lenient" => v.k = "stub") /\ (v.i = i \/ Deviation = "GCDropsNewerRecord") THEN [ds EXCEPT !.kv[x] = None] ELSE ds
                 IN DelConf(DelSigners(d1, x, t.sg, 1, i), t, j + 1, i)

RECURSIVE DelTxs(_, _, _, _)
DelTxs(ds, b, k, i) ==
    IF ds.err \/ k > Len(b) THEN ds
    ELSE LET d1 == [ds EXCEPT !.kv[b[k].id] = None]
         IN DelTxs(IF GCMode # "trimmed" THEN DelConf(d1, b[k], 1, i) ELSE d1, b, k + 1, i)

DeleteBlock(st, b, i) == DelTxs([kv |-> st.kv, rec |-> st.rec, err |-> FALSE], b, 1, i)

----------------------------------------------------------------------------
(* what RemoveStale keeps in the pool after block b (block verification on: the block's own scratch pool is consulted) *)
Keeps(b, c) ==
    IF Deviation = "StaleKeepsNamed" THEN ~BlockHas(b, c.id)
    ELSE ~BlockHas(b, c.id) /\ ~BlockNamesAny(b, c.id) /\ \A x \in ConfSet(c) : ~BlockHas(b, x)

\* a block the node accepts (AddBlock with VerifyTransactions): every transaction passes verifyAndPoolTx against the
\* chain, none is, names or is named by another one of the block
InBlockClash(b) == \E k1, k2 \in DOMAIN b : k1 # k2 /\ (b[k1].id = b[k2].id \/ b[k2].id \in ConfSet(b[k1]))
NodeAccepts(st, b, h) == ~InBlockClash(b) /\ \A k \in DOMAIN b : Answer(st, b[k], h) = "ok"

============================================================================
