SPECIFICATION Spec
CONSTANTS
  Signers = {1, 2}
  Hashes = {1, 2, 3}
  MaxAttrs = 2
  CandAttrs = 1
  MaxBlocks = 4
  MaxTxPerBlock = 2
  MaxTxTotal = 2
  Window = 2
  GCLag = 0
  CheckStay = TRUE
  Deviation = "SignerRecordsFirstAttrOnly"
  GCMode = "strict"
INVARIANTS InvSound InvAdmits InvStay InvProp
CHECK_DEADLOCK FALSE
