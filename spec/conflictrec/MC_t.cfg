SPECIFICATION Spec
CONSTANTS
  Signers = {1, 2, 3}
  Hashes = {1, 2, 3, 4}
  MaxAttrs = 3
  CandAttrs = 1
  MaxBlocks = 4
  MaxTxPerBlock = 2
  MaxTxTotal = 2
  Window = 2
  GCLag = 0
  CheckStay = FALSE
  Deviation = "none"
  GCMode = "strict"
INVARIANTS InvAnswers InvStay InvProp
CHECK_DEADLOCK FALSE
