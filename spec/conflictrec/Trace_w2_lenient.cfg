SPECIFICATION TraceSpec
CONSTANTS
  Window = 2
  Deviation = "none"
  GCMode = "lenient"
POSTCONDITION TraceAccepted
CHECK_DEADLOCK FALSE
