---------------------------- MODULE ConflictRec ----------------------------
(***************************************************************************)
(* C07 extension "conflictrec" - ABSTRACT level (the judge).               *)
(*                                                                         *)
(* Clauses of the C07 statement this module formalises (quoted):           *)
(*  (a) "A transaction enters the memory pool only if it is ... neither on *)
(*      chain nor named as a conflict by an on-chain transaction of one of *)
(*      its signers, satisfies policy and attribute rules ..."             *)
(*  (b) "... the network fee given by the fee calculator is exactly the    *)
(*      acceptance threshold (accepted with it ...)": a transaction that   *)
(*      is valid in every respect and pays the calculator's fee IS         *)
(*      admitted - in particular one that is named only by on-chain        *)
(*      transactions that share no signer with it.                         *)
(*  (c) "Any transactions taken from the memory pool in pool order and     *)
(*      packed into a block under the block limits form a block that,      *)
(*      after being serialised and parsed again the way peers receive it,  *)
(*      is accepted by the ledger."                                        *)
(*                                                                         *)
(* The registered C07 check sees the on-chain side of (a) as one cell of a *)
(* prepared chain.  Here the CHAIN ITSELF is the state: a sequence of      *)
(* blocks of transactions, each transaction being                          *)
(*      [id      its hash (a small integer),                               *)
(*       sg      its signers, a duplicate-free sequence (set SgSet),       *)
(*       conf    the hashes named by its Conflicts attributes, in          *)
(*               attribute order (a transaction carries several of them,   *)
(*               several transactions may name the same hash)].            *)
(* Nothing is derived: the verdict for an offered transaction c is         *)
(* computed from the chain.  "On chain" is read with the ledger's          *)
(* traceability window W (MaxTraceableBlocks): block i is traceable at     *)
(* height h iff i <= h /\ i + W > h.  What lies outside the window is left *)
(* OPEN (a node that collects untraceable blocks has forgotten it, a node  *)
(* that keeps them has not; the statement does not choose), so the verdict *)
(* has three values:                                                       *)
(*   "reject"  c is in a traceable block, or a transaction of a traceable  *)
(*             block names c.id in ANY of its Conflicts attributes and     *)
(*             shares a signer with c, or c itself names a transaction of  *)
(*             a traceable block (attribute rule of Conflicts)       - (a) *)
(*   "accept"  nothing on the whole chain (traceable or not) is c, names c *)
(*             with a common signer, or is named by c; the harness offers  *)
(*             only transactions valid in all other respects         - (b) *)
(*   "open"    everything else.                                            *)
(* Predicates judged on observations of real nodes:                        *)
(*   Sound       verdict "reject"  =>  not pooled                          *)
(*   Admits      verdict "accept"  =>  pooled (fresh, empty pool)          *)
(*   Proposable  a block formed from a node's pool is accepted by every    *)
(*               node (c)                                                  *)
(* and on the model level (ConflictRecImpl): the same with the answers of  *)
(* the record store in place of the observations, plus                     *)
(*   StaysProposable  what a pool keeps after a block is never "reject".   *)
(***************************************************************************)
EXTENDS Integers, Sequences, FiniteSets

CONSTANT Window           \* traceability window W >= 1

SeqSet(s)  == {s[i] : i \in DOMAIN s}
SgSet(t)   == SeqSet(t.sg)
ConfSet(t) == SeqSet(t.conf)

\* a chain is a sequence of blocks, a block a sequence of transactions; block i of the model is the block of
\* real index base + i; height = Len(chain)
Traceable(i, h) == i <= h /\ i + Window > h

BlockHas(b, id)        == \E k \in DOMAIN b : b[k].id = id
BlockNamesAny(b, id)   == \E k \in DOMAIN b : id \in ConfSet(b[k])

TxsAt(chain, I) == UNION {SeqSet(chain[i]) : i \in I}
TraceIdx(chain) == {i \in DOMAIN chain : Traceable(i, Len(chain))}
Ids(T)    == {t.id : t \in T}
Naming(T) == UNION {ConfSet(t) \X SgSet(t) : t \in T}      \* pairs <<named hash, signer of the naming transaction>>

\* everything the verdict needs to know about a chain: what is on chain / named, inside the window (T) and at all (A)
View(chain) ==
    [dupT |-> Ids(TxsAt(chain, TraceIdx(chain))),   namT |-> Naming(TxsAt(chain, TraceIdx(chain))),
     dupA |-> Ids(TxsAt(chain, DOMAIN chain)),      namA |-> Naming(TxsAt(chain, DOMAIN chain))]

\* the three grounds of clause (a), each with the name the trace judge reports
IsDupV(v, c)      == c.id \in v.dupT
IsConflictV(v, c) == \E s \in SgSet(c) : <<c.id, s>> \in v.namT
IsBadAttrV(v, c)  == ConfSet(c) \cap v.dupT # {}

RejectV(v, c) == IsDupV(v, c) \/ IsConflictV(v, c) \/ IsBadAttrV(v, c)
AcceptV(v, c) == /\ c.id \notin v.dupA
                 /\ \A s \in SgSet(c) : <<c.id, s>> \notin v.namA
                 /\ ConfSet(c) \cap v.dupA = {}
VerdictV(v, c) == IF RejectV(v, c) THEN "reject" ELSE IF AcceptV(v, c) THEN "accept" ELSE "open"

MustReject(chain, c) == RejectV(View(chain), c)
MustAccept(chain, c) == AcceptV(View(chain), c)
Verdict(chain, c)    == VerdictV(View(chain), c)

\* observation o = [pooled |-> BOOLEAN] of one node for one offered transaction
Sound(chain, c, pooled)  == MustReject(chain, c) => ~pooled
Admits(chain, c, pooled) == MustAccept(chain, c) => pooled

\* a proposal: accepted = the set of answers of the nodes that received the wire block
Proposable(answers) == \A a \in answers : a
=============================================================================
