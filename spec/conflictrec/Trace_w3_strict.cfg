SPECIFICATION TraceSpec
CONSTANTS
  Window = 3
  Deviation = "none"
  GCMode = "strict"
POSTCONDITION TraceAccepted
CHECK_DEADLOCK FALSE
