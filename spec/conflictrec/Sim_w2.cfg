SPECIFICATION SimSpec
CONSTANTS
  Window = 2
  NH = 5
  NS = 3
  NJ = 2
  Depth = 14
  GCLag = 0
  Deviation = "none"
  GCMode = "trimmed"
INVARIANT Emit
CHECK_DEADLOCK FALSE
