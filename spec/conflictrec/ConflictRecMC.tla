--------------------------- MODULE ConflictRecMC ---------------------------
(***************************************************************************)
(* C07 extension "conflictrec" - the state machine checked exhaustively.   *)
(*                                                                         *)
(* State: the abstract chain (sequence of blocks of transactions; never    *)
(* forgotten - it is what the verdicts of ConflictRec are computed from)   *)
(* next to the record store of a node that collects untraceable blocks     *)
(* (RemoveUntraceableBlocks) as ConflictRecImpl maintains it.              *)
(* Actions:                                                                *)
(*   AddBlock(b) / ProposeAndAccept     a block the node accepts (every    *)
(*              block a pool can yield is one of them) is stored           *)
(*   GC         DeleteBlock of the oldest stored block once untraceable    *)
(*              (GCLag blocks later), in the reading GCMode of the code    *)
(*   Restart    the in-memory GC cursor is lost, the store is not          *)
(*   Admit(c)   read-only: checked as INVARIANTS over every candidate c    *)
(*              that can exist next to the chain (a candidate whose hash   *)
(*              is on chain IS that transaction):                          *)
(*       InvSound    verdict reject  =>  Answer # ok                       *)
(*       InvAdmits   verdict accept  =>  Answer = ok                       *)
(*   after a block (flags computed in AddBlock, constant CheckStay):       *)
(*       InvStay     what RemoveStale keeps is not "reject" afterwards     *)
(*       InvProp     what RemoveStale keeps the node itself still accepts  *)
(* Bounds (MC_*.cfg): signers, hashes, Conflicts attributes per            *)
(* transaction, blocks, transactions per block and in total, window.       *)
(* Orders: signers of a transaction and transactions of a block are        *)
(* generated in ascending order only (the order matters only for WHICH     *)
(* records stay behind when DeleteBlock returns early).                    *)
(***************************************************************************)
EXTENDS ConflictRecImpl

CONSTANTS Signers, Hashes,      \* sets of small integers
          MaxAttrs,             \* Conflicts attributes per on-chain transaction
          CandAttrs,            \* Conflicts attributes per candidate that is not on chain
          MaxBlocks, MaxTxPerBlock, MaxTxTotal,
          CheckStay,            \* evaluate the after-block flags (costly)
          GCLag                 \* blocks a collector stays behind the window (the code: 1)

VARIABLES chain, st, stored, gcLast, gcErrs, stayok, propok
vars == <<chain, st, stored, gcLast, gcErrs, stayok, propok>>

Asc(S) == SetToSortSeq(S, LAMBDA a, b : a < b)
SgSeqs == {Asc(S) : S \in SUBSET Signers \ {{}}}

ListsUpTo(n) ==
    {<<>>}
    \cup (IF n >= 1 THEN {<<a>> : a \in Hashes} ELSE {})
    \cup (IF n >= 2 THEN {<<a, b>> : <<a, b>> \in {p \in Hashes \X Hashes : p[1] # p[2]}} ELSE {})
    \cup (IF n >= 3 THEN {<<p[1], p[2], p[3]>> : p \in {q \in Hashes \X Hashes \X Hashes : q[1] # q[2] /\ q[1] # q[3] /\ q[2] # q[3]}} ELSE {})

Shapes(n) == {t \in [id : Hashes, sg : SgSeqs, conf : ListsUpTo(n)] : t.id \notin SeqSet(t.conf)}
TxShapes   == Shapes(MaxAttrs)
CandShapes == Shapes(CandAttrs)

OnChainTxs(ch) == UNION {SeqSet(ch[i]) : i \in DOMAIN ch}
OnChainIds(ch) == {t.id : t \in OnChainTxs(ch)}
Cand(ch) == OnChainTxs(ch) \cup {c \in CandShapes : c.id \notin OnChainIds(ch)}

\* a transaction that may be put into the next block: a fresh hash with any content, or a transaction that already is
\* on chain (the same content: a hash has one preimage)
Blockable(ch) == OnChainTxs(ch) \cup {t \in TxShapes : t.id \notin OnChainIds(ch)}

Clash2(t1, t2) == t1.id = t2.id \/ t2.id \in ConfSet(t1) \/ t1.id \in ConfSet(t2)

\* the blocks the node accepts now, built from the transactions it accepts one by one (room = transactions left)
OkBlocks(ok, room) ==
    {<<>>}
    \cup (IF room >= 1 THEN {<<t>> : t \in ok} ELSE {})
    \cup (IF room >= 2 /\ MaxTxPerBlock >= 2
          THEN {<<p[1], p[2]>> : p \in {q \in ok \X ok : q[1].id < q[2].id /\ ~Clash2(q[1], q[2])}} ELSE {})

Init == /\ chain = <<>>
        /\ st = EmptyStore(Hashes, Signers)
        /\ stored = {}
        /\ gcLast = 0
        /\ gcErrs = 0
        /\ stayok = TRUE
        /\ propok = TRUE

AddBlock(b) ==
    LET h == Len(chain) IN
    /\ chain' = Append(chain, b)
    /\ st' = StoreBlock(st, b, h + 1)
    /\ stored' = stored \cup {h + 1}
    /\ IF ~CheckStay THEN stayok' = TRUE /\ propok' = TRUE
       ELSE \E cs \in {Cand(chain)}, v0 \in {View(chain)}, v1 \in {View(Append(chain, b))} :
            /\ stayok' = \A c \in cs : (~RejectV(v0, c) /\ Keeps(b, c)) => ~RejectV(v1, c)
            /\ propok' = \A c \in cs : (Answer(st, c, h) = "ok" /\ Keeps(b, c)) => Answer(st', c, h + 1) = "ok"
    /\ UNCHANGED <<gcLast, gcErrs>>

\* the enabling condition (NodeAccepts) is built into the choice of b
AddSomeBlock ==
    /\ Len(chain) < MaxBlocks
    /\ \E room \in {MaxTxTotal - Cardinality(OnChainTxs(chain))} :
       \E ok \in {{t \in Blockable(chain) : Answer(st, t, Len(chain)) = "ok"}} :
       \E b \in OkBlocks(ok, room) : AddBlock(b)

\* every block formed from pool contents is a block the node accepts: the same action under the name of the statement
ProposeAndAccept == AddSomeBlock

GC ==
    LET i == gcLast + 1 IN
    /\ i + Window + GCLag <= Len(chain)
    /\ gcLast' = i
    /\ IF i \in stored
       THEN LET ds == DeleteBlock(st, chain[i], i) IN
            /\ st' = [kv |-> ds.kv, rec |-> ds.rec]
            /\ gcErrs' = IF ds.err /\ gcErrs < 1 THEN gcErrs + 1 ELSE gcErrs
            /\ stored' = stored \ {i}
       ELSE UNCHANGED <<st, gcErrs, stored>>
    /\ UNCHANGED <<chain, stayok, propok>>

Restart == /\ gcLast # 0
           /\ gcLast' = 0
           /\ UNCHANGED <<chain, st, stored, gcErrs, stayok, propok>>

Next == AddSomeBlock \/ GC \/ Restart

Spec == Init /\ [][Next]_vars

----------------------------------------------------------------------------
\* (the view of the chain is bound once per state: MustReject(chain, c) = RejectV(View(chain), c) by definition)
InvSound  == \E v \in {View(chain)} : \A c \in Cand(chain) : RejectV(v, c) => Answer(st, c, Len(chain)) # "ok"
InvAdmits == \E v \in {View(chain)} : \A c \in Cand(chain) : AcceptV(v, c) => Answer(st, c, Len(chain)) = "ok"
\* both at once (one pass over the candidates; used by the large configurations)
InvAnswers == \E v \in {View(chain)} : \A c \in Cand(chain) :
                 LET a == Answer(st, c, Len(chain)) IN (RejectV(v, c) => a # "ok") /\ (AcceptV(v, c) => a = "ok")
InvStay   == stayok
InvProp   == propok
\* information: in GCMode "strict" DeleteBlock returns early (two transactions of one block naming the same hash)
NoGCError == gcErrs = 0
=============================================================================
