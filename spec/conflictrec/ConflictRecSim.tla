--------------------------- MODULE ConflictRecSim ---------------------------
(***************************************************************************)
(* C07 extension "conflictrec" - BEHAVIOUR GENERATOR (tlc -simulate).      *)
(*                                                                         *)
(* ConflictRecImpl plus a pool, a universe of NH transactions drawn from a *)
(* pseudo-random state (every behaviour has its own universe), and a       *)
(* history variable printed as JSON when Depth operations were made.       *)
(* A transaction can only name hashes that exist before it does: ids lower *)
(* than its own, or "junk" ids NH+1.. that belong to no transaction.       *)
(* Operations (what the drivers replay on real code):                      *)
(*   ext     a block made elsewhere out of universe transactions the node  *)
(*           accepts (1..3 of them; they may sit in the node's pool too)   *)
(*   empty   an empty block (moves the window)                             *)
(*   offer   a transaction the node accepts is put into the node's pool    *)
(*           (only when it does not clash with what the pool holds: the    *)
(*           pool's own replacement rule is property C08's subject)        *)
(*   propose the node makes a block of its whole pool                      *)
(*   gc      DeleteBlock of the oldest stored block, once untraceable      *)
(*   restart the node is stopped and reopened on its database (pool lost)  *)
(* The drivers sweep ALL universe transactions after every operation that  *)
(* changes the chain or the store (Admit is not an operation here).        *)
(***************************************************************************)
EXTENDS ConflictRecImpl, Json

CONSTANTS NH, NS, NJ,     \* universe transactions, signers, junk hashes
          Depth, GCLag

VARIABLES U, chain, st, stored, gcLast, pool, hist, rng
vars == <<U, chain, st, stored, gcLast, pool, hist, rng>>

Lehmer(x) == (x * 75) % 65537
Pow2(n) == IF n = 0 THEN 1 ELSE IF n = 1 THEN 2 ELSE IF n = 2 THEN 4 ELSE IF n = 3 THEN 8 ELSE 16

\* ascending sequence of the signers whose bit is set in m
MaskSeq(m) == SelectSeq([i \in 1..NS |-> i], LAMBDA i : (m \div Pow2(i - 1)) % 2 = 1)

\* n distinct elements of the ascending sequence s, drawn one after another; returns [l, x]
RECURSIVE Draw(_, _, _, _)
Draw(s, n, acc, x) ==
    IF n = 0 \/ s = <<>> THEN [l |-> acc, x |-> x]
    ELSE LET x1 == Lehmer(x)
             k == (x1 % Len(s)) + 1
         IN Draw(SubSeq(s, 1, k - 1) \o SubSeq(s, k + 1, Len(s)), n - 1, Append(acc, s[k]), x1)

\* transaction k of the universe: [t, x]
GenTx(k, x) ==
    LET x1 == Lehmer(x)
        sg == MaskSeq((x1 % (Pow2(NS) - 1)) + 1)
        x2 == Lehmer(x1)
        r  == x2 % 8
        n  == IF r <= 1 THEN 0 ELSE IF r <= 4 THEN 1 ELSE IF r <= 6 THEN 2 ELSE 3
        av == [i \in 1..(k - 1) |-> i] \o [i \in 1..NJ |-> NH + i]
        d  == Draw(av, n, <<>>, x2)
    IN [t |-> [id |-> k, sg |-> sg, conf |-> d.l], x |-> d.x]

RECURSIVE GenU(_, _, _)
GenU(k, acc, x) == IF k > NH THEN [u |-> acc, x |-> x]
                   ELSE LET g == GenTx(k, x) IN GenU(k + 1, Append(acc, g.t), g.x)

AllHashes == 1..(NH + NJ)

Init == /\ rng \in 1..2048
        /\ U = GenU(1, <<>>, rng).u
        /\ chain = <<>>
        /\ st = EmptyStore(AllHashes, 1..NS)
        /\ stored = {}
        /\ gcLast = 0
        /\ pool = {}
        /\ hist = << [op |-> "init", u |-> U, w |-> Window, nh |-> NH, nj |-> NJ, ns |-> NS] >>

OnChainIds == {t.id : t \in TxsAt(chain, DOMAIN chain)}
Clash2(t1, t2) == t1.id = t2.id \/ t2.id \in ConfSet(t1) \/ t1.id \in ConfSet(t2)
OkIds == {k \in 1..NH : k \notin OnChainIds /\ Answer(st, U[k], Len(chain)) = "ok"}

IdBlocks(ok) ==
    {<<a>> : a \in ok}
    \cup {<<p[1], p[2]>> : p \in {q \in ok \X ok : q[1] < q[2] /\ ~Clash2(U[q[1]], U[q[2]])}}
    \cup {<<p[1], p[2], p[3]>> : p \in {q \in ok \X ok \X ok : /\ q[1] < q[2] /\ q[2] < q[3]
                                                               /\ ~Clash2(U[q[1]], U[q[2]]) /\ ~Clash2(U[q[1]], U[q[3]])
                                                               /\ ~Clash2(U[q[2]], U[q[3]])}}

TxSeq(ids) == [k \in DOMAIN ids |-> U[ids[k]]]

Push(b, e, newpool) ==
    /\ chain' = Append(chain, b)
    /\ st' = StoreBlock(st, b, Len(chain) + 1)
    /\ stored' = stored \cup {Len(chain) + 1}
    /\ pool' = newpool
    /\ hist' = Append(hist, e)
    /\ UNCHANGED <<U, gcLast, rng>>

Ext == \E ok \in {OkIds} : \E ids \in IdBlocks(ok) :
          Push(TxSeq(ids), [op |-> "ext", txs |-> ids], {p \in pool : Keeps(TxSeq(ids), U[p])})

Empty == Push(<<>>, [op |-> "empty"], pool)

Offer == \E k \in OkIds \ pool :
            /\ \A p \in pool : ~Clash2(U[k], U[p])
            /\ pool' = pool \cup {k}
            /\ hist' = Append(hist, [op |-> "offer", id |-> k])
            /\ UNCHANGED <<U, chain, st, stored, gcLast, rng>>

Propose == /\ pool # {}
           /\ \E ids \in {SetToSortSeq(pool, LAMBDA a, b : a < b)} :
                 Push(TxSeq(ids), [op |-> "propose", txs |-> ids], {})

GC == LET i == gcLast + 1 IN
      /\ i + Window + GCLag <= Len(chain)
      /\ gcLast' = i
      /\ IF i \in stored
         THEN LET ds == DeleteBlock(st, chain[i], i) IN
              /\ st' = [kv |-> ds.kv, rec |-> ds.rec]
              /\ stored' = stored \ {i}
              /\ hist' = Append(hist, [op |-> "gc", i |-> i, err |-> ds.err])
         ELSE /\ UNCHANGED <<st, stored>>
              /\ hist' = Append(hist, [op |-> "gc", i |-> i, err |-> FALSE])
      /\ UNCHANGED <<U, chain, pool, rng>>

Restart == /\ Len(chain) >= 1
           /\ hist[Len(hist)].op # "restart"
           /\ gcLast' = 0
           /\ pool' = {}
           /\ hist' = Append(hist, [op |-> "restart"])
           /\ UNCHANGED <<U, chain, st, stored, rng>>

\* generation mix: one disjunct is drawn uniformly, then one of its successors
More == Len(hist) < Depth
Next == \/ (More /\ Ext) \/ (More /\ Ext) \/ (More /\ Ext)
        \/ (More /\ Empty) \/ (More /\ Empty)
        \/ (More /\ Offer) \/ (More /\ Offer)
        \/ (More /\ Propose)
        \/ (More /\ GC) \/ (More /\ GC)
        \/ (More /\ Restart)

SimSpec == Init /\ [][Next]_vars

Emit == Len(hist) # Depth \/ PrintT(<<"@@HIST@@", ToJson(hist)>>)
=============================================================================
