SPECIFICATION Spec
CONSTANTS
  Signers = {1, 2, 3}
  Hashes = {1, 2, 3}
  MaxAttrs = 2
  CandAttrs = 1
  MaxBlocks = 4
  MaxTxPerBlock = 2
  MaxTxTotal = 3
  Window = 2
  GCLag = 0
  CheckStay = FALSE
  Deviation = "none"
  GCMode = "lenient"
INVARIANTS InvAnswers InvStay InvProp
CHECK_DEADLOCK FALSE
