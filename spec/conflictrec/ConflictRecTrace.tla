-------------------------- MODULE ConflictRecTrace --------------------------
(***************************************************************************)
(* C07 extension "conflictrec" - judge of recorded traces of REAL code.    *)
(* Total, deterministic, reporting (spec/common/TraceIO.tla).              *)
(*                                                                         *)
(* One world = one real chain (layer "node": core.Blockchain nodes; layer  *)
(* "dao": a real dao.Simple).  Block indices are relative to the world's   *)
(* base height.  Events:                                                   *)
(*   init    u = the universe (sequence of [id, sg, conf], id = position;  *)
(*           ids above nh are junk hashes), w, ns, nh, nj, track = the     *)
(*           node whose record store is followed on the Impl level         *)
(*   block   src "ext" | "empty" | "propose", txs = ids in block order,    *)
(*           nodes / acc = who received the wire block and who accepted it *)
(*           (the first node is the reference: the chain grows iff it      *)
(*           accepted)                                                     *)
(*   admit   node, id, pooled (PoolTx on a fresh empty pool returned nil   *)
(*           and the pool holds it), ans = class of the error, inblock =   *)
(*           1 / 0 answer of AddBlock on a scratch copy of the node for a  *)
(*           block holding just this transaction (-1: not probed)          *)
(*   offer   id, ok: PoolTx into the reference node's own pool             *)
(*   gc      node, removed = block indices that disappeared, err           *)
(*   restart                                                               *)
(*   probe   proposer, id, nodes / acc: a block formed from the pool of a  *)
(*           node that collects untraceable blocks (holding transaction    *)
(*           id, which the plain node refuses for the reason why), given   *)
(*           as wire bytes to scratch copies of the nodes                  *)
(*   store   node, kv / rec = the conflict record cells read back from the *)
(*           node's database                                               *)
(* Reported names.  Violations of the C07 statement:                       *)
(*   Sound, Admits, Proposable        (ConflictRec.tla)                    *)
(*   ProposableMixed                  Proposable for a probe event: the    *)
(*       proposer collects untraceable blocks, the receiver does not       *)
(* Drift (Impl-level prediction or out-of-statement observations):         *)
(*   DriftAnswer   the answer class differs from ConflictRecImpl!Answer    *)
(*   DriftInBlock  in-block answer differs from the pool answer            *)
(*   DriftExtBlock a block made of admitted transactions was refused       *)
(*   DriftStore    record cells differ from the Impl-level store           *)
(*   DriftGC       DeleteBlock error flag differs from the Impl level      *)
(***************************************************************************)
EXTENDS TraceIO, ConflictRecImpl, FiniteSets

VARIABLES l, U, chain, st, track, world
vars == <<l, U, chain, st, track, world>>

Init == /\ l = 1
        /\ U = <<>>
        /\ chain = <<>>
        /\ st = EmptyStore({}, {})
        /\ track = ""
        /\ world = 0

TxSeq(ids) == [k \in DOMAIN ids |-> U[ids[k]]]

Ground(v, c) == (IF IsDupV(v, c) THEN {"dup"} ELSE {}) \cup (IF IsConflictV(v, c) THEN {"conflict"} ELSE {})
                \cup (IF IsBadAttrV(v, c) THEN {"attr"} ELSE {})

RECURSIVE DelBlocks(_, _, _)
\* several blocks removed by one collector run: ds = [kv, rec, err]
DelBlocks(ds, idx, k) ==
    IF k > Len(idx) THEN ds
    ELSE LET r == DeleteBlock([kv |-> ds.kv, rec |-> ds.rec], chain[idx[k]], idx[k])
         IN DelBlocks([kv |-> r.kv, rec |-> r.rec, err |-> ds.err \/ r.err], idx, k + 1)

KvCells  == {[h |-> h, k |-> st.kv[h].k, i |-> st.kv[h].i] : h \in {x \in DOMAIN st.kv : st.kv[x].k # "none"}}
RecCells == {[h |-> p[1], s |-> p[2], i |-> st.rec[p]] : p \in {q \in DOMAIN st.rec : st.rec[q] # 0}}

Keep == UNCHANGED <<U, chain, st, track, world>>

Step ==
    /\ l <= Len(TLog)
    /\ l' = l + 1
    /\ LET e == TLog[l] IN
       CASE e.event = "init" ->
              /\ U' = e.u
              /\ chain' = <<>>
              /\ st' = EmptyStore(1..(e.nh + e.nj), 1..e.ns)
              /\ track' = e.track
              /\ world' = e.world
         [] e.event = "block" ->
              LET b == TxSeq(e.txs)
                  accs == ToSet(e.acc)
                  refOK == e.acc[1]
                  trackOK == \E k \in DOMAIN e.nodes : e.nodes[k] = track /\ e.acc[k]
              IN /\ chain' = IF refOK THEN Append(chain, b) ELSE chain
                 /\ st' = IF refOK /\ trackOK THEN StoreBlock(st, b, Len(chain) + 1) ELSE st
                 /\ UNCHANGED <<U, track, world>>
                 /\ Report(l, IF e.src = "propose" THEN NameIf(Proposable(accs), "Proposable")
                              ELSE NameIf(accs = {TRUE}, "DriftExtBlock"),
                           [world |-> world, src |-> e.src, txs |-> e.txs, nodes |-> e.nodes, acc |-> e.acc,
                            height |-> Len(chain)])
         [] e.event = "admit" ->
              LET c == U[e.id]
                  v == View(chain)
                  pred == Answer(st, c, Len(chain))
              IN /\ Keep
                 /\ Report(l, NameIf(RejectV(v, c) => ~e.pooled, "Sound")
                              \cup NameIf(AcceptV(v, c) => e.pooled, "Admits")
                              \cup NameIf(e.node # track \/ (pred = e.ans), "DriftAnswer")
                              \cup NameIf(e.inblock = -1 \/ ((e.inblock = 1) = e.pooled), "DriftInBlock"),
                           [world |-> world, node |-> e.node, id |-> e.id, verdict |-> VerdictV(v, c), ground |-> Ground(v, c),
                            pooled |-> e.pooled, ans |-> e.ans, pred |-> pred, height |-> Len(chain), tx |-> c,
                            nattrs |-> Len(c.conf)])
         [] e.event = "offer" ->
              LET c == U[e.id]
                  v == View(chain)
              IN /\ Keep
                 /\ Report(l, NameIf(RejectV(v, c) => ~e.ok, "Sound"),
                           [world |-> world, node |-> "offer", id |-> e.id, verdict |-> VerdictV(v, c), ground |-> Ground(v, c),
                            pooled |-> e.ok, height |-> Len(chain), tx |-> c, nattrs |-> Len(c.conf)])
         [] e.event = "probe" ->
              \* a block proposed from the pool of e.proposer, offered to scratch copies of the nodes (no node changes)
              /\ Keep
              /\ Report(l, NameIf(Proposable(ToSet(e.acc)), "ProposableMixed"),
                        [world |-> world, proposer |-> e.proposer, id |-> e.id, tx |-> U[e.id], nodes |-> e.nodes, acc |-> e.acc,
                         why |-> e.why, height |-> Len(chain), verdict |-> Verdict(chain, U[e.id])])
         [] e.event = "gc" ->
              IF e.node # track THEN Keep
              ELSE LET ds == DelBlocks([kv |-> st.kv, rec |-> st.rec, err |-> FALSE], e.removed, 1)
                   IN /\ st' = [kv |-> ds.kv, rec |-> ds.rec]
                      /\ UNCHANGED <<U, chain, track, world>>
                      /\ Report(l, NameIf(ds.err = e.err, "DriftGC"),
                                [world |-> world, removed |-> e.removed, err |-> e.err, pred |-> ds.err])
         [] e.event = "store" ->
              /\ Keep
              /\ IF e.node # track THEN TRUE
                 ELSE Report(l, NameIf(KvCells = ToSet(e.kv) /\ RecCells = ToSet(e.rec), "DriftStore"),
                             [world |-> world, kv |-> e.kv, rec |-> e.rec, predkv |-> KvCells, predrec |-> RecCells])
         [] OTHER -> Keep

TraceSpec == Init /\ [][Step]_vars
=============================================================================
