SPECIFICATION TraceSpec
CONSTANTS
  Window = 3
  Deviation = "none"
  GCMode = "lenient"
POSTCONDITION TraceAccepted
CHECK_DEADLOCK FALSE
