SPECIFICATION TraceSpec
CONSTANTS
  Window = 2
  Deviation = "none"
  GCMode = "strict"
POSTCONDITION TraceAccepted
CHECK_DEADLOCK FALSE
