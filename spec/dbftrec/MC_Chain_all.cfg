SPECIFICATION Spec
CONSTANTS
  N = 4
  MaxView = 0
  H0 = 1
  NH = 2
  InitSilentSets <- SilentNone
  NextSilentSets <- SilentNone
  MaxSilentChanges = 0
  WakeAllDone = FALSE
  Bug = "none"
INVARIANTS AgreementH NoSkip Acceptable AcceptJustifiedH CacheHarmless
CHECK_DEADLOCK FALSE
