------------------------------ MODULE DBFTChain ------------------------------
(***************************************************************************)
(* dBFT as integrated by the node over SEVERAL CONSECUTIVE HEIGHTS          *)
(* (spec/dbft/DBFT.tla and DBFTRec.tla stop at one).                        *)
(*                                                                         *)
(* Per validator (dbft.Context + dbft cache + the node's ledger):           *)
(*   h      BlockIndex: the height being agreed on = ledger height + 1      *)
(*   view, prep, cmt, cv   as in DBFTRec (reset at every new height)        *)
(*   cache  payloads of FUTURE heights (dbft helpers.go cache: kept until   *)
(*          the validator reaches that height, then handed to OnReceive in  *)
(*          the order preparations, change views, commits)                  *)
(*   chain  the blocks of its ledger, height -> view the block was made in  *)
(* The primary of (height, view) is (height - view) mod N: it rotates with  *)
(* the height.  A validator moves to the next height when it accepts a      *)
(* block (M commits of its view) or when the block arrives through the      *)
(* chain (block relay, service.handleChainBlock -> dbft.Reset) while it is  *)
(* still working on that height, in whatever view.  dbft.OnReceive: a       *)
(* payload of an old height is ignored, one of a future height is cached.   *)
(* The replay of cached payloads happens inside dbft.initializeConsensus,   *)
(* i.e. in the same step as the move to the new height (it may complete     *)
(* the new height at once and move on again).                               *)
(* Recovery traffic is not modelled here (DBFTRec does); timers only make   *)
(* the primary propose and (MaxView > 0) backups ask for the next view.     *)
(*                                                                         *)
(* ABSTRACT LEVEL (the judge):                                              *)
(*   AgreementH     no two validators hold different blocks at a height     *)
(*   NoSkip         a ledger has no gap: it holds exactly the heights below *)
(*                  the one the validator works on                          *)
(*   Acceptable     every signature in the witness of a block a validator   *)
(*                  hands to its ledger signs that block                    *)
(*   AcceptJustifiedH  a block is made only from M commits sent for it      *)
(*   CacheHarmless  (a) nothing of the current or a past height lingers in  *)
(*                  the cache, nothing in the working state belongs to      *)
(*                  another height; (b, views 0 only) the working state is  *)
(*                  a function of WHICH payloads of the current height were *)
(*                  handed over, not of WHEN (before the height began or     *)
(*                  during it): a cached payload counts exactly like one    *)
(*                  delivered on time, and changes nothing before           *)
(* Named deviations (Bug): "CacheNow" a future-height payload is processed  *)
(* at once as if it were of the current height; "OldAccepted" so is a       *)
(* payload of a past height; "AdvanceAny" a relayed block of ANY later      *)
(* height moves the validator behind that block; "CacheLost" the cache is   *)
(* dropped instead of replayed (a liveness-only deviation: refuted by (b)). *)
(***************************************************************************)
EXTENDS Integers, FiniteSets, TLC

CONSTANTS N, MaxView, H0, NH, InitSilentSets, NextSilentSets, MaxSilentChanges,
          WakeAllDone,   \* TRUE: the silent set changes only once every non-silent validator has finished all heights (a validator that
                         \* was held back meets ALL the traffic of the heights it missed, in any order: the lag scenario without the
                         \* interleavings of the others)
          Bug

F == (N - 1) \div 3
M == N - F
Val == 0..(N - 1)
None == -1
HEnd == H0 + NH           \* a validator working on HEnd is done
Mod(a, b) == a - b * (a \div b)
PrimaryOf(h, w) == Mod(Mod(h - w, N) + N, N)

VARIABLES st, msgs, silent, sc, got
vars == <<st, msgs, silent, sc, got>>

Msg(t, f, h, w) == [type |-> t, from |-> f, h |-> h, view |-> w]

Fresh(h, chain) == [h |-> h, view |-> 0, prep |-> {}, cmt |-> {}, cv |-> {}, cache |-> {}, chain |-> chain, wok |-> TRUE, out |-> {}]
NoChain == [x \in {} |-> 0]

Prim(s) == PrimaryOf(s.h, s.view)
HasReq(s) == Prim(s) \in s.prep
Committed(s, v) == \E c \in s.cmt : c.from = v
Send(s, m) == [s EXCEPT !.out = @ \cup {m}]
Done(s) == s.h >= HEnd

\* cached payloads are handed over by class, within a class by author (dbft initializeConsensus)
Class(t) == IF t \in {"PrepareRequest", "PrepareResponse"} THEN 0 ELSE IF t = "ChangeView" THEN 1 ELSE 2

RECURSIVE Handle(_, _, _), CheckCommit(_, _), NewHeight(_, _, _), Replay(_, _, _, _, _)

\* the payload m is processed as a payload of the CURRENT height (the caller decided that it is)
Handle(s, v, m) ==
    IF Done(s) THEN s
    ELSE CASE m.type = "PrepareRequest" ->
               IF HasReq(s) \/ m.view # s.view \/ m.from # Prim(s) \/ m.from = v THEN s
               ELSE LET s1 == [s EXCEPT !.prep = @ \cup {m.from}]
                        s2 == IF Committed(s1, v) THEN s1 ELSE Send([s1 EXCEPT !.prep = @ \cup {v}], Msg("PrepareResponse", v, s.h, s.view))
                    IN  IF HasReq(s2) /\ ~Committed(s2, v) /\ Cardinality(s2.prep) >= M
                        THEN CheckCommit(Send([s2 EXCEPT !.cmt = @ \cup {[from |-> v, lv |-> s.view, sh |-> s.h, sv |-> s.view]}],
                                              Msg("Commit", v, s.h, s.view)), v)
                        ELSE s2
           [] m.type = "PrepareResponse" ->
               IF m.view # s.view \/ m.from = Prim(s) \/ m.from \in s.prep \/ m.from = v THEN s
               ELSE LET s1 == [s EXCEPT !.prep = @ \cup {m.from}]
                    IN  IF HasReq(s1) /\ ~Committed(s1, v) /\ Cardinality(s1.prep) >= M
                        THEN CheckCommit(Send([s1 EXCEPT !.cmt = @ \cup {[from |-> v, lv |-> s.view, sh |-> s.h, sv |-> s.view]}],
                                              Msg("Commit", v, s.h, s.view)), v)
                        ELSE s1
           [] m.type = "Commit" ->
               IF m.from = v \/ m.view > s.view \/ \E c \in s.cmt : c.from = m.from THEN s
               ELSE LET add == [s EXCEPT !.cmt = @ \cup {[from |-> m.from, lv |-> m.view, sh |-> m.h, sv |-> m.view]}]
                    IN  IF m.view # s.view \/ ~HasReq(s) THEN add
                        ELSE IF m.h = s.h THEN CheckCommit(add, v) ELSE s     \* the signature is checked against the header
           [] m.type = "ChangeView" ->       \* m.view is the view asked for
               IF m.view <= s.view \/ Committed(s, v) \/ \E c \in s.cv : c.from = m.from /\ c.nv >= m.view THEN s
               ELSE LET s1 == [s EXCEPT !.cv = {c \in @ : c.from # m.from} \cup {[from |-> m.from, nv |-> m.view]}]
                    IN  IF Cardinality({c.from : c \in {x \in s1.cv : x.nv >= m.view}}) >= M
                        THEN [s1 EXCEPT !.view = m.view, !.cv = {}, !.prep = {}]
                        ELSE s1
           [] OTHER -> s

CheckCommit(s, v) ==
    LET cur == {c \in s.cmt : c.lv = s.view} IN
    IF HasReq(s) /\ Cardinality(cur) >= M
    THEN NewHeight([s EXCEPT !.wok = @ /\ \A c \in cur : c.sh = s.h /\ c.sv = s.view], v, s.view)
    ELSE s

\* the block of the current height (made in view w) is in the ledger: next height, view 0, cached payloads handed over
NewHeight(s, v, w) ==
    LET h1 == s.h + 1
        s1 == [s EXCEPT !.h = h1, !.view = 0, !.prep = {}, !.cmt = {}, !.cv = {}, !.chain = (s.h :> w) @@ @,
                        !.cache = {m \in @ : m.h > h1}]
    IN  IF Bug = "CacheLost" THEN s1 ELSE Replay(s1, v, {m \in s.cache : m.h = h1}, h1, 0)

\* S: the cached payloads of height hS; k = Class * N + author.  If the replay completes hS the rest of S is old.
Replay(s, v, S, hS, k) ==
    IF k >= 3 * N \/ s.h # hS THEN s
    ELSE LET E == {m \in S : Class(m.type) = k \div N /\ m.from = Mod(k, N)}
         IN  Replay(IF E = {} THEN s ELSE Handle(s, v, CHOOSE m \in E : TRUE), v, S, hS, k + 1)

\* dbft.OnReceive
Receive(s, v, m) ==
    IF Done(s) THEN s
    ELSE IF m.h < s.h THEN (IF Bug = "OldAccepted" THEN Handle(s, v, m) ELSE s)
    ELSE IF m.h > s.h THEN (IF Bug = "CacheNow" THEN Handle(s, v, m)
                            ELSE [s EXCEPT !.cache = {c \in @ : ~(c.h = m.h /\ c.from = m.from /\ Class(c.type) = Class(m.type))} \cup {m}])
    ELSE IF m.type # "ChangeView" /\ m.view > s.view THEN s      \* future view of this height: handed over again later
    ELSE Handle(s, v, m)

----------------------------------------------------------------------------
Init ==
    /\ st = [v \in Val |-> Fresh(H0, NoChain)]
    /\ msgs = {}
    /\ silent \in {S \in InitSilentSets : Cardinality(S) <= F}
    /\ sc = 0
    /\ got = [v \in Val |-> {}]

\* got (ghost): the payloads handed to v that were not of a past height at that moment; entries of heights v has left are
\* dropped (nothing refers to them), and a validator that finished all heights keeps nothing (canonical final state)
Step(v, s, g) ==
    /\ st' = [st EXCEPT ![v] = IF Done(s) THEN [Fresh(s.h, s.chain) EXCEPT !.wok = s.wok] ELSE [s EXCEPT !.out = {}]]
    /\ msgs' = msgs \cup s.out
    /\ got' = [got EXCEPT ![v] = IF Done(s) THEN {} ELSE {m \in g : m.h >= s.h}]
    /\ UNCHANGED <<silent, sc>>

Timeout(v) ==
    /\ v \notin silent /\ ~Done(st[v])
    /\ LET s == st[v] IN
       IF Prim(s) = v /\ ~HasReq(s)
       THEN Step(v, Send([s EXCEPT !.prep = @ \cup {v}], Msg("PrepareRequest", v, s.h, s.view)), got[v])
       ELSE IF ~Committed(s, v) /\ s.view < MaxView
       THEN Step(v, Handle(Send(s, Msg("ChangeView", v, s.h, s.view + 1)), v, Msg("ChangeView", v, s.h, s.view + 1)), got[v])   \* the own one counts
       ELSE Step(v, s, got[v])

\* a hand-over that cannot have an effect is not generated (relevance pruning)
Relevant(m, v) ==
    LET s == st[v] IN
    /\ ~Done(s)
    /\ m \notin got[v]
    /\ (m.h >= s.h \/ Bug = "OldAccepted")

Deliver(m, v) ==
    /\ v \notin silent /\ m \in msgs /\ m.from # v /\ Relevant(m, v)
    /\ Step(v, Receive(st[v], v, m), IF m.h >= st[v].h THEN got[v] \cup {m} ELSE got[v])

\* Block relay: the block of the height v works on reaches it through the chain (another validator has it).
Relay(v, u) ==
    /\ v \notin silent /\ ~Done(st[v]) /\ u # v
    /\ \E h \in DOMAIN st[u].chain :
          /\ st[u].wok
          /\ IF Bug = "AdvanceAny" THEN h >= st[v].h ELSE h = st[v].h
          /\ LET s == st[v]
                 jump == [s EXCEPT !.h = h]      \* AdvanceAny: the ledger gets block h only
             IN  Step(v, NewHeight(jump, v, st[u].chain[h]), got[v])

SetSilent(S) ==
    /\ S \in NextSilentSets /\ Cardinality(S) <= F /\ S # silent /\ sc < MaxSilentChanges
    /\ WakeAllDone => \A u \in Val \ silent : Done(st[u])
    /\ silent' = S /\ sc' = sc + 1
    /\ UNCHANGED <<st, msgs, got>>

Next ==
    \/ \E v \in Val : Timeout(v)
    \/ \E v \in Val, m \in msgs : Deliver(m, v)
    \/ \E v, u \in Val : Relay(v, u)
    \/ \E S \in NextSilentSets : SetSilent(S)

Spec == Init /\ [][Next]_vars

----------------------------------------------------------------------------
\* ABSTRACT LEVEL
Heights == H0..(HEnd - 1)
AgreementH == \A a, b \in Val : \A h \in DOMAIN st[a].chain \cap DOMAIN st[b].chain : st[a].chain[h] = st[b].chain[h]
NoSkip == \A v \in Val : DOMAIN st[v].chain = H0..(st[v].h - 1)
Acceptable == \A v \in Val : st[v].wok
AcceptJustifiedH == \A v \in Val : \A h \in DOMAIN st[v].chain :
                        Cardinality({u \in Val : Msg("Commit", u, h, st[v].chain[h]) \in msgs}) >= M

\* (a)
CacheClean == \A v \in Val : /\ \A m \in st[v].cache : m.h > st[v].h
                             /\ \A c \in st[v].cmt : c.sh = st[v].h
\* (b) views 0 only: the working state of the current height is determined by the set of payloads of that height handed over so far
Own(v) == {m \in msgs : m.from = v}
CacheExact ==
    \A v \in Val :
        LET s == st[v]
            mine == {m \in got[v] \cup Own(v) : m.h = s.h}
            req == \E m \in mine : m.type = "PrepareRequest" /\ m.from = PrimaryOf(s.h, 0)
        IN  (MaxView = 0 /\ ~Done(s)) =>
              /\ s.prep = {m.from : m \in {x \in mine : x.type \in {"PrepareRequest", "PrepareResponse"}}}
              /\ {c.from : c \in s.cmt} = {m.from : m \in {x \in mine : x.type = "Commit"}}
              /\ (req /\ v # PrimaryOf(s.h, 0)) => Msg("PrepareResponse", v, s.h, 0) \in msgs
              /\ \A m \in got[v] : m.h > s.h => m \in s.cache
CacheHarmless == CacheClean /\ CacheExact
=============================================================================
