----------------------------- MODULE DBFTRecSim -----------------------------
(* Schedule generator for DBFTRec: behaviours (timer firings, hand-overs of any payload incl. RecoveryRequest / RecoveryMessage
   in any order, changing silent sets, block relays) with the effect each step had in the model; printed as JSON when a random
   walk first reaches a goal, or at the depth bound. *)
EXTENDS MCDBFTRec, Json

CONSTANT Depth
VARIABLE hist

Eff(v) == IF st'[v].acc # None /\ st[v].acc = None THEN "accept"
          ELSE IF st'[v].view > st[v].view THEN "viewchange"
          ELSE IF Committed(st'[v], v) /\ ~Committed(st[v], v) THEN "commit"
          ELSE IF st'[v] # st[v] THEN "state" ELSE "none"

SimInit == Init /\ hist = <<>>
SimNext ==
    \/ \E v \in Val : Timeout(v) /\ hist' = Append(hist, [op |-> "timeout", v |-> v, eff |-> Eff(v)])
    \/ \E v \in Val : TimeoutRR(v) /\ hist' = Append(hist, [op |-> "timeout", v |-> v, eff |-> "recoveryrequest"])
    \/ \E v \in Val, m \in msgs : Deliver(m, v) /\ vars' # vars
           /\ hist' = Append(hist, [op |-> "deliver", type |-> m.type, from |-> m.from, view |-> m.view, to |-> v, eff |-> Eff(v),
                                    mixed |-> (IsRec(m) /\ \E c \in m.cmts : c.lv # m.view)])
    \/ \E v \in Val : SyncBlock(v) /\ hist' = Append(hist, [op |-> "relay", v |-> v, eff |-> "accept"])
    \/ \E S \in {{}} \cup {{x} : x \in Val} : SetSilent(S) /\ hist' = Append(hist, [op |-> "silent", set |-> S])
SimSpec == SimInit /\ [][SimNext]_<<vars, hist>>

Last == hist[Len(hist)]
RecStep == hist # <<>> /\ Last.op = "deliver" /\ Last.type = "RecoveryMessage"
\* goals: the situations recovery exists for
R1 == RecStep /\ Last.eff = "viewchange"        \* a validator changes view through a RecoveryMessage
R2 == RecStep /\ Last.eff = "commit"            \* preparations arrive through a RecoveryMessage: the receiver commits
R3 == RecStep /\ Last.eff = "accept"            \* commits arrive through a RecoveryMessage: the receiver accepts the block
R4 == RecStep /\ Last.mixed                     \* a RecoveryMessage carrying commits of two views is handed over
R5 == hist # <<>> /\ Last.op = "timeout" /\ Last.eff = "recoveryrequest" /\ \E v \in Val : st[v].view > st[Last.v].view   \* a validator left behind asks
Reached(g) == CASE g = "R1" -> R1 [] g = "R2" -> R2 [] g = "R3" -> R3 [] g = "R4" -> R4 [] OTHER -> R5
GoalEmit == \A g \in {"R1", "R2", "R3", "R4", "R5"} : Reached(g) => PrintT(<<"@@HIST@@", ToJson([goal |-> g, hist |-> hist])>>)
Emit == Len(hist) # Depth \/ PrintT(<<"@@HIST@@", ToJson([goal |-> "depth", hist |-> hist])>>)
=============================================================================
