----------------------------- MODULE MCDBFTChain -----------------------------
EXTENDS DBFTChain
SilentNone == {{}}
SilentAny  == {S \in SUBSET Val : Cardinality(S) <= F}
SilentOne == {{0}}
SilentThree == {{3}}
SilentEach == {{v} : v \in Val}
==============================================================================
