----------------------------- MODULE MCDBFTChain -----------------------------
EXTENDS DBFTChain
SilentNone == {{}}
SilentAny  == {S \in SUBSET Val : Cardinality(S) <= F}
SilentOne == {{0}}
SilentThree == {{3}}
==============================================================================
