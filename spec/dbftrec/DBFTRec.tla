------------------------------- MODULE DBFTRec -------------------------------
(***************************************************************************)
(* dBFT 2.0 as integrated by the node, ONE block height, with the recovery *)
(* traffic as payloads of their own (spec/dbft/DBFT.tla folds it into      *)
(* "Deliver may hand over any payload at any time").                        *)
(*                                                                         *)
(* Implementation shaped.  A validator's state is what dbft.Context keeps: *)
(*   view   ViewNumber                                                      *)
(*   prep   authors of the PreparationPayloads of the current view          *)
(*   cmt    CommitPayloads: one slot per author, kept ACROSS views, each    *)
(*          with the view it is labelled with (lv) and the view of the      *)
(*          header its signature signs (sv)                                 *)
(*   cv     ChangeViewPayloads of the current view (author, requested view) *)
(*   lcv    LastChangeViewPayloads: the ChangeViews that justified entering *)
(*          the current view                                                *)
(*   acc    view of the block handed to the ledger (None if none)           *)
(*   wok    that block's witness verifies (all signatures used sign it)     *)
(* and one action per event of the service loop: a timer firing, one        *)
(* delivered payload, a block arriving through the chain.                   *)
(*                                                                         *)
(* RecoveryRequest: sent on a timeout instead of a ChangeView when the      *)
(* validator counts more than F validators committed or not heard from      *)
(* (dbft.sendChangeView; here: nondeterministically, by the validators in   *)
(* Requesters).  Answered (dbft.onRecoveryRequest) by the validators that   *)
(* have sent a Commit and by the F+1 validators following the requester in  *)
(* index order.  A ChangeView asking for a view the receiver has reached is *)
(* treated as a RecoveryRequest; a validator that sent its Commit answers   *)
(* every ChangeView and every timer with a RecoveryMessage.                 *)
(* RecoveryMessage (dbft.makeRecoveryMessage + pkg/consensus/               *)
(* recovery_message.go): the sender's view, lcv, its preparations (with the *)
(* PrepareRequest if it has it, else only the preparation hash), and - if   *)
(* it sent its Commit - every commit slot it holds (of ANY view, each       *)
(* compact entry carrying its own view).  Receiving one                     *)
(* (dbft.onRecoveryMessage): ChangeViews first when the message is of a     *)
(* later view and the receiver is not locked by a commit; then request and  *)
(* responses when the (possibly new) view equals the message's; then the    *)
(* commits when the message's view is not above the receiver's.             *)
(*                                                                         *)
(* Bounds that are not in the protocol: at most MaxRec RecoveryMessages are *)
(* put on the network in a behaviour (further ones are lost at the sender - *)
(* loss is part of the network model, so every behaviour here is a          *)
(* behaviour of the unbounded system), RecoveryRequests only by Requesters. *)
(* The choice RecoveryRequest / ChangeView on a timeout and the "ignore     *)
(* preparations while changing view unless more than F are committed or     *)
(* lost" rule are over-approximated (both outcomes allowed: not delivering  *)
(* is always possible).                                                     *)
(*                                                                         *)
(* ABSTRACT LEVEL (the judge):                                              *)
(*   Agreement      no two validators accept different blocks               *)
(*   CommitLock     a validator that sent a Commit never leaves that view   *)
(*   Acceptable     a block a validator hands to its ledger has a witness   *)
(*                  made of signatures of that block                        *)
(*   RecoverySound  every payload the receiver's decoder rebuilds from a    *)
(*                  RecoveryMessage is a copy of a payload its alleged      *)
(*                  author really sent: same author, view, and the same     *)
(*                  signed content (commit: signature; preparation: hash)   *)
(*   RecoveryAdequate (action property) a validator that is not locked and  *)
(*                  processes a RecoveryMessage ends at least in the        *)
(*                  message's view when the message carries M ChangeViews   *)
(*                  for it, and - being in the message's view - holds every *)
(*                  preparation and every commit of that view the message   *)
(*                  carried                                                  *)
(* Named deviations, each refuted by TLC (MC_Rec_bug_*.cfg):                 *)
(*   Relabel = TRUE   the decoder labels every rebuilt Commit with the       *)
(*                    MESSAGE's view: a Commit of view 0 carried by a        *)
(*                    message of view 1 reaches dBFT as a Commit of view 1   *)
(*                    (RecoverySound).  This was the node's behaviour until  *)
(*                    /repo 21f472b; on 7 real services it made a validator  *)
(*                    assemble a block with a foreign signature (scenario    *)
(*                    relabel7 of the driver; N = 4 cannot reach that: every *)
(*                    validator that commits in view 1 has the header).      *)
(*   Bug = LosesView / DropsResponses / RequesterView / CVIndex /            *)
(*         WitnessAnyView / Quorum / NoCommitLock   see the constant.        *)
(* VerifyOnRequest = FALSE is dbft v0.4.0 as pinned (commits stored before   *)
(* the PrepareRequest are never re-checked against the header): harmless as  *)
(* long as every stored commit is a faithful copy - which is what            *)
(* RecoverySound says; all configurations run with FALSE.                    *)
(***************************************************************************)
EXTENDS Integers, FiniteSets, TLC

CONSTANTS N, MaxView, Height, InitSilentSets, MaxSilentChanges,
          Requesters,      \* validators that may send a RecoveryRequest
          MaxRec,          \* RecoveryMessages put on the network per behaviour
          Relabel,         \* TRUE: the decoder labels every rebuilt Commit with the MESSAGE's view (recovery_message.go GetCommits
                           \*       ignores commitCompact.ViewNumber);  FALSE: with the compact entry's own view
          VerifyOnRequest, \* TRUE: commits stored before the PrepareRequest are checked against the header when it arrives;
                           \*       FALSE: dbft v0.4.0 (updateExistingPayloads runs before the request is stored: MakeHeader() = nil)
          Bug              \* "none" | "LosesView" | "DropsResponses" | "RequesterView" | "CVIndex" | "WitnessAnyView" | "Quorum" | "NoCommitLock"

F == (N - 1) \div 3
M == N - F
Val == 0..(N - 1)
Views == 0..MaxView
None == -1

Mod(a, b) == a - b * (a \div b)
PrimaryOf(w) == Mod(Mod(Height - w, N) + N, N)

VARIABLES st, msgs, silent, sc, rc
vars == <<st, msgs, silent, sc, rc>>

\* every payload has the same shape; for a ChangeView `view` is the view it asks for (as in DBFT.tla)
Msg(t, f, w) == [type |-> t, from |-> f, view |-> w, cvs |-> {}, hasReq |-> FALSE, hasHash |-> FALSE, preps |-> {}, cmts |-> {}]
IsRec(m) == m.type = "RecoveryMessage"

Fresh == [view |-> 0, prep |-> {}, cmt |-> {}, cv |-> {}, lcv |-> {}, acc |-> None, wok |-> TRUE, out |-> {}]

Prim(s) == PrimaryOf(s.view)
HasReq(s) == Prim(s) \in s.prep
Committed(s, v) == \E c \in s.cmt : c.from = v
Send(s, m) == [s EXCEPT !.out = @ \cup {m}]
QuorumC == IF Bug = "Quorum" THEN M - 1 ELSE M

----------------------------------------------------------------------------
\* dbft check.go
CheckCommit(s, v) ==
    LET cur == {c \in s.cmt : c.lv = s.view}
        wit == IF Bug = "WitnessAnyView" THEN s.cmt ELSE cur     \* getBlockWitness
    IN  IF HasReq(s) /\ s.acc = None /\ Cardinality(cur) >= QuorumC
        THEN [s EXCEPT !.acc = s.view, !.wok = \A c \in wit : c.sv = s.view]
        ELSE s

CheckPrepare(s, v) ==
    IF HasReq(s) /\ ~Committed(s, v) /\ s.acc = None /\ Cardinality(s.prep) >= M
    THEN CheckCommit(Send([s EXCEPT !.cmt = @ \cup {[from |-> v, lv |-> s.view, sv |-> s.view]}], Msg("Commit", v, s.view)), v)
    ELSE s

CheckChangeView(s, v, nv) ==
    IF s.view >= nv \/ Cardinality({c.from : c \in {x \in s.cv : x.nv >= nv}}) < M
    THEN s
    ELSE [s EXCEPT !.view = nv, !.lcv = {c \in s.cv : c.nv >= nv}, !.cv = {}, !.prep = {}]

\* dbft send.go makeRecoveryMessage + recovery_message.go AddPayload
MakeRec(s, v, reqView) ==
    [type |-> "RecoveryMessage", from |-> v,
     view |-> IF Bug = "RequesterView" THEN reqView ELSE s.view,
     cvs |-> IF Bug = "CVIndex" THEN {[from |-> Mod(c.from + 1, N), nv |-> c.nv] : c \in s.lcv} ELSE s.lcv,
     hasReq |-> HasReq(s), hasHash |-> ~HasReq(s) /\ s.prep # {},
     preps |-> s.prep,
     cmts |-> IF Committed(s, v) THEN s.cmt ELSE {}]
SendRec(s, v, reqView) == Send(s, MakeRec(s, v, reqView))

\* dbft.go onRecoveryRequest
OnRecoveryRequest(s, v, from, reqView) ==
    IF Committed(s, v) \/ Mod(v - from + N - 1, N) <= F THEN SendRec(s, v, reqView) ELSE s

\* dbft.go onChangeView; nv = the view asked for
OnChangeView(s, v, from, nv) ==
    IF nv <= s.view THEN OnRecoveryRequest(s, v, from, nv - 1)
    ELSE IF Committed(s, v) /\ Bug # "NoCommitLock" THEN SendRec(s, v, s.view)
    ELSE IF \E c \in s.cv : c.from = from /\ c.nv > nv THEN s
    ELSE CheckChangeView([s EXCEPT !.cv = {c \in @ : c.from # from} \cup {[from |-> from, nv |-> nv]}], v, nv)

\* dbft.go onPrepareRequest (a backup answers with its PrepareResponse)
OnPrepareRequest(s, v, from, w) ==
    IF HasReq(s) \/ w # s.view \/ from # Prim(s) \/ from = v THEN s
    ELSE LET s1 == [s EXCEPT !.prep = @ \cup {from},
                             !.cmt = IF VerifyOnRequest THEN {c \in @ : c.lv # s.view \/ c.sv = s.view} ELSE @]
             s2 == IF Committed(s1, v) THEN s1 ELSE Send([s1 EXCEPT !.prep = @ \cup {v}], Msg("PrepareResponse", v, w))
         IN  CheckPrepare(s2, v)

\* dbft.go onPrepareResponse
OnPrepareResponse(s, v, from, w) ==
    IF w # s.view \/ from = Prim(s) \/ from \in s.prep \/ from = v THEN s
    ELSE CheckPrepare([s EXCEPT !.prep = @ \cup {from}], v)

\* dbft.go onCommit: one slot per author; a commit labelled with the current view is checked against the header IF there is one
OnCommit(s, v, from, lv, sv) ==
    IF from = v \/ \E c \in s.cmt : c.from = from THEN s
    ELSE LET add == [s EXCEPT !.cmt = @ \cup {[from |-> from, lv |-> lv, sv |-> sv]}]
         IN  IF lv # s.view \/ ~HasReq(s) THEN add
             ELSE IF sv = s.view THEN CheckCommit(add, v) ELSE s

----------------------------------------------------------------------------
\* what the receiver's decoder rebuilds from a RecoveryMessage (recovery_message.go Get*)
ExtView(r) == IF Bug = "LosesView" THEN 0 ELSE r.view
ExtCVs(r) == r.cvs
ExtReq(r) == IF r.hasReq /\ PrimaryOf(r.view) \in r.preps THEN {[from |-> PrimaryOf(r.view), view |-> ExtView(r)]} ELSE {}
\* hadReq: the receiver held a PrepareRequest when the message arrived (only the deviation DropsResponses looks at it)
ExtResps(r, hadReq) ==
    IF (r.hasReq \/ r.hasHash) /\ ~(Bug = "DropsResponses" /\ r.hasReq /\ hadReq)
    THEN {[from |-> p, view |-> ExtView(r)] : p \in r.preps \ {PrimaryOf(r.view)}}
    ELSE {}
ExtCmts(r) == {[from |-> c.from, sv |-> c.sv,
                lv |-> IF Bug = "LosesView" THEN 0 ELSE IF Relabel THEN r.view ELSE c.lv] : c \in r.cmts}

RECURSIVE FeedCVs(_, _, _, _)
FeedCVs(s, v, S, i) ==
    IF i >= N THEN s
    ELSE LET E == {e \in S : e.from = i}
         IN  FeedCVs(IF E = {} THEN s ELSE OnChangeView(s, v, i, (CHOOSE e \in E : TRUE).nv), v, S, i + 1)
RECURSIVE FeedResps(_, _, _, _)
FeedResps(s, v, S, i) ==
    IF i >= N THEN s
    ELSE LET E == {e \in S : e.from = i}
         IN  FeedResps(IF E = {} THEN s ELSE OnPrepareResponse(s, v, i, (CHOOSE e \in E : TRUE).view), v, S, i + 1)
RECURSIVE FeedCmts(_, _, _, _)
FeedCmts(s, v, S, i) ==
    IF i >= N THEN s
    ELSE LET E == {e \in S : e.from = i}
             e == CHOOSE x \in E : TRUE
         IN  FeedCmts(IF E = {} \/ e.lv > s.view THEN s ELSE OnCommit(s, v, i, e.lv, e.sv), v, S, i + 1)

\* dbft.go onRecoveryMessage
OnRecoveryMessage(s, v, r) ==
    LET sA == IF r.view > s.view /\ (~Committed(s, v) \/ Bug = "NoCommitLock") THEN FeedCVs(s, v, ExtCVs(r), 0) ELSE s
        sB == IF r.view = sA.view /\ ~Committed(sA, v)
              THEN LET rq == ExtReq(r)
                       s1 == IF ~HasReq(sA) /\ rq # {}
                             THEN LET q == CHOOSE x \in rq : TRUE IN OnPrepareRequest(sA, v, q.from, q.view)
                             ELSE sA
                   IN  FeedResps(s1, v, ExtResps(r, HasReq(s)), 0)
              ELSE sA
    IN  IF r.view <= sB.view THEN FeedCmts(sB, v, ExtCmts(r), 0) ELSE sB

----------------------------------------------------------------------------
Init ==
    /\ st = [v \in Val |-> Fresh]
    /\ msgs = {}
    /\ silent \in {S \in InitSilentSets : Cardinality(S) <= F}
    /\ sc = 0
    /\ rc = 0

\* commit the local step of v: its new state and what it sent; RecoveryMessages beyond the budget are lost at the sender
Commit(v, s) ==
    LET newRecs == {m \in s.out : IsRec(m) /\ m \notin msgs}
        keep == IF rc + Cardinality(newRecs) <= MaxRec THEN s.out ELSE s.out \ newRecs
    IN  /\ st' = [st EXCEPT ![v] = [s EXCEPT !.out = {}]]
        /\ msgs' = msgs \cup keep
        /\ rc' = rc + Cardinality({m \in keep : IsRec(m) /\ m \notin msgs})
        /\ UNCHANGED <<silent, sc>>

\* A timer fires (dbft.go onTimeout).
TimeoutStep(v) ==
    LET s == st[v] IN
    IF Prim(s) = v /\ ~HasReq(s)
    THEN CheckPrepare(Send([s EXCEPT !.prep = @ \cup {v}], Msg("PrepareRequest", v, s.view)), v)
    ELSE IF Committed(s, v) THEN SendRec(s, v, s.view)
    ELSE IF s.view < MaxView
    THEN CheckChangeView(Send([s EXCEPT !.cv = {c \in @ : c.from # v} \cup {[from |-> v, nv |-> s.view + 1]}],
                              Msg("ChangeView", v, s.view + 1)), v, s.view + 1)
    ELSE s
Timeout(v) == v \notin silent /\ st[v].acc = None /\ Commit(v, TimeoutStep(v))

\* ... and decides to ask for recovery instead of a view change (more than F committed or not heard from)
TimeoutRR(v) ==
    /\ v \notin silent /\ st[v].acc = None /\ v \in Requesters
    /\ ~Committed(st[v], v) /\ ~(Prim(st[v]) = v /\ ~HasReq(st[v]))
    /\ Commit(v, Send(st[v], Msg("RecoveryRequest", v, st[v].view)))

\* dbft.go OnReceive: one payload handed to v's service
Receive(s, v, m) ==
    IF s.acc # None THEN (IF m.type = "RecoveryRequest" /\ m.view <= s.view THEN OnRecoveryRequest(s, v, m.from, m.view) ELSE s)
    ELSE CASE m.type = "ChangeView" -> OnChangeView(s, v, m.from, m.view)
           [] m.type = "RecoveryMessage" -> OnRecoveryMessage(s, v, m)
           [] m.view > s.view -> s            \* cached; handed over again when the view is reached (a later Deliver)
           [] m.type = "PrepareRequest" -> OnPrepareRequest(s, v, m.from, m.view)
           [] m.type = "PrepareResponse" -> OnPrepareResponse(s, v, m.from, m.view)
           [] m.type = "Commit" -> OnCommit(s, v, m.from, m.view, m.view)
           [] m.type = "RecoveryRequest" -> OnRecoveryRequest(s, v, m.from, m.view)
           [] OTHER -> s

\* cheap pre-filter (relevance pruning, no effect on the reachable states): a hand-over that cannot change v's state or make it
\* send anything is a stuttering step and is not generated
Relevant(m, v) ==
    LET s == st[v] IN
    IF s.acc # None THEN m.type = "RecoveryRequest" /\ rc < MaxRec
    ELSE CASE m.type = "PrepareRequest" -> m.view = s.view /\ ~HasReq(s)
           [] m.type = "PrepareResponse" -> m.view = s.view /\ m.from \notin s.prep
           [] m.type = "Commit" -> m.view <= s.view /\ ~\E c \in s.cmt : c.from = m.from
           [] m.type = "ChangeView" -> IF m.view > s.view /\ (~Committed(s, v) \/ Bug = "NoCommitLock") THEN ~\E c \in s.cv : c.from = m.from /\ c.nv >= m.view
                                       ELSE rc < MaxRec
           [] m.type = "RecoveryRequest" -> rc < MaxRec /\ m.view <= s.view
           [] OTHER -> TRUE

Deliver(m, v) ==
    /\ v \notin silent /\ m \in msgs /\ m.from # v /\ Relevant(m, v)
    /\ Commit(v, Receive(st[v], v, m))

\* A block accepted (and stored) by somebody reaches v through ordinary block synchronisation.
SyncBlock(v) ==
    /\ v \notin silent /\ st[v].acc = None
    /\ \E u \in Val : st[u].acc # None /\ st[u].wok
                      /\ st' = [st EXCEPT ![v] = [@ EXCEPT !.acc = st[u].acc, !.wok = TRUE]]
    /\ UNCHANGED <<msgs, silent, sc, rc>>

SetSilent(S) ==
    /\ Cardinality(S) <= F /\ S # silent /\ sc < MaxSilentChanges
    /\ silent' = S /\ sc' = sc + 1
    /\ UNCHANGED <<st, msgs, rc>>

Next ==
    \/ \E v \in Val : Timeout(v) \/ TimeoutRR(v) \/ SyncBlock(v)
    \/ \E v \in Val, m \in msgs : Deliver(m, v)
    \/ \E S \in SUBSET Val : SetSilent(S)

Spec == Init /\ [][Next]_vars

----------------------------------------------------------------------------
\* ABSTRACT LEVEL
Accepted(v) == st[v].acc # None
Agreement == \A a, b \in Val : (Accepted(a) /\ Accepted(b)) => st[a].acc = st[b].acc
CommitLock == \A v \in Val : \A c \in st[v].cmt : c.from = v => c.lv = st[v].view
Acceptable == \A v \in Val : Accepted(v) => st[v].wok
\* a block is accepted only when M validators sent their Commit for it
AcceptJustified == \A v \in Val : Accepted(v) => Cardinality({u \in Val : Msg("Commit", u, st[v].acc) \in msgs}) >= M

SoundRec(r) ==
    /\ \A e \in ExtCVs(r) : Msg("ChangeView", e.from, e.nv) \in msgs
    /\ \A e \in ExtReq(r) : Msg("PrepareRequest", e.from, e.view) \in msgs
    /\ \A e \in ExtResps(r, FALSE) : Msg("PrepareResponse", e.from, e.view) \in msgs
    /\ \A e \in ExtCmts(r) : e.sv = e.lv /\ Msg("Commit", e.from, e.lv) \in msgs
RecoverySound == \A r \in msgs : IsRec(r) => SoundRec(r)

\* the step "v processes RecoveryMessage r" leaves v where the message can put it
AdequateAfter(r, v, s0, s1) ==
    LET free == ~Committed(s0, v) /\ s0.acc = None
        justified == Cardinality({c.from : c \in {x \in r.cvs : x.nv >= r.view}}) >= M
    IN  /\ (free /\ r.view > s0.view /\ justified) => s1.view >= r.view
        /\ (free /\ s1.view = r.view /\ s1.acc = None /\ (r.hasReq \/ r.hasHash)) =>
               /\ (r.preps \ {v, PrimaryOf(r.view)}) \subseteq s1.prep
               /\ r.hasReq => PrimaryOf(r.view) \in s1.prep
        /\ (s0.acc = None /\ s1.view = r.view /\ s1.acc = None) =>
               \A c \in r.cmts : (c.lv = r.view /\ c.sv = r.view) => \E d \in s1.cmt : d.from = c.from
RecoveryAdequate ==
    [][\A v \in Val : \A r \in msgs : (IsRec(r) /\ Deliver(r, v)) => AdequateAfter(r, v, st[v], st'[v])]_vars
=============================================================================
