SPECIFICATION Spec
CONSTANTS
  N = 4
  MaxView = 1
  H0 = 1
  NH = 2
  InitSilentSets <- SilentOne
  NextSilentSets <- SilentNone
  MaxSilentChanges = 0
  WakeAllDone = FALSE
  Bug = "none"
INVARIANTS AgreementH NoSkip Acceptable AcceptJustifiedH CacheHarmless
CHECK_DEADLOCK FALSE
