SPECIFICATION SimSpec
CONSTANTS
  N = 4
  MaxView = 2
  Height = 1
  InitSilentSets <- SilentAny
  MaxSilentChanges = 2
  Requesters <- ReqAll
  MaxRec = 4
  Relabel = FALSE
  VerifyOnRequest = FALSE
  Bug = "none"
  Depth = 80
INVARIANT GoalEmit
CHECK_DEADLOCK FALSE
