SPECIFICATION Spec
CONSTANTS
  N = 4
  MaxView = 0
  H0 = 1
  NH = 3
  InitSilentSets <- SilentOne
  NextSilentSets <- SilentNone
  MaxSilentChanges = 1
  WakeAllDone = TRUE
  Bug = "none"
INVARIANTS AgreementH NoSkip Acceptable AcceptJustifiedH CacheHarmless
CHECK_DEADLOCK FALSE
