---------------------------- MODULE MCDBFTRecReach ----------------------------
EXTENDS MCDBFTRec
\* the witness that InitV1 is reachable from Init (N = 4, Height = 1, nobody silent)
VARIABLE pc
Script == << [op |-> "timeout", v |-> 1, m |-> Msg("none", 0, 0)],
             [op |-> "deliver", v |-> 2, m |-> Msg("PrepareRequest", 1, 0)],
             [op |-> "deliver", v |-> 3, m |-> Msg("PrepareRequest", 1, 0)],
             [op |-> "deliver", v |-> 3, m |-> Msg("PrepareResponse", 2, 0)],
             [op |-> "timeout", v |-> 0, m |-> Msg("none", 0, 0)],
             [op |-> "timeout", v |-> 1, m |-> Msg("none", 0, 0)],
             [op |-> "timeout", v |-> 2, m |-> Msg("none", 0, 0)],
             [op |-> "deliver", v |-> 1, m |-> Msg("ChangeView", 0, 1)],
             [op |-> "deliver", v |-> 2, m |-> Msg("ChangeView", 0, 1)],
             [op |-> "deliver", v |-> 0, m |-> Msg("ChangeView", 1, 1)],
             [op |-> "deliver", v |-> 2, m |-> Msg("ChangeView", 1, 1)],
             [op |-> "deliver", v |-> 0, m |-> Msg("ChangeView", 2, 1)],
             [op |-> "deliver", v |-> 1, m |-> Msg("ChangeView", 2, 1)] >>
ReachInit == Init /\ silent = {} /\ pc = 1
ReachNext ==
    \/ /\ pc <= Len(Script)
       /\ LET x == Script[pc] IN IF x.op = "timeout" THEN Timeout(x.v) ELSE Deliver(x.m, x.v)
       /\ pc' = pc + 1
    \/ pc = Len(Script) + 1 /\ UNCHANGED <<vars, pc>>
ReachSpec == ReachInit /\ [][ReachNext]_<<vars, pc>>
ReachesV1 == pc = Len(Script) + 1 => (st = V1st /\ msgs = V1msgs /\ rc = 0)
==============================================================================
