------------------------------ MODULE MCDBFTRec ------------------------------
(* Model-checking instances of DBFTRec.  Besides the runs from the protocol's initial state there are runs that START IN
   VIEW 1 (InitV1): validator 3 sent its Commit in view 0, validators 0, 1, 2 changed to view 1 on their three ChangeViews.
   That state is reachable - ReachSpec replays the 13 steps that lead to it with the model's own actions and TLC checks that
   they are all enabled and end exactly there (MC_Rec_reach.cfg) - so everything TLC finds from it is a behaviour of the
   protocol; starting there puts the situations recovery is about (commits of two views, validators in different views)
   within a few steps instead of twenty. *)
EXTENDS DBFTRec, Sequences
SilentNone == {{}}
SilentAny  == {S \in SUBSET Val : Cardinality(S) <= F}
SilentBackup == {{0}}             \* Height = 1: primaries are 1, 0, 3, ...; validator 0 is a backup in view 0
SilentPrimary == {{PrimaryOf(0)}} \* the first primary silent from the start
Req0 == {0}
Req2 == {2}
Req3 == {3}
Req02 == {0, 2}
ReqAll == Val
ReqNone == {}

CV1 == {[from |-> u, nv |-> 1] : u \in {0, 1, 2}}
V1st == [v \in Val |-> IF v = 3 THEN [Fresh EXCEPT !.prep = {1, 2, 3}, !.cmt = {[from |-> 3, lv |-> 0, sv |-> 0]}]
                       ELSE [Fresh EXCEPT !.view = 1, !.lcv = CV1]]
V1msgs == {Msg("PrepareRequest", 1, 0), Msg("PrepareResponse", 2, 0), Msg("PrepareResponse", 3, 0), Msg("Commit", 3, 0),
           Msg("ChangeView", 0, 1), Msg("ChangeView", 1, 1), Msg("ChangeView", 2, 1)}
InitV1 == st = V1st /\ msgs = V1msgs /\ silent = {} /\ sc = 0 /\ rc = 0
SpecV1 == InitV1 /\ [][Next]_vars

==============================================================================
