------------------------------ MODULE MCDBFTRec ------------------------------
EXTENDS DBFTRec
SilentNone == {{}}
SilentAny  == {S \in SUBSET Val : Cardinality(S) <= F}
SilentBackup == {{0}}             \* Height = 1: primaries are 1, 0, 3, ...; validator 0 is a backup in view 0
SilentPrimary == {{PrimaryOf(0)}} \* the first primary silent from the start
SilentLast == {{3}}
Req2 == {2}
Req3 == {3}
Req0 == {0}
ReqAll == Val
ReqNone == {}
==============================================================================
