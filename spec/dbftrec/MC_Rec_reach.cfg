SPECIFICATION ReachSpec
CONSTANTS
  N = 4
  MaxView = 1
  Height = 1
  InitSilentSets <- SilentNone
  MaxSilentChanges = 0
  Requesters <- ReqNone
  MaxRec = 0
  Relabel = FALSE
  VerifyOnRequest = FALSE
  Bug = "none"
INVARIANTS ReachesV1 Agreement CommitLock
CHECK_DEADLOCK TRUE
