SPECIFICATION Spec
CONSTANTS
  N = 4
  MaxView = 1
  Height = 1
  InitSilentSets <- SilentBackup
  MaxSilentChanges = 0
  Requesters <- Req2
  MaxRec = 2
  Relabel = FALSE
  VerifyOnRequest = FALSE
  Bug = "none"
INVARIANTS Agreement CommitLock Acceptable AcceptJustified RecoverySound
PROPERTIES RecoveryAdequate
CHECK_DEADLOCK FALSE
