---------------------------- MODULE DBFTRecTrace ----------------------------
(* Judges traces of real consensus services (harness/c19dbft, driver TestRecDriver) against the property-level content of
   DBFTRec.tla and DBFTChain.tla.  TLC keeps the set of payloads REALLY SENT (event `sent`: height, author's validator index,
   type, view, signed content, digest of the author's witness) and judges

     RecoverySound     every compact payload a RecoveryMessage carries on the wire (`wire`, parsed by the harness) and every
                       payload the node's real decoder rebuilds from it (`ext`) is a copy of a payload its alleged author sent:
                       same height, author, view, content (Commit: signature; PrepareResponse / preparation hash: hash of the
                       request; PrepareRequest: its payload hash) and author's witness; a decoder that panics is reported too
     RecoveryAdequate  in a synchronous recovery window (recwin_open .. recwin_close: a validator R that heard nothing asks for
                       recovery, everything is delivered, nobody is silent): R got an answer; with W the highest view of the
                       RecoveryMessages delivered to R, and unless R is locked by a Commit of a lower view: R accepted the
                       block or is at least in W (if a message of view W carries M ChangeViews for it); if those messages
                       carry the PrepareRequest and, with R, M preparations of view W and R is not asking to leave W, R sent its
                       Commit in W; if they also carry M commits of view W (R's own included), R accepted the block
     AgreementH        no two ledgers hold different blocks at a height (accept / feed / queued)
     Acceptable        every block a validator hands to its queue verifies on its peers' ledgers; every fed block is accepted
     NoSkip            a validator never sends a payload for, nor assembles a block of, a height above its ledger's + 1
     CacheHarmless     (a) handing a validator a payload of a future height, or of a finished one, changes nothing: it sends
                       nothing, assembles nothing, its ledger stays (cache_probe); (b) once it reaches that height the payloads
                       it was given early count exactly like payloads given on time (cache_replayed, view 0): with the request
                       it answers; with the request and M preparations (its own included) it commits; with the request and M
                       commits (its own included) it accepts the block; without the request it does neither
   Progress / TxIncluded of the synchronous phases of the same runs are judged by spec/dbft/DBFTTrace.tla on the same file.
   Events not named here are ignored. *)
EXTENDS TraceIO, FiniteSets

VARIABLES l, sentset, recs, chain, win, cfg
vars == <<l, sentset, recs, chain, win, cfg>>

NoWin == [on |-> FALSE, node |-> 0, vi |-> 0, h |-> 0, got |-> {}, accepted |-> FALSE]
NoCfg == [n |-> 4, m |-> 3]
Init == l = 1 /\ sentset = {} /\ recs = <<>> /\ chain = <<>> /\ win = NoWin /\ cfg = NoCfg

Elems(s) == {s[i] : i \in DOMAIN s}
MaxOf(S) == CHOOSE x \in S : \A y \in S : y <= x
Preps == {"PrepareRequest", "PrepareResponse"}
HasH(h) == h \in DOMAIN chain
Agree(e) == NameIf(~HasH(e.h) \/ chain[e.h] = e.hash, "AgreementH")

\* ---- RecoverySound
WireBad(e) ==
    LET w == e.wire IN
    {[level |-> "wire", ptype |-> "ChangeView", c |-> c] : c \in {x \in Elems(w.cvs) : <<e.h, x.vi, "ChangeView", x.view, "", x.inv>> \notin sentset}}
    \cup {[level |-> "wire", ptype |-> "Preparation", c |-> c] : c \in {x \in Elems(w.preps) :
              ~\E t \in sentset : t[1] = e.h /\ t[2] = x.vi /\ t[3] \in Preps /\ t[4] = e.view /\ t[6] = x.inv}}
    \cup {[level |-> "wire", ptype |-> "Commit", c |-> c] : c \in {x \in Elems(w.commits) : <<e.h, x.vi, "Commit", x.view, x.sig, x.inv>> \notin sentset}}
    \cup (IF w.phash # "" /\ ~\E t \in sentset : t[1] = e.h /\ t[3] \in Preps /\ t[4] = e.view /\ t[5] = w.phash
          THEN {[level |-> "wire", ptype |-> "PreparationHash", c |-> [hash |-> w.phash]]} ELSE {})
Tup(x) == <<x.h, x.vi, x.type, x.view, x.content, x.inv>>
ExtBad(e) ==
    LET x == e.ext IN
    IF ~x.ok THEN {[level |-> "ext", ptype |-> "decoder-panic", c |-> [err |-> x.err]]}
    ELSE {[level |-> "ext", ptype |-> c.type, c |-> c] : c \in {y \in Elems(x.cvs) \cup Elems(x.resps) \cup Elems(x.commits) : Tup(y) \notin sentset}}
         \cup (IF x.hasreq /\ Tup(x.req) \notin sentset THEN {[level |-> "ext", ptype |-> "PrepareRequest", c |-> x.req]} ELSE {})

RecInfo(e) ==
    LET w == e.wire IN
    [vi |-> e.vi, h |-> e.h, view |-> e.view, hasreq |-> w.hasreq,
     preps |-> {x.vi : x \in Elems(w.preps)},
     cmts |-> {x.vi : x \in {y \in Elems(w.commits) : y.view = e.view}},
     cvn |-> Cardinality({x.vi : x \in {y \in Elems(w.cvs) : y.view + 1 >= e.view}})]

\* ---- RecoveryAdequate, evaluated when the window closes
RSent(h, vi, types, view) == \E t \in sentset : t[1] = h /\ t[2] = vi /\ t[3] \in types /\ t[4] = view
\* win.got: [id, leaving] - the RecoveryMessages delivered to R in the window, and whether R had by then asked to leave the
\* message's view (a validator that is changing view sets preparations aside unless more than F are committed or lost)
Adequate(e) ==
    LET G == {g.id : g \in win.got}
        R == win.vi
        h == win.h
        acc == win.accepted \/ e.lh >= h
    IN  IF G = {} THEN NameIf(~e.asked \/ acc, "RecoveryAdequate")
        ELSE LET W == MaxOf({recs[i].view : i \in G})
                 GW == {i \in G : recs[i].view = W}
                 GU == {g.id : g \in {x \in win.got : ~x.leaving /\ recs[x.id].view = W}}     \* the ones R was open to
                 locked == \E t \in sentset : t[1] = h /\ t[2] = R /\ t[3] = "Commit" /\ t[4] < W
                 rviews == {t[4] : t \in {u \in sentset : u[1] = h /\ u[2] = R}}
                 justified == W = 0 \/ \E i \in GW : recs[i].cvn >= cfg.m
                 hasReq == (\E i \in GU : recs[i].hasreq) \/ RSent(h, R, Preps, W)
                 P == UNION {recs[i].preps : i \in GU} \cup {R}
                 C == UNION {recs[i].cmts : i \in GU} \cup (IF RSent(h, R, {"Commit"}, W) THEN {R} ELSE {})
             IN  IF locked THEN {}
                 ELSE NameIf(~justified \/ acc \/ (rviews # {} /\ MaxOf(rviews) >= W), "RecoveryAdequate")
                      \cup NameIf(~(hasReq /\ Cardinality(P) >= cfg.m) \/ acc \/ RSent(h, R, {"Commit"}, W), "RecoveryAdequate")
                      \cup NameIf(~(hasReq /\ Cardinality(P) >= cfg.m /\ Cardinality(C) >= cfg.m) \/ acc, "RecoveryAdequate")
AdequateCtx(e) ==
    IF win.got = {} THEN [ev |-> e, got |-> 0, reason |-> "no answer"]
    ELSE LET W == MaxOf({recs[g.id].view : g \in win.got}) IN
         [ev |-> e, got |-> Cardinality(win.got), view |-> W, msgs |-> {recs[g.id] : g \in {x \in win.got : recs[x.id].view = W}}]

\* ---- CacheHarmless (b)
CacheExact(e) ==
    IF e.view # 0 THEN {}
    ELSE LET np == Cardinality(Elems(e.got_preps) \cup {e.vi}) + 1       \* responses given, its own, the request
             nc == Cardinality(Elems(e.got_commits) \cup (IF e.sent_commit THEN {e.vi} ELSE {}))
         IN  NameIf(e.got_req => e.sent_resp, "CacheHarmless")
             \cup NameIf((e.got_req /\ np >= cfg.m) => e.sent_commit, "CacheHarmless")
             \cup NameIf((e.got_req /\ nc >= cfg.m) => (e.assembled \/ e.lh >= e.h), "CacheHarmless")
             \cup NameIf(~e.got_req => (~e.sent_resp /\ ~e.sent_commit /\ ~e.assembled /\ e.lh < e.h), "CacheHarmless")

Step ==
    /\ l <= Len(TLog)
    /\ l' = l + 1
    /\ LET e == TLog[l] IN
       CASE e.event = "init" ->
              /\ sentset' = {} /\ recs' = <<>> /\ chain' = <<>> /\ win' = NoWin /\ cfg' = [n |-> e.n, m |-> e.m]
         [] e.event = "sent" /\ e.type # "undecodable" ->
              /\ sentset' = sentset \cup {<<e.h, e.vi, e.type, e.view, e.content, e.inv>>}
              /\ UNCHANGED <<recs, chain, win, cfg>>
              /\ Report(l, NameIf(e.h <= e.lh + 1, "NoSkip") \cup NameIf(e.vi = e.node_vi, "RecoverySound"), [ev |-> e])
         [] e.event = "recovery_sent" ->
              /\ recs' = (e.id :> RecInfo(e)) @@ recs
              /\ UNCHANGED <<sentset, chain, win, cfg>>
              /\ LET bad == (IF e.wire_ok THEN WireBad(e) ELSE {}) \cup ExtBad(e)
                 IN  Report(l, NameIf(bad = {}, "RecoverySound"), [id |-> e.id, vi |-> e.vi, h |-> e.h, view |-> e.view, bad |-> bad])
         [] e.event = "deliver" ->
              /\ win' = IF win.on /\ e.to = win.node /\ e.type = "RecoveryMessage" /\ e.result = "delivered" /\ e.h = win.h /\ e.id \in DOMAIN recs
                        THEN [win EXCEPT !.got = @ \cup {[id |-> e.id, leaving |-> RSent(win.h, win.vi, {"ChangeView"}, recs[e.id].view)]}] ELSE win
              /\ UNCHANGED <<sentset, recs, chain, cfg>>
         [] e.event = "accept" ->
              /\ chain' = IF HasH(e.h) THEN chain ELSE (e.h :> e.hash) @@ chain
              /\ win' = IF win.on /\ e.node = win.node /\ e.h = win.h THEN [win EXCEPT !.accepted = TRUE] ELSE win
              /\ UNCHANGED <<sentset, recs, cfg>>
              /\ Report(l, Agree(e), [ev |-> e])
         [] e.event = "feed" ->
              /\ UNCHANGED <<sentset, recs, chain, win, cfg>>
              /\ Report(l, NameIf(e.ok, "Acceptable") \cup Agree(e), [ev |-> e])
         [] e.event = "queued" ->        \* the validator's consensus service assembled a block and handed it to its ledger
              /\ win' = IF win.on /\ e.node = win.node /\ e.h = win.h THEN [win EXCEPT !.accepted = TRUE] ELSE win
              /\ UNCHANGED <<sentset, recs, chain, cfg>>
              /\ Report(l, NameIf(e.witness_ok, "Acceptable") \cup Agree(e), [ev |-> e])
         [] e.event = "queued_at" ->
              /\ UNCHANGED <<sentset, recs, chain, win, cfg>>
              /\ Report(l, NameIf(e.h <= e.lh + 1, "NoSkip"), [ev |-> e])
         [] e.event = "recwin_open" ->
              /\ win' = [on |-> TRUE, node |-> e.node, vi |-> e.vi, h |-> e.h, got |-> {}, accepted |-> FALSE]
              /\ UNCHANGED <<sentset, recs, chain, cfg>>
         [] e.event = "recwin_close" ->
              /\ win' = NoWin
              /\ UNCHANGED <<sentset, recs, chain, cfg>>
              /\ Report(l, IF win.on THEN Adequate(e) ELSE {}, AdequateCtx(e))
         [] e.event = "cache_probe" ->
              /\ UNCHANGED <<sentset, recs, chain, win, cfg>>
              /\ Report(l, NameIf(e.sends_after = e.sends_before /\ e.lh_after = e.lh_before /\ e.queued_after = e.queued_before, "CacheHarmless"), [ev |-> e])
         [] e.event = "cache_replayed" ->
              /\ UNCHANGED <<sentset, recs, chain, win, cfg>>
              /\ Report(l, CacheExact(e), [ev |-> e])
         [] OTHER -> UNCHANGED <<sentset, recs, chain, win, cfg>>

TraceSpec == Init /\ [][Step]_vars
=============================================================================
