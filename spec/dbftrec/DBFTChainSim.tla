---------------------------- MODULE DBFTChainSim ----------------------------
(* Schedule generator for DBFTChain: several heights, late and early payloads, block relays, one validator waking up late. *)
EXTENDS MCDBFTChain, Sequences, Json

CONSTANT Depth
VARIABLE hist

SimInit == Init /\ hist = <<>>
SimNext ==
    \/ \E v \in Val : Timeout(v) /\ vars' # vars /\ hist' = Append(hist, [op |-> "timeout", v |-> v])
    \/ \E v \in Val, m \in msgs : Deliver(m, v)
           /\ hist' = Append(hist, [op |-> "deliver", type |-> m.type, from |-> m.from, h |-> m.h, view |-> m.view, to |-> v,
                                    when |-> IF m.h > st[v].h THEN "early" ELSE IF m.h < st[v].h THEN "late" ELSE "ontime",
                                    adv |-> st'[v].h - st[v].h])
    \/ \E v, u \in Val : Relay(v, u) /\ hist' = Append(hist, [op |-> "relay", v |-> v, adv |-> st'[v].h - st[v].h])
    \* (generator only) the held-back validator is woken once somebody is a full height ahead, so that it really lags
    \/ \E S \in NextSilentSets : SetSilent(S) /\ (\E u \in Val \ silent : st[u].h > H0 + 1) /\ hist' = Append(hist, [op |-> "silent", set |-> S])
SimSpec == SimInit /\ [][SimNext]_<<vars, hist>>

Last == hist[Len(hist)]
\* goals
C1 == hist # <<>> /\ Last.op = "relay" /\ Last.adv >= 2       \* a relayed block completes the next height too, out of the cache
C2 == hist # <<>> /\ Last.op = "deliver" /\ Last.when = "early" /\ Cardinality({i \in DOMAIN hist : hist[i].op = "deliver" /\ hist[i].when = "early"}) >= 4
C3 == hist # <<>> /\ Last.op = "deliver" /\ Last.adv >= 2     \* a commit completes a height and the cache completes the next one
C4 == \A v \in Val : Done(st[v])                              \* everybody through all heights
Reached(g) == CASE g = "C1" -> C1 [] g = "C2" -> C2 [] g = "C3" -> C3 [] OTHER -> C4
GoalEmit == \A g \in {"C1", "C2", "C3", "C4"} : (hist # <<>> /\ Reached(g)) => PrintT(<<"@@HIST@@", ToJson([goal |-> g, hist |-> hist])>>)
=============================================================================
