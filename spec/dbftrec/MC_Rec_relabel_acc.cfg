SPECIFICATION SpecV1
CONSTANTS
  N = 4
  MaxView = 1
  Height = 1
  InitSilentSets <- SilentNone
  MaxSilentChanges = 0
  Requesters <- Req02
  MaxRec = 2
  Relabel = TRUE
  VerifyOnRequest = FALSE
  Bug = "none"
INVARIANTS Agreement CommitLock Acceptable AcceptJustified
CHECK_DEADLOCK FALSE
