SPECIFICATION SimSpec
CONSTANTS
  N = 4
  MaxView = 0
  H0 = 1
  NH = 3
  InitSilentSets <- SilentEach
  NextSilentSets <- SilentNone
  MaxSilentChanges = 1
  WakeAllDone = FALSE
  Bug = "none"
  Depth = 120
INVARIANT GoalEmit
CHECK_DEADLOCK FALSE
