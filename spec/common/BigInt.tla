------------------------------- MODULE BigInt -------------------------------
(* Unbounded integers for TLC (whose own integers are 32-bit Java ints).

   A big integer is a record [neg |-> BOOLEAN, mag |-> limbs] in sign-magnitude form; `mag' is the
   magnitude as a little-endian sequence of limbs in base B = 2^15 WITHOUT trailing zero limbs, zero is
   [neg |-> FALSE, mag |-> <<>>] (no negative zero).  Base 2^15 keeps every intermediate product
   (limb*limb + carry < 2^30 + 2^16) inside TLC's 32-bit integers.

   These TLA+ definitions are NORMATIVE: every other module (VMSem for C13, token specs) computes with
   them and nothing else; no Java override is installed for this module (the pure definitions proved
   fast enough: ~0.1 ms for add/compare, ~3 ms for a 256-bit division, ~1 s for a full-size ModPow).

   Division is schoolbook long division in base B whose quotient digit is found by starting from an
   OVER-estimate (top two limbs of the running remainder divided by the top limb of the divisor) and
   decrementing until digit*divisor <= remainder; operands are pre-shifted so that the divisor's top
   limb has its high bit set, which (Knuth, TAOCP 4.3.1 Thm B) bounds the number of decrements by 2 -
   the result does not depend on that bound, only the running time does. *)
LOCAL INSTANCE Integers
LOCAL INSTANCE Sequences
LOCAL INSTANCE Bitwise

LOCAL B == 32768
LOCAL LB == 15

Zero == [neg |-> FALSE, mag |-> <<>>]

-----------------------------------------------------------------------------
(* magnitudes (natural numbers) *)

RECURSIVE MTrim(_)
MTrim(s) == IF s = <<>> THEN s
            ELSE IF s[Len(s)] = 0 THEN MTrim(SubSeq(s, 1, Len(s) - 1)) ELSE s

LOCAL Limb(s, i) == IF i <= Len(s) THEN s[i] ELSE 0

\* -1, 0, 1
RECURSIVE MCmpAt(_, _, _)
MCmpAt(a, b, i) == IF i = 0 THEN 0
                   ELSE IF a[i] < b[i] THEN -1
                   ELSE IF a[i] > b[i] THEN 1
                   ELSE MCmpAt(a, b, i - 1)
MCmp(a, b) == IF Len(a) < Len(b) THEN -1
              ELSE IF Len(a) > Len(b) THEN 1
              ELSE MCmpAt(a, b, Len(a))

RECURSIVE MAddRec(_, _, _, _, _)
MAddRec(a, b, i, c, acc) ==
    IF i > Len(a) /\ i > Len(b) THEN (IF c = 0 THEN acc ELSE Append(acc, c))
    ELSE LET s == Limb(a, i) + Limb(b, i) + c
         IN MAddRec(a, b, i + 1, s \div B, Append(acc, s % B))
MAdd(a, b) == MAddRec(a, b, 1, 0, <<>>)

\* a - b for a >= b
RECURSIVE MSubRec(_, _, _, _, _)
MSubRec(a, b, i, br, acc) ==
    IF i > Len(a) THEN MTrim(acc)
    ELSE LET d == a[i] - Limb(b, i) - br
         IN IF d < 0 THEN MSubRec(a, b, i + 1, 1, Append(acc, d + B))
                     ELSE MSubRec(a, b, i + 1, 0, Append(acc, d))
MSub(a, b) == MSubRec(a, b, 1, 0, <<>>)

\* a * d for a single limb d (0 <= d < B)
RECURSIVE MMulLimbRec(_, _, _, _, _)
MMulLimbRec(a, d, i, c, acc) ==
    IF i > Len(a) THEN (IF c = 0 THEN acc ELSE Append(acc, c))
    ELSE LET p == a[i] * d + c
         IN MMulLimbRec(a, d, i + 1, p \div B, Append(acc, p % B))
MMulLimb(a, d) == IF d = 0 \/ a = <<>> THEN <<>> ELSE MMulLimbRec(a, d, 1, 0, <<>>)

LOCAL Zeros(n) == [i \in 1..n |-> 0]
\* a * B^n
MShlLimbs(a, n) == IF a = <<>> THEN a ELSE Zeros(n) \o a

RECURSIVE MMulRec(_, _, _, _)
MMulRec(a, b, j, acc) ==
    IF j > Len(b) THEN acc
    ELSE MMulRec(a, b, j + 1,
                 IF b[j] = 0 THEN acc ELSE MAdd(acc, MShlLimbs(MMulLimb(a, b[j]), j - 1)))
MMul(a, b) == IF Len(a) >= Len(b) THEN MMulRec(a, b, 1, <<>>) ELSE MMulRec(b, a, 1, <<>>)

\* number of bits of a native integer 0 <= x < B
LOCAL LimbBits(x) == IF x = 0 THEN 0 ELSE
                     CHOOSE k \in 1..LB : 2^(k-1) <= x /\ x < 2^k
MBitLen(a) == IF a = <<>> THEN 0 ELSE (Len(a) - 1) * LB + LimbBits(a[Len(a)])

\* a * 2^n
MShl(a, n) ==
    IF a = <<>> THEN a
    ELSE LET s == n % LB
             m == 2^s
             sh == IF s = 0 THEN a ELSE MMulLimb(a, m)
         IN MShlLimbs(sh, n \div LB)

\* floor(a / 2^n)
MShr(a, n) ==
    LET w == n \div LB
        s == n % LB
    IN IF w >= Len(a) THEN <<>>
       ELSE LET t == SubSeq(a, w + 1, Len(a))
                d == 2^s
                u == 2^(LB - s)
            IN IF s = 0 THEN t
               ELSE MTrim([i \in 1..Len(t) |-> (t[i] \div d) + (Limb(t, i + 1) % d) * u])

\* bit i (0-based) of a
MBit(a, i) == (Limb(a, i \div LB + 1) \div 2^(i % LB)) % 2

\* division of a by a single limb d (1 <= d < B): <<quotient, remainder (native)>>
RECURSIVE MDivLimbRec(_, _, _, _, _)
MDivLimbRec(a, d, i, r, acc) ==
    IF i = 0 THEN <<MTrim(acc), r>>
    ELSE LET x == r * B + a[i]
         IN MDivLimbRec(a, d, i - 1, x % d, <<x \div d>> \o acc)
MDivLimb(a, d) == MDivLimbRec(a, d, Len(a), 0, <<>>)

\* one quotient digit: largest q with q*b <= r, searched downwards from the over-estimate q
RECURSIVE MDigit(_, _, _)
MDigit(r, b, q) == IF q = 0 THEN 0
                   ELSE IF MCmp(MMulLimb(b, q), r) <= 0 THEN q ELSE MDigit(r, b, q - 1)

\* long division, b normalised (top limb >= B/2), Len(b) >= 2; i runs from Len(a) down to 1
RECURSIVE MDivRec(_, _, _, _, _)
MDivRec(a, b, i, r, q) ==
    IF i = 0 THEN <<MTrim(q), r>>
    ELSE LET r1 == MTrim(<<a[i]>> \o r)                      \* r*B + a[i]
             n  == Len(b)
             top == Limb(r1, n + 1) * B + Limb(r1, n)        \* r1 < b*B, hence < 2^30
             est == top \div b[n]
             d  == IF MCmp(r1, b) < 0 THEN 0 ELSE MDigit(r1, b, IF est > B - 1 THEN B - 1 ELSE est)
             r2 == IF d = 0 THEN r1 ELSE MSub(r1, MMulLimb(b, d))
         IN MDivRec(a, b, i - 1, r2, <<d>> \o q)

\* <<floor(a/b), a mod b>> for b # 0
MDivMod(a, b) ==
    IF MCmp(a, b) < 0 THEN <<(<<>>), a>>
    ELSE IF Len(b) = 1 THEN LET qr == MDivLimb(a, b[1])
                            IN <<qr[1], IF qr[2] = 0 THEN <<>> ELSE <<qr[2]>> >>
    ELSE LET s  == LB - LimbBits(b[Len(b)])
             qr == MDivRec(MShl(a, s), MShl(b, s), Len(MShl(a, s)), <<>>, <<>>)
         IN <<qr[1], MShr(qr[2], s)>>

MFromNat(n) == IF n = 0 THEN <<>>
               ELSE IF n < B THEN <<n>>
               ELSE IF n < B * B THEN <<n % B, n \div B>>
               ELSE <<n % B, (n \div B) % B, n \div (B * B)>>

-----------------------------------------------------------------------------
(* signed integers *)

Mk(neg, mag) == [neg |-> neg /\ mag # <<>>, mag |-> mag]

FromInt(n) == IF n >= 0 THEN Mk(FALSE, MFromNat(n))
              ELSE IF n = -2147483647 - 1 THEN Mk(TRUE, <<0, 0, 2>>)
              ELSE Mk(TRUE, MFromNat(0 - n))

IsZero(a) == a.mag = <<>>
Sign(a)   == IF a.mag = <<>> THEN 0 ELSE IF a.neg THEN -1 ELSE 1
Neg(a)    == Mk(~a.neg, a.mag)
Abs(a)    == Mk(FALSE, a.mag)

Cmp(a, b) == IF a.neg # b.neg THEN (IF a.neg THEN -1 ELSE 1)
             ELSE IF a.neg THEN MCmp(b.mag, a.mag) ELSE MCmp(a.mag, b.mag)
Eq(a, b) == a.neg = b.neg /\ a.mag = b.mag
Lt(a, b) == Cmp(a, b) < 0
Le(a, b) == Cmp(a, b) <= 0

Add(a, b) == IF a.neg = b.neg THEN Mk(a.neg, MAdd(a.mag, b.mag))
             ELSE LET c == MCmp(a.mag, b.mag)
                  IN IF c = 0 THEN Zero
                     ELSE IF c > 0 THEN Mk(a.neg, MSub(a.mag, b.mag))
                     ELSE Mk(b.neg, MSub(b.mag, a.mag))
Sub(a, b) == Add(a, Neg(b))
Mul(a, b) == Mk(a.neg # b.neg, MMul(a.mag, b.mag))

One == FromInt(1)
MinusOne == FromInt(-1)

\* truncated division (quotient rounds towards zero, remainder has the sign of the dividend); b # 0
DivModTrunc(a, b) == LET qr == MDivMod(a.mag, b.mag)
                     IN [q |-> Mk(a.neg # b.neg, qr[1]), r |-> Mk(a.neg, qr[2])]
Quo(a, b) == DivModTrunc(a, b).q
Rem(a, b) == DivModTrunc(a, b).r

\* a^e for a native exponent e >= 0 (square and multiply over the bits of e)
RECURSIVE MPowRec(_, _, _)
MPowRec(base, e, acc) == IF e = 0 THEN acc
                         ELSE MPowRec(IF e = 1 THEN base ELSE MMul(base, base), e \div 2,
                                      IF e % 2 = 1 THEN MMul(acc, base) ELSE acc)
Pow(a, e) == Mk(a.neg /\ e % 2 = 1, MPowRec(a.mag, e, <<1>>))

BitLen(a) == MBitLen(a.mag)     \* of the magnitude

\* floor of the square root, a >= 0.  Newton's iteration x' = (x + a \div x) \div 2 started from a power of
\* two x0 >= sqrt(a): the iterates decrease strictly while x > floor(sqrt(a)) and the first x with
\* x' >= x is floor(sqrt(a)) (classical integer square root).
RECURSIVE MSqrtRec(_, _)
MSqrtRec(a, x) == LET y == MShr(MAdd(x, MDivMod(a, x)[1]), 1)
                  IN IF MCmp(y, x) >= 0 THEN x ELSE MSqrtRec(a, y)
Sqrt(a) == IF a.mag = <<>> THEN Zero
           ELSE Mk(FALSE, MSqrtRec(a.mag, MShl(<<1>>, (MBitLen(a.mag) + 1) \div 2)))

\* (a*b) rem m, truncated
ModMul(a, b, m) == Rem(Mul(a, b), m)

\* a^e rem m (truncated: sign of a^e), e >= 0 a big integer, m # 0.
\* |a|^e mod |m| by square and multiply over the bits of e from the top, then the sign of a^e.
RECURSIVE MModPowRec(_, _, _, _, _)
MModPowRec(base, e, m, i, acc) ==
    IF i < 0 THEN acc
    ELSE LET sq == MDivMod(MMul(acc, acc), m)[2]
             nx == IF MBit(e, i) = 1 THEN MDivMod(MMul(sq, base), m)[2] ELSE sq
         IN MModPowRec(base, e, m, i - 1, nx)
ModPow(a, e, m) ==
    LET one == MDivMod(<<1>>, m.mag)[2]
        r   == MModPowRec(MDivMod(a.mag, m.mag)[2], e.mag, m.mag, MBitLen(e.mag) - 1, one)
    IN Mk(a.neg /\ MBit(e.mag, 0) = 1, r)

\* modular inverse of a > 0 modulo m >= 2 by the extended Euclidean algorithm:
\* [ok |-> gcd(a, m) = 1, inv |-> the x in 0..m-1 with a*x = 1 (mod m)]
RECURSIVE EuclidRec(_, _, _, _)
EuclidRec(oldr, r, olds, s) ==      \* invariant: oldr = olds*a (mod m), r = s*a (mod m)
    IF IsZero(r) THEN <<oldr, olds>>
    ELSE LET qr == DivModTrunc(oldr, r)
         IN EuclidRec(r, qr.r, s, Sub(olds, Mul(qr.q, s)))
ModInverse(a, m) ==
    LET g == EuclidRec(a, m, One, Zero)
        x == Rem(g[2], m)
    IN [ok |-> Eq(g[1], One), inv |-> IF x.neg THEN Add(x, m) ELSE x]

-----------------------------------------------------------------------------
(* shifts and two's complement bit operations *)

Shl(a, n) == Mk(a.neg, MShl(a.mag, n))
\* floor(a / 2^n) (arithmetic shift: rounds towards minus infinity)
Shr(a, n) == IF ~a.neg THEN Mk(FALSE, MShr(a.mag, n))
             ELSE Sub(Neg(Mk(FALSE, MShr(MSub(a.mag, <<1>>), n))), One)

BNot(a) == Sub(Neg(a), One)     \* -a - 1

\* two's complement digits of a in exactly n limbs (n large enough: |a| < B^n / 2)
LOCAL TC(a, n) == IF ~a.neg THEN [i \in 1..n |-> Limb(a.mag, i)]
                  ELSE LET m == MSub(MShlLimbs(<<1>>, n), a.mag) IN [i \in 1..n |-> Limb(m, i)]
LOCAL FromTC(d, n) == IF d[n] < B \div 2 THEN Mk(FALSE, MTrim(d))
                      ELSE Mk(TRUE, MSub(MShlLimbs(<<1>>, n), MTrim(d)))
LOCAL Width(a, b) == (IF Len(a.mag) > Len(b.mag) THEN Len(a.mag) ELSE Len(b.mag)) + 1

BAnd(a, b) == LET n == Width(a, b) x == TC(a, n) y == TC(b, n)
             IN FromTC([i \in 1..n |-> x[i] & y[i]], n)
BOr(a, b)  == LET n == Width(a, b) x == TC(a, n) y == TC(b, n)
             IN FromTC([i \in 1..n |-> x[i] | y[i]], n)
BXor(a, b) == LET n == Width(a, b) x == TC(a, n) y == TC(b, n)
             IN FromTC([i \in 1..n |-> x[i] ^^ y[i]], n)

-----------------------------------------------------------------------------
(* ranges and byte encodings *)

Pow2(n) == Mk(FALSE, MShl(<<1>>, n))

\* -2^(n-1) <= a <= 2^(n-1) - 1
FitsBits(a, n) == IF a.neg THEN MCmp(a.mag, MShl(<<1>>, n - 1)) <= 0
                  ELSE MBitLen(a.mag) <= n - 1
Fits256(a) == FitsBits(a, 256)

\* a native integer from a big one known to be within -2^31+1 .. 2^31-1
ToInt(a) == LET m == Limb(a.mag, 1) + Limb(a.mag, 2) * B + Limb(a.mag, 3) * B * B
            IN IF a.neg THEN 0 - m ELSE m
FitsInt32(a) == FitsBits(a, 32)
\* native value for numbers in the int32 range except -2^31 (callers treat it separately: always negative)
IsMinInt32(a) == a.neg /\ a.mag = <<0, 0, 2>>

\* number of bytes of the minimal two's complement encoding (0 for zero)
ByteLen(a) == IF a.mag = <<>> THEN 0
              ELSE IF a.neg THEN MBitLen(MSub(a.mag, <<1>>)) \div 8 + 1
              ELSE MBitLen(a.mag) \div 8 + 1

RECURSIVE MToBytesRec(_, _, _)
MToBytesRec(m, k, acc) == IF k = 0 THEN acc
                          ELSE LET qr == MDivLimb(m, 256) IN MToBytesRec(qr[1], k - 1, Append(acc, qr[2]))
\* minimal little-endian two's complement encoding; zero is the empty string
ToBytesLE(a) == LET k == ByteLen(a)
                    v == IF a.neg THEN MSub(MShl(<<1>>, 8 * k), a.mag) ELSE a.mag
                IN MToBytesRec(v, k, <<>>)

RECURSIVE MFromBytesRec(_, _, _)
MFromBytesRec(bs, i, acc) == IF i = 0 THEN acc
                             ELSE MFromBytesRec(bs, i - 1, MAdd(MMulLimb(acc, 256), MFromNat(bs[i])))
\* little-endian two's complement of any length (also non-minimal encodings); empty string is zero
FromBytesLE(bs) == IF bs = <<>> THEN Zero
                   ELSE LET v == MFromBytesRec(bs, Len(bs), <<>>)
                        IN IF bs[Len(bs)] >= 128 THEN Mk(TRUE, MSub(MShl(<<1>>, 8 * Len(bs)), v))
                           ELSE Mk(FALSE, v)
=============================================================================
