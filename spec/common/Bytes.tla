------------------------------- MODULE Bytes -------------------------------
(* Byte strings as sequences over 0..255 with the lexicographic order every store of the node uses. *)
EXTENDS Integers, Sequences

RECURSIVE BLess(_, _)
BLess(a, b) == IF a = <<>> THEN b # <<>>
               ELSE IF b = <<>> THEN FALSE
               ELSE IF a[1] # b[1] THEN a[1] < b[1]
               ELSE BLess(Tail(a), Tail(b))
BLeq(a, b) == a = b \/ BLess(a, b)

HasPrefix(k, p) == Len(p) <= Len(k) /\ SubSeq(k, 1, Len(p)) = p
Drop(k, n) == SubSeq(k, n + 1, Len(k))
=============================================================================
