------------------------------ MODULE TraceIO ------------------------------
(* Shared plumbing of every *Trace module: the recorded NDJSON log (one JSON object per line,
   file trace.ndjson in TLC's working directory), and the failure reporter.  A trace specification
   built on this module is TOTAL and DETERMINISTIC: it consumes every line; each predicate of the
   abstract specification that an observed step falsifies is REPORTED (one @@FAIL@@ line on stdout,
   collected by tools/vlib.py) instead of blocking, so that the rest of the trace is still judged and
   every failure gets its own signature.  TraceAccepted (POSTCONDITION) guarantees all lines were
   consumed.  The log operator is not called Trace: TLCExt defines that name. *)
EXTENDS Integers, Sequences, TLC, Json

TLog == ndJsonDeserialize("trace.ndjson")

\* F is a set of names of falsified predicates; ctx any JSON-able context
Report(line, F, ctx) ==
    IF F = {} THEN TRUE ELSE PrintT(<<"@@FAIL@@", ToJson([line |-> line, what |-> F, ctx |-> ctx])>>)

NameIf(cond, name) == IF cond THEN {} ELSE {name}

TraceAccepted == TLCGet("stats").diameter - 1 = Len(TLog)
=============================================================================
