SPECIFICATION Spec
CONSTANTS
  Tx <- U4
  BalSet <- B4
  FpbSet <- F12
  Cap = 2
  BugPayer = FALSE
  BugOracle = FALSE
INVARIANTS AbsInv CacheExact NoPanic
PROPERTIES AbsStep
CHECK_DEADLOCK FALSE
