SPECIFICATION SimSpec
CONSTANTS
  Tx <- U1
  BalSet <- B1
  FpbSet <- F12
  Cap = 3
  BugPayer = FALSE
  BugOracle = FALSE
  Depth = 14
INVARIANT Emit
CHECK_DEADLOCK FALSE
