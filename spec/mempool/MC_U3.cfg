SPECIFICATION Spec
CONSTANTS
  Tx <- U3
  BalSet <- B3
  FpbSet <- F12
  Cap = 3
  BugPayer = FALSE
  BugOracle = FALSE
INVARIANTS AbsInv CacheExact NoPanic
PROPERTIES AbsStep
CHECK_DEADLOCK FALSE
