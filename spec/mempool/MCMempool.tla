----------------------------- MODULE MCMempool -----------------------------
(* Universes for the exhaustive runs of MempoolImpl (DESIGN 4/C08).  Units: fees in "model units",
   the harness scales them (x20 with a fixed 200-byte transaction size, so fpb = netfee \div 10). *)
EXTENDS MempoolImpl

R(payer, primary, author, cost, netfee, high, confseq, signers, oracle) ==
    [payer |-> payer, primary |-> primary, author |-> author, cost |-> cost, netfee |-> netfee,
     fpb |-> netfee \div 10, high |-> high, confseq |-> confseq, conf |-> ToSet(confseq),
     signers |-> signers, oracle |-> oracle]

\* (i) one payer near its balance, a replacing conflict, a conflict not signed by the victim's signer
U1 == << R("A", "A", "A", 25, 20, FALSE, <<>>, {"A"}, 0),
         R("A", "A", "A", 30, 10, FALSE, <<>>, {"A"}, 0),
         R("A", "A", "A", 35, 31, FALSE, <<1>>, {"A"}, 0),
         R("B", "B", "B", 22, 22, FALSE, <<2>>, {"B"}, 0),
         R("B", "B", "B", 45, 40, TRUE,  <<>>, {"B"}, 0) >>
B1 == { [A |-> 60, B |-> 50], [A |-> 40, B |-> 70], [A |-> 70, B |-> 20] }

\* (ii) conflict chains
U2 == << R("A", "A", "A", 10, 10, FALSE, <<>>, {"A"}, 0),
         R("B", "B", "B", 15, 15, FALSE, <<1>>, {"A", "B"}, 0),
         R("A", "A", "A", 30, 30, FALSE, <<1, 2>>, {"A"}, 0),
         R("C", "C", "C", 12, 12, FALSE, <<3>>, {"C"}, 0),
         R("A", "A", "A", 40, 25, FALSE, <<>>, {"A"}, 0) >>
B2 == { [A |-> 50, B |-> 20, C |-> 12], [A |-> 80, B |-> 10, C |-> 30] }

\* (iii) two notary depositors sharing the Notary primary, cross-payer conflict
U3 == << R("N:A", "Notary", "A", 30, 20, FALSE, <<>>, {"Notary", "A"}, 0),
         R("N:B", "Notary", "B", 20, 10, FALSE, <<>>, {"Notary", "B"}, 0),
         R("N:A", "Notary", "A", 40, 30, FALSE, <<2>>, {"Notary", "A"}, 0),
         R("N:B", "Notary", "B", 25, 15, FALSE, <<>>, {"Notary", "B"}, 0),
         R("A", "A", "A", 20, 20, FALSE, <<>>, {"A"}, 0) >>
B3 == { [A |-> 30] @@ ("N:A" :> 60) @@ ("N:B" :> 50), [A |-> 20] @@ ("N:A" :> 75) @@ ("N:B" :> 20) }

\* (iv) oracle responses at capacity 2
U4 == << R("O", "O", "O", 20, 20, FALSE, <<>>, {"O"}, 1),
         R("O", "O", "O", 30, 30, FALSE, <<>>, {"O"}, 1),
         R("A", "A", "A", 50, 50, FALSE, <<>>, {"A"}, 0),
         R("A", "A", "A", 45, 45, FALSE, <<>>, {"A"}, 0),
         R("O", "O", "O", 10, 10, FALSE, <<>>, {"O"}, 2),
         R("O", "O", "O", 12, 12, FALSE, <<>>, {"O"}, 2) >>
B4 == { [A |-> 100, O |-> 100], [A |-> 60, O |-> 35] }

F12 == {1, 2}
=============================================================================
