SPECIFICATION Spec
CONSTANTS
  Tx <- U1
  BalSet <- B1
  FpbSet <- F12
  Cap = 3
  BugPayer = FALSE
  BugOracle = FALSE
INVARIANTS AbsInv CacheExact NoPanic
PROPERTIES AbsStep
CHECK_DEADLOCK FALSE
