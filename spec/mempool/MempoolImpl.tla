---------------------------- MODULE MempoolImpl ----------------------------
(***************************************************************************)
(* Implementation-shaped model of pkg/core/mempool/mem_pool.go.            *)
(* One action per critical section (everything Pool.Add / Remove /         *)
(* RemoveStale do happens under mp.lock, so each is one action); the       *)
(* internal caches the code trusts are explicit variables:                 *)
(*   feeSum  <- mp.fees[payer].feeSum      (cached sum of pooled fees)     *)
(*   cmap    <- mp.conflicts               (hash -> pooled txs naming it)  *)
(*   omap    <- mp.oracleResp              (oracle id -> pooled tx)        *)
(*   policy  <- mp.feePerByte              (ratchet, loadPolicy)           *)
(* TLC checks that every invariant / action property of the abstract       *)
(* module Mempool holds on this model (Impl => Abstract) and that the      *)
(* caches are exact.  Two named deviations reproduce defects found in the  *)
(* pinned tree (both repaired by "fix:" commits, see known_findings.json): *)
(*   BugPayer  - step 3 of checkTxConflicts compares the secondary payer   *)
(*               with itself (mem_pool.go:643 of the pinned tree)          *)
(*   BugOracle - mp.oracleResp[id] is set before the capacity check, so a  *)
(*               failing Add leaves a dangling entry                       *)
(* With both FALSE the model follows the repaired code.                    *)
(***************************************************************************)
EXTENDS Integers, Sequences, FiniteSets, SequencesExt, FiniteSetsExt, TLC

CONSTANTS Tx,        \* sequence of transaction records (see Mempool.tla) + fields author, primary, confseq
          Cap,       \* pool capacity
          BalSet,    \* set of balance functions payer -> Nat the Feer may report
          FpbSet,    \* set of fee-per-byte policy values the Feer may report
          BugPayer, BugOracle

VARIABLES pool, feeSum, cmap, omap, bal, policy, last

vars == <<pool, feeSum, cmap, omap, bal, policy, last>>

Abs == INSTANCE Mempool

N      == Len(Tx)
TxIds  == 1..N
Payers == {Tx[i].payer : i \in TxIds}
OIds   == {Tx[i].oracle : i \in TxIds} \ {0}

InPool(p, x) == x \in ToSet(p)
Cmp(a, b) == IF Abs!PrioLess(Tx[a], Tx[b]) THEN -1 ELSE IF Abs!PrioLess(Tx[b], Tx[a]) THEN 1 ELSE 0

SumNet(S)  == FoldSet(LAMBDA x, acc : acc + Tx[x].netfee, 0, S)
SumCostIf(S, P(_)) == FoldSet(LAMBDA x, acc : IF P(x) THEN acc + Tx[x].cost ELSE acc, 0, S)

Without(p, S) == SelectSeq(p, LAMBDA x : x \notin S)

\* Remove the set S of pooled transactions from a state record (removeInternal for each).
DropAll(st, S) ==
    LET R == S \cap ToSet(st.pool) IN
    [ pool   |-> Without(st.pool, R),
      feeSum |-> [p \in Payers |-> st.feeSum[p] - SumCostIf(R, LAMBDA x : Tx[x].payer = p)],
      cmap   |-> [c \in TxIds |-> st.cmap[c] \ R],
      omap   |-> [o \in OIds |-> IF st.omap[o] \in R THEN 0 ELSE st.omap[o]] ]

\* 0-based insertion position of t in p (mem_pool.go: "equal to the last => append", else binary search
\* for the first strictly less prioritized element).
InsPos(p, t) ==
    IF Len(p) = 0 THEN 0
    ELSE IF Cmp(t, p[Len(p)]) = 0 THEN Len(p)
    ELSE LET less == {i \in 1..Len(p) : Cmp(t, p[i]) > 0}
         IN  IF less = {} THEN Len(p) ELSE Min(less) - 1

InsAt(p, n, t) == SubSeq(p, 1, n) \o <<t>> \o SubSeq(p, n + 1, Len(p))

Cur == [pool |-> pool, feeSum |-> feeSum, cmap |-> cmap, omap |-> omap]

\* checkTxConflicts: returns [err, rem]
Check(t) ==
    LET tr    == Tx[t]
        s1    == cmap[t]                                              \* pooled txs naming t
        fee1  == SumNet({x \in s1 : tr.author \in Tx[x].signers})
        s2    == {c \in tr.conf : InPool(pool, c)}
        bad2  == \E c \in s2 : Tx[c].signers \cap tr.signers = {}
        cfee  == fee1 + SumNet(s2)
        rem   == s1 \cup s2
        same(x) == IF BugPayer THEN Tx[x].primary = tr.primary ELSE Tx[x].payer = tr.payer
        expected == feeSum[tr.payer] - SumCostIf(rem, same)
    IN  IF bad2 THEN [err |-> "conflicts-signer", rem |-> {}]
        ELSE IF cfee # 0 /\ tr.netfee <= cfee THEN [err |-> "conflicts-fee", rem |-> {}]
        ELSE IF bal[tr.payer] < tr.cost THEN [err |-> "insufficient", rem |-> {}]
        ELSE IF bal[tr.payer] < tr.cost + expected THEN [err |-> "conflict-funds", rem |-> {}]
        ELSE [err |-> "", rem |-> rem]

Fail(op, t, e) == /\ last' = [op |-> op, tx |-> t, ok |-> FALSE, err |-> e]
                  /\ UNCHANGED <<pool, feeSum, cmap, bal, policy>>

Add(t) ==
    LET tr == Tx[t] IN
    IF InPool(pool, t) THEN Fail("add", t, "dup") /\ UNCHANGED omap
    ELSE
    LET ck == Check(t) IN
    IF ck.err # "" THEN Fail("add", t, ck.err) /\ UNCHANGED omap
    ELSE
    LET o  == tr.oracle
        h  == IF o = 0 THEN 0 ELSE omap[o]
    IN
    IF h # 0 /\ ~InPool(pool, h) THEN      \* only reachable with BugOracle: nil dereference in the code
        Fail("add", t, "PANIC") /\ UNCHANGED omap
    ELSE IF h # 0 /\ Tx[h].netfee >= tr.netfee THEN Fail("add", t, "oracle") /\ UNCHANGED omap
    ELSE
    LET st1 == DropAll(Cur, (IF h = 0 THEN {} ELSE {h}) \cup ck.rem)
        n   == InsPos(st1.pool, t)
        full == Len(st1.pool) = Cap
    IN
    IF full /\ n = Len(st1.pool) THEN
        /\ Fail("add", t, "oom")
        /\ omap' = IF BugOracle /\ o # 0 THEN [omap EXCEPT ![o] = t] ELSE omap
    ELSE
    LET st2 == IF full THEN DropAll(st1, {st1.pool[Len(st1.pool)]}) ELSE st1 IN
        /\ pool'   = InsAt(st2.pool, n, t)
        /\ feeSum' = [st2.feeSum EXCEPT ![tr.payer] = @ + tr.cost]
        /\ cmap'   = [c \in TxIds |-> IF c \in tr.conf THEN st2.cmap[c] \cup {t} ELSE st2.cmap[c]]
        /\ omap'   = IF o = 0 THEN st2.omap ELSE [st2.omap EXCEPT ![o] = t]
        /\ last'   = [op |-> "add", tx |-> t, ok |-> TRUE, err |-> ""]
        /\ UNCHANGED <<bal, policy>>

RemoveTx(t) ==
    LET st == DropAll(Cur, {t}) IN
    /\ pool' = st.pool /\ feeSum' = st.feeSum /\ cmap' = st.cmap /\ omap' = st.omap
    /\ last' = [op |-> "remove", tx |-> t, ok |-> TRUE, err |-> ""]
    /\ UNCHANGED <<bal, policy>>

\* RemoveStale: one pass in pool order with fresh balances and rebuilt fee sums (mem_pool.go:420-476).
RECURSIVE Sweep(_, _, _, _, _, _)
Sweep(rest, keep, nb, chg, pol, acc) ==
    IF rest = <<>> THEN acc
    ELSE LET x  == Head(rest)
             p  == Tx[x].payer
             ok == /\ x \in keep
                   /\ (~chg \/ Tx[x].fpb >= pol)
                   /\ nb[p] >= Tx[x].cost
                   /\ nb[p] >= Tx[x].cost + acc.sum[p]
         IN  Sweep(Tail(rest), keep, nb, chg, pol,
                   IF ok THEN [pool |-> Append(acc.pool, x), sum |-> [acc.sum EXCEPT ![p] = @ + Tx[x].cost]]
                   ELSE acc)

RemoveStale(keep, nb, fpb) ==
    LET chg == fpb > policy
        pol == IF chg THEN fpb ELSE policy
        r   == Sweep(pool, keep, nb, chg, pol, [pool |-> <<>>, sum |-> [p \in Payers |-> 0]])
        S   == ToSet(r.pool)
    IN  /\ pool' = r.pool
        /\ feeSum' = r.sum
        /\ cmap' = [c \in TxIds |-> {x \in S : c \in Tx[x].conf}]
        /\ omap' = [o \in OIds |-> IF omap[o] \in S THEN omap[o] ELSE IF omap[o] \in ToSet(pool) THEN 0 ELSE omap[o]]
        /\ bal' = nb /\ policy' = pol
        /\ last' = [op |-> "stale", tx |-> 0, ok |-> TRUE, err |-> "", keep |-> keep, bal |-> nb, fpb |-> fpb]

Init ==
    /\ pool = <<>>
    /\ feeSum = [p \in Payers |-> 0]
    /\ cmap = [c \in TxIds |-> {}]
    /\ omap = [o \in OIds |-> 0]
    /\ bal \in BalSet
    /\ policy = Min(FpbSet)
    /\ last = [op |-> "init"]

Next ==
    \/ \E t \in TxIds : Add(t)
    \/ \E t \in ToSet(pool) : RemoveTx(t)
    \/ \E keep \in SUBSET ToSet(pool), nb \in BalSet, f \in FpbSet : RemoveStale(keep, nb, f)

Spec == Init /\ [][Next]_vars

----------------------------------------------------------------------------
\* Impl => Abstract
AbsInv == Abs!PoolInv(Tx, pool, bal, Cap)

\* the caches the code trusts are exact
CacheExact ==
    /\ \A p \in Payers : feeSum[p] = Abs!CostOf(Tx, Abs!PaidBy(Tx, pool, p))
    /\ \A c \in TxIds : cmap[c] = {x \in ToSet(pool) : c \in Tx[x].conf}
    /\ \A o \in OIds : omap[o] = IF \E x \in ToSet(pool) : Tx[x].oracle = o
                                 THEN CHOOSE x \in ToSet(pool) : Tx[x].oracle = o ELSE 0

NoPanic == last.op = "init" \/ last.err # "PANIC"

AbsStep ==
    [][ /\ last'.op = "add" /\ ~last'.ok => Abs!AddFailOK(pool, pool')
        /\ last'.op = "add" /\ last'.ok  => Abs!AddOKCond(Tx, last'.tx, pool, pool', Cap)
        /\ last'.op = "remove" => Abs!RemoveCond(last'.tx, pool, pool')
        /\ last'.op = "stale"  => Abs!StaleCond(last'.keep, pool, pool')
        /\ last'.op # "stale" => Abs!OrderKept(pool, pool') ]_vars
=============================================================================
