------------------------------ MODULE Mempool ------------------------------
(***************************************************************************)
(* Abstract (property level) specification of the memory pool, C08.        *)
(* It says what the property statement says and nothing more: the pool is  *)
(* a sequence of transaction ids; every operator is parameterised by the   *)
(* transaction table T (a sequence of records, T[i].id = i) so that the    *)
(* same definitions judge the implementation-shaped model (MempoolImpl)    *)
(* and traces recorded from the real mempool.Pool (MempoolTrace).          *)
(*                                                                         *)
(* Transaction record:                                                     *)
(*   payer   string   fee payer; "A" ordinary, "N:A" = notary depositor A  *)
(*   cost    Nat      system fee + network fee                             *)
(*   netfee  Nat      network fee                                          *)
(*   fpb     Nat      fee per byte                                         *)
(*   high    BOOLEAN  HighPriority attribute                               *)
(*   conf    set of ids named by Conflicts attributes                      *)
(*   signers set of account names                                          *)
(*   oracle  Nat      oracle request id, 0 = not an oracle response        *)
(***************************************************************************)
EXTENDS Integers, Sequences, FiniteSets, SequencesExt, FiniteSetsExt

Ids(pool) == ToSet(pool)

\* a has strictly lower priority than b
PrioLess(a, b) ==
    \/ (~a.high /\ b.high)
    \/ (a.high = b.high /\ a.fpb < b.fpb)
    \/ (a.high = b.high /\ a.fpb = b.fpb /\ a.netfee < b.netfee)

NoDup(pool)       == \A i, j \in DOMAIN pool : i # j => pool[i] # pool[j]
Bounded(pool, c)  == Len(pool) <= c
Sorted(T, pool)   == \A i \in 1..(Len(pool) - 1) : ~PrioLess(T[pool[i]], T[pool[i + 1]])
CostOf(T, S)      == FoldSet(LAMBDA id, acc : acc + T[id].cost, 0, S)
PayersIn(T, pool) == {T[id].payer : id \in Ids(pool)}
PaidBy(T, pool, p) == {id \in Ids(pool) : T[id].payer = p}
Solvent(T, pool, bal) == \A p \in PayersIn(T, pool) : CostOf(T, PaidBy(T, pool, p)) <= bal[p]
NoConflict(T, pool) == \A a, b \in Ids(pool) : b \notin T[a].conf
OneOracle(T, pool)  == \A a, b \in Ids(pool) : (a # b /\ T[a].oracle # 0) => T[a].oracle # T[b].oracle

PoolInv(T, pool, bal, c) ==
    /\ NoDup(pool) /\ Bounded(pool, c) /\ Sorted(T, pool)
    /\ Solvent(T, pool, bal) /\ NoConflict(T, pool) /\ OneOracle(T, pool)

(***************************************************************************)
(* Action properties (pre-state pool, post-state pool2).                   *)
(***************************************************************************)
ConflictingWith(T, t, pool) == {x \in Ids(pool) : x \in T[t].conf \/ t \in T[x].conf}
SameOracle(T, t, pool)      == {x \in Ids(pool) : T[t].oracle # 0 /\ T[x].oracle = T[t].oracle}
Lowest(T, pool)             == {x \in Ids(pool) : \A y \in Ids(pool) : ~PrioLess(T[y], T[x])}

\* "An addition that fails leaves the pool unchanged."
AddFailOK(pool, pool2) == pool2 = pool

\* A successful addition: t is in, whatever left the pool was displaced for a stated reason
\* (Conflicts attribute either way, same oracle request, or - only at capacity - one lowest-priority entry).
AddOKCond(T, t, pool, pool2, c) ==
    LET gone   == Ids(pool) \ Ids(pool2)
        reason == ConflictingWith(T, t, pool) \cup SameOracle(T, t, pool)
        evict  == gone \ reason
    IN  /\ t \notin Ids(pool)
        /\ t \in Ids(pool2)
        /\ Ids(pool2) \subseteq Ids(pool) \cup {t}
        /\ Cardinality(evict) <= 1
        /\ evict # {} => (Len(pool) = c /\ evict \subseteq Lowest(T, pool))

RemoveCond(t, pool, pool2) == Ids(pool2) = Ids(pool) \ {t}

\* A block-driven refresh keeps only transactions the filter accepts (it may drop more: balances and policy changed).
StaleCond(keep, pool, pool2) == Ids(pool2) \subseteq (Ids(pool) \cap keep)

\* Survivors keep their relative order (secondary; implied by nothing in the statement except ordering, used for drift only).
OrderKept(pool, pool2) ==
    \A i, j \in DOMAIN pool2 : (i < j /\ pool2[i] \in Ids(pool) /\ pool2[j] \in Ids(pool)) =>
        \E a, b \in DOMAIN pool : a < b /\ pool[a] = pool2[i] /\ pool[b] = pool2[j]
=============================================================================
