SPECIFICATION SimSpec
CONSTANTS
  Tx <- U3
  BalSet <- B3
  FpbSet <- F12
  Cap = 3
  BugPayer = FALSE
  BugOracle = FALSE
  Depth = 14
INVARIANT Emit
CHECK_DEADLOCK FALSE
