---------------------------- MODULE MempoolTrace ----------------------------
(* Validates traces recorded from the real mempool.Pool against the ABSTRACT specification Mempool.
   Events: init (universe as read back from the real transactions, capacity, balances) | add | remove |
   stale.  Every event carries the observed pool (GetVerifiedTransactions order), Count and the set of ids
   for which ContainsKey is true. *)
EXTENDS TraceIO, FiniteSets, SequencesExt

VARIABLES l, T, cap, bal, pool
vars == <<l, T, cap, bal, pool>>

M == INSTANCE Mempool

Norm(txs) == [i \in DOMAIN txs |-> [txs[i] EXCEPT !.conf = ToSet(@), !.signers = ToSet(@)]]

Init == l = 1 /\ T = <<>> /\ cap = 0 /\ bal = <<>> /\ pool = <<>>

StateChecks(TT, p, b, c, e) ==
    NameIf(M!NoDup(p), "NoDup") \cup NameIf(M!Bounded(p, c), "Bounded") \cup NameIf(M!Sorted(TT, p), "Sorted")
    \cup NameIf(M!Solvent(TT, p, b), "Solvent") \cup NameIf(M!NoConflict(TT, p), "NoConflict")
    \cup NameIf(M!OneOracle(TT, p), "OneOracle")
    \cup NameIf(e.count = Len(p), "CountMatches") \cup NameIf(ToSet(e.keys) = ToSet(p), "ContainsKeyMatches")

Step ==
    /\ l <= Len(TLog)
    /\ l' = l + 1
    /\ LET e == TLog[l] IN
       CASE e.event = "init" ->
              /\ T' = Norm(e.txs) /\ cap' = e.cap /\ bal' = e.bal /\ pool' = <<>>
         [] e.event = "add" ->
              /\ pool' = e.pool /\ UNCHANGED <<T, cap, bal>>
              /\ Report(l, StateChecks(T, e.pool, bal, cap, e)
                           \cup (IF e.ok THEN NameIf(M!AddOKCond(T, e.tx, pool, e.pool, cap), "AddOK")
                                 ELSE NameIf(M!AddFailOK(pool, e.pool), "FailedAddUnchanged")),
                        [ev |-> e, before |-> pool])
         [] e.event = "remove" ->
              /\ pool' = e.pool /\ UNCHANGED <<T, cap, bal>>
              /\ Report(l, StateChecks(T, e.pool, bal, cap, e) \cup NameIf(M!RemoveCond(e.tx, pool, e.pool), "Remove"),
                        [ev |-> e, before |-> pool])
         [] e.event = "stale" ->
              /\ pool' = e.pool /\ bal' = e.bal /\ UNCHANGED <<T, cap>>
              /\ Report(l, StateChecks(T, e.pool, e.bal, cap, e) \cup NameIf(M!StaleCond(ToSet(e.keep), pool, e.pool), "Stale"),
                        [ev |-> e, before |-> pool])

TraceSpec == Init /\ [][Step]_vars
=============================================================================
