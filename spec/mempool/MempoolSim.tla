----------------------------- MODULE MempoolSim -----------------------------
(* Behaviour generator: MempoolImpl plus a history variable, printed as JSON when the depth bound is
   reached (tlc -simulate).  The history starts with the universe so that the harness can realise it. *)
EXTENDS MCMempool, Json

CONSTANT Depth
VARIABLE hist

SimInit == Init /\ hist = << [op |-> "init", txs |-> Tx, cap |-> Cap, bal |-> bal, fpb |-> policy] >>
\* generation mix: block-driven refreshes are kept rare (their many parameter choices would otherwise dominate
\* the uniform choice of a successor in simulation mode)
GenNext == \/ \E t \in TxIds : Add(t)
           \/ \E t \in TxIds : Add(t)
           \/ \E t \in ToSet(pool) : RemoveTx(t)
           \/ \E x \in (IF pool = <<>> THEN {} ELSE {pool[Len(pool)]}) \cup {0}, nb \in BalSet :
                 RemoveStale(ToSet(pool) \ {x}, nb, IF x = 0 THEN Max(FpbSet) ELSE Min(FpbSet))
SimNext == /\ GenNext
           /\ hist' = Append(hist, [op |-> last'.op, tx |-> last'.tx, ok |-> last'.ok, err |-> last'.err,
                                    pool |-> pool',
                                    keep |-> IF last'.op = "stale" THEN last'.keep ELSE {},
                                    bal  |-> bal', fpb |-> IF last'.op = "stale" THEN last'.fpb ELSE 0])
SimSpec == SimInit /\ [][SimNext]_<<vars, hist>>

Emit == Len(hist) # Depth \/ PrintT(<<"@@HIST@@", ToJson(hist)>>)
=============================================================================
