SPECIFICATION SimSpec
CONSTANTS
  Tx <- U2
  BalSet <- B2
  FpbSet <- F12
  Cap = 3
  BugPayer = FALSE
  BugOracle = FALSE
  Depth = 14
INVARIANT Emit
CHECK_DEADLOCK FALSE
