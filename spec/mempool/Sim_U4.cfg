SPECIFICATION SimSpec
CONSTANTS
  Tx <- U4
  BalSet <- B4
  FpbSet <- F12
  Cap = 2
  BugPayer = FALSE
  BugOracle = FALSE
  Depth = 14
INVARIANT Emit
CHECK_DEADLOCK FALSE
