--------------------------- MODULE TransferLogImpl ---------------------------
(***************************************************************************)
(* Implementation-shaped model of the token transfer log of neo-go         *)
(*   pkg/core/blockchain.go   storeBlock (transCache, puts at block end),  *)
(*                            handleNotification / processTokenTransfer /  *)
(*                            appendTokenTransfer / appendTokenTransferInfo*)
(*                            removeOldTransfers, tryRunGC                 *)
(*   pkg/core/state/tokens.go TokenTransferLog, TokenTransferInfo          *)
(*   pkg/core/dao/dao.go      Get/PutTokenTransferLog, SeekNEP17TransferLog*)
(*   pkg/core/storage         backwards Seek from a start point in the     *)
(*                            MemCachedStore layer and in the backend      *)
(* TLC checks that every reachable state satisfies the abstract module     *)
(* TransferLog (AbsIter, AbsLastUpdated, AbsAgree).  One log kind is       *)
(* modelled (the NEP-11 log runs through the same code with other keys).   *)
(*                                                                         *)
(* Chain: a sequence of blocks; block b (timestamp rank b) is a sequence   *)
(* of transfers [from, to, tok]; from/to are accounts or Null (mint/burn). *)
(* A transfer gives an entry to the sender and then one to the receiver    *)
(* (a self-transfer gives the account both entries).                       *)
(*                                                                         *)
(* Store of a replica: the write cache (MemCachedStore layer of bc.dao)    *)
(* over the backend; both hold batches keyed <<account, ts, idx>> and one  *)
(* info record per account                                                 *)
(*   info = [next, ts, new, lu]  NextNEP17Batch, NextNEP17NewestTimestamp, *)
(*                               NewNEP17Batch, LastUpdated                *)
(* Rules established from the code (stated because the judge needs them):  *)
(*  - a batch is stored under the timestamp recorded in info.ts when it    *)
(*    was opened: the timestamp of the block that FILLED the previous      *)
(*    batch (0 for the first one); so every entry of batch <<a,ts,i>> has  *)
(*    b >= ts and every entry of older batches has b <= ts;                *)
(*  - iteration from newestTimestamp T visits the batches with ts <= T,    *)
(*    newest key first, each batch newest entry first;                     *)
(*  - GC(t) (removeOldTransfers with the timestamp of block t) works on    *)
(*    the backend only: per account let kstar be the newest stored batch with *)
(*    ts <= t; kstar and everything newer is kept, everything older than kstar   *)
(*    is deleted (all of it has b <= ts(kstar) <= t).  The timestamp of t is  *)
(*    taken from an in-memory LRU (8 entries) filled by storeBlock with    *)
(*    the blocks at multiples of the GC period: after a restart - or when  *)
(*    MaxTraceableBlocks spans more than 8 periods - the collection of     *)
(*    transfers is silently skipped (gcT; the 8-entry limit is beyond the  *)
(*    model's MaxBlocks).  In the model the period is 1 and Flush of a GC  *)
(*    replica runs GC(h - MTB), as persist + tryRunGC do.                  *)
(*                                                                         *)
(* Named deviations (each must be caught by the abstract invariants):      *)
(*  DevMemSeekExclusive  the in-memory layers compare the 12-byte key tail *)
(*      <<ts,idx>> with the 8-byte start T and drop ts = T (the disk       *)
(*      backends include it); a cached batch so hidden does not shadow its *)
(*      older version on disk either                                       *)
(*  DevGCDropsEdge       GC also deletes kstar itself                         *)
(*  DevNoReloadOpenBatch the open batch is not read back at the first      *)
(*      append of a block (it is overwritten by the block's entries)       *)
(*  DevKeyByBlockTs      a batch that becomes full is stored under the     *)
(*      current block's timestamp instead of the recorded one              *)
(***************************************************************************)
EXTENDS Integers, Sequences, FiniteSets, SequencesExt, TLC

CONSTANTS Acc, Null, Kinds, BatchSize, MaxBlocks, MaxXfers, MaxPerBlock,
          Replica, DiskBackend, GCReplica, MTB,
          DevMemSeekExclusive, DevGCDropsEdge, DevNoReloadOpenBatch, DevKeyByBlockTs

VARIABLES chain,      \* sequence of blocks (each a sequence of transfers)
          h,          \* [Replica -> height applied]
          fl,         \* [Replica -> height on disk]
          cacheLog, diskLog,     \* [Replica -> [keys -> Seq(entry)]]
          cacheInfo, diskInfo,   \* [Replica -> [accounts -> info]]
          gcT,        \* [Replica -> set of blocks whose timestamp the in-memory LRU knows]
          gcb         \* [Replica -> bound of the most advanced collection, -1 if none]

vars == <<chain, h, fl, cacheLog, diskLog, cacheInfo, diskInfo, gcT, gcb>>

TL == INSTANCE TransferLog

NewInfo == [next |-> 0, ts |-> 0, new |-> TRUE, lu |-> <<>>]

\* ------------------------------------------------------------------ the reference (function of the chain)
Sides(x) == (IF x.from # Null THEN << [a |-> x.from, s |-> "s"] >> ELSE <<>>)
            \o (IF x.to # Null THEN << [a |-> x.to, s |-> "r"] >> ELSE <<>>)

\* <<account, entry>> pairs of block b in processing order
BlockEntries(b, xs) ==
    FlattenSeq([n \in 1..Len(xs) |->
        [i \in 1..Len(Sides(xs[n])) |->
            [a |-> Sides(xs[n])[i].a,
             e |-> [b |-> b, n |-> n, s |-> Sides(xs[n])[i].s, tok |-> xs[n].tok]]]])

RefLog(ch, hh, a) ==
    LET all == FlattenSeq([b \in 1..hh |-> BlockEntries(b, ch[b])])
        mine == SelectSeq(all, LAMBDA p : p.a = a)
    IN  [i \in 1..Len(mine) |-> mine[i].e]

NXfers(ch) == FoldLeft(LAMBDA n, xs : n + Len(xs), 0, ch)

\* ------------------------------------------------------------------ store access
GetLog(r, k) == IF k \in DOMAIN cacheLog[r] THEN cacheLog[r][k]
                ELSE IF k \in DOMAIN diskLog[r] THEN diskLog[r][k] ELSE <<>>
GetInfo(r, a) == IF a \in DOMAIN cacheInfo[r] THEN cacheInfo[r][a]
                 ELSE IF a \in DOMAIN diskInfo[r] THEN diskInfo[r][a] ELSE NewInfo

KeyLess(k1, k2) == k1[2] < k2[2] \/ (k1[2] = k2[2] /\ k1[3] < k2[3])

\* ------------------------------------------------------------------ storeBlock: transfer batching
\* st = [tc |-> transCache (account -> [info, log]), puts |-> batches written while appending]
AppendOne(r, b, st, p) ==
    LET a    == p.a
        td   == IF a \in DOMAIN st.tc THEN st.tc[a]
                ELSE LET inf == GetInfo(r, a)
                     IN  [info |-> inf,
                          log  |-> IF inf.new \/ DevNoReloadOpenBatch THEN <<>> ELSE GetLog(r, <<a, inf.ts, inf.next>>)]
        log2 == Append(td.log, p.e)
        full == Len(log2) >= BatchSize
        inf2 == [lu   |-> (p.e.tok :> b) @@ td.info.lu,
                 new  |-> full,
                 next |-> IF full THEN td.info.next + 1 ELSE td.info.next,
                 ts   |-> IF full THEN b ELSE td.info.ts]
        key  == <<a, IF DevKeyByBlockTs THEN b ELSE td.info.ts, td.info.next>>
    IN  [tc   |-> (a :> [info |-> inf2, log |-> IF full THEN <<>> ELSE log2]) @@ st.tc,
         puts |-> IF full THEN (key :> log2) @@ st.puts ELSE st.puts]

ApplyBlock(r, b, xs) ==
    LET fin  == FoldLeft(LAMBDA st, p : AppendOne(r, b, st, p), [tc |-> <<>>, puts |-> <<>>], BlockEntries(b, xs))
        open == {a \in DOMAIN fin.tc : ~fin.tc[a].info.new}
        endp == [k \in {<<a, fin.tc[a].info.ts, fin.tc[a].info.next>> : a \in open} |-> fin.tc[k[1]].log]
    IN  [logs |-> endp @@ fin.puts, infos |-> [a \in DOMAIN fin.tc |-> fin.tc[a].info]]

NewBlockChoices ==
    {xs \in UNION {[1..n -> Kinds] : n \in 0..MaxPerBlock} : NXfers(chain) + Len(xs) <= MaxXfers}

AddBlockWith(r, xs) ==
    /\ h[r] < MaxBlocks
    /\ \E res \in {ApplyBlock(r, h[r] + 1, xs)} :
            /\ chain' = IF h[r] < Len(chain) THEN chain ELSE Append(chain, xs)
            /\ cacheLog' = [cacheLog EXCEPT ![r] = res.logs @@ @]
            /\ cacheInfo' = [cacheInfo EXCEPT ![r] = res.infos @@ @]
            /\ h' = [h EXCEPT ![r] = @ + 1]
            /\ gcT' = [gcT EXCEPT ![r] = IF r \in GCReplica THEN @ \cup {h[r] + 1} ELSE @]
    /\ UNCHANGED <<fl, diskLog, diskInfo, gcb>>

\* a replica behind the chain adds the next block; the most advanced one extends the chain
AddBlock(r) ==
    \E xs \in (IF h[r] < Len(chain) THEN {chain[h[r] + 1]} ELSE NewBlockChoices) : AddBlockWith(r, xs)

\* ------------------------------------------------------------------ removeOldTransfers on the backend
GCApply(logs, t) ==
    LET dead(k) == \E ks \in DOMAIN logs :
                      /\ ks[1] = k[1] /\ ks[2] <= t
                      /\ (KeyLess(k, ks) \/ (DevGCDropsEdge /\ k = ks /\ \E kn \in DOMAIN logs : kn[1] = k[1] /\ KeyLess(k, kn)))
        keep == {k \in DOMAIN logs : ~dead(k)}
    IN  [k \in keep |-> logs[k]]

\* ------------------------------------------------------------------ persist (+ tryRunGC) / clean stop + start
Flush(r) ==
    /\ fl[r] < h[r]
    /\ LET merged == cacheLog[r] @@ diskLog[r]
           t      == h[r] - MTB
           run    == r \in GCReplica /\ t >= 1 /\ t \in gcT[r]
       IN  /\ diskLog' = [diskLog EXCEPT ![r] = IF run THEN GCApply(merged, t) ELSE merged]
           /\ gcb' = [gcb EXCEPT ![r] = IF run /\ t > @ THEN t ELSE @]
    /\ diskInfo' = [diskInfo EXCEPT ![r] = cacheInfo[r] @@ @]
    /\ cacheLog' = [cacheLog EXCEPT ![r] = <<>>]
    /\ cacheInfo' = [cacheInfo EXCEPT ![r] = <<>>]
    /\ fl' = [fl EXCEPT ![r] = h[r]]
    /\ UNCHANGED <<chain, h, gcT>>

\* Close (final persist, no GC) followed by NewBlockchain on the same store: memory is lost
Restart(r) ==
    /\ diskLog' = [diskLog EXCEPT ![r] = cacheLog[r] @@ @]
    /\ diskInfo' = [diskInfo EXCEPT ![r] = cacheInfo[r] @@ @]
    /\ cacheLog' = [cacheLog EXCEPT ![r] = <<>>]
    /\ cacheInfo' = [cacheInfo EXCEPT ![r] = <<>>]
    /\ fl' = [fl EXCEPT ![r] = h[r]]
    /\ gcT' = [gcT EXCEPT ![r] = {}]
    /\ UNCHANGED <<chain, h, gcb>>

\* ------------------------------------------------------------------ SeekNEP17TransferLog(acc, T)
MemVisible(k, T) == k[2] < T \/ (k[2] = T /\ ~DevMemSeekExclusive)

\* pure form: cl / dl = the replica's cache and backend batches, disk = the backend is a disk one
IterOn(cl, dl, disk, a, T) ==
    LET mk   == {k \in DOMAIN cl : k[1] = a /\ MemVisible(k, T)}
        dk   == {k \in DOMAIN dl : k[1] = a /\ (IF disk THEN k[2] <= T ELSE MemVisible(k, T))} \ mk
        keys == SetToSortSeq(mk \cup dk, LAMBDA x, y : KeyLess(y, x))
    IN  FlattenSeq([i \in 1..Len(keys) |-> TL!TLRev(IF keys[i] \in mk THEN cl[keys[i]] ELSE dl[keys[i]])])

Iter(r, a, T) == IterOn(cacheLog[r], diskLog[r], r \in DiskBackend, a, T)

\* batches a raw scan of a backend shows (drift detection in the binding)
BatchesOf(dl, a) ==
    LET ks == SetToSortSeq({k \in DOMAIN dl : k[1] = a}, KeyLess)
    IN  [i \in 1..Len(ks) |-> [ts |-> ks[i][2], idx |-> ks[i][3], n |-> Len(dl[ks[i]])]]

\* ------------------------------------------------------------------ specification
Init ==
    /\ chain = <<>>
    /\ h = [r \in Replica |-> 0] /\ fl = [r \in Replica |-> 0]
    /\ cacheLog = [r \in Replica |-> <<>>] /\ diskLog = [r \in Replica |-> <<>>]
    /\ cacheInfo = [r \in Replica |-> <<>>] /\ diskInfo = [r \in Replica |-> <<>>]
    /\ gcT = [r \in Replica |-> {}] /\ gcb = [r \in Replica |-> -1]

Next == \E r \in Replica : AddBlock(r) \/ Flush(r) \/ Restart(r)

Spec == Init /\ [][Next]_vars

\* ------------------------------------------------------------------ Impl => Abstract
Bounds == 0..MaxBlocks

\* everything observable, computed once per state
ObsTab == [r \in Replica |-> [a \in Acc |-> [T \in Bounds |-> Iter(r, a, T)]]]
RefTab == [r \in Replica |-> [a \in Acc |-> RefLog(chain, h[r], a)]]

AbsIterP(tab, refs) ==
    \A r \in Replica, a \in Acc, T \in Bounds : TL!IterOK(tab[r][a][T], refs[r][a], T, gcb[r])

AbsLastUpdatedP(refs) ==
    \A r \in Replica, a \in Acc :
        \E lu \in {GetInfo(r, a).lu} : TL!LastUpdatedOK({<<t, lu[t]>> : t \in DOMAIN lu}, refs[r][a])

AbsAgreeP(tab) ==
    \A r1, r2 \in Replica : (r1 # r2 /\ h[r1] = h[r2]) =>
        \A a \in Acc, T \in Bounds : TL!IterAgree(tab[r1][a][T], tab[r2][a][T], T, gcb[r1], gcb[r2])

\* model level only (drift in the binding): without GC the answer is a reversed PREFIX of the reference
ImplRevPrefixP(tab, refs) ==
    \A r \in Replica, a \in Acc : gcb[r] = -1 =>
        \A T \in Bounds : TL!TLIsRevPrefix(tab[r][a][T], refs[r][a])

\* model level: key timestamps bracket the entries (what makes "visit the batches with ts <= T" complete)
ImplKeyBrackets ==
    \A r \in Replica : \A k \in DOMAIN diskLog[r] \cup DOMAIN cacheLog[r] :
        \E lg \in {GetLog(r, k)} : \A i \in 1..Len(lg) : lg[i].b >= k[2]

\* the invariants TLC checks (one evaluation of the tables per state)
AbsAll  == \E tab \in {ObsTab}, refs \in {RefTab} :
              AbsIterP(tab, refs) /\ AbsLastUpdatedP(refs) /\ AbsAgreeP(tab)
ImplAll == \E tab \in {ObsTab}, refs \in {RefTab} :
              /\ AbsIterP(tab, refs) /\ AbsLastUpdatedP(refs) /\ AbsAgreeP(tab)
              /\ ImplRevPrefixP(tab, refs) /\ ImplKeyBrackets
\* separately named, for diagnosis of a counterexample
AbsIter        == AbsIterP(ObsTab, RefTab)
AbsLastUpdated == AbsLastUpdatedP(RefTab)
AbsAgree       == AbsAgreeP(ObsTab)
ImplRevPrefix  == ImplRevPrefixP(ObsTab, RefTab)
=============================================================================
