SPECIFICATION SimSpec
CONSTANTS
  Acc = {"a1", "a2"}
  Null = "0"
  Kinds <- S5
  BatchSize = 2
  MaxBlocks = 6
  MaxXfers = 14
  MaxPerBlock = 3
  Replica <- R3
  DiskBackend <- RDisk
  GCReplica <- RGC
  MTB = 1
  DevMemSeekExclusive = FALSE
  DevGCDropsEdge = FALSE
  DevNoReloadOpenBatch = FALSE
  DevKeyByBlockTs = FALSE
  Depth = 22
INVARIANT Emit
CHECK_DEADLOCK FALSE
