SPECIFICATION Spec
CONSTANTS
  Acc = {"a1", "a2"}
  Null = "0"
  Kinds <- K2
  BatchSize = 3
  MaxBlocks = 4
  MaxXfers = 7
  MaxPerBlock = 3
  Replica <- R1
  DiskBackend <- R1
  GCReplica <- R1
  MTB = 1
  DevMemSeekExclusive = FALSE
  DevGCDropsEdge = FALSE
  DevNoReloadOpenBatch = FALSE
  DevKeyByBlockTs = FALSE
INVARIANTS AbsAll ImplKeyBrackets
CHECK_DEADLOCK FALSE
