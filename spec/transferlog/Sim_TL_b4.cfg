SPECIFICATION SimSpec
CONSTANTS
  Acc = {"a1", "a2"}
  Null = "0"
  Kinds <- S5
  BatchSize = 4
  MaxBlocks = 6
  MaxXfers = 20
  MaxPerBlock = 4
  Replica <- R3
  DiskBackend <- RDisk
  GCReplica <- RGC
  MTB = 2
  DevMemSeekExclusive = FALSE
  DevGCDropsEdge = FALSE
  DevNoReloadOpenBatch = FALSE
  DevKeyByBlockTs = FALSE
  Depth = 22
INVARIANT Emit
CHECK_DEADLOCK FALSE
