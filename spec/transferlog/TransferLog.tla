----------------------------- MODULE TransferLog -----------------------------
(***************************************************************************)
(* Abstract (property level) specification of the TOKEN TRANSFER LOG, an   *)
(* extension of the check of property C01.  This module is the judge.      *)
(*                                                                         *)
(* Clause of C01 relied upon: "Any two nodes fed the same sequence of      *)
(* blocks reach the same ledger state at every height: identical ...       *)
(* execution results (VM state, gas, stack, notifications) ...  This holds *)
(* whatever the storage backend, however often and whenever the node       *)
(* flushes to disk, whichever node-local options are on (state-history     *)
(* retention, garbage collection, ...), and whether or not the node was    *)
(* stopped and restarted at any height in between."                        *)
(*                                                                         *)
(* The transfer log is the node's RPC-visible index of the Transfer        *)
(* notifications (getnep17transfers / getnep11transfers /                  *)
(* getnep17balances.lastupdatedblock are served from it).  What C01        *)
(* implies for it: the answer of an iteration is a function of the block   *)
(* sequence alone - namely the account's entries derived from the          *)
(* notifications of the accepted blocks, REF - and of nothing node-local   *)
(* (backend, flush points, restarts, where the batch boundaries fall).     *)
(* Garbage collection is the one node-local option that may legitimately   *)
(* change what is retained: it may only forget entries that are not newer  *)
(* than its bound.                                                         *)
(*                                                                         *)
(* Vocabulary.  An ENTRY is a record with at least the fields              *)
(*     b    block index of the transfer (block timestamps are strictly     *)
(*          increasing with the index, so b is the rank of the entry's     *)
(*          timestamp and "timestamp <= newestTimestamp" is "b <= tb",     *)
(*          tb = index of the last block whose timestamp is <= the bound)  *)
(*     tok  contract id of the token                                       *)
(* every other field (digest of counterparty, amount, container hash,      *)
(* timestamp, NEP-11 token id ...) is opaque and only compared for         *)
(* equality.  ref is the account's reference sequence, oldest first.       *)
(*                                                                         *)
(* ForEachNEPxxTransfer(acc, newestTimestamp) may hand out entries NEWER   *)
(* than the bound before the first wanted one (it works batch-wise and the *)
(* RPC layer skips them); they are not judged, except that nothing may be  *)
(* duplicated or out of order.                                             *)
(***************************************************************************)
EXTENDS Integers, Sequences, FiniteSets, SequencesExt

\* ---------------------------------------------------------------------------------- helpers
TLRev(s) == [i \in 1..Len(s) |-> s[Len(s) + 1 - i]]

\* number of entries of ref (oldest first, b non-decreasing) with b <= hb : they form a prefix
TLCount(ref, hb) == Cardinality({i \in 1..Len(ref) : ref[i].b <= hb})

\* the reference as a node at height h knows it
TLRefAt(ref, h) == SubSeq(ref, 1, TLCount(ref, h))

\* res is the reversal of a prefix of ref (fast path of the subsequence test)
TLIsRevPrefix(res, ref) ==
    /\ Len(res) <= Len(ref)
    /\ \A i \in 1..Len(res) : res[i] = ref[Len(res) + 1 - i]

\* greedy subsequence test: res[i..] embeds into R[j..] in order
RECURSIVE TLEmbeds(_, _, _, _)
TLEmbeds(res, R, i, j) ==
    IF i > Len(res) THEN TRUE
    ELSE IF Len(res) - i > Len(R) - j THEN FALSE
    ELSE IF res[i] = R[j] THEN TLEmbeds(res, R, i + 1, j + 1)
    ELSE TLEmbeds(res, R, i, j + 1)

\* ---------------------------------------------------------------------------------- the judged predicates
(* IterOrdered: newest first, nothing twice, nothing foreign - the answer is an order-preserving
   sub-sequence of the reversed reference. *)
IterOrdered(res, ref) ==
    \/ TLIsRevPrefix(res, ref)
    \/ TLEmbeds(res, TLRev(ref), 1, 1)

(* IterNoLoss: every reference entry with  gcb < b <= tb  is handed out, in reference order and as often as
   the reference has it.  gcb = -1 on a node without transfer GC: then this is "exactly the account's transfers
   with timestamp <= newestTimestamp, newest first, each exactly once, whatever the batch boundaries".
   With GC, gcb is the index of the block whose timestamp was the bound of the most advanced collection:
   "nothing newer than the GC bound is lost". *)
IterNoLoss(res, ref, tb, gcb) ==
    LET want(e) == e.b <= tb /\ e.b > gcb
    IN  SelectSeq(res, want) = TLRev(SelectSeq(ref, want))

(* Entries at or below the GC bound may be present or not; the ones handed out are covered by IterOrdered. *)
IterOK(res, ref, tb, gcb) == IterOrdered(res, ref) /\ IterNoLoss(res, ref, tb, gcb)

(* LastUpdated: the set of <<tok, b>> pairs a node reports for an account names, for every token the account
   has an entry of (in either log), the block of its newest entry.  refs = concatenation of the account's
   reference sequences (NEP-17 and NEP-11) at the node's height; garbage collection does not touch it. *)
LastUpdatedWant(refs) ==
    { <<t, b>> \in {<<refs[i].tok, refs[i].b>> : i \in 1..Len(refs)} :
         \A j \in 1..Len(refs) : refs[j].tok = t => refs[j].b <= b }
LastUpdatedOK(lu, refs) == lu = LastUpdatedWant(refs)

(* Agreement of two nodes (implied by IterOK against the same reference, stated for completeness): the
   parts of two answers that neither node may have collected are equal. *)
IterAgree(res1, res2, tb, gcb1, gcb2) ==
    LET g == IF gcb1 > gcb2 THEN gcb1 ELSE gcb2
        want(e) == e.b <= tb /\ e.b > g
    IN  SelectSeq(res1, want) = SelectSeq(res2, want)
=============================================================================
