SPECIFICATION Spec
CONSTANTS
  Acc = {"a1", "a2"}
  Null = "0"
  Kinds <- K2
  BatchSize = 2
  MaxBlocks = 3
  MaxXfers = 4
  MaxPerBlock = 2
  Replica <- R2
  DiskBackend <- R1
  GCReplica <- R2
  MTB = 1
  DevMemSeekExclusive = FALSE
  DevGCDropsEdge = FALSE
  DevNoReloadOpenBatch = FALSE
  DevKeyByBlockTs = FALSE
INVARIANTS AbsAll ImplKeyBrackets
CHECK_DEADLOCK FALSE
