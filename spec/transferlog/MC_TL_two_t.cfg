SPECIFICATION Spec
CONSTANTS
  Acc = {"a1", "a2"}
  Null = "0"
  Kinds <- K2
  BatchSize = 3
  MaxBlocks = 3
  MaxXfers = 5
  MaxPerBlock = 3
  Replica <- R2
  DiskBackend <- R1
  GCReplica <- None
  MTB = 1
  DevMemSeekExclusive = FALSE
  DevGCDropsEdge = FALSE
  DevNoReloadOpenBatch = FALSE
  DevKeyByBlockTs = FALSE
INVARIANTS ImplAll
CHECK_DEADLOCK FALSE
