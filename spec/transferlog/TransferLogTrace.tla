-------------------------- MODULE TransferLogTrace --------------------------
(* Validates traces recorded from real core.Blockchain replicas (harness/c01transfers) against the ABSTRACT
   module TransferLog.  Total, deterministic, reporting (TraceIO).

   Events (one JSON object per line):
     init    world, accounts (names of the sampled accounts)                   - starts a world
     block   h, adds = <<acc, kind, tok, d>>...  the reference entries of block h for the sampled accounts, in
             processing order, rebuilt by the harness from the Transfer notifications of the block's stored
             application logs on the reference node (kind 17 / 11; d = digest of every field of the entry)
     iter    r, cfg, h (height of the replica), acc, kind, tb (index of the last block whose timestamp is <= the
             requested newestTimestamp), gcb (index of the block whose timestamp bounds what transfer GC may have
             removed on this replica, -1 without GC), err, res = <<b, tok, d>>... as handed out by
             ForEachNEP17Transfer / ForEachNEP11Transfer on the real replica
     lastupd r, cfg, h, acc, lu = <<tok, b>>...  GetTokenLastUpdated of the real replica
   Other events (add / flush / restart / note) carry the schedule for the reader and are skipped. *)
EXTENDS TraceIO, FiniteSets, SequencesExt

VARIABLES l, ref
vars == <<l, ref>>

TL == INSTANCE TransferLog

Init == l = 1 /\ ref = <<>>

Ent(b, tok, d) == [b |-> b, tok |-> tok, d |-> d]

Key(acc, kind) == <<acc, kind>>

\* reference entries a block event adds for <<acc, kind>>
Adds(e, k) ==
    LET mine == SelectSeq(e.adds, LAMBDA x : x[1] = k[1] /\ x[2] = k[2])
    IN  [i \in 1..Len(mine) |-> Ent(e.h, mine[i][3], mine[i][4])]

Res(e) == [i \in 1..Len(e.res) |-> Ent(e.res[i][1], e.res[i][2], e.res[i][3])]

\* first position where an answer leaves the reversed reference prefix (0 = none): context for the report
FirstBad(res, rf) ==
    LET bad == {i \in 1..Len(res) : Len(res) > Len(rf) \/ res[i] # rf[Len(res) + 1 - i]}
    IN  IF bad = {} THEN 0 ELSE CHOOSE i \in bad : \A j \in bad : i <= j

IterChecks(e) ==
    LET rf  == TL!TLRefAt(ref[Key(e.acc, e.kind)], e.h)
        res == Res(e)
    IN  NameIf(e.err = "", "IterNoError")
        \cup NameIf(TL!IterOrdered(res, rf), "IterOrdered")
        \cup NameIf(TL!IterNoLoss(res, rf, e.tb, e.gcb), "IterNoLoss")

IterCtx(e) ==
    LET rf  == TL!TLRefAt(ref[Key(e.acc, e.kind)], e.h)
        res == Res(e)
        want(x) == x.b <= e.tb /\ x.b > e.gcb
    IN  [r |-> e.r, cfg |-> e.cfg, h |-> e.h, acc |-> e.acc, kind |-> e.kind, tb |-> e.tb, gcb |-> e.gcb,
         bclass |-> e.bclass, err |-> e.err, got |-> Len(res), reflen |-> Len(rf),
         wanted |-> Len(SelectSeq(rf, want)), gotwanted |-> Len(SelectSeq(res, want)),
         firstbad |-> FirstBad(res, rf)]

LuChecks(e) ==
    LET refs == TL!TLRefAt(ref[Key(e.acc, 17)], e.h) \o TL!TLRefAt(ref[Key(e.acc, 11)], e.h)
    IN  NameIf(TL!LastUpdatedOK({<<e.lu[i][1], e.lu[i][2]>> : i \in 1..Len(e.lu)}, refs), "LastUpdated")

LuCtx(e) ==
    LET refs == TL!TLRefAt(ref[Key(e.acc, 17)], e.h) \o TL!TLRefAt(ref[Key(e.acc, 11)], e.h)
    IN  [r |-> e.r, cfg |-> e.cfg, h |-> e.h, acc |-> e.acc, lu |-> e.lu, want |-> TL!LastUpdatedWant(refs)]

Step ==
    /\ l <= Len(TLog)
    /\ l' = l + 1
    /\ LET e == TLog[l] IN
       CASE e.event = "init" ->
              ref' = [k \in {Key(e.accounts[i], kd) : i \in 1..Len(e.accounts), kd \in {17, 11}} |-> <<>>]
         [] e.event = "block" ->
              ref' = [k \in DOMAIN ref |-> ref[k] \o Adds(e, k)]
         [] e.event = "iter" ->
              /\ UNCHANGED ref
              /\ \E f \in {IterChecks(e)} : Report(l, f, IF f = {} THEN <<>> ELSE IterCtx(e))
         [] e.event = "lastupd" ->
              /\ UNCHANGED ref
              /\ \E f \in {LuChecks(e)} : Report(l, f, IF f = {} THEN <<>> ELSE LuCtx(e))
         [] OTHER -> UNCHANGED ref

TraceSpec == Init /\ [][Step]_vars
=============================================================================
