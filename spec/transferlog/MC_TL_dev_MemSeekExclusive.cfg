SPECIFICATION Spec
CONSTANTS
  Acc = {"a1", "a2"}
  Null = "0"
  Kinds <- K2
  BatchSize = 3
  MaxBlocks = 3
  MaxXfers = 4
  MaxPerBlock = 2
  Replica <- R2
  DiskBackend <- R1
  GCReplica <- None
  MTB = 1
  DevMemSeekExclusive = TRUE
  DevGCDropsEdge = FALSE
  DevNoReloadOpenBatch = FALSE
  DevKeyByBlockTs = FALSE
INVARIANTS AbsAll
CHECK_DEADLOCK FALSE
