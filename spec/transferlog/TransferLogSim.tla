--------------------------- MODULE TransferLogSim ---------------------------
(* Behaviour generator: TransferLogImpl plus a history variable, printed as JSON when the depth bound is reached
   (tlc -simulate).  Every step carries what the model predicts the acting replica answers afterwards:
     pred[a][T+1]  the iteration of account a from the timestamp of block T (T = 0..MaxBlocks),
     disk[a]       the batches <<ts, idx, size>> of a raw scan of the replica's backend,
     gc            the bound of the collection the flush ran (-1: none).
   The driver realises a model transfer as one transaction emitting 128/BatchSize identical Transfer events, so the
   real batches (size 128) fill exactly where the model's do. *)
EXTENDS MCTransferLog, Json

CONSTANT Depth
VARIABLES hist, rng

\* TLC's RandomElement restarts identically at every step of a simulation: a Lehmer generator carried in the state
\* chooses the content of a new block instead (one successor per replica)
KSeq == SetToSeq(Kinds)
Pow7(i) == IF i = 1 THEN 1 ELSE IF i = 2 THEN 7 ELSE IF i = 3 THEN 49 ELSE IF i = 4 THEN 343 ELSE 2401
GenBlock ==
    LET room == MaxXfers - NXfers(chain)
        want == (rng \div 3) % (MaxPerBlock + 1)
        n    == IF want > room THEN room ELSE want
    IN  [i \in 1..n |-> KSeq[((rng \div Pow7(i)) % Len(KSeq)) + 1]]
SimAdd(r) == AddBlockWith(r, IF h[r] < Len(chain) THEN chain[h[r] + 1] ELSE GenBlock)

\* a step records the acting replica's store; the predictions are computed from it when the history is printed
Rec(name, r) ==
    [op |-> name, r |-> r,
     xs |-> IF name = "add" THEN chain'[h'[r]] ELSE <<>>,
     gc |-> IF gcb'[r] # gcb[r] THEN gcb'[r] ELSE -1,
     cl |-> cacheLog'[r], dl |-> diskLog'[r]]

Out(e) ==
    IF e.op = "init" THEN e
    ELSE [op |-> e.op, r |-> e.r, xs |-> e.xs, gc |-> e.gc,
          pred |-> [a \in Acc |-> [i \in 1..(MaxBlocks + 1) |-> IterOn(e.cl, e.dl, e.r \in DiskBackend, a, i - 1)]],
          disk |-> [a \in Acc |-> BatchesOf(e.dl, a)]]

SimInit == Init /\ rng \in 1..4096 /\ hist = << [op |-> "init", batch |-> BatchSize, maxb |-> MaxBlocks, mtb |-> MTB,
                              replicas |-> SetToSeq(Replica),
                              diskr |-> SetToSeq(DiskBackend), gcr |-> SetToSeq(GCReplica)] >>

\* adding is offered three times: flushes and restarts stay frequent but do not dominate; the GC replica
\* gets an extra flush so that collections happen
SimStep == \/ \E r \in Replica : SimAdd(r) /\ hist' = Append(hist, Rec("add", r))
           \/ \E r \in Replica : SimAdd(r) /\ hist' = Append(hist, Rec("add", r))
           \/ \E r \in Replica : SimAdd(r) /\ hist' = Append(hist, Rec("add", r))
           \/ \E r \in Replica : Flush(r) /\ hist' = Append(hist, Rec("flush", r))
           \/ \E r \in GCReplica : Flush(r) /\ hist' = Append(hist, Rec("flush", r))
           \/ \E r \in Replica : (cacheLog[r] # <<>> \/ fl[r] < h[r] \/ gcT[r] # {}) /\ Restart(r)
                                 /\ hist' = Append(hist, Rec("restart", r))
SimNext == SimStep /\ rng' = (rng * 75) % 65537
SimSpec == SimInit /\ [][SimNext]_<<vars, hist, rng>>

Emit == Len(hist) # Depth \/ PrintT(<<"@@HIST@@", ToJson([i \in 1..Len(hist) |-> Out(hist[i])])>>)

\* universes of the generator
S5 == { X("a1", "a2", 1), X("a2", "a1", 2), X("a1", "a1", 1), X("0", "a1", 2), X("a2", "0", 1), X("a1", "a2", 2) }
R3 == {"r1", "r2", "r3"}
RDisk == {"r1", "r3"}
RGC == {"r3"}
=============================================================================
