--------------------------- MODULE MCTransferLog ---------------------------
(* Universes of the exhaustive runs of TransferLogImpl. 2 accounts, 2 tokens, batch size 3 (2 in one run). *)
EXTENDS TransferLogImpl

X(f, t, k) == [from |-> f, to |-> t, tok |-> k]

\* plain transfers both ways, a self-transfer, a mint and a burn
K5 == { X("a1", "a2", 1), X("a2", "a1", 2), X("a1", "a1", 1), X("0", "a1", 2), X("a2", "0", 1) }
\* the three kinds that load one account fastest
K3 == { X("a1", "a2", 1), X("a1", "a1", 2), X("0", "a1", 1) }
K2 == { X("a1", "a2", 1), X("a1", "a1", 2) }

R1 == {"r1"}
R2 == {"r1", "r2"}
None == {}
=============================================================================
