----------------------------- MODULE KeyCacheMC -----------------------------
(* Universes.  MC: X 1 is on both curves, 2 on P-256 only, 3 on secp256k1 only.  Generator: two X of each kind; Home[x] is
   the curve on which the driver knows the private key of the point with this X (it signs with it and the decoded key must
   verify the signature). *)
EXTENDS KeyCacheImpl
MCOn == [c \in {"p256", "k256"} |-> IF c = "p256" THEN {1, 2} ELSE {1, 3}]
SimOn == [c \in {"p256", "k256"} |-> IF c = "p256" THEN {1, 2, 3, 4} ELSE {1, 2, 5, 6}]
=============================================================================
