------------------------------ MODULE KeyPoints ------------------------------
(* Abstract points, byte strings and THE pure decoding function shared by KeyCache (the judge) and KeyCacheImpl.
   See KeyCache.tla for the reading of the symbols. *)
EXTENDS Naturals, Sequences, FiniteSets

CONSTANTS Xs, Curves, OnCurve

Pars == {"even", "odd"}
Bads == {"prefix", "infinity", "trunc", "offcurve"}
Strings == {<<"comp", x, p>> : x \in Xs, p \in Pars}
           \cup UNION {{<<"unc", x, c, p>> : x \in OnCurve[c], p \in Pars} : c \in Curves}
           \cup {<<"bad", h>> : h \in Bads}
AllCalls == {[b |-> b, c |-> c] : b \in Strings, c \in Curves}

Refused == [ok |-> FALSE, pt |-> <<>>]
Pure(b, c) ==
    CASE b[1] = "comp" -> IF b[2] \in OnCurve[c] THEN [ok |-> TRUE, pt |-> <<c, b[2], b[3]>>] ELSE Refused
      [] b[1] = "unc"  -> IF b[3] = c THEN [ok |-> TRUE, pt |-> <<c, b[2], b[4]>>] ELSE Refused
      [] OTHER         -> Refused

NoCall == [b |-> <<"none">>, c |-> "none"]
=============================================================================
