\* non-vacuity: the P-256-only cache without the curve comparison must be refuted
SPECIFICATION Spec
CONSTANTS
  Xs = {1, 2, 3}
  Curves = {"p256", "k256"}
  OnCurve <- MCOn
  Calls <- AllCalls
  Cap = 2
  Dev = {"NoCurveCheck", "R1Only"}
INVARIANTS AnswerIsPure CacheSound
PROPERTY Refines
CHECK_DEADLOCK FALSE
