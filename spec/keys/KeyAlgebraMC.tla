---------------------------- MODULE KeyAlgebraMC ----------------------------
(* Constants of the enumeration: three private key symbols, two curves, two messages, three passphrases of which pb is a
   spelling of pa that is NOT in normal form (NFC(pb) = pa: equal after normalisation, different bytes) and pc another one. *)
EXTENDS KeyAlgebraEnum
MCNorm == [p \in {"pa", "pb", "pc"} |-> IF p = "pb" THEN "pa" ELSE p]
MCNorm2 == [p \in {"pa", "pb"} |-> "pa"]
=============================================================================
