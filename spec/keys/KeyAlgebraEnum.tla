--------------------------- MODULE KeyAlgebraEnum ---------------------------
(***************************************************************************)
(* The specification as oracle: EVERY well-sorted term with at most MaxOps *)
(* operation symbols over the free algebra of KeyAlgebra (private key,     *)
(* message, passphrase symbols; two curves), one TLC state per term.  Each *)
(* is checked against the laws (invariants) and printed (@@CASE@@) with    *)
(* its specified outcome for harness/c18keys, which realises the symbols   *)
(* with several concrete keys / messages / passphrases, evaluates the term *)
(* with the REAL functions and compares outcome classes and the equalities *)
(* between results that the normal forms induce.                            *)
(* Arguments of an operation are terms whose evaluation is defined (not    *)
(* refused); manglings apply to the output of an encoder.                   *)
(***************************************************************************)
EXTENDS KeyAlgebra, TLC, Json

CONSTANT MaxOps
VARIABLE cur

Sorts == {"Priv", "PrivBytes", "Wif", "Nep2", "Pub", "PubBytes", "Sig", "Bool", "Script", "SH", "Addr"}

RECURSIVE T(_, _)
\* terms of sort s with exactly n operation symbols whose evaluation is defined or not (top level)
A(s, n) == {t \in T(s, n) : Defined(t)}           \* usable as arguments
T(s, n) ==
  IF n = 0 THEN (IF s = "Priv" THEN {<<"key", k>> : k \in Keys} ELSE {})
  ELSE
  CASE s = "Priv"      -> {<<"DecPriv", b>> : b \in A("PrivBytes", n - 1)}
                          \cup {<<"WIFDec", w, v>> : w \in A("Wif", n - 1), v \in Vers}
                          \cup {<<"NEP2Dec", e, pw>> : e \in A("Nep2", n - 1), pw \in Passes}
    [] s = "PrivBytes" -> {<<"EncPriv", p>> : p \in A("Priv", n - 1)}
                          \cup {<<"ManglePriv", b, h>> : b \in {x \in A("PrivBytes", n - 1) : x[1] = "EncPriv"}, h \in PrivHows}
    [] s = "Wif"       -> {<<"WIFEnc", p, f, v>> : p \in A("Priv", n - 1), f \in Flags, v \in Vers}
                          \cup {<<"MangleWif", w, h>> : w \in {x \in A("Wif", n - 1) : x[1] = "WIFEnc"}, h \in WifHows}
    [] s = "Nep2"      -> {<<"NEP2Enc", p, pw>> : p \in A("Priv", n - 1), pw \in Passes}
                          \cup {<<"MangleNep", e, h>> : e \in {x \in A("Nep2", n - 1) : x[1] = "NEP2Enc"}, h \in NepHows}
    [] s = "Pub"       -> {<<"PubOf", p, c>> : p \in A("Priv", n - 1), c \in Curves}
                          \cup {<<"DecPub", b, c>> : b \in A("PubBytes", n - 1), c \in Curves}
    [] s = "PubBytes"  -> {<<"EncPub", P, f>> : P \in A("Pub", n - 1), f \in Forms}
                          \cup {<<"ManglePub", b, h>> : b \in {x \in A("PubBytes", n - 1) : x[1] = "EncPub"}, h \in PubHows}
    [] s = "Sig"       -> {<<"Sign", p, c, m>> : p \in A("Priv", n - 1), c \in Curves, m \in Msgs}
                          \cup {<<"Alter", g, h>> : g \in {x \in A("Sig", n - 1) : x[1] = "Sign"}, h \in SigHows}
    [] s = "Bool"      -> UNION {{<<"Verify", P, m, g>> : P \in A("Pub", a), m \in Msgs, g \in A("Sig", n - 1 - a)} : a \in 0..(n - 1)}
    [] s = "Script"    -> {<<"VScript", P>> : P \in A("Pub", n - 1)}
                          \cup {<<"RefScript", b>> : b \in {x \in A("PubBytes", n - 1) : x[1] = "EncPub"}}
    [] s = "SH"        -> {<<"ScriptHash", P>> : P \in A("Pub", n - 1)}
                          \cup {<<"RefHash", sc>> : sc \in A("Script", n - 1)}
                          \cup {<<"AddrToSH", ad>> : ad \in A("Addr", n - 1)}
    [] s = "Addr"      -> {<<"Address", P>> : P \in A("Pub", n - 1)}
                          \cup {<<"SHToAddr", h>> : h \in A("SH", n - 1)}
                          \cup {<<"MangleAddr", ad, h>> : ad \in {x \in A("Addr", n - 1) : x[1] = "Address"}, h \in AddrHows}

AllTerms == UNION {T(s, n) : s \in Sorts, n \in 1..MaxOps}

SortOf(t) ==
  LET op == t[1] IN
  CASE op \in {"key", "DecPriv", "WIFDec", "NEP2Dec"} -> "Priv"
    [] op \in {"EncPriv", "ManglePriv"} -> "PrivBytes"
    [] op \in {"WIFEnc", "MangleWif"} -> "Wif"
    [] op \in {"NEP2Enc", "MangleNep"} -> "Nep2"
    [] op \in {"PubOf", "DecPub"} -> "Pub"
    [] op \in {"EncPub", "ManglePub"} -> "PubBytes"
    [] op \in {"Sign", "Alter"} -> "Sig"
    [] op = "Verify" -> "Bool"
    [] op \in {"VScript", "RefScript"} -> "Script"
    [] op \in {"ScriptHash", "RefHash", "AddrToSH"} -> "SH"
    [] op \in {"Address", "SHToAddr", "MangleAddr"} -> "Addr"

Root == <<"root">>
Init == cur = Root
Next == cur = Root /\ cur' \in AllTerms
Spec == Init /\ [][Next]_cur

Is(s) == cur # Root /\ SortOf(cur) = s
Ok == cur # Root /\ Out(cur).c = "val"

(* ------------------------------------------------------------------ the laws, on every enumerated term *)
SignVerify    == Is("Priv") /\ Ok => \A c \in Curves, m \in Msgs : LawSignVerify(cur, c, m)
VerifySound   == Is("Bool") => LawVerifySound(cur) /\ LawAlteredFails(cur)
PubRoundTrip  == Is("Pub") /\ Ok => \A f \in Forms : LawPubRoundTrip(cur, f)
DecPubCurve   == Is("Pub") => LawDecPubCurve(cur)
PrivRoundTrip == Is("Priv") /\ Ok => LawPrivRoundTrip(cur)
WifRoundTrip  == Is("Priv") /\ Ok => \A f \in Flags, v \in Vers, v2 \in Vers : LawWifRoundTrip(cur, f, v, v2)
Nep2RoundTrip == Is("Priv") /\ Ok => \A pw \in Passes, pw2 \in Passes : LawNep2(cur, pw, pw2) /\ LawNep2Canonical(cur, pw, pw2)
Malformed     == cur # Root => LawMangledNeverSame(cur) /\ LawMalformedRefused(cur)
AddressLaw    == Is("Pub") => LawAddress(cur)
\* the normalisation is a retraction
NormIsNorm    == \A p \in Passes : NormOf[p] \in Passes /\ NormOf[NormOf[p]] = NormOf[p]

(* ------------------------------------------------------------------ printing *)
Why(t) ==
  IF t[1] # "Verify" THEN "" ELSE
  LET p == Out(t[2]).n  s == Out(t[4]).n  o == Out(t).c IN
  IF o = "true" THEN "own-signature"
  ELSE IF o = "open" THEN "high-s-twin"
  ELSE IF s[1] = "badsig" THEN
         (IF p[1] = "pub" /\ s[2] = <<"sig", p[2], p[3], t[3]>> THEN "altered-" \o s[3] ELSE "altered-and-other")
  ELSE IF p[1] # "pub" THEN "foreign-point"
  ELSE IF s[2] # p[2] THEN "other-key"
  ELSE IF s[3] # p[3] THEN "other-curve"
  ELSE "other-message"

Emit == cur = Root \/ PrintT(<<"@@CASE@@", ToJson([t |-> cur, sort |-> SortOf(cur), cls |-> Out(cur).c, nf |-> Out(cur).n,
                                                     why |-> Why(cur)])>>)
=============================================================================
