------------------------------ MODULE KeysTrace ------------------------------
(***************************************************************************)
(* Judges what the REAL key / signature functions did (code -> spec) on    *)
(* seeded random call sequences of harness/c18keys.  The observations are  *)
(* calls on VALUES identified by content hashes (the driver never tells    *)
(* the specification what a value "should" be); the specification keeps    *)
(* the TERM-EQUALITY CLOSURE the laws of KeyAlgebra induce on them:        *)
(*                                                                         *)
(*   fn    (op, arguments) -> (ok, result)     every operation is a        *)
(*         FUNCTION: the same call gives the same answer (RFC 6979: Sign   *)
(*         twice, also in another process, gives the same bytes), with the *)
(*         passphrase argument of the NEP-2 operations taken modulo        *)
(*         Unicode NFC (sym events: the class of each passphrase, computed *)
(*         by the driver with golang.org/x/text, not by the code)          *)
(*   inv   (constructor, result) -> arguments   the constructors are       *)
(*         INJECTIVE: one value is never the encoding / signature /        *)
(*         address of two different things                                  *)
(*   alt   value -> (source, how)               values the driver made by  *)
(*         mangling another value                                          *)
(*                                                                         *)
(* and judges every answer against what these tables imply:                *)
(*   Dec(Enc(x, q), q') = x when q' matches q and is refused (never        *)
(*   another key) when it does not; a mangled input is refused or decodes  *)
(*   to something else; Verify is true exactly for the (key, curve,        *)
(*   message) the signature was made with; the verification script, its    *)
(*   hash and the address agree with the reference constructions.          *)
(* Events                                                                  *)
(*   init                                        forget everything         *)
(*   sym    id, norm                             passphrase and its class  *)
(*   alter  src, how, hard, res                  driver-made mangling      *)
(*   call   op, args, ok, res, panic, rcurve     one call of the real code *)
(*   addr   pub, script, refscript, sh, refhash, addr, refaddr, back, bok  *)
(*   sweep  op, src, tried, same, panics         EVERY single-character /  *)
(*          single-bit change of src decoded / verified: `same' of them    *)
(*          gave the answer of src itself                                  *)
(* Names starting with "drift:" are not fixed by the statement.            *)
(***************************************************************************)
EXTENDS TraceIO, FiniteSets

VARIABLES l, fn, inv, alt, norm
vars == <<l, fn, inv, alt, norm>>

Empty == [x \in {} |-> 0]
Init == l = 1 /\ fn = Empty /\ inv = Empty /\ alt = Empty /\ norm = Empty

Constructors == {"PubOf", "Sign", "EncPub", "EncPriv", "WIFEnc", "NEP2Enc"}

NormId(p) == IF p \in DOMAIN norm THEN norm[p] ELSE p
NArgs(e) == IF e.op \in {"NEP2Enc", "NEP2Dec"} THEN <<e.args[1], NormId(e.args[2])>> ELSE e.args
Ans(e) == [ok |-> e.ok, res |-> e.res]

Known(op, a) == <<op, a>> \in DOMAIN fn
Val(op, a) == fn[<<op, a>>]
MadeBy(op, r) == <<op, r>> \in DOMAIN inv
ArgsOf(op, r) == inv[<<op, r>>]

\* what a constructor made: its result - for EncPub together with the curve of the key: the compressed bytes of a point do
\* not say which curve it is on (an X that is an abscissa of both curves has the same 33 bytes on both)
PubCurve(p) == IF Known("CurveOf", <<p>>) THEN Val("CurveOf", <<p>>).res ELSE "?"
Made(e) == IF e.op = "EncPub" THEN <<e.res, PubCurve(e.args[1])>> ELSE e.res

IsAlt(x) == x \in DOMAIN alt
\* every recorded decoding of the source of a mangled value, whatever the parameter
DecodingsOfSource(op, x) == {fn[k].res : k \in {k \in DOMAIN fn : k[1] = op /\ k[2][1] = alt[x].src /\ fn[k].ok}}

General(e) ==
    NameIf(~e.panic, "NoPanic")
    \cup NameIf(Known(e.op, NArgs(e)) => Val(e.op, NArgs(e)) = Ans(e), "Deterministic")
    \cup NameIf(e.op \in Constructors /\ e.ok /\ MadeBy(e.op, Made(e)) => ArgsOf(e.op, Made(e)) = NArgs(e), "Injective")

\* Dec of something an encoder made from `orig': `match' says whether the parameters of this call are those of the encoder
RT(e, orig, match, nameRefused, nameWrong, nameAccepted) ==
    IF match THEN NameIf(e.ok, nameRefused) \cup NameIf(e.ok => e.res = orig, nameWrong)
    ELSE NameIf(~e.ok, nameAccepted)

\* Dec of something the driver mangled: refused, or at least not what the source decodes to
Mangled(e, op, x) ==
    IF ~IsAlt(x) THEN {}
    ELSE NameIf(alt[x].hard => ~e.ok, "MalformedAccepted")
         \cup NameIf(e.ok => e.res \notin DecodingsOfSource(op, x), "MangledDecodesToSame")

\* whose signature is it: the (key, curve, message) of the Sign call that made it - for a mangled one, that made its source
VerifyChecks(e) ==
    LET pub == e.args[1]  msg == e.args[2]  sig == e.args[3]  yes == e.res = "true"
        src == IF IsAlt(sig) THEN alt[sig].src ELSE sig
    IN
    IF MadeBy("Sign", src) /\ Known("PubOf", <<ArgsOf("Sign", src)[1], ArgsOf("Sign", src)[2]>>)
    THEN LET a == ArgsOf("Sign", src)       \* <<priv, curve, msg>>
             own == Val("PubOf", <<a[1], a[2]>>).res = pub /\ a[3] = msg
         IN
         IF ~IsAlt(sig) THEN NameIf(own => yes, "OwnSignatureRefused") \cup NameIf(yes => own, "ForeignSignatureAccepted")
         ELSE IF alt[sig].how = "highS" THEN NameIf(own => yes, "drift:HighSTwinRefused") \cup NameIf(yes => own, "ForeignSignatureAccepted")
         ELSE NameIf(~yes, "AlteredSignatureAccepted")
    ELSE IF IsAlt(sig) /\ alt[sig].how # "highS" THEN NameIf(~yes, "AlteredSignatureAccepted")
    ELSE {}

CallChecks(e) ==
    LET x == e.args[1] IN
    General(e) \cup
    CASE e.op = "Verify"  -> VerifyChecks(e)
      [] e.op = "PubOf"   -> NameIf(e.ok /\ e.rcurve = e.args[2], "KeyOnCurveAsked")
      [] e.op = "Sign"    -> NameIf(e.ok, "SignFails")
      [] e.op = "DecPub"  ->
           NameIf(e.ok => e.rcurve = e.args[2], "KeyOnCurveAsked")
           \cup (IF MadeBy("EncPub", <<x, e.args[2]>>)      \* the key of THIS curve that was encoded to these bytes
                 THEN NameIf(e.ok /\ e.res = ArgsOf("EncPub", <<x, e.args[2]>>)[1], "PubRoundTrip")
                 ELSE {})
           \cup Mangled(e, "DecPub", x)
      [] e.op = "DecPriv" ->
           (IF MadeBy("EncPriv", x) THEN RT(e, ArgsOf("EncPriv", x)[1], TRUE, "PrivRoundTrip", "PrivRoundTrip", "PrivRoundTrip") ELSE {})
           \cup Mangled(e, "DecPriv", x)
      [] e.op = "WIFDec"  ->
           (IF MadeBy("WIFEnc", x)
            THEN LET a == ArgsOf("WIFEnc", x) IN RT(e, a[1], a[3] = e.args[2], "WifRefused", "WifWrongKey", "WifWrongVersionAccepted")
            ELSE {})
           \cup Mangled(e, "WIFDec", x)
      [] e.op = "NEP2Dec" ->
           (IF MadeBy("NEP2Enc", x)
            THEN LET a == ArgsOf("NEP2Enc", x) IN RT(e, a[1], a[2] = NormId(e.args[2]), "Nep2RightPassphraseRefused", "Nep2WrongKey",
                                                      "Nep2WrongPassphraseAccepted")
            ELSE {})
           \cup Mangled(e, "NEP2Dec", x)
      [] OTHER -> {}

AddrChecks(e) ==
    NameIf(e.script = e.refscript, "ScriptIsPushKeyCheckSig")
    \cup NameIf(e.sh = e.refhash, "ScriptHashIsHash160OfScript")
    \cup NameIf(e.addr = e.refaddr, "AddressIsBase58CheckOfScriptHash")
    \cup NameIf(e.bok /\ e.back = e.sh, "AddressRoundTrip")

SweepChecks(e) ==
    NameIf(e.panics = 0, "NoPanic") \cup NameIf(e.same = 0, "AlteredAnswersLikeOriginal")

Upd(f, k, v) == IF k \in DOMAIN f THEN f ELSE (k :> v) @@ f

Step ==
    /\ l <= Len(TLog)
    /\ l' = l + 1
    /\ LET e == TLog[l] IN
         CASE e.event = "init" -> fn' = Empty /\ inv' = Empty /\ alt' = Empty /\ norm' = Empty
           [] e.event = "sym" -> norm' = Upd(norm, e.id, e.norm) /\ UNCHANGED <<fn, inv, alt>>
           [] e.event = "alter" -> alt' = Upd(alt, e.res, [src |-> e.src, how |-> e.how, hard |-> e.hard]) /\ UNCHANGED <<fn, inv, norm>>
           [] e.event = "call" ->
                /\ Report(l, CallChecks(e), [op |-> e.op, how |-> LET x == IF e.op = "Verify" THEN e.args[3] ELSE e.args[1] IN IF IsAlt(x) THEN alt[x].how ELSE ""])
                /\ LET f1 == Upd(fn, <<e.op, NArgs(e)>>, Ans(e)) IN
                   \* the curve a public key value lives on is part of what is known about it
                   fn' = IF e.ok /\ e.op \in {"PubOf", "DecPub"} THEN Upd(f1, <<"CurveOf", <<e.res>>>>, [ok |-> TRUE, res |-> e.rcurve]) ELSE f1
                /\ inv' = IF e.ok /\ e.op \in Constructors THEN Upd(inv, <<e.op, Made(e)>>, NArgs(e)) ELSE inv
                /\ UNCHANGED <<alt, norm>>
           [] e.event = "addr" -> Report(l, AddrChecks(e), [op |-> "addr", how |-> ""]) /\ UNCHANGED <<fn, inv, alt, norm>>
           [] e.event = "sweep" -> Report(l, SweepChecks(e), [op |-> e.op, how |-> "every-single-change"]) /\ UNCHANGED <<fn, inv, alt, norm>>

TraceSpec == Init /\ [][Step]_vars
=============================================================================
