\* every well-sorted term with at most 5 operation symbols over 3 keys, 2 curves, 2 messages, 3 passphrases
SPECIFICATION Spec
CONSTANTS
  Keys = {"ka", "kb", "kc"}
  Curves = {"p256", "k256"}
  Msgs = {"m1", "m2"}
  Passes = {"pa", "pb", "pc"}
  NormOf <- MCNorm
  Dev = {}
  MaxOps = 5
INVARIANTS SignVerify VerifySound PubRoundTrip DecPubCurve PrivRoundTrip WifRoundTrip Nep2RoundTrip Malformed AddressLaw NormIsNorm Emit
CHECK_DEADLOCK FALSE
