\* every sequence of calls over 18 byte strings x 2 curves on a cache of capacity 2
SPECIFICATION Spec
CONSTANTS
  Xs = {1, 2, 3}
  Curves = {"p256", "k256"}
  OnCurve <- MCOn
  Calls <- AllCalls
  Cap = 2
  Dev = {}
INVARIANTS AnswerIsPure CacheSound
PROPERTY Refines
CHECK_DEADLOCK FALSE
