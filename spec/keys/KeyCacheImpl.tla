---------------------------- MODULE KeyCacheImpl ----------------------------
(***************************************************************************)
(* keys.NewPublicKeyFromBytes (pkg/crypto/keys/publickey.go) with its      *)
(* package-level LRU cache, as the code is written:                        *)
(*   - the cache KEY is the whole byte string (string(b)): prefix, X and,  *)
(*     for the uncompressed form, Y - not the curve;                       *)
(*   - keys of EVERY curve are added (the comment says "P256 keys", the    *)
(*     code adds whatever was decoded), an existing entry is overwritten;  *)
(*   - on a hit the cached key is returned only if its curve is the curve  *)
(*     asked for, otherwise the bytes are decoded again and the entry is   *)
(*     replaced;                                                           *)
(*   - Get moves the entry to the front, Add evicts the least recently     *)
(*     used entry beyond the capacity (1024 in the code, Cap here).        *)
(* `cache' is the LRU list, most recently used first; an entry is          *)
(* [k: cache key, v: point, id: number of the call that decoded it] (id is *)
(* used by the generator to predict WHICH earlier answer a hit hands back: *)
(* the real code returns the same pointer).                                *)
(* Named deviations (Dev) TLC must refute:                                 *)
(*   NoCurveCheck  a hit is answered without comparing the curve           *)
(*   R1Only        only P-256 keys are added (with NoCurveCheck: the       *)
(*                 "cache is P-256 only, the check is redundant" change)   *)
(*   KeyByX        the cache key is the X coordinate alone (compressed /   *)
(*                 uncompressed, odd / even Y are confused)                *)
(*   StaleEvict    an insertion that evicts reuses the evicted slot        *)
(*                 without storing the new value                           *)
(***************************************************************************)
EXTENDS KeyPoints

CONSTANTS Calls, Cap, Dev
VARIABLES cache, last
vars == <<cache, last>>

Abs == INSTANCE KeyCache WITH memo <- <<>>

KeyOf(b) == IF "KeyByX" \in Dev /\ b[1] \in {"comp", "unc"} THEN <<"x", b[2]>> ELSE b

Find(ch, k) == {i \in 1..Len(ch) : ch[i].k = k}
Without(ch, i) == SubSeq(ch, 1, i - 1) \o SubSeq(ch, i + 1, Len(ch))
ToFront(ch, i) == <<ch[i]>> \o Without(ch, i)

\* one call on cache ch; id names the object a fresh decode creates.  Result: answer, object handed back, whether a NEW entry
\* was inserted, cache afterwards
Run(b, c, ch, id, cap) ==
    LET k   == KeyOf(b)
        hit == Find(ch, k)
        i   == CHOOSE j \in hit : TRUE
        ch1 == IF hit # {} THEN ToFront(ch, i) ELSE ch          \* lru.Get refreshes the entry
        r   == Pure(b, c)
    IN
    IF hit # {} /\ (ch[i].v[1] = c \/ "NoCurveCheck" \in Dev)
    THEN [res |-> [ok |-> TRUE, pt |-> ch[i].v], obj |-> ch[i].id, ins |-> FALSE, cache |-> ch1]
    ELSE IF ~r.ok THEN [res |-> r, obj |-> 0, ins |-> FALSE, cache |-> ch1]
    ELSE IF "R1Only" \in Dev /\ c # "p256" THEN [res |-> r, obj |-> id, ins |-> FALSE, cache |-> ch1]
    ELSE LET e == [k |-> k, v |-> r.pt, id |-> id] IN
         IF hit # {} THEN [res |-> r, obj |-> id, ins |-> FALSE, cache |-> <<e>> \o Tail(ch1)]
         ELSE IF Len(ch1) < cap THEN [res |-> r, obj |-> id, ins |-> TRUE, cache |-> <<e>> \o ch1]
         ELSE LET old == ch1[Len(ch1)]
                  e2  == IF "StaleEvict" \in Dev THEN [k |-> k, v |-> old.v, id |-> old.id] ELSE e
              IN [res |-> r, obj |-> id, ins |-> TRUE, cache |-> <<e2>> \o SubSeq(ch1, 1, Len(ch1) - 1)]

Init == cache = <<>> /\ last = [call |-> NoCall, res |-> Refused]
Do(k) == LET r == Run(k.b, k.c, cache, 0, Cap) IN cache' = r.cache /\ last' = [call |-> k, res |-> r.res]
Next == \E k \in Calls : Do(k)
Spec == Init /\ [][Next]_vars

Refines == Abs!Spec
AnswerIsPure == Abs!AnswerIsPure
\* the inductive reason: every entry holds the pure answer for its own bytes on the entry's curve, no key twice, bounded
CacheSound == /\ Len(cache) <= Cap
              /\ \A i, j \in 1..Len(cache) : cache[i].k = cache[j].k => i = j
              /\ "KeyByX" \notin Dev => \A i \in 1..Len(cache) : Pure(cache[i].k, cache[i].v[1]) = [ok |-> TRUE, pt |-> cache[i].v]
=============================================================================
