------------------------------ MODULE KeyCache ------------------------------
(***************************************************************************)
(* C18, public keys: DECODING A PUBLIC KEY IS A PURE FUNCTION of the bytes *)
(* and the curve asked for.  "public keys ... decode back to exactly what  *)
(* was encoded" is a statement about every call, whatever was decoded      *)
(* before it.  The abstract decoder has no memory (memo is the empty tuple *)
(* for ever); KeyCacheImpl refines it with the LRU cache of publickey.go.  *)
(*                                                                         *)
(* Points and byte strings are abstract: an X coordinate is a symbol of    *)
(* Xs, OnCurve[c] the set of X that are abscissae of points of curve c     *)
(* (about one half of all X for each curve, independently: some X are on   *)
(* both curves, with DIFFERENT ordinates), and                             *)
(*   <<"comp", x, par>>      02/03 || X           (33 bytes)               *)
(*   <<"unc", x, c, par>>    04 || X || Y where (X, Y) is the point of     *)
(*                           curve c with this X and parity of Y (65)      *)
(*   <<"bad", how>>          wrong prefix, infinity, truncated, ...        *)
(* A point is <<curve, x, par>>.  The ordinate of an uncompressed string   *)
(* made on curve c is not an ordinate of the other curve.                  *)
(***************************************************************************)
EXTENDS KeyPoints

CONSTANT Calls
VARIABLES memo, last

Init == memo = <<>> /\ last = [call |-> NoCall, res |-> Refused]
Do(k) == memo' = memo /\ last' = [call |-> k, res |-> Pure(k.b, k.c)]
Next == \E k \in Calls : Do(k)
Spec == Init /\ [][Next]_<<memo, last>>

AnswerIsPure == last.call # NoCall => last.res = Pure(last.call.b, last.call.c)
NoMemo == memo = <<>>
=============================================================================
