\* non-vacuity: the oracle with the named deviation must be refuted by a law
SPECIFICATION Spec
CONSTANTS
  Keys = {"ka", "kb"}
  Curves = {"p256", "k256"}
  Msgs = {"m1", "m2"}
  Passes = {"pa", "pb", "pc"}
  NormOf <- MCNorm
  Dev = {"WIFIgnoresFlag"}
  MaxOps = 4
INVARIANTS SignVerify VerifySound PubRoundTrip DecPubCurve PrivRoundTrip WifRoundTrip Nep2RoundTrip Malformed AddressLaw NormIsNorm
CHECK_DEADLOCK FALSE
