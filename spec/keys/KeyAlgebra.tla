----------------------------- MODULE KeyAlgebra -----------------------------
(***************************************************************************)
(* C18, keys and signatures: THE ALGEBRA the property statement asserts,   *)
(* as an abstract data type.  The cryptographic primitives (ECDSA over     *)
(* P-256 / secp256k1, scrypt, AES, SHA-256, RIPEMD-160, Base58, Unicode    *)
(* NFC) are NOT specified: they are uninterpreted constructors of a free   *)
(* term algebra.  What is specified is what the statement says about them: *)
(*                                                                         *)
(*   sorts       Priv  Pub  Sig  Bool  PubBytes  PrivBytes  Wif  Nep2      *)
(*               Addr  SH (script hash)  Script (verification script)      *)
(*   parameters  curve, message, passphrase, form (compressed or not),     *)
(*               WIF compression flag, WIF version, way of mangling        *)
(*   operations  PubOf Sign Verify  EncPub/DecPub  EncPriv/DecPriv         *)
(*               WIFEnc/WIFDec  NEP2Enc/NEP2Dec  VScript ScriptHash        *)
(*               Address AddrToSH SHToAddr, the reference constructions    *)
(*               RefScript RefHash (made by the driver WITHOUT the code    *)
(*               under test) and the manglings Alter / Mangle* (made by    *)
(*               the driver on the bytes / strings)                        *)
(*                                                                         *)
(* A TERM is a tuple <<op, args...>>; term arguments are tuples, parameter *)
(* arguments are strings.  Out(t) is the SPECIFIED OUTCOME of evaluating   *)
(* t: a class                                                              *)
(*     "val"      must succeed, the value is the normal form n             *)
(*     "refused"  must be refused with an error (never a panic)            *)
(*     "maybe"    may be refused; an answer, if any, is the normal form n, *)
(*                which is different from every other normal form          *)
(*                (cross-curve decoding of a compressed key, decoding of   *)
(*                a string with one character changed: refused or ANOTHER  *)
(*                key, never silently the same key)                        *)
(*     "true" / "false" / "open"   (Verify; open = not fixed by the        *)
(*                statement: the high-S twin (r, n-s) of a signature)      *)
(* and a normal form.  EQUAL NORMAL FORMS MUST BE EQUAL BYTES, DIFFERENT   *)
(* NORMAL FORMS OF ONE SORT MUST BE DIFFERENT BYTES (the constructors are  *)
(* injective: a collision would be a break of the primitive).              *)
(*                                                                         *)
(* The LAWS below are the judge; Out is the constructive oracle TLC checks *)
(* against them on every enumerated term (KeyAlgebraEnum) before a case is *)
(* handed to the driver.  Dev names deviations of the oracle the laws must *)
(* refute (non-vacuity).                                                   *)
(***************************************************************************)
EXTENDS Naturals, Sequences, FiniteSets

CONSTANTS Keys,        \* private key symbols
          Curves,      \* {"p256", "k256"}
          Msgs,        \* message symbols
          Passes,      \* passphrase symbols
          NormOf,      \* Passes -> Passes: Unicode NFC, uninterpreted: NormOf[p] is the symbol of the NFC form of p (itself a
                       \* passphrase: NormOf[NormOf[p]] = NormOf[p]); the driver supplies byte strings per symbol and
                       \* establishes the relation with golang.org/x/text/unicode/norm, not through the code under test
          Dev          \* named deviations of the oracle

Forms == {"comp", "uncomp"}
Flags == {"c", "u"}                   \* WIF with / without the compression flag byte
Vers  == {"v80", "v81"}               \* WIF version bytes: the network's and another one
SigHows  == {"bitflip", "lastbit", "trunc", "ext", "highS"}
PubHows  == {"prefix", "infinity", "trunc", "ext", "offcurve", "bigx", "xflip"}
PrivHows == {"short", "long"}
WifHows  == {"badsum", "badflag", "short", "long", "notb58", "char"}
NepHows  == {"badsum", "hdr", "flag", "short", "long", "notb58", "salt", "body", "char"}
AddrHows == {"badsum", "short", "long", "prefix", "char"}

V(n)    == [c |-> "val", n |-> n]
Ref     == [c |-> "refused", n |-> <<"refused">>]
W(a, n) == [c |-> a.c, n |-> n]                       \* inherits "maybe" from the argument
M(n)    == [c |-> "maybe", n |-> n]
B(x)    == [c |-> x, n |-> <<x>>]

\* The point a compressed encoding stands for does not depend on the curve it was decoded on: a key obtained by decoding
\* the compressed bytes of pub(k, c) on the OTHER curve (xpub) re-encodes, compressed, to the very same bytes.
CompKey(p) == IF p[1] = "xpub" THEN <<"pub", p[2], p[3]>> ELSE IF p[1] = "junkpub" THEN p[2] ELSE p

RECURSIVE Out(_)
Out(t) ==
  LET op == t[1] IN
  CASE op = "key"       -> V(t)
    \* ------------------------------------------------------------------ keys and signatures
    [] op = "PubOf"     -> LET a == Out(t[2]) IN W(a, <<"pub", a.n, t[3]>>)
    [] op = "Sign"      -> LET a == Out(t[2]) IN W(a, <<"sig", a.n, t[3], t[4]>>)
    [] op = "Alter"     -> LET a == Out(t[2]) IN W(a, <<"badsig", a.n, t[3]>>)
    [] op = "Verify"    ->
         LET p == Out(t[2]).n  m == t[3]  s == Out(t[4]).n IN
         IF p[1] = "pub" /\ s[1] = "sig"
         THEN IF s[2] = p[2] /\ (s[3] = p[3] \/ "VerifyIgnoresCurve" \in Dev) /\ (s[4] = m \/ "VerifyIgnoresMsg" \in Dev)
              THEN B("true") ELSE B("false")
         ELSE IF p[1] = "pub" /\ s[1] = "badsig" /\ s[2] = <<"sig", p[2], p[3], m>>
              THEN (IF s[3] = "highS" THEN B("open")
                    ELSE IF s[3] = "lastbit" /\ "VerifyIgnoresLastBit" \in Dev THEN B("true") ELSE B("false"))
         ELSE B("false")
    \* ------------------------------------------------------------------ public key bytes
    [] op = "EncPub"    -> LET a == Out(t[2]) IN
                           IF t[3] = "comp" /\ a.n[1] = "junkpub" THEN W(a, a.n[2])     \* the very bytes it was decoded from
                           ELSE W(a, <<"pubbytes", IF t[3] = "comp" THEN CompKey(a.n) ELSE a.n, t[3]>>)
    [] op = "ManglePub" -> LET a == Out(t[2]) IN W(a, <<"bad", "pubbytes", a.n, t[3]>>)
    [] op = "DecPub"    ->
         LET a == Out(t[2])  b == a.n  c == t[3] IN
         IF b[1] = "pubbytes"
         THEN LET p == b[2] IN
              IF p[1] = "pub"
              THEN IF p[3] = c \/ "DecPubIgnoresCurve" \in Dev THEN W(a, p)
                   ELSE IF b[3] = "comp" THEN M(<<"xpub", p[2], p[3], c>>) ELSE Ref
              ELSE IF p[1] = "xpub"          \* only uncompressed bytes of a foreign point get here (CompKey)
              THEN IF p[4] = c THEN W(a, p) ELSE Ref
              ELSE Ref
         ELSE IF b[1] = "bad" /\ b[4] = "xflip" /\ b[3][3] = "comp" THEN M(<<"junkpub", b, c>>)
         ELSE Ref
    \* ------------------------------------------------------------------ private key bytes
    [] op = "EncPriv"    -> LET a == Out(t[2]) IN W(a, <<"privbytes", a.n>>)
    [] op = "ManglePriv" -> LET a == Out(t[2]) IN W(a, <<"bad", "privbytes", a.n, t[3]>>)
    [] op = "DecPriv"    -> LET a == Out(t[2]) IN IF a.n[1] = "privbytes" THEN W(a, a.n[2]) ELSE Ref
    \* ------------------------------------------------------------------ WIF
    [] op = "WIFEnc"     -> LET a == Out(t[2]) IN W(a, <<"wif", a.n, t[3], t[4]>>)
    [] op = "MangleWif"  -> LET a == Out(t[2]) IN W(a, <<"bad", "wif", a.n, t[3]>>)
    [] op = "WIFDec"     ->
         LET a == Out(t[2])  w == a.n IN
         IF w[1] = "wif" THEN (IF w[4] = t[3] \/ "WIFAnyVersion" \in Dev THEN W(a, w[2]) ELSE Ref)
         ELSE IF w[4] = "char" THEN M(<<"junkkey", w, t[3]>>)
         ELSE IF w[4] = "badflag" /\ "WIFIgnoresFlag" \in Dev /\ w[3][4] = t[3] THEN W(a, w[3][2])
         ELSE Ref
    \* ------------------------------------------------------------------ NEP-2
    [] op = "NEP2Enc"    -> LET a == Out(t[2]) IN
                            W(a, <<"nep2", a.n, IF "NEP2RawPass" \in Dev THEN t[3] ELSE NormOf[t[3]]>>)
    [] op = "MangleNep"  -> LET a == Out(t[2]) IN W(a, <<"bad", "nep2", a.n, t[3]>>)
    [] op = "NEP2Dec"    ->
         LET a == Out(t[2])  e == a.n IN
         IF e[1] = "nep2"
         THEN (IF e[3] = (IF "NEP2RawPass" \in Dev \/ "NEP2DecRaw" \in Dev THEN t[3] ELSE NormOf[t[3]]) THEN W(a, e[2])
               ELSE IF "NEP2WrongPassGivesKey" \in Dev THEN M(<<"junkkey", e, t[3]>>) ELSE Ref)
         ELSE IF e[4] = "char" THEN M(<<"junkkey", e, t[3]>>)
         ELSE Ref
    \* ------------------------------------------------------------------ scripts, script hashes, addresses
    [] op = "VScript"    -> LET a == Out(t[2]) IN
                            W(a, <<"script", IF "ScriptFromUncompressed" \in Dev THEN <<"uncomp", a.n>> ELSE CompKey(a.n)>>)
    [] op = "RefScript"  -> LET a == Out(t[2]) IN
                            IF a.n[1] = "pubbytes" /\ a.n[3] = "comp" THEN W(a, <<"script", a.n[2]>>)
                            ELSE W(a, <<"script", a.n>>)
    [] op = "ScriptHash" -> LET a == Out(t[2]) IN W(a, <<"sh", <<"script", CompKey(a.n)>>>>)
    [] op = "RefHash"    -> LET a == Out(t[2]) IN W(a, <<"sh", a.n>>)
    [] op = "Address"    -> LET a == Out(t[2]) IN W(a, <<"addr", <<"sh", <<"script", CompKey(a.n)>>>>>>)
    [] op = "SHToAddr"   -> LET a == Out(t[2]) IN W(a, <<"addr", a.n>>)
    [] op = "MangleAddr" -> LET a == Out(t[2]) IN W(a, <<"bad", "addr", a.n, t[3]>>)
    [] op = "AddrToSH"   -> LET a == Out(t[2]) IN
                            IF a.n[1] = "addr" THEN W(a, a.n[2])
                            ELSE IF a.n[4] = "char" THEN M(<<"junksh", a.n>>) ELSE Ref

Defined(t) == Out(t).c # "refused"      \* t may be used as an argument

(***************************************************************************)
(* The laws.  Each takes the (sub)terms it quantifies over; KeyAlgebraEnum *)
(* instantiates them with every enumerated term.                           *)
(***************************************************************************)
Same(t, u) == Out(t).c = "val" /\ Out(u).c = "val" /\ Out(t).n = Out(u).n

\* signing then verifying succeeds for every key and message (whatever route the private key took) ...
LawSignVerify(p, c, m) == Out(p).c = "val" => Out(<<"Verify", <<"PubOf", p, c>>, m, <<"Sign", p, c, m>>>>).c = "true"
\* ... and fails for any other key, curve, message or altered signature: a Verify that is true names its witness
LawVerifySound(t) ==
    t[1] = "Verify" /\ Out(t).c = "true" =>
        LET p == Out(t[2]).n  s == Out(t[4]).n IN
        /\ s[1] = "sig"                    \* a signature that was made, not an altered one
        /\ p = <<"pub", s[2], s[3]>>       \* by this key on this curve
        /\ s[4] = t[3]                     \* for this message
LawAlteredFails(t) ==
    t[1] = "Verify" /\ t[4][1] = "Alter" /\ t[4][3] # "highS" => Out(t).c = "false"
\* a key decoded for a curve is a point of that curve (whatever the bytes were made from)
CurveOf(p) == IF p[1] = "pub" THEN p[3] ELSE IF p[1] = "xpub" THEN p[4] ELSE p[3]
LawDecPubCurve(t) == t[1] = "DecPub" /\ Out(t).c # "refused" => CurveOf(Out(t).n) = t[3]
\* Dec(Enc(x)) = x for every pair
LawPubRoundTrip(P, f) ==
    Out(P).c = "val" /\ Out(P).n[1] = "pub" => Same(<<"DecPub", <<"EncPub", P, f>>, Out(P).n[3]>>, P)
LawPrivRoundTrip(p) == Out(p).c = "val" => Same(<<"DecPriv", <<"EncPriv", p>>>>, p)
LawWifRoundTrip(p, fl, v, v2) ==
    Out(p).c = "val" =>
        LET r == Out(<<"WIFDec", <<"WIFEnc", p, fl, v>>, v2>>) IN
        IF v = v2 THEN r = Out(p) ELSE r.c = "refused"
\* NEP-2 opens with exactly the passphrases of the same normalisation class, and never gives a wrong key
LawNep2(p, pw, pw2) ==
    Out(p).c = "val" =>
        LET r == Out(<<"NEP2Dec", <<"NEP2Enc", p, pw>>, pw2>>) IN
        IF NormOf[pw] = NormOf[pw2] THEN r = Out(p) ELSE r.c = "refused"
LawNep2Canonical(p, pw, pw2) ==
    Out(p).c = "val" /\ NormOf[pw] = NormOf[pw2] => Same(<<"NEP2Enc", p, pw>>, <<"NEP2Enc", p, pw2>>)
\* a decoder never gives the ORIGINAL value for a mangled input
LawMangledNeverSame(t) ==
    /\ t[1] = "DecPub" /\ t[2][1] = "ManglePub" /\ Out(t).c # "refused"
           => \A c \in Curves : Out(t).n # Out(<<"DecPub", t[2][2], c>>).n
    /\ t[1] = "WIFDec" /\ t[2][1] = "MangleWif" /\ Out(t).c # "refused"
           => \A v \in Vers : Out(t).n # Out(<<"WIFDec", t[2][2], v>>).n
    /\ t[1] = "NEP2Dec" /\ t[2][1] = "MangleNep" /\ Out(t).c # "refused"
           => \A pw \in Passes : Out(t).n # Out(<<"NEP2Dec", t[2][2], pw>>).n
    /\ t[1] = "DecPriv" /\ t[2][1] = "ManglePriv" => Out(t).c = "refused"
    /\ t[1] = "AddrToSH" /\ t[2][1] = "MangleAddr" /\ Out(t).c # "refused" => Out(t).n # Out(<<"AddrToSH", t[2][2]>>).n
\* hard malformations are refused
HardPub  == PubHows \ {"xflip"}
HardWif  == WifHows \ {"char"}
HardNep  == NepHows \ {"char"}
HardAddr == AddrHows \ {"char"}
LawMalformedRefused(t) ==
    /\ t[1] = "DecPub" /\ t[2][1] = "ManglePub" /\ t[2][3] \in HardPub => Out(t).c = "refused"
    /\ t[1] = "WIFDec" /\ t[2][1] = "MangleWif" /\ t[2][3] \in HardWif => Out(t).c = "refused"
    /\ t[1] = "NEP2Dec" /\ t[2][1] = "MangleNep" /\ t[2][3] \in HardNep => Out(t).c = "refused"
    /\ t[1] = "AddrToSH" /\ t[2][1] = "MangleAddr" /\ t[2][3] \in HardAddr => Out(t).c = "refused"
\* address and script hash agree with the verification script definition
LawAddress(P) ==
    Out(P).c # "refused" =>
        /\ Out(<<"VScript", P>>).n = Out(<<"RefScript", <<"EncPub", P, "comp">>>>).n
        /\ Out(<<"ScriptHash", P>>).n = Out(<<"RefHash", <<"VScript", P>>>>).n
        /\ Out(<<"Address", P>>).n = Out(<<"SHToAddr", <<"ScriptHash", P>>>>).n
        /\ Out(<<"AddrToSH", <<"Address", P>>>>).n = Out(<<"ScriptHash", P>>).n
=============================================================================
