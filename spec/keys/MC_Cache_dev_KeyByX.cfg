\* non-vacuity: deviation KeyByX must be refuted
SPECIFICATION Spec
CONSTANTS
  Xs = {1, 2, 3}
  Curves = {"p256", "k256"}
  OnCurve <- MCOn
  Calls <- AllCalls
  Cap = 2
  Dev = {"KeyByX"}
INVARIANTS AnswerIsPure CacheSound
PROPERTY Refines
CHECK_DEADLOCK FALSE
