\* tlc -simulate: call histories over 6 X coordinates (2 on both curves, 2 + 2 on one)
SPECIFICATION SimSpec
CONSTANTS
  Xs = {1, 2, 3, 4, 5, 6}
  Curves = {"p256", "k256"}
  OnCurve <- SimOn
  Calls <- AllCalls
  Cap = 2
  Dev = {}
  Depth = 14
INVARIANT Emit
CHECK_DEADLOCK FALSE
