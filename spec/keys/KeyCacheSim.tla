----------------------------- MODULE KeyCacheSim -----------------------------
(* Generator of call histories for keys.NewPublicKeyFromBytes.  The history variable holds the calls only; when a history
   is complete it is printed with the PURE answer of every call (KeyCache.tla) - the answer the real package must give at
   that position whatever came before - and with the prediction of the implementation-shaped model: which earlier call
   made the object handed back (the real code returns the same pointer on a hit), for the model capacity Cap (the driver
   decodes 1022 ballast keys again after every call: they are always the most recently used entries, so the real cache of
   1024 keeps exactly the Cap = 2 most recently used keys of the history and evicts exactly when the model does) and for a cache that
   never evicts (no padding).  Histories mix curves, encodings, parities, repeats and more distinct keys than Cap. *)
EXTENDS KeyCacheMC, TLC, Json

CONSTANT Depth
VARIABLES hist, px, fin

SimInit == Init /\ hist = <<>> /\ px = 0 /\ fin = FALSE
\* two small choices per call (an X, then one of the strings with this X or a malformed one, and a curve)
StringsOf(x) == {b \in Strings : b[1] # "bad" /\ b[2] = x}
BadStrings == {b \in Strings : b[1] = "bad"}
\* repeats are what a cache is about: half of the choices re-ask something already asked (possibly on the other curve)
Again == {h.b : h \in {hist[i] : i \in 1..Len(hist)}}
SimNext == /\ UNCHANGED vars
           /\ \/ Len(hist) < Depth /\ px = 0 /\ px' \in Xs \cup {100, 101, 102, 200} /\ UNCHANGED <<hist, fin>>
              \/ Len(hist) < Depth /\ px \in Xs /\ px' = 0 /\ fin' = FALSE
                 /\ \E b \in StringsOf(px), c \in Curves : hist' = Append(hist, [b |-> b, c |-> c])
              \/ Len(hist) < Depth /\ px = 200 /\ px' = 0 /\ fin' = FALSE
                 /\ \E b \in BadStrings, c \in Curves : hist' = Append(hist, [b |-> b, c |-> c])
              \/ Len(hist) < Depth /\ px \in {100, 101, 102} /\ px' = 0 /\ fin' = FALSE
                 /\ IF Again = {} THEN hist' = hist ELSE \E b \in Again, c \in Curves : hist' = Append(hist, [b |-> b, c |-> c])
              \/ Len(hist) = Depth /\ ~fin /\ fin' = TRUE /\ UNCHANGED <<hist, px>>
SimSpec == SimInit /\ [][SimNext]_<<vars, hist, px, fin>>

RECURSIVE Answers(_, _, _, _)
Answers(h, i, ch, chInf) ==
    IF i > Len(h) THEN <<>>
    ELSE LET k == h[i]
             r == Run(k.b, k.c, ch, i, Cap)
             rI == Run(k.b, k.c, chInf, i, 1000000)
             e == Pure(k.b, k.c)
         IN << [b |-> k.b, c |-> k.c, ok |-> e.ok, pt |-> e.pt, obj |-> r.obj, objinf |-> rI.obj, ins |-> r.ins,
                impl |-> r.res = e /\ rI.res = e] >> \o Answers(h, i + 1, r.cache, rI.cache)

Emit == ~fin \/ PrintT(<<"@@HIST@@", ToJson(Answers(hist, 1, <<>>, <<>>))>>)
=============================================================================
