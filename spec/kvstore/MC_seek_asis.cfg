SPECIFICATION EnumSpec
CONSTANTS
  BackwardBound = "PrefixInclusive"
  Keys <- K8
  PrefixSet <- P4
  StartSet <- ST7
  DepthSet <- D012
  CutSet <- BB
  Backends <- MemLevel
  MaxLayers = 2
  MaxEntries = 3
  MemBackBound = "Exact"
  CutStale = TRUE
  BugTail = FALSE
  Judge = "outside"
INVARIANTS SeekExact GetExact
CHECK_DEADLOCK FALSE
