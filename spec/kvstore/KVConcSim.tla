----------------------------- MODULE KVConcSim -----------------------------
(* Behaviour generator for the concurrent part: random interleavings of KVPersistConc, with explicit point reads,
   printed when the depth bound is reached (tlc -simulate). *)
EXTENDS MCKVConc, Randomization

CONSTANT Depth

GetStep(k) == /\ hist' = Append(hist, [a |-> "get", r |-> 0, batch |-> << <<k, ChainGet(k)>> >>, res |-> <<>>])
              /\ UNCHANGED mview
SimNext == \/ \E b \in RandomSubset(2, Batches) : \E dels \in RandomSubset(1, SUBSET b) : Write(b, dels)
           \/ P1 \/ P2 \/ P3 \/ PSync \/ PFail
           \/ \E r \in Readers : R1(r) \/ R2(r)
           \/ \E k \in RandomSubset(1, CKeys) : GetStep(k)
SimSpec == Init /\ [][SimNext]_vars

Emit == Len(hist) # Depth \/ PrintT(<<"@@HIST@@", ToJson(hist)>>)
=============================================================================
