SPECIFICATION EnumSpec
CONSTANTS
  BackwardBound = "PrefixInclusive"
  Keys <- K6
  PrefixSet <- P2
  StartSet <- ST4
  DepthSet <- D012
  CutSet <- BB
  Backends <- MemLevel
  MaxLayers = 2
  MaxEntries = 3
  MemBackBound = "Exact"
  CutStale = TRUE
  BugTail = FALSE
  Judge = "outside"
INVARIANTS SeekExact DivergentCases
CHECK_DEADLOCK FALSE
