SPECIFICATION Spec
CONSTANTS
  BackwardBound = "PrefixInclusive"
  CKeys <- CK2
  Readers <- R1set
  MaxWrites = 3
  MaxPersists = 2
  AllowSync = TRUE
  AllowFail = TRUE
  AllowDelete = TRUE
  BugNoTemp = FALSE
VIEW mview
INVARIANTS GetExactConc ViewStable NeverMissing NoStale TornCases
CHECK_DEADLOCK FALSE
