------------------------------- MODULE KVSim -------------------------------
(* Behaviour generator for the sequential part: the stack actions of KVSeekImpl (Put / Delete / NewLayer /
   Persist of a layer / Persist-and-close of the top layer) with a history variable, printed as JSON when the depth
   bound is reached (tlc -simulate).  Writes are drawn from a random subset of the key universe per step so that
   layer operations are not drowned by them (successors are chosen uniformly). *)
EXTENDS MCKVSeek, Randomization

CONSTANT Depth
VARIABLE hist

SimInit == Init /\ hist = << [op |-> "init", key |-> <<>>, at |-> 0] >>
SimNext ==
    \/ \E k \in RandomSubset(3, Ids) :
          \/ Put(k) /\ hist' = Append(hist, [op |-> "put", key |-> KeySeq[k], at |-> Top])
          \/ Del(k) /\ hist' = Append(hist, [op |-> "del", key |-> KeySeq[k], at |-> Top])
    \/ Push /\ hist' = Append(hist, [op |-> "push", key |-> <<>>, at |-> Top + 1])
    \/ \E i \in 1..Top : Flush(i) /\ hist' = Append(hist, [op |-> "flush", key |-> <<>>, at |-> i])
    \/ Pop /\ hist' = Append(hist, [op |-> "pop", key |-> <<>>, at |-> Top])
SimSpec == SimInit /\ [][SimNext]_<<vars, hist>>

Emit == Len(hist) # Depth \/ PrintT(<<"@@HIST@@", ToJson(hist)>>)
=============================================================================
