SPECIFICATION SimSpec
CONSTANTS
  BackwardBound = "PrefixInclusive"
  Keys <- K13
  PrefixSet <- P2
  StartSet <- ST4
  DepthSet <- D012
  CutSet <- BB
  Backends <- MemBackend
  MaxLayers = 4
  MaxEntries = 12
  MemBackBound = "Exact"
  CutStale = TRUE
  BugTail = FALSE
  Judge = "outside"
  Depth = 14
INVARIANT Emit
CHECK_DEADLOCK FALSE
