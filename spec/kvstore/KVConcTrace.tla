---------------------------- MODULE KVConcTrace ----------------------------
(* Validates traces of the gated concurrent runs (writer / Persist in three steps / readers in two steps on one real
   shared MemCachedStore over a gated backend) against the ABSTRACT concurrent-reader predicates of KVStore.

   events  cinit  {keys}                   new schedule: empty store; keys = the key universe of the schedule
           cwrite {items}                  one committed atomic batch (val [-1] = deletion)
           cp     {step}                   a persist step (p1 | p2 | p3 | psync | pfail) - changes no answer, nothing to update
           cr1    {r}                      reader r invoked its range scan (snapshot of the top layer taken)
           cr2    {r, res}                 reader r's scan returned res = [[key, value], ...] as delivered
           cget   {key, res}               a point read executed atomically at this moment                     *)
EXTENDS TraceIO, KVStore

VARIABLES l, views, bkeys, from, keys
vars == <<l, views, bkeys, from, keys>>

PairsToMap(ps) == LET S == ToSet(ps) IN [k \in {p[1] : p \in S} |-> (CHOOSE p \in S : p[1] = k)[2]]
StrictlyAscending(res) == \A i \in 1..(Len(res) - 1) : BLess(res[i][1], res[i + 1][1])

Init == l = 1 /\ views = <<EmptyMap>> /\ bkeys = <<>> /\ from = EmptyMap /\ keys = {}

Step ==
    /\ l <= Len(TLog)
    /\ l' = l + 1
    /\ LET e == TLog[l] IN
       CASE e.event = "cinit"  -> views' = <<EmptyMap>> /\ bkeys' = <<>> /\ from' = EmptyMap /\ keys' = ToSet(e.keys)
         [] e.event = "cwrite" ->
              LET m == PairsToMap(e.items) IN
              /\ views' = Append(views, Live(Overlay(views[Len(views)], m)))
              /\ bkeys' = Append(bkeys, DOMAIN m)
              /\ UNCHANGED <<from, keys>>
         [] e.event = "cp"     -> UNCHANGED <<views, bkeys, from, keys>>
         [] e.event = "cr1"    -> from' = Overlay(from, (e.r :> Len(views))) /\ UNCHANGED <<views, bkeys, keys>>
         [] e.event = "cr2"    ->
              /\ UNCHANGED <<views, bkeys, from, keys>>
              /\ LET res == PairsToMap(e.res)
                     f   == from[e.r]
                     t   == Len(views)
                 IN  Report(l, NameIf(StrictlyAscending(e.res), "OrderedNoDup")
                               \cup NameIf(NeverMissingP(views, f, t, res, keys), "NeverMissing")
                               \cup NameIf(NoStaleP(views, f, t, res, keys \cup DOMAIN res), "NoStale")
                               \cup NameIf(NoHalfBatchP(views, bkeys, f, t, res, keys), "NoHalfBatch")
                               \cup NameIf(SnapshotP(views, f, t, res, keys), "info:Snapshot"),
                            [from |-> f, to |-> t, views |-> [i \in f..t |-> MapPairs(views[i])]])
         [] e.event = "cget"   ->
              /\ UNCHANGED <<views, bkeys, from, keys>>
              /\ LET exp == GetRef(views[Len(views)], e.key)
                 IN  Report(l, NameIf(e.res = exp, "GetMatches"), [exp |-> exp])

TraceSpec == Init /\ [][Step]_vars
=============================================================================
