SPECIFICATION SimSpec
CONSTANTS
  BackwardBound = "PrefixInclusive"
  CKeys <- CK3
  Readers <- R2set
  MaxWrites = 6
  MaxPersists = 3
  AllowSync = TRUE
  AllowFail = TRUE
  AllowDelete = TRUE
  BugNoTemp = FALSE
  Depth = 16
INVARIANT Emit
CHECK_DEADLOCK FALSE
