SPECIFICATION TraceSpec
CONSTANTS
  BackwardBound = "PrefixInclusive"
POSTCONDITION TraceAccepted
CHECK_DEADLOCK FALSE
