------------------------------ MODULE KVTrace ------------------------------
(* Validates traces recorded from the real stores (MemCachedStore stacks over MemoryStore / BoltDB / LevelDB,
   raw or through dao.Simple / System.Storage.Find) against the ABSTRACT specification KVStore: the trace carries
   the writes and layer operations (which update the one map) and every answer of Get / Seek / SeekAsync / SeekGC,
   which is recomputed here.  Layer 0 is the backend, layers 1..n the cache layers, bottom first.

   events  init                              new history: empty backend, no cache layer
           push                              a new empty cache layer on top
           drop                              the top cache layer is discarded unflushed
           put/del  {at, key[, val]}         write into layer `at`  (at = 0: straight into the backend)
           batch    {at, items}              PutChangeSet into layer `at`; val [-1] = deletion
           persist  {at, pop}                layer `at` flushed into what is below; pop: a private top layer, gone afterwards
           get      {at, key, res}           res = value or [-2]
           seek     {at, prefix, start, back, depth, cutlen, limit, res}   res = [[key, value], ...] as delivered
           seekgc   {prefix, start, back, visited, removed}           on the backend: pairs visited, keys deleted  *)
EXTENDS TraceIO, KVStore

VARIABLES l, disk, layers
vars == <<l, disk, layers>>

PairsToMap(ps) == LET S == ToSet(ps) IN [k \in {p[1] : p \in S} |-> (CHOOSE p \in S : p[1] = k)[2]]

Init == l = 1 /\ disk = EmptyMap /\ layers = <<>>

WriteTo(at, m) ==       \* effect of a write of the map m (values or TOMB) into layer `at`
    IF at = 0 THEN disk' = DiskApply(disk, m) /\ UNCHANGED layers
    ELSE layers' = BatchIn(layers, at, m) /\ UNCHANGED disk

Step ==
    /\ l <= Len(TLog)
    /\ l' = l + 1
    /\ LET e == TLog[l] IN
       CASE e.event = "init"    -> disk' = EmptyMap /\ layers' = <<>>
         [] e.event = "push"    -> layers' = Append(layers, EmptyMap) /\ UNCHANGED disk
         [] e.event = "drop"    -> layers' = SubSeq(layers, 1, Len(layers) - 1) /\ UNCHANGED disk
         [] e.event = "put"     -> WriteTo(e.at, (e.key :> e.val))
         [] e.event = "del"     -> WriteTo(e.at, (e.key :> TOMB))
         [] e.event = "batch"   -> WriteTo(e.at, PairsToMap(e.items))
         [] e.event = "persist" ->
              /\ disk' = FlushDisk(disk, layers, e.at)
              /\ layers' = LET f == FlushLayers(layers, e.at) IN IF e.pop THEN SubSeq(f, 1, Len(f) - 1) ELSE f
         [] e.event = "get"     ->
              /\ UNCHANGED <<disk, layers>>
              /\ LET exp == GetRef(ViewAt(disk, layers, e.at, 0), e.key)
                 IN  Report(l, NameIf(e.res = exp, "GetMatches"), [exp |-> exp])
         [] e.event = "seek"    ->
              /\ UNCHANGED <<disk, layers>>
              /\ LET full == SeekRef(ViewAt(disk, layers, e.at, e.depth),
                                     [prefix |-> e.prefix, start |-> e.start, back |-> e.back], e.cutlen)
                     \* limit > 0: the callback stopped the scan after that many items
                     exp  == IF e.limit > 0 /\ Len(full) > e.limit THEN SubSeq(full, 1, e.limit) ELSE full
                 IN  Report(l, NameIf(e.res = exp, "SeekMatches"), [exp |-> exp])
         [] e.event = "seekgc"  ->
              /\ UNCHANGED layers
              /\ disk' = [k \in DOMAIN disk \ ToSet(e.removed) |-> disk[k]]
              /\ LET exp == SeekRef(disk, [prefix |-> e.prefix, start |-> e.start, back |-> e.back], 0)
                 IN  Report(l, NameIf(e.visited = exp, "SeekGCVisits"), [exp |-> exp])

TraceSpec == Init /\ [][Step]_vars
=============================================================================
