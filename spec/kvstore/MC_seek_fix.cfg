SPECIFICATION EnumSpec
CONSTANTS
  BackwardBound = "PrefixInclusive"
  Keys <- K6
  PrefixSet <- P2
  StartSet <- ST4
  DepthSet <- D012
  CutSet <- BB
  Backends <- LevelBackend
  MaxLayers = 2
  MaxEntries = 3
  MemBackBound = "PrefixInclusive"
  CutStale = FALSE
  BugTail = FALSE
  Judge = "all"
INVARIANTS SeekExact GetExact
CHECK_DEADLOCK FALSE
