SPECIFICATION Spec
CONSTANTS
  BackwardBound = "PrefixInclusive"
  Keys <- K8
  PrefixSet <- P4
  StartSet <- ST7
  DepthSet <- D012
  CutSet <- BB
  Backends <- AllBackends
  MaxLayers = 2
  MaxEntries = 3
  MemBackBound = "PrefixInclusive"
  CutStale = FALSE
  BugTail = FALSE
  Judge = "all"
CONSTRAINT Bound
INVARIANTS SeekExact GetExact
PROPERTIES FlushKeepsView
CHECK_DEADLOCK FALSE
