SPECIFICATION EnumSpec
CONSTANTS
  BackwardBound = "PrefixInclusive"
  Keys <- K6
  PrefixSet <- P2
  StartSet <- ST4
  DepthSet <- D012
  CutSet <- BB
  Backends <- LevelBackend
  MaxLayers = 2
  MaxEntries = 2
  MemBackBound = "PrefixInclusive"
  CutStale = FALSE
  BugTail = TRUE
  Judge = "all"
INVARIANTS SeekExact
CHECK_DEADLOCK FALSE
