------------------------------ MODULE MCKVSeek ------------------------------
(* Constant universes for the exhaustive runs of KVSeekImpl.  Byte alphabet {0x00, 0x70, 0xff}: 0x70 is the
   map-selector byte (STStorage) AND a member of the alphabet, so that keys repeat their own prefix; keys are
   prefixes / extensions of one another. *)
EXTENDS KVSeekImpl

S == 112        \* 0x70 STStorage
A3 == {0, 112, 255}
Suffix1 == {<<a>> : a \in A3}
Suffix2 == {<<a, b>> : a \in A3, b \in A3}

\* 13 keys: selector ++ suffix of length <= 2
K13 == {<<S>>} \cup {<<S>> \o s : s \in Suffix1 \cup Suffix2}
\* 8 keys chosen to keep every relation (prefix/extension, 0x00 / 0xff neighbours, repeated prefix)
K8  == {<<S>>, <<S, 0>>, <<S, 112>>, <<S, 255>>, <<S, 112, 0>>, <<S, 112, 255>>, <<S, 255, 255>>, <<S, 0, 255>>}
K6  == {<<S>>, <<S, 112>>, <<S, 255>>, <<S, 112, 0>>, <<S, 112, 255>>, <<S, 255, 255>>}

P4  == {<<S>>, <<S, 0>>, <<S, 112>>, <<S, 255>>}
P2  == {<<S>>, <<S, 112>>}
ST13 == {<<>>} \cup Suffix1 \cup Suffix2
ST7  == {<<>>, <<0>>, <<112>>, <<255>>, <<112, 0>>, <<112, 255>>, <<255, 255>>}
ST4  == {<<>>, <<112>>, <<255>>, <<112, 0>>}
D012 == {0, 1, 2}
D0123 == {0, 1, 2, 3}
\* universe of the table check: alphabet {0x00, 0x01, 0x70, 0xfe, 0xff}, foreign selector bytes, all-0xff keys
A5 == {0, 1, 112, 254, 255}
Suf5 == {<<>>} \cup {<<a>> : a \in A5} \cup {<<a, b>> : a \in A5, b \in A5}
KT == {<<S>> \o s : s \in Suf5} \cup {<<111, 255>>, <<113>>, <<113, 0>>, <<255>>, <<255, 255>>, <<255, 0>>, <<255, 255, 255>>}
BB == BOOLEAN
FF == {FALSE}
AllBackends == {"mem", "bolt", "leveldb"}
DiskBackends == {"bolt", "leveldb"}
MemBackend == {"mem"}
LevelBackend == {"leveldb"}
MemLevel == {"mem", "leveldb"}
=============================================================================
