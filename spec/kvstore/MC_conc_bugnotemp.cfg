SPECIFICATION Spec
CONSTANTS
  BackwardBound = "PrefixInclusive"
  CKeys <- CK2
  Readers <- R1set
  MaxWrites = 2
  MaxPersists = 2
  AllowSync = TRUE
  AllowFail = TRUE
  AllowDelete = TRUE
  BugNoTemp = TRUE
VIEW mview
INVARIANTS GetExactConc ViewStable NeverMissing NoStale
CHECK_DEADLOCK FALSE
