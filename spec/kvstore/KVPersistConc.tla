--------------------------- MODULE KVPersistConc ---------------------------
(* C09 - IMPLEMENTATION-SHAPED model of one shared MemCachedStore over a backend with a writer, a persister and
   readers running concurrently (memcached_store.go):

     writer     PutChangeSet / Put / Delete : one step under the write lock                        (109-153)
     persister  Persist = three steps                                                              (378-438)
                  P1  lock; tempstore := (mem, ps); ps := tempstore; fresh maps; unlock
                  P2  tempstore.ps.PutChangeSet(tempstore maps)       (atomic on the backend, no lock of s held)
                  P3  lock; ps := tempstore.ps; unlock
                PersistSync = P1;P2;P3 without releasing the lock (one step)
                PFail = the backend's PutChangeSet fails: the swapped-out maps are merged back (one step after P1)
     reader     Get  = one step (read lock held across the whole fall-through)                     (95-106)
                Seek = two steps                                                                   (156-159, 194-224)
                  R1  rlock; snapshot of the matching items of the top maps; capture ps; runlock
                  R2  ps.Seek(...) merged with the snapshot.  If the captured ps is a tempstore, its own maps are
                      immutable and its lower scan is the backend's scan; the backend scan is a snapshot of the
                      backend at that moment (Bolt read transaction / LevelDB iterator / MemoryStore RLock).

   Judged against the abstract level (KVStore: NeverMissingP, NoStaleP, NoHalfBatchP; point reads exact; the one
   map is unchanged by every persist step).  Values are version numbers: the w-th write stores <<w>>.

   BugNoTemp = TRUE is a made-up deviation (P1 swaps the maps but leaves ps pointing at the backend) used as
   non-vacuity self-test.                                                                               *)
EXTENDS KVStore, Json

CONSTANTS CKeys,        \* set of keys (byte strings with a common prefix: every Seek scans them all)
          Readers, MaxWrites, MaxPersists, AllowSync, AllowFail, AllowDelete, BugNoTemp

VARIABLES mem,          \* top maps of s
          tmpOn, tmp,   \* tempstore installed as s.ps? / its (immutable) maps
          disk,         \* backend
          ppc,          \* persister: "idle" | "swapped" | "written"
          rd,           \* readers
          nw, np,       \* writes / persists so far
          views, bkeys, \* history of the one map (abstract level), key sets of the batches
          hist          \* schedule so far (for replay on the real code); not part of the VIEW
vars  == <<mem, tmpOn, tmp, disk, ppc, rd, nw, np, views, bkeys, hist>>
mview == <<mem, tmpOn, tmp, disk, ppc, rd, nw, np, views, bkeys>>

Idle == [pc |-> "idle", snap |-> EmptyMap, viaTmp |-> FALSE, tmap |-> EmptyMap, from |-> 0, to |-> 0, res |-> EmptyMap]

Init == /\ mem = EmptyMap /\ tmpOn = FALSE /\ tmp = EmptyMap /\ disk = EmptyMap /\ ppc = "idle"
        /\ rd = [r \in Readers |-> Idle] /\ nw = 0 /\ np = 0
        /\ views = <<EmptyMap>> /\ bkeys = <<>> /\ hist = <<>>

Chain == IF tmpOn THEN <<tmp, mem>> ELSE <<mem>>
CurView == Live(FoldLayers(Chain, disk))
MapSeq(m) == MapPairs(m)

-----------------------------------------------------------------------------
Batches == {b \in SUBSET CKeys : b # {} /\ Cardinality(b) <= 2}
Write(b, dels) ==       \* atomic batch: keys of b \ dels are put with the new version, keys of dels deleted
    /\ nw < MaxWrites
    /\ LET m == [k \in b |-> IF k \in dels THEN TOMB ELSE <<nw + 1>>] IN
       /\ mem' = Overlay(mem, m)
       /\ views' = Append(views, Live(Overlay(views[Len(views)], m)))
       /\ bkeys' = Append(bkeys, b)
       /\ hist' = Append(hist, [a |-> "write", r |-> 0, batch |-> MapSeq(m), res |-> <<>>])
    /\ nw' = nw + 1
    /\ UNCHANGED <<tmpOn, tmp, disk, ppc, rd, np>>

P1 == /\ ppc = "idle" /\ np < MaxPersists /\ mem # EmptyMap
      /\ tmp' = mem /\ tmpOn' = ~BugNoTemp /\ mem' = EmptyMap /\ ppc' = "swapped" /\ np' = np + 1
      /\ hist' = Append(hist, [a |-> "p1", r |-> 0, batch |-> <<>>, res |-> <<>>])
      /\ UNCHANGED <<disk, rd, nw, views, bkeys>>
P2 == /\ ppc = "swapped"
      /\ disk' = DiskApply(disk, tmp) /\ ppc' = "written"
      /\ hist' = Append(hist, [a |-> "p2", r |-> 0, batch |-> <<>>, res |-> <<>>])
      /\ UNCHANGED <<mem, tmpOn, tmp, rd, nw, np, views, bkeys>>
P3 == /\ ppc = "written"
      /\ tmpOn' = FALSE /\ tmp' = EmptyMap /\ ppc' = "idle"
      /\ hist' = Append(hist, [a |-> "p3", r |-> 0, batch |-> <<>>, res |-> <<>>])
      /\ UNCHANGED <<mem, disk, rd, nw, np, views, bkeys>>
(* the backend refuses the batch (PutChangeSet returns an error before writing anything): persist re-takes the lock,
   copies the writes made in the meantime over the swapped-out maps and reinstalls those (memcached_store.go:427-435) *)
PFail == /\ AllowFail /\ ppc = "swapped"
         /\ mem' = Overlay(tmp, mem) /\ tmpOn' = FALSE /\ tmp' = EmptyMap /\ ppc' = "idle"
         /\ hist' = Append(hist, [a |-> "pfail", r |-> 0, batch |-> <<>>, res |-> <<>>])
         /\ UNCHANGED <<disk, rd, nw, np, views, bkeys>>
PSync == /\ AllowSync /\ ppc = "idle" /\ np < MaxPersists /\ mem # EmptyMap
         /\ disk' = DiskApply(disk, mem) /\ mem' = EmptyMap /\ np' = np + 1
         /\ hist' = Append(hist, [a |-> "psync", r |-> 0, batch |-> <<>>, res |-> <<>>])
         /\ UNCHANGED <<tmpOn, tmp, ppc, rd, nw, views, bkeys>>

R1(r) == /\ rd[r].pc = "idle"
         /\ rd' = [rd EXCEPT ![r] = [pc |-> "snap", snap |-> mem, viaTmp |-> tmpOn, tmap |-> tmp,
                                      from |-> Len(views), to |-> 0, res |-> EmptyMap]]
         /\ hist' = Append(hist, [a |-> "r1", r |-> r, batch |-> <<>>, res |-> <<>>])
         /\ UNCHANGED <<mem, tmpOn, tmp, disk, ppc, nw, np, views, bkeys>>
R2(r) == /\ rd[r].pc = "snap"
         /\ LET lower == IF rd[r].viaTmp THEN Overlay(disk, rd[r].tmap) ELSE disk
                res   == Live(Overlay(lower, rd[r].snap))
            IN  /\ rd' = [rd EXCEPT ![r].pc = "done", ![r].to = Len(views), ![r].res = res]
                /\ hist' = Append(hist, [a |-> "r2", r |-> r, batch |-> <<>>, res |-> MapSeq(res)])
         /\ UNCHANGED <<mem, tmpOn, tmp, disk, ppc, nw, np, views, bkeys>>

Next == \/ \E b \in Batches : \E dels \in (IF AllowDelete THEN SUBSET b ELSE {{}}) : Write(b, dels)
        \/ P1 \/ P2 \/ P3 \/ PSync \/ PFail
        \/ \E r \in Readers : R1(r) \/ R2(r)
Spec == Init /\ [][Next]_vars

-----------------------------------------------------------------------------
(* Impl => Abstract *)
ChainGet(k) == IF k \in DOMAIN mem THEN (IF mem[k] = TOMB THEN NotFound ELSE mem[k])
               ELSE IF tmpOn /\ k \in DOMAIN tmp THEN (IF tmp[k] = TOMB THEN NotFound ELSE tmp[k])
               ELSE IF k \in DOMAIN disk THEN disk[k] ELSE NotFound
(* a point read at any moment - in particular between P1 and P2 and between P2 and P3 - answers the one map *)
GetExactConc == \A k \in CKeys : ChainGet(k) = GetRef(views[Len(views)], k)
(* no persist step changes the one map *)
ViewStable == CurView = views[Len(views)]

Done(r) == rd[r].pc = "done"
NeverMissing == \A r \in Readers : Done(r) => NeverMissingP(views, rd[r].from, rd[r].to, rd[r].res, CKeys)
NoStale      == \A r \in Readers : Done(r) => NoStaleP(views, rd[r].from, rd[r].to, rd[r].res, CKeys)
NoHalfBatch  == \A r \in Readers : Done(r) => NoHalfBatchP(views, bkeys, rd[r].from, rd[r].to, rd[r].res, CKeys)
Snapshot     == \A r \in Readers : Done(r) => SnapshotP(views, rd[r].from, rd[r].to, rd[r].res, CKeys)

(* Counterexample extraction (always true): schedules after which a reader's answer shows half of a batch are
   printed; the runner replays them through the gates on the real MemCachedStore, where they are judged. *)
TornCases == \A r \in Readers :
    (Done(r) /\ hist # <<>> /\ hist[Len(hist)].a = "r2" /\ hist[Len(hist)].r = r
       /\ ~NoHalfBatchP(views, bkeys, rd[r].from, rd[r].to, rd[r].res, CKeys))
    => PrintT(<<"@@CASE@@", ToJson(hist)>>)
=============================================================================
